//! C18 — one-hot encoding: correspondence cases for the Coq model (SC.C18.Corr) and the
//! failing-input search (layout oracle written directly from the property text).
use serde_json::{json, Value};
use smartcore::linalg::naive::dense_matrix::DenseMatrix;
use smartcore::linalg::BaseMatrix;
use smartcore::preprocessing::categorical::{verif_find_new_idxs, OneHotEncoder, OneHotEncoderParams};
use smartcore::preprocessing::series_encoder::CategoryMapper;
use vharness::*;

const MARGIN64: f64 = 0.001;

fn margin32() -> f64 {
    0.001f32 as f64
}

fn to_rows(m: &DenseMatrix<f64>) -> Vec<Vec<f64>> {
    let (n, p) = m.shape();
    (0..n).map(|r| (0..p).map(|c| m.get(r, c)).collect()).collect()
}
fn to_rows32(m: &DenseMatrix<f32>) -> Vec<Vec<f64>> {
    let (n, p) = m.shape();
    (0..n).map(|r| (0..p).map(|c| m.get(r, c) as f64).collect()).collect()
}

/// fit on `x`, transform `x2`; outer None = fit error, inner None = transform error
fn run_impl(x: &[Vec<f64>], x2: &[Vec<f64>], idxs: &[usize], f32m: bool) -> Result<Option<Option<Vec<Vec<f64>>>>, String> {
    guard(|| {
        if f32m {
            let m = dense32(x);
            let m2 = dense32(x2);
            match OneHotEncoder::fit(&m, OneHotEncoderParams::from_cat_idx(idxs)) {
                Err(_) => None,
                Ok(enc) => Some(enc.transform(&m2).ok().map(|r| to_rows32(&r))),
            }
        } else {
            let m = dense(x);
            let m2 = dense(x2);
            match OneHotEncoder::fit(&m, OneHotEncoderParams::from_cat_idx(idxs)) {
                Err(_) => None,
                Ok(enc) => Some(enc.transform(&m2).ok().map(|r| to_rows(&r))),
            }
        }
    })
}

/// The property's definition, written independently of the implementation and of the model.
fn spec_layout(x: &[Vec<f64>], idxs: &[usize]) -> Vec<Vec<f64>> {
    let n = x.len();
    let p = x[0].len();
    let mut out: Vec<Vec<f64>> = vec![vec![]; n];
    for j in 0..p {
        if idxs.contains(&j) {
            let mut cats: Vec<u16> = vec![];
            for r in 0..n {
                let c = x[r][j] as u16;
                if !cats.contains(&c) {
                    cats.push(c);
                }
            }
            for r in 0..n {
                let c = x[r][j] as u16;
                for t in 0..cats.len() {
                    out[r].push(if cats[t] == c { 1.0 } else { 0.0 });
                }
            }
        } else {
            for r in 0..n {
                out[r].push(x[r][j]);
            }
        }
    }
    out
}

fn gen_matrix(rng: &mut Rng, n: usize, p: usize, idxs: &[usize], maxcat: usize, arbitrary_codes: bool) -> Vec<Vec<f64>> {
    // per categorical column: a palette of codes
    let mut palettes: Vec<Vec<f64>> = vec![vec![]; p];
    for &j in idxs {
        let k = rng.usize_in(1, maxcat);
        let mut pal: Vec<f64> = vec![];
        while pal.len() < k {
            let c = if arbitrary_codes { rng.below(60000) as f64 } else { rng.below(8) as f64 };
            if !pal.contains(&c) {
                pal.push(c);
            }
        }
        palettes[j] = pal;
    }
    (0..n)
        .map(|_| {
            (0..p)
                .map(|j| {
                    if idxs.contains(&j) {
                        *rng.pick(&palettes[j])
                    } else {
                        match rng.below(3) {
                            0 => rng.dyadic(8, 3),
                            1 => rng.int(-3, 3) as f64,
                            _ => rng.uniform(-100.0, 100.0),
                        }
                    }
                })
                .collect()
        })
        .collect()
}

fn check_layout(out: &mut Out, x: &[Vec<f64>], idxs: &[usize], f32m: bool, family: &str) {
    let xin: Vec<Vec<f64>> = if f32m { x.iter().map(|r| r.iter().map(|v| *v as f32 as f64).collect()).collect() } else { x.to_vec() };
    let p = xin[0].len();
    let n = xin.len();
    let ncat = idxs.len();
    let has_plain_after_cat = idxs.iter().any(|&c| (c + 1..p).any(|j| !idxs.contains(&j)));
    let mut key_data: Vec<f64> = xin.iter().flatten().cloned().collect();
    key_data.extend(idxs.iter().map(|i| *i as f64));
    key_data.push(if f32m { 1.0 } else { 0.0 });
    out.eval(hash_f64s(&key_data), ncat >= 2 && has_plain_after_cat);
    out.count(&format!("search:{}:{}", family, if f32m { "f32" } else { "f64" }));
    out.count(&format!("search:ncat={}", ncat.min(6)));
    let input = json!({"entry": "fit_transform", "x": xin, "cat_idx": idxs, "f32": f32m, "n": n, "p": p});
    let expect = spec_layout(&xin, idxs);
    match run_impl(&xin, &xin, idxs, f32m) {
        Err(msg) => out.fail("layout", &format!("panic: {}", msg), input),
        Ok(None) => out.fail("layout", "fit returned an error on integer-coded categorical columns", input),
        Ok(Some(None)) => out.fail("layout", "transform returned an error on the matrix it was fitted on", input),
        Ok(Some(Some(got))) => {
            if got != expect {
                let mut w = input.clone();
                w["expected"] = json!(expect);
                w["got"] = json!(got);
                out.fail("layout", "encoded matrix differs from the definition (plain columns in order, indicator blocks in place)", w);
            }
        }
    }
}

/// A category code that does not occur in column `c` of `x`: above the largest fitted code, or (half of the time,
/// when there is one) in a GAP between / below the fitted codes — an encoder that only range-checks the code, or
/// looks it up in a dense table with a default entry, accepts those silently.
fn unseen_code(rng: &mut Rng, x: &[Vec<f64>], c: usize) -> f64 {
    let fitted: Vec<i64> = x.iter().map(|r| r[c] as i64).collect();
    let max = *fitted.iter().max().unwrap();
    let gaps: Vec<i64> = (0..max).filter(|v| !fitted.contains(v)).collect();
    if !gaps.is_empty() && rng.bool() {
        *rng.pick(&gaps) as f64
    } else {
        (max + 1 + rng.below(50) as i64) as f64
    }
}

fn check_errors(out: &mut Out, rng: &mut Rng) {
    // unseen value at transform time -> Err ; non-integer value in a categorical column at fit time -> Err
    let n = rng.usize_in(2, 12);
    let p = rng.usize_in(1, 6);
    let mut idxs: Vec<usize> = (0..p).filter(|_| rng.bool()).collect();
    if idxs.is_empty() {
        idxs.push(rng.below(p));
    }
    rng.shuffle(&mut idxs);
    let arbitrary = rng.bool();
    let x = gen_matrix(rng, n, p, &idxs, 3, arbitrary);
    let f32m = rng.chance(0.3);
    // unseen
    let mut x2 = x.clone();
    let r = rng.below(n);
    let c = *rng.pick(&idxs);
    x2[r][c] = unseen_code(rng, &x, c);
    let mut kd: Vec<f64> = x2.iter().flatten().cloned().collect();
    kd.push(c as f64);
    out.eval(hash_f64s(&kd), true);
    out.count("search:error:unseen");
    match run_impl(&x, &x2, &idxs, f32m) {
        Ok(Some(None)) => {}
        other => out.fail(
            "unseen_value_error",
            &format!("transform of an unseen category did not return Err: {:?}", other.map(|o| o.map(|i| i.is_some()))),
            json!({"entry": "unseen", "x": x, "x2": x2, "cat_idx": idxs, "f32": f32m}),
        ),
    }
    // non-integer
    let mut x3 = x.clone();
    let r = rng.below(n);
    x3[r][c] += *rng.pick(&[0.5, 0.25, -0.3, 0.01]);
    if x3[r][c] < 0.0 {
        x3[r][c] = 0.5;
    }
    out.eval(hash_f64s(&x3.iter().flatten().cloned().collect::<Vec<f64>>()), true);
    out.count("search:error:noninteger");
    match run_impl(&x3, &x3, &idxs, f32m) {
        Ok(None) => {}
        other => out.fail(
            "non_integer_error",
            &format!("fit on a non-integer categorical column did not return Err: {:?}", other.map(|o| o.is_some())),
            json!({"entry": "noninteger", "x": x3, "cat_idx": idxs, "f32": f32m}),
        ),
    }
}

fn check_mapper(out: &mut Out, rng: &mut Rng, corr: bool) {
    let len = rng.usize_in(1, 20);
    let ncodes = rng.usize_in(1, 6);
    let series: Vec<u16> = (0..len).map(|_| (rng.below(ncodes) * 7 + 3) as u16).collect();
    let mut queries: Vec<u16> = series.clone();
    queries.push(1);
    queries.push(1000);
    let res = guard(|| {
        let m = CategoryMapper::fit_to_iter(series.iter().cloned());
        let cats: Vec<u16> = m.get_categories().to_vec();
        let nums: Vec<Option<usize>> = queries.iter().map(|q| m.get_num(q).cloned()).collect();
        let ohs: Vec<Option<Vec<f64>>> = queries.iter().map(|q| m.get_one_hot::<f64, Vec<f64>>(q)).collect();
        let invs: Vec<Option<u16>> = ohs.iter().map(|o| o.as_ref().and_then(|v| m.invert_one_hot::<f64, Vec<f64>>(v.clone()).ok())).collect();
        (cats, nums, ohs, invs, m.num_categories())
    });
    let input = json!({"entry": "mapper", "series": series, "queries": queries});
    out.eval(hash_of(&series), ncodes >= 2);
    out.count("search:mapper");
    match res {
        Err(msg) => out.fail("mapper_inverse_laws", &format!("panic: {}", msg), input),
        Ok((cats, nums, ohs, invs, k)) => {
            // laws: first-appearance order, duplicates free, inverse maps
            let mut first: Vec<u16> = vec![];
            for s in &series {
                if !first.contains(s) {
                    first.push(*s);
                }
            }
            let mut ok = cats == first && k == first.len();
            for (qi, q) in queries.iter().enumerate() {
                match first.iter().position(|c| c == q) {
                    None => ok &= nums[qi].is_none() && ohs[qi].is_none(),
                    Some(pos) => {
                        ok &= nums[qi] == Some(pos);
                        let e: Vec<f64> = (0..first.len()).map(|t| if t == pos { 1.0 } else { 0.0 }).collect();
                        ok &= ohs[qi].as_ref() == Some(&e);
                        ok &= invs[qi] == Some(*q);
                    }
                }
            }
            if !ok {
                out.fail("mapper_inverse_laws", "category mapper maps are not mutually inverse / not in first-appearance order", input.clone());
            }
            // the other two public constructors must give a mapper obeying the same laws: positional vector
            // (index = position) and explicit category -> index map; plus index -> category (`get_cat`) and
            // rejection of vectors that are not one-hot (all zero, two ones)
            for ctor in ["from_positional_category_vec", "from_category_map"] {
                let first2 = first.clone();
                let queries2 = queries.clone();
                let r2 = guard(move || {
                    let m = if ctor == "from_positional_category_vec" {
                        CategoryMapper::from_positional_category_vec(first2.clone())
                    } else {
                        let map: std::collections::HashMap<u16, usize> = first2.iter().enumerate().map(|(i, c)| (*c, i)).collect();
                        CategoryMapper::from_category_map(map)
                    };
                    let k = m.num_categories();
                    let mut bad: Vec<String> = vec![];
                    if m.get_categories().to_vec() != first2 {
                        bad.push(format!("get_categories() = {:?}, expected {:?}", m.get_categories(), first2));
                    }
                    if k != first2.len() {
                        bad.push(format!("num_categories() = {}", k));
                    }
                    for (i, c) in first2.iter().enumerate() {
                        if m.get_num(c) != Some(&i) {
                            bad.push(format!("get_num({}) = {:?}, expected {}", c, m.get_num(c), i));
                        }
                        if i < k && m.get_cat(i) != c {
                            bad.push(format!("get_cat({}) = {}, expected {}", i, m.get_cat(i), c));
                        }
                        match m.get_one_hot::<f64, Vec<f64>>(c) {
                            None => bad.push(format!("get_one_hot({}) = None", c)),
                            Some(v) => {
                                let e: Vec<f64> = (0..first2.len()).map(|t| if t == i { 1.0 } else { 0.0 }).collect();
                                if v != e {
                                    bad.push(format!("get_one_hot({}) = {:?}", c, v));
                                }
                                match m.invert_one_hot::<f64, Vec<f64>>(v) {
                                    Ok(b) if b == *c => {}
                                    other => bad.push(format!("invert_one_hot(get_one_hot({})) = {:?}", c, other.ok())),
                                }
                            }
                        }
                    }
                    for q in queries2.iter().filter(|q| !first2.contains(q)) {
                        if m.get_num(q).is_some() || m.get_one_hot::<f64, Vec<f64>>(q).is_some() {
                            bad.push(format!("unseen category {} is mapped", q));
                        }
                    }
                    if m.invert_one_hot::<f64, Vec<f64>>(vec![0.0; first2.len()]).is_ok() {
                        bad.push("invert_one_hot accepts the all-zero vector".into());
                    }
                    if first2.len() >= 2 && m.invert_one_hot::<f64, Vec<f64>>(vec![1.0; first2.len()]).is_ok() {
                        bad.push("invert_one_hot accepts a vector with several ones".into());
                    }
                    bad
                });
                out.count(&format!("search:mapper:{}", ctor));
                let mut w = input.clone();
                w["constructor"] = json!(ctor);
                w["categories_in_index_order"] = json!(first);
                match r2 {
                    Err(msg) => out.fail("mapper_inverse_laws", &format!("{}: panic: {}", ctor, msg), w),
                    Ok(bad) if !bad.is_empty() => out.fail("mapper_inverse_laws", &format!("{}: {}", ctor, bad[0]), w),
                    Ok(_) => {}
                }
            }
            if corr {
                let term = format!(
                    "corr_mapper {} {} {} {} {} {}",
                    coq_list(series.iter().map(|c| coq_n(*c as usize))),
                    coq_list(queries.iter().map(|c| coq_n(*c as usize))),
                    coq_list(cats.iter().map(|c| coq_n(*c as usize))),
                    coq_list(nums.iter().map(|o| coq_option(o.map(coq_n)))),
                    coq_list(ohs.iter().map(|o| coq_option(o.as_ref().map(|v| coq_list_f64(v))))),
                    coq_list(invs.iter().map(|o| coq_option(o.map(|c| coq_n(c as usize))))),
                );
                out.corr("mapper", term, input);
            }
        }
    }
}

fn corr_new_idxs(out: &mut Out, p: usize, sizes: &[usize], idxs: &[usize]) {
    let input = json!({"entry": "find_new_idxs", "p": p, "sizes": sizes, "cat_idx": idxs});
    match guard(|| verif_find_new_idxs(p, sizes, idxs)) {
        Ok(r) => out.corr(
            "find_new_idxs",
            format!("corr_new_idxs {} {} {} {}", coq_n(p), coq_list_n(sizes), coq_list_n(idxs), coq_list_n(&r)),
            input,
        ),
        Err(_) => {}
    }
}

fn corr_fit_transform(out: &mut Out, x: &[Vec<f64>], x2: &[Vec<f64>], idxs: &[usize], f32m: bool) {
    let conv = |m: &[Vec<f64>]| -> Vec<Vec<f64>> {
        if f32m { m.iter().map(|r| r.iter().map(|v| *v as f32 as f64).collect()).collect() } else { m.to_vec() }
    };
    let (x, x2) = (conv(x), conv(x2));
    let p = x[0].len();
    let input = json!({"entry": "fit_transform2", "x": x, "x2": x2, "cat_idx": idxs, "f32": f32m});
    if let Ok(res) = run_impl(&x, &x2, idxs, f32m) {
        let exp = coq_option(res.map(|o| coq_option(o.map(|m| coq_rows_f64(&m)))));
        let margin = if f32m { margin32() } else { MARGIN64 };
        out.corr(
            "fit_transform",
            format!(
                "corr_fit_transform2 {} {} {} {} {} {}",
                coq_f64(margin),
                coq_rows_f64(&x),
                coq_rows_f64(&x2),
                coq_n(p),
                coq_list_n(idxs),
                exp
            ),
            input,
        );
    }
}

fn subsets(p: usize) -> Vec<Vec<usize>> {
    (0..(1usize << p)).map(|m| (0..p).filter(|j| m >> j & 1 == 1).collect()).collect()
}

fn replay(path: &str) -> i32 {
    let v = read_replay(path);
    let inp = if v.get("input").is_some() { v["input"].clone() } else { v.clone() };
    let mut out = Out::new("C18", "replay");
    let idxs = usizes_from_json(&inp["cat_idx"]);
    let f32m = inp["f32"].as_bool().unwrap_or(false);
    match inp["entry"].as_str().unwrap_or("") {
        "fit_transform" | "fit_transform2" => {
            let x = rows_from_json(&inp["x"]);
            check_layout(&mut out, &x, &idxs, f32m, "replay");
        }
        "find_new_idxs" => {
            let p = inp["p"].as_u64().unwrap() as usize;
            let sizes = usizes_from_json(&inp["sizes"]);
            // specification of the index map
            let got = guard(|| verif_find_new_idxs(p, &sizes, &idxs));
            let exp: Vec<usize> = (0..p)
                .map(|j| j + idxs.iter().zip(sizes.iter()).filter(|(c, _)| **c < j).map(|(_, k)| k - 1).sum::<usize>())
                .collect();
            if got.as_ref().ok() != Some(&exp) {
                out.fail("new_idx_formula", "index map differs from j + sum_{c<j}(k_c-1)", inp.clone());
            }
        }
        "unseen" => {
            let x = rows_from_json(&inp["x"]);
            let x2 = rows_from_json(&inp["x2"]);
            if !matches!(run_impl(&x, &x2, &idxs, f32m), Ok(Some(None))) {
                out.fail("unseen_value_error", "no error", inp.clone());
            }
        }
        "noninteger" => {
            let x = rows_from_json(&inp["x"]);
            if !matches!(run_impl(&x, &x, &idxs, f32m), Ok(None)) {
                out.fail("non_integer_error", "no error", inp.clone());
            }
        }
        _ => {
            eprintln!("unknown replay entry");
            return 2;
        }
    }
    if out.n_fail() > 0 {
        println!("REPLAY: property=C18 still fails: {}", path);
        1
    } else {
        println!("REPLAY: property=C18 passes: {}", path);
        0
    }
}

fn main() {
    quiet_panics();
    let a = args();
    if let Some(p) = &a.replay {
        std::process::exit(replay(p));
    }
    let mut rng = Rng::new(a.seed);
    let mut out = Out::new(
        "C18",
        "search case = (matrix, categorical index list in arbitrary order[, second matrix]); non-trivial: >= 2 categorical columns and at least one categorical column followed by a plain column (error and mapper cases: >= 2 codes); distinct by hash of (data, indices, width)",
    );

    // ---- corpus: the defect that was repaired (D11) ----
    let d11 = vec![vec![1.0, 2.0, 3.5, 4.5], vec![2.0, 2.0, 1.5, 0.5], vec![1.0, 3.0, 2.5, 7.0]];
    check_layout(&mut out, &d11, &[0, 1], false, "corpus");
    corr_new_idxs(&mut out, 4, &[2, 2], &[0, 1]);
    corr_fit_transform(&mut out, &d11, &d11, &[1, 0], false);

    // ---- correspondence: find_new_idxs on all sorted subsets, p <= 5 (quick) / 6, sizes 1..3 ----
    let pmax = if a.thorough { 6 } else { 5 };
    for p in 0..=pmax {
        for s in subsets(p) {
            let reps = if a.thorough { 3 } else { 1 };
            for _ in 0..reps {
                let sizes: Vec<usize> = s.iter().map(|_| rng.usize_in(1, 3)).collect();
                corr_new_idxs(&mut out, p, &sizes, &s);
            }
        }
    }
    // ---- correspondence: whole fit + transform ----
    let ncorr = if a.thorough { 2000 } else { 400 };
    for i in 0..ncorr {
        let n = rng.usize_in(1, 10);
        let p = rng.usize_in(1, 7);
        let mut idxs: Vec<usize> = (0..p).filter(|_| rng.chance(0.45)).collect();
        rng.shuffle(&mut idxs);
        let x = gen_matrix(&mut rng, n, p, &idxs, 4, i % 4 == 0);
        let mut x2 = x.clone();
        let mode = rng.below(6);
        if mode == 0 && !idxs.is_empty() {
            let (r, c) = (rng.below(n), *rng.pick(&idxs));
            x2[r][c] = unseen_code(&mut rng, &x, c);
        }
        let mut xf = x.clone();
        if mode == 1 && !idxs.is_empty() {
            let (r, c) = (rng.below(n), *rng.pick(&idxs));
            xf[r][c] += 0.5; // non-integer -> fit error
            x2 = xf.clone();
        }
        if mode == 2 && !idxs.is_empty() {
            let (r, c) = (rng.below(n), *rng.pick(&idxs));
            xf[r][c] += 0.0004; // within the margin: still valid, truncates to the same code
            x2 = xf.clone();
        }
        corr_fit_transform(&mut out, &xf, &x2, &idxs, rng.chance(0.25));
    }
    for _ in 0..(if a.thorough { 200 } else { 40 }) {
        check_mapper(&mut out, &mut rng, true);
    }

    // ---- search: exhaustive subsets, p <= 5 (quick) / 6 (thorough), 1..3 categories ----
    for p in 1..=pmax {
        for s in subsets(p) {
            let reps = if a.thorough { 4 } else { 2 };
            for rep in 0..reps {
                let mut idxs = s.clone();
                if rep % 2 == 1 {
                    rng.shuffle(&mut idxs);
                }
                let n = rng.usize_in(1, 8);
                let x = gen_matrix(&mut rng, n, p, &idxs, 3, false);
                check_layout(&mut out, &x, &idxs, rep == 3, "exhaustive-subsets");
                if out.n_fail() == 0 && rep == 0 {
                    out.sample(json!({"x": x, "cat_idx": idxs}));
                }
            }
        }
    }
    // ---- search: random, 1<=n<=40, 1<=p<=10, 1..6 categories, arbitrary codes ----
    let nrand = if a.thorough { 60000 } else { 8000 };
    for i in 0..nrand {
        let n = rng.usize_in(1, 40);
        let p = rng.usize_in(1, 10);
        let mut idxs: Vec<usize> = match rng.below(6) {
            0 => vec![],
            1 => (0..p).collect(),
            2 => vec![0],
            3 => vec![p - 1],
            _ => (0..p).filter(|_| rng.bool()).collect(),
        };
        rng.shuffle(&mut idxs);
        let x = gen_matrix(&mut rng, n, p, &idxs, 6, i % 3 == 0);
        check_layout(&mut out, &x, &idxs, i % 5 == 4, "random");
    }
    for _ in 0..(if a.thorough { 20000 } else { 3000 }) {
        check_errors(&mut out, &mut rng);
        check_mapper(&mut out, &mut rng, false);
    }
    out.finish(&a.out);
}

#[allow(dead_code)]
fn _unused(_: Value) {}
