//! C19 — serialisation round trips.
//!
//! * correspondence (SC.C19.Corr): the token stream that `DenseMatrix`'s hand-written `Serialize`
//!   emits (observed with a recording `serde::Serializer`), what its `Deserialize` visitor answers to
//!   sequence / map forms in every field order (JSON text fed to `serde_json::from_str`, incl.
//!   duplicate / missing / unknown fields and wrong types), the bincode bytes, and the hand-written
//!   `PartialEq` relations on pairs of objects that differ in one field (built by editing the
//!   serde_json state of a fitted model);
//! * search: every serialisable public type fitted on random data -> bincode and JSON round trips,
//!   equality laws (self, restored, refit, different data), predictions on fresh queries.
#![allow(clippy::type_complexity)]
use serde::de::DeserializeOwned;
use serde::Serialize;
use serde_json::{json, Value};
use smartcore::algorithm::neighbour::cover_tree::CoverTree;
use smartcore::algorithm::neighbour::linear_search::LinearKNNSearch;
use smartcore::algorithm::neighbour::KNNAlgorithmName;
use smartcore::cluster::dbscan::{DBSCANParameters, DBSCAN};
use smartcore::cluster::kmeans::{KMeans, KMeansParameters};
use smartcore::decomposition::pca::{PCAParameters, PCA};
use smartcore::decomposition::svd::{SVDParameters, SVD};
use smartcore::ensemble::random_forest_classifier::{RandomForestClassifier, RandomForestClassifierParameters};
use smartcore::ensemble::random_forest_regressor::{RandomForestRegressor, RandomForestRegressorParameters};
use smartcore::error::{Failed, FailedError};
use smartcore::linalg::naive::dense_matrix::DenseMatrix;
use smartcore::linalg::BaseMatrix;
use smartcore::linear::elastic_net::{ElasticNet, ElasticNetParameters};
use smartcore::linear::lasso::{Lasso, LassoParameters};
use smartcore::linear::linear_regression::{LinearRegression, LinearRegressionParameters, LinearRegressionSolverName};
use smartcore::linear::logistic_regression::{LogisticRegression, LogisticRegressionParameters};
use smartcore::linear::ridge_regression::{RidgeRegression, RidgeRegressionParameters, RidgeRegressionSolverName};
use smartcore::math::distance::euclidian::Euclidian;
use smartcore::math::distance::hamming::Hamming;
use smartcore::math::distance::mahalanobis::Mahalanobis;
use smartcore::math::distance::manhattan::Manhattan;
use smartcore::math::distance::minkowski::Minkowski;
use smartcore::math::distance::{Distance, Distances};
use smartcore::math::num::RealNumber;
use smartcore::naive_bayes::bernoulli::{BernoulliNB, BernoulliNBParameters};
use smartcore::naive_bayes::categorical::{CategoricalNB, CategoricalNBParameters};
use smartcore::naive_bayes::gaussian::{GaussianNB, GaussianNBParameters};
use smartcore::naive_bayes::multinomial::{MultinomialNB, MultinomialNBParameters};
use smartcore::neighbors::knn_classifier::{KNNClassifier, KNNClassifierParameters};
use smartcore::neighbors::knn_regressor::{KNNRegressor, KNNRegressorParameters};
use smartcore::neighbors::KNNWeightFunction;
use smartcore::svm::svc::{SVCParameters, SVC};
use smartcore::svm::svr::{SVRParameters, SVR};
use smartcore::svm::{Kernel, Kernels, LinearKernel, PolynomialKernel, RBFKernel, SigmoidKernel};
use smartcore::tree::decision_tree_classifier::{DecisionTreeClassifier, DecisionTreeClassifierParameters, SplitCriterion};
use smartcore::tree::decision_tree_regressor::{DecisionTreeRegressor, DecisionTreeRegressorParameters};
use std::fmt::Debug;
use vharness::*;


// ------------------------------------------------------------------------------------------
// scalar width
// ------------------------------------------------------------------------------------------
pub trait Num: RealNumber + Serialize + DeserializeOwned + Default + Send + Sync + 'static {
    const F32: bool;
}
impl Num for f64 {
    const F32: bool = false;
}
impl Num for f32 {
    const F32: bool = true;
}
fn t<T: Num>(v: f64) -> T {
    T::from_f64(v).unwrap()
}
fn f<T: Num>(v: T) -> f64 {
    v.to_f64().unwrap()
}
fn mat<T: Num>(rows: &[Vec<f64>]) -> DenseMatrix<T> {
    if rows.is_empty() {
        return DenseMatrix::new(0, 0, vec![]);
    }
    let r: Vec<Vec<T>> = rows.iter().map(|r| r.iter().map(|v| t::<T>(*v)).collect()).collect();
    DenseMatrix::from_2d_vec(&r)
}
fn vect<T: Num>(v: &[f64]) -> Vec<T> {
    v.iter().map(|x| t::<T>(*x)).collect()
}
fn vecf<T: Num>(v: &[T]) -> Vec<f64> {
    v.iter().map(|x| f(*x)).collect()
}
fn matf<T: Num>(m: &DenseMatrix<T>) -> Vec<f64> {
    let (n, p) = m.shape();
    let mut o = vec![n as f64, p as f64];
    for r in 0..n {
        for c in 0..p {
            o.push(f(m.get(r, c)));
        }
    }
    o
}
fn rows_t<T: Num>(rows: &[Vec<f64>]) -> Vec<Vec<T>> {
    rows.iter().map(|r| vect::<T>(r)).collect()
}
/// marker pushed into an observation when a call returned `Err`
fn err_marker() -> f64 {
    f64::from_bits(0x7ff8_0000_dead_0001)
}
fn push_res<T: Num>(o: &mut Vec<f64>, r: Result<Vec<T>, Failed>) {
    match r {
        Ok(v) => {
            o.push(v.len() as f64);
            o.extend(vecf(&v));
        }
        Err(_) => o.push(err_marker()),
    }
}
fn push_mat<T: Num>(o: &mut Vec<f64>, r: Result<DenseMatrix<T>, Failed>) {
    match r {
        Ok(m) => o.extend(matf(&m)),
        Err(_) => o.push(err_marker()),
    }
}

// ------------------------------------------------------------------------------------------
// data
// ------------------------------------------------------------------------------------------
#[derive(Clone, Debug)]
pub struct Data {
    x: Vec<Vec<f64>>,
    y: Vec<f64>,
    q: Vec<Vec<f64>>,
    /// what the columns / targets are (the related-data oracle edits them accordingly)
    feat: Feat,
    target: Target,
}
#[derive(Clone, Copy, PartialEq, Debug)]
enum Feat {
    Cont,
    Binary,
    Count,
    Cat,
}
#[derive(Clone, Copy, PartialEq, Debug)]
enum Target {
    Reg,
    Class(usize),
    NoTarget,
}

static F32_MODE: std::sync::atomic::AtomicBool = std::sync::atomic::AtomicBool::new(false);
/// 0 = ordinary data; k > 0 = the k-th family of degenerate-but-finite data (entry "degenerate")
static DEGEN: std::sync::atomic::AtomicUsize = std::sync::atomic::AtomicUsize::new(0);
fn degen() -> usize {
    DEGEN.load(std::sync::atomic::Ordering::Relaxed)
}
const DEGEN_FAMILIES: [&str; 7] = ["", "two-distinct-rows(duplicates)", "all-rows-identical", "constant-column", "collinear-columns(rank-deficient)", "constant-target/single-class", "duplicates+constant-column"];

/// Finite data on which a fit can leave non-finite or degenerate state behind: duplicated rows (k-means with
/// more clusters than distinct rows, zero distances), a constant column (zero variance, rescaling), collinear
/// columns (rank deficiency), a constant target / a single class.
fn make_degenerate(rng: &mut Rng, d: &mut Data, fam: usize) {
    let n = d.x.len();
    let p = d.x.first().map(|r| r.len()).unwrap_or(0);
    if n == 0 || p == 0 {
        return;
    }
    let dup = |d: &mut Data, m: usize| {
        for i in m..n {
            d.x[i] = d.x[i % m].clone();
        }
    };
    let constant_col = |rng: &mut Rng, d: &mut Data| {
        let j = rng.below(p);
        let v = d.x[0][j];
        for r in d.x.iter_mut().chain(d.q.iter_mut()) {
            r[j] = v;
        }
    };
    match fam {
        1 => dup(d, 2.min(n)),
        2 => dup(d, 1),
        3 => constant_col(rng, d),
        4 => {
            if p >= 2 {
                let (a, b) = (0, rng.usize_in(1, p - 1));
                let f = if d.feat == Feat::Cont { *rng.pick(&[1.0, 2.0, -1.0]) } else { 1.0 };
                for r in d.x.iter_mut().chain(d.q.iter_mut()) {
                    r[b] = f * r[a];
                }
            } else {
                constant_col(rng, d);
            }
        }
        5 => {
            if !d.y.is_empty() {
                let v = d.y[0];
                for y in d.y.iter_mut() {
                    *y = v;
                }
            } else {
                dup(d, 2.min(n));
            }
        }
        _ => {
            dup(d, 3.min(n));
            constant_col(rng, d);
        }
    }
}

struct Gen {
    style: usize,
    scale: f64,
    offset: f64,
    ncat: Vec<usize>,
}

fn gen_row(rng: &mut Rng, p: usize, feat: Feat, g: &Gen) -> Vec<f64> {
    (0..p)
        .map(|j| match feat {
            Feat::Cont => match g.style {
                0 => rng.normal(),
                1 => rng.normal() * g.scale + g.offset,
                2 => rng.dyadic(4, 2),
                _ => rng.int(-3, 3) as f64,
            },
            Feat::Binary => rng.below(2) as f64,
            Feat::Count => rng.below(6) as f64,
            Feat::Cat => rng.below(g.ncat[j]) as f64,
        })
        .collect()
}

/// two independent data sets of the same shape (different rows AND different targets) and one query set
fn gen_data(rng: &mut Rng, n: usize, p: usize, feat: Feat, target: Target, cont_only: bool, offset_ok: bool) -> (Data, Data) {
    let style = if cont_only { rng.below(2) } else { rng.below(4) };
    let g = Gen {
        style,
        // f32: column scales <= 1e2 (iterative fits in f32 on larger scales may return NaN or hang: not C19)
        scale: f64::min(*rng.pick(&[1e-3, 1e-2, 0.1, 1.0, 10.0, 100.0, 1e3]), if F32_MODE.load(std::sync::atomic::Ordering::Relaxed) { 100.0 } else { 1e3 }),
        offset: *rng.pick(&[0.0, 0.0, 1.0, -5.0, 100.0]) * (offset_ok as u8 as f64),
        ncat: (0..p).map(|_| rng.usize_in(2, 4)).collect(),
    };
    let mk_x = |rng: &mut Rng| -> Vec<Vec<f64>> { (0..n).map(|_| gen_row(rng, p, feat, &g)).collect() };
    let x1 = mk_x(rng);
    let x2 = mk_x(rng);
    let w: Vec<f64> = (0..p).map(|_| rng.uniform(-2.0, 2.0)).collect();
    let b = rng.uniform(-1.0, 1.0);
    let lin = |r: &Vec<f64>| -> f64 { r.iter().zip(w.iter()).map(|(a, c)| a * c).sum::<f64>() + b };
    let (y1, y2) = match target {
        Target::NoTarget => (vec![], vec![]),
        Target::Reg => {
            let noise = *rng.pick(&[0.0, 0.01, 0.5]);
            let s = if g.style == 1 { g.scale } else { 1.0 };
            let y1: Vec<f64> = x1.iter().map(|r| lin(r) + noise * s * rng.normal()).collect();
            // different targets: another linear law and other noise
            let y2: Vec<f64> = x2.iter().map(|r| -0.5 * lin(r) + 3.0 * s + s * rng.normal()).collect();
            (y1, y2)
        }
        Target::Class(k) => {
            let palette: Vec<f64> = match if feat == Feat::Cat { rng.below(2) } else { rng.below(3) } {
                0 => (0..k).map(|c| c as f64).collect(),
                1 => (0..k).map(|c| (c as f64) * 2.0 + 1.0).collect(),
                _ => {
                    let base = [-3.5, 2.0, 7.0, 11.25, 40.0];
                    base[..k].to_vec()
                }
            };
            let mode = rng.below(2);
            let mut idx1: Vec<usize> = x1
                .iter()
                .map(|r| if mode == 0 { rng.below(k) } else { ((lin(r).abs() * 1.7) as usize + (rng.chance(0.1) as usize)) % k })
                .collect();
            // every class present (needs n >= k)
            for c in 0..k.min(n) {
                idx1[c] = c;
            }
            // and (if there is room) twice, so that per-class variances are not all zero
            if n >= 2 * k {
                for c in 0..k {
                    idx1[k + c] = c;
                }
            }
            // different targets: every label moved to the next class (same class set, no position agrees)
            let idx2: Vec<usize> = idx1.iter().map(|c| (c + 1) % k).collect();
            (idx1.iter().map(|c| palette[*c]).collect(), idx2.iter().map(|c| palette[*c]).collect())
        }
    };
    // queries: fresh rows, some training rows of both sets (exact hits / ties), one far row
    let m = rng.usize_in(1, 8);
    let mut q: Vec<Vec<f64>> = (0..m).map(|_| gen_row(rng, p, feat, &g)).collect();
    for _ in 0..rng.usize_in(0, 4) {
        q.push(x1[rng.below(n)].clone());
    }
    for _ in 0..rng.usize_in(0, 3) {
        q.push(x2[rng.below(n)].clone());
    }
    if feat == Feat::Cont {
        q.push(gen_row(rng, p, feat, &g).iter().map(|v| v * 50.0 + 7.0).collect());
    }
    let (mut d1, mut d2) = (Data { x: x1, y: y1, q: q.clone(), feat, target }, Data { x: x2, y: y2, q, feat, target });
    if degen() > 0 {
        make_degenerate(rng, &mut d1, degen());
        make_degenerate(rng, &mut d2, degen());
    }
    (d1, d2)
}

// ------------------------------------------------------------------------------------------
// the oracle (written from the property text)
// ------------------------------------------------------------------------------------------
fn bits_eq(a: &[f64], b: &[f64]) -> bool {
    a.len() == b.len() && a.iter().zip(b.iter()).all(|(x, y)| x.to_bits() == y.to_bits() || (x.is_nan() && y.is_nan() && x.to_bits() != err_marker().to_bits() && y.to_bits() != err_marker().to_bits()))
}
fn close(a: &[f64], b: &[f64], rel: f64) -> bool {
    a.len() == b.len()
        && a.iter().zip(b.iter()).all(|(x, y)| {
            x.to_bits() == y.to_bits() || (x.is_nan() && y.is_nan()) || (x - y).abs() <= rel * 1.0f64.max(x.abs()).max(y.abs())
        })
}

#[derive(Clone, Copy, PartialEq, Debug)]
pub enum Mode {
    /// random parameters; round trips, equality laws, independent and related data
    Search,
    /// every parameter variant of the type, each through both formats
    Sweep,
}
pub struct Case<'a> {
    pub out: &'a mut Out,
    pub tname: String,
    pub input: Value,
    pub f32m: bool,
    pub mode: Mode,
    /// the object under test holds NaN / inf although it was fitted on finite data
    pub nonfinite: bool,
    /// ... and its Debug rendering shows NaN inside `feature_log_prob` (the listed MultinomialNB finding)
    pub nan_flp: bool,
}
/// KNOWN_FINDINGS.txt `id=json-nonfinite-state`: fitted state contains a non-finite float, to_string succeeded,
/// deserialising that text fails on the null; KMeans and the naive Bayes variants only
const JSON_NONFINITE_FINDING: &str = "json-nonfinite-state";
/// KNOWN_FINDINGS.txt `id=multinomialnb-nan-state-not-self-equal`: type MultinomialNB, stored feature_log_prob
/// contains NaN, only the self / restored / refit equality clauses fail
const MNB_NAN_FINDING: &str = "multinomialnb-nan-state-not-self-equal";
/// KNOWN_FINDINGS.txt `id=ridge-alpha-zero-singular-nonfinite`: type RidgeRegression, alpha = 0 exactly, non-finite fitted
/// state, only the self / restored / refit equality clauses or the JSON deserialisation fail
const RIDGE_A0_FINDING: &str = "ridge-alpha-zero-singular-nonfinite";
/// KNOWN_FINDINGS.txt `id=pca-eq-ignores-mu`: type PCA, training matrices differ, eigenvectors / eigenvalues
/// identical within the relation's tolerance (`==` true), a probe row transformed differently
const PCA_MU_FINDING: &str = "pca-eq-ignores-mu";
fn known_pca_mu(c: &mut Case, rel: &str) {
    c.out.known(PCA_MU_FINDING, "PCA models fitted on different rows with the same eigenvectors and eigenvalues compare equal although their transforms differ (PartialEq never looks at the stored means mu)");
    let k = format!("known:{}:{}", PCA_MU_FINDING, rel);
    c.out.count(&k);
}
/// is the ridge case at hand one with alpha = 0 (search / degenerate: the `params` text; sweep: the variant;
/// explicit input: the `alpha` field)?
fn ridge_alpha_zero(input: &Value) -> bool {
    input["params"].as_str().map(|p| p.starts_with("alpha=0 ")).unwrap_or(false) || input["variant"].as_str() == Some("alpha=0") || input["alpha"].as_f64() == Some(0.0)
}
/// does the Debug rendering show NaN inside the field `feature_log_prob: [...]`?
fn debug_has_nan_in_feature_log_prob(dbg: &str) -> bool {
    let key = "feature_log_prob: [";
    let start = match dbg.find(key) {
        Some(i) => i + key.len(),
        None => return false,
    };
    let mut depth = 1i32;
    let mut end = dbg.len();
    for (i, ch) in dbg[start..].char_indices() {
        match ch {
            '[' => depth += 1,
            ']' => {
                depth -= 1;
                if depth == 0 {
                    end = start + i;
                    break;
                }
            }
            _ => {}
        }
    }
    dbg[start..end].contains("NaN")
}
impl<'a> Case<'a> {
    fn fail(&mut self, oracle: &str, what: &str) {
        if self.nonfinite && self.nan_flp && self.tname == "MultinomialNB" && matches!(oracle, "self_equality" | "bincode_restored_equal" | "refit_equal") {
            // the listed finding, exact predicate: MultinomialNB, NaN inside the stored feature_log_prob, one of
            // the self / restored / refit equality clauses
            self.out.known(MNB_NAN_FINDING, "MultinomialNB with NaN in feature_log_prob (alpha = 0, a class with all-zero counts) does not equal itself, its bincode copy or a refit (derived PartialEq: NaN != NaN)");
            let k = format!("known:{}:{}", MNB_NAN_FINDING, oracle);
            self.out.count(&k);
            return;
        }
        if self.nonfinite && self.tname == "RidgeRegression" && ridge_alpha_zero(&self.input) && matches!(oracle, "self_equality" | "bincode_restored_equal" | "refit_equal" | "json_deserialise") {
            // the listed finding ridge-alpha-zero-singular-nonfinite, exact predicate: type RidgeRegression, alpha = 0
            // exactly, non-finite fitted state, one of the self / restored / refit equality clauses or the JSON
            // deserialisation.  (alpha = 0 with the Cholesky solver on rank-deficient rows: the singular normal
            // equations are not noticed, fit returns Ok with non-finite coefficients; normalize = true: NaN intercept
            // too.)  With alpha > 0 the system is positive definite: any non-finite ridge model there is a failure.
            self.out.known(RIDGE_A0_FINDING, "RidgeRegression with alpha = 0 (Cholesky) on rank-deficient rows returns Ok with non-finite state: its JSON cannot be read back; with normalize = true it does not equal itself, its bincode copy or a refit");
            let k = format!("known:{}:{}", RIDGE_A0_FINDING, oracle);
            self.out.count(&k);
            return;
        }
        if self.nonfinite {
            let k = format!("fail-detail:nonfinite-state:{}:{}", self.tname, oracle);
            self.out.count(&k);
        }
        let w = format!("{}{}: {}", self.tname, if self.f32m { "<f32>" } else { "<f64>" }, what);
        self.out.fail(oracle, &w, self.input.clone());
    }
    fn count(&mut self, what: &str) {
        let k = format!("{}:{}", what, self.tname);
        self.out.count(&k);
    }
}

type EqFn<M> = Option<fn(&M, &M) -> bool>;

fn eq_checked<M>(c: &mut Case, eq: EqFn<M>, a: &M, b: &M, oracle: &str, what: &str, expect: bool) -> Option<bool> {
    let e = eq?;
    match guard(|| e(a, b)) {
        Ok(v) => {
            if v != expect {
                c.fail(oracle, what);
            }
            Some(v)
        }
        Err(p) => {
            c.fail(oracle, &format!("{} (PartialEq panicked: {})", what, p));
            None
        }
    }
}

/// The round-trip clauses of the property for one fitted object `m`; `obs` = predictions / decision
/// values / transforms on the query set, flattened.
fn check_roundtrip<M, O>(c: &mut Case, m: &M, eq: EqFn<M>, obs: &O) -> bool
where
    M: Serialize + DeserializeOwned + Debug,
    O: Fn(&M) -> Vec<f64>,
{
    c.count("search:type");
    let dbg0 = format!("{:?}", m);
    // A fit on finite data may return Ok with NaN / inf inside the model (an empty k-means cluster, ln 0 in a
    // naive Bayes table without smoothing, f32 L-BFGS).  Such models are in scope: they must equal themselves,
    // their bincode copy (both ways, identical predictions, identical bytes) and a refit.  JSON has no notation
    // for NaN / inf (serde_json writes null and cannot read it back): counted observation, reported.
    let nonfinite = dbg0.contains("NaN") || dbg0.contains("inf");
    let was = c.nonfinite;
    c.nonfinite = nonfinite;
    c.nan_flp = nonfinite && debug_has_nan_in_feature_log_prob(&dbg0);
    if nonfinite {
        c.count("search:nonfinite-state-after-fit-on-finite-data");
    }
    // a model equals itself
    eq_checked(c, eq, m, m, "self_equality", "model != itself", true);
    if eq.is_none() && !nonfinite {
        c.out.count("search:no-PartialEq(equality-through-predictions-only)");
    }
    let o0 = guard(|| obs(m));
    let same_obs = |a: &Result<Vec<f64>, String>, b: &Result<Vec<f64>, String>| -> bool {
        match (a, b) {
            (Ok(x), Ok(y)) => bits_eq(x, y),
            (Err(_), Err(_)) => true,
            _ => false,
        }
    };
    // ---- binary format ----
    match guard(|| bincode::serialize(m)) {
        Err(p) => c.fail("serialise_never_fails", &format!("bincode::serialize panicked: {}", p)),
        Ok(Err(e)) => c.fail("serialise_never_fails", &format!("bincode::serialize: {}", e)),
        Ok(Ok(bytes)) => match guard(|| bincode::deserialize::<M>(&bytes)) {
            Err(p) => c.fail("bincode_deserialise", &format!("bincode::deserialize panicked: {}", p)),
            Ok(Err(e)) => c.fail("bincode_deserialise", &format!("bincode::deserialize of the model's own bytes: {}", e)),
            Ok(Ok(r)) => {
                eq_checked(c, eq, &r, m, "bincode_restored_equal", "restored (bincode) != original", true);
                eq_checked(c, eq, m, &r, "bincode_restored_equal", "original != restored (bincode)", true);
                let o1 = guard(|| obs(&r));
                if !same_obs(&o0, &o1) {
                    c.fail("bincode_predictions_bit_identical", "predictions / decision values / transforms of the restored (bincode) object differ from the original's");
                }
                if format!("{:?}", r) != dbg0 {
                    c.fail("bincode_state_identical", "Debug rendering of the restored (bincode) object differs from the original's (a field changed)");
                }
                match guard(|| bincode::serialize(&r)) {
                    Ok(Ok(b2)) => {
                        if b2 != bytes {
                            c.fail("bincode_state_identical", "re-serialising the restored (bincode) object gives different bytes");
                        }
                    }
                    _ => c.fail("serialise_never_fails", "bincode::serialize of the restored object failed"),
                }
            }
        },
    }
    // ---- JSON text (declaration field order) ----
    match guard(|| serde_json::to_string(m)) {
        Err(p) => c.fail("serialise_never_fails", &format!("serde_json::to_string panicked: {}", p)),
        Ok(Err(e)) => c.fail("serialise_never_fails", &format!("serde_json::to_string: {}", e)),
        Ok(Ok(s)) => match guard(|| serde_json::from_str::<M>(&s)) {
            Err(p) => c.fail("json_deserialise", &format!("serde_json::from_str panicked: {}", p)),
            Ok(Err(e)) => {
                let listed_type = matches!(c.tname.as_str(), "KMeans" | "CategoricalNB" | "BernoulliNB" | "MultinomialNB" | "GaussianNB");
                if nonfinite && listed_type && s.contains("null") && e.to_string().contains("null") {
                    // the listed finding, exact predicate: non-finite float in the fitted state, to_string succeeded
                    // (serde_json wrote null), reading that text back fails on the null; KMeans / naive Bayes only
                    c.out.known(JSON_NONFINITE_FINDING, "a model with NaN / inf in its fitted state serialises to JSON (null) but cannot be restored from its own JSON");
                    let k = format!("known:{}:{}", JSON_NONFINITE_FINDING, c.tname);
                    c.out.count(&k);
                } else {
                    c.fail("json_deserialise", &format!("serde_json::from_str of the model's own JSON: {}", e));
                }
            }
            Ok(Ok(r)) => {
                eq_checked(c, eq, &r, m, "json_restored_equal", "restored (JSON) != original", true);
                let o1 = guard(|| obs(&r));
                let tol = if c.f32m { 1e-4 } else { 1e-9 };
                let ok = match (&o0, &o1) {
                    (Ok(x), Ok(y)) => {
                        if bits_eq(x, y) {
                            c.out.count("search:json-predictions-exact");
                            true
                        } else {
                            c.out.count("search:json-predictions-not-bit-identical");
                            close(x, y, tol)
                        }
                    }
                    (Err(p), Err(_)) => {
                        c.count(&format!("search:observation-panics({})", &p[..p.len().min(40)]));
                        true
                    }
                    _ => false,
                };
                if !ok {
                    c.fail("json_predictions_equal_up_to_rounding", "predictions of the restored (JSON) object differ from the original's by more than the decimal rounding");
                }
                // types without PartialEq (parameter structs, enums, distances, kernels, linear search) have no
                // other witness of their fields: the rendering must survive (serde_json is built with
                // float_roundtrip, so the decimal text is exact)
                if eq.is_none() && !nonfinite && format!("{:?}", r) != dbg0 {
                    c.fail("json_state_identical", "Debug rendering of the object restored from JSON text differs from the original's (a field or variant changed)");
                }
            }
        },
    }
    // ---- JSON value (sorted field order: a permutation of the declaration order) ----
    if !nonfinite {
        match guard(|| serde_json::to_value(m)) {
            Ok(Ok(v)) => match guard(|| serde_json::from_value::<M>(v)) {
                Ok(Ok(r)) => {
                    eq_checked(c, eq, &r, m, "json_restored_equal", "restored (JSON value, sorted keys) != original", true);
                    let o1 = guard(|| obs(&r));
                    if !same_obs(&o0, &o1) {
                        c.fail("json_value_predictions_identical", "predictions of the object restored from serde_json::Value (keys in sorted order) differ");
                    }
                    // no decimal text on this path: every field must come back exactly (covers the fields PartialEq ignores)
                    if format!("{:?}", r) != dbg0 {
                        c.fail("json_state_identical", "Debug rendering of the object restored from serde_json::Value differs from the original's (a field or variant changed)");
                    }
                }
                Ok(Err(e)) => c.fail("json_deserialise", &format!("serde_json::from_value (sorted keys): {}", e)),
                Err(p) => c.fail("json_deserialise", &format!("serde_json::from_value panicked: {}", p)),
            },
            Ok(Err(e)) => c.fail("serialise_never_fails", &format!("serde_json::to_value: {}", e)),
            Err(p) => c.fail("serialise_never_fails", &format!("serde_json::to_value panicked: {}", p)),
        }
    }
    c.nonfinite = was;
    !nonfinite
}

/// Whole property for one type: fit on `d`, round trips, refit equality, inequality against a fit on
/// `d2` (different rows and targets).
fn run_type<M, F, O>(c: &mut Case, d: &Data, d2: &Data, fit: F, eq: EqFn<M>, obs: &O, deterministic: bool) -> Option<M>
where
    M: Serialize + DeserializeOwned + Debug + Send + 'static,
    F: Fn(&Data) -> Result<M, String> + Send + Clone + 'static,
    O: Fn(&M, &Data) -> Vec<f64>,
{
    let mut key: Vec<f64> = d.x.iter().flatten().cloned().collect();
    key.extend(d.y.iter());
    key.push(hash_of(&c.tname) as f64);
    key.push(c.f32m as u8 as f64);
    key.push(hash_of(&c.input["params"].to_string()) as f64);
    let m = match fit_guarded(&fit, d) {
        Ok(Ok(m)) => m,
        Ok(Err(e)) => {
            c.out.eval(hash_f64s(&key), false);
            c.count(&format!("search:fit-error({})", &e[..e.len().min(40)]));
            return None;
        }
        Err(p) => {
            c.out.eval(hash_f64s(&key), false);
            c.count(&format!("search:fit-panic({})", &p[..p.len().min(40)]));
            if p.contains("does not return") && std::env::var("C19_TRACE").is_ok() {
                eprintln!("TIMEOUT {}", c.input);
            }
            return None;
        }
    };
    c.out.eval(hash_f64s(&key), d.x.len() >= 3);
    if std::env::var("C19_DUMP").is_ok() {
        eprintln!("DUMP {} {}", c.tname, serde_json::to_string(&m).unwrap_or_default());
    }
    let finite = check_roundtrip(c, &m, eq, &|mm: &M| obs(mm, d));
    c.nonfinite = !finite;
    // second fit on the same data
    if let Ok(Ok(m2)) = fit_guarded(&fit, d) {
        if deterministic {
            eq_checked(c, eq, &m, &m2, "refit_equal", "second fit on the same data != first fit", true);
            let same = matches!((bincode::serialize(&m), bincode::serialize(&m2)), (Ok(a), Ok(b)) if a == b);
            if same {
                c.out.count("search:refit-bytes-identical");
            } else {
                c.count("search:refit-bytes-differ");
            }
        } else {
            c.count("search:refit-skipped(unseeded-randomness)");
        }
    }
    c.nonfinite = false;
    if !finite {
        // NaN makes a tolerance relation agree with anything: the inequality clauses are not judged on such models
        c.count("search:nonfinite-state(inequality-clauses-skipped)");
        return None;
    }
    // fit on different rows and targets
    if let Ok(Ok(m3)) = fit_guarded(&fit, d2) {
        if let Some(e) = eq {
            let e1 = guard(|| e(&m, &m3));
            let e2 = guard(|| e(&m3, &m));
            match (e1, e2) {
                (Ok(false), Ok(false)) => c.out.count("search:different-data-unequal"),
                (Ok(a), Ok(b)) if a != b => c.fail("equality_symmetric", "a == b and b == a disagree for models fitted on different data"),
                (Ok(_), Ok(_)) if c.tname == "DBSCAN" && dbscan_same_labelling(&m, &m3) => {
                    // DBSCAN's PartialEq looks at (cluster_labels, num_classes, eps) only, never at the stored
                    // points: two fits on different rows with the same labelling are equal.  Reported; counted
                    // here (or raised as the listed known finding) under exactly this predicate.
                    if DBSCAN_FINDING_LISTED {
                        c.out.known("dbscan-eq-ignores-points", "DBSCAN models fitted on different rows with the same label vector compare equal (PartialEq ignores the stored points)");
                    }
                    c.out.count("observe:dbscan-eq-ignores-points(different-rows,same-labelling,equal)");
                }
                (Ok(_), Ok(_)) => {
                    // equal: only acceptable if the two models cannot be told apart by their behaviour
                    let oa = guard(|| obs(&m, d));
                    let ob = guard(|| obs(&m3, d));
                    let same = match (&oa, &ob) {
                        (Ok(x), Ok(y)) => bits_eq(x, y),
                        _ => false,
                    };
                    if same {
                        c.count("search:different-data-equal-but-indistinguishable(excluded)");
                    } else if tolerance_blind_spot(c, &m, &m3) {
                        if std::env::var("C19_DUMP_PAIR").is_ok() {
                            eprintln!("PAIRDATA {}", json!({"a": {"x": d.x, "y": d.y}, "b": {"x": d2.x, "y": d2.y}, "queries": d.q}));
                        }
                        known_eps(c, "different-rows-and-targets");
                    } else if d.x != d2.x && pca_same_eigen_different_mu(&c.tname, &serde_json::to_value(&m).unwrap_or(Value::Null), &serde_json::to_value(&m3).unwrap_or(Value::Null)) {
                        known_pca_mu(c, "different-rows-and-targets");
                    } else {
                        if std::env::var("C19_DUMP_PAIR").is_ok() {
                            eprintln!("PAIR {}\nA {}\nB {}\nOA {:?}\nOB {:?}", c.tname, serde_json::to_string(&m).unwrap_or_default(), serde_json::to_string(&m3).unwrap_or_default(), oa, ob);
                        }
                        c.fail("different_data_unequal", "models fitted on different rows and targets compare equal although they predict differently");
                    }
                }
                _ => c.fail("different_data_unequal", "PartialEq panicked on models fitted on different data of the same shape"),
            }
        }
    }
    Some(m)
}

/// a fit that does not return within 2 s is a (counted) fit failure, not a C19 matter
fn fit_guarded<M, F>(fit: &F, d: &Data) -> Result<Result<M, String>, String>
where
    M: Send + 'static,
    F: Fn(&Data) -> Result<M, String> + Send + Clone + 'static,
{
    let f2 = fit.clone();
    let d2 = d.clone();
    match with_watchdog(2, move || f2(&d2)) {
        None => Err("fit does not return within 2 s".to_string()),
        Some(r) => r,
    }
}

/// KNOWN_FINDINGS.txt lists `property=C19 id=dbscan-eq-ignores-points`
const DBSCAN_FINDING_LISTED: bool = true;
/// KNOWN_FINDINGS.txt lists `property=C19 id=knn-eq-ignores-training-rows`: type KNNClassifier / KNNRegressor, the
/// two training matrices differ, k / targets / classes identical, `==` true, a probe row predicted differently
const KNN_FINDING: &str = "knn-eq-ignores-training-rows";
/// KNOWN_FINDINGS.txt lists `property=C19 id=eq-absolute-epsilon`: fitted on different rows / targets, every
/// floating-point field of the two serialised states within the relation's absolute tolerance, `==` true, a probe
/// row predicted / transformed differently
const EPS_FINDING: &str = "eq-absolute-epsilon";
fn known_knn(c: &mut Case, rel: &str) {
    c.out.known(KNN_FINDING, "KNNClassifier / KNNRegressor fitted on different rows with the same k, targets (and classes) compare equal although they predict differently (PartialEq never looks at the stored training rows)");
    let k = format!("known:{}:{}:{}", KNN_FINDING, c.tname, rel);
    c.out.count(&k);
}
fn known_eps(c: &mut Case, rel: &str) {
    c.out.known(EPS_FINDING, "models fitted on different rows / targets whose floating-point state agrees field by field within the relation's ABSOLUTE tolerance compare equal although they predict / transform differently");
    let k = format!("known:{}:{}:{}", EPS_FINDING, c.tname, rel);
    c.out.count(&k);
}
/// the predicate of the listed k-NN finding on the two serialised states (the caller has checked: rows differ,
/// `==` true both ways, a probe row answered differently)
fn knn_same_k_targets_classes(tname: &str, a: &Value, b: &Value) -> bool {
    let same = |keys: &[&str]| keys.iter().all(|k| !a[*k].is_null() && a[*k] == b[*k]);
    match tname {
        "KNNRegressor" => same(&["k", "y"]),
        "KNNClassifier" => same(&["k", "y", "classes"]),
        _ => false,
    }
}
fn dbscan_same_labelling<M: Serialize>(a: &M, b: &M) -> bool {
    match (serde_json::to_value(a), serde_json::to_value(b)) {
        (Ok(x), Ok(y)) => x["cluster_labels"] == y["cluster_labels"] && x["num_classes"] == y["num_classes"] && x["eps"] == y["eps"] && x["cluster_labels"].is_array(),
        _ => false,
    }
}

fn eq_of<M: PartialEq>() -> EqFn<M> {
    Some(|a: &M, b: &M| a == b)
}

// ------------------------------------------------------------------------------------------
// parameter coverage (sweep) and the related-data inequality oracle
// ------------------------------------------------------------------------------------------

/// One estimator with its parameter type.  `base` = the (random) parameters of this case,
/// `variants` = `base` with one field moved to each of its other values (Option fields None / Some,
/// every enum variant, booleans both ways, boundary values), labelled for the evidence counters.
///  * Sweep mode: every variant (and `base`) is fitted and sent through both formats;
///  * Search mode: `base` gets the round-trip / equality clauses, then the related-data oracle, in
///    which a few variants serve as "same data, different parameter value".
#[allow(clippy::too_many_arguments)]
fn run_est<M, P, F, O>(c: &mut Case, rng: &mut Rng, d: &Data, d2: &Data, base: P, variants: Vec<(String, P)>, check_p: Option<fn(&mut Case, &P)>, fit: F, eq: EqFn<M>, obs: O, deterministic: bool)
where
    M: Serialize + DeserializeOwned + Debug + Send + 'static,
    P: Clone + Debug + Send + 'static,
    F: Fn(&Data, &P) -> Result<M, String> + Send + Clone + 'static,
    O: Fn(&M, &Data) -> Vec<f64>,
{
    let with = |p: &P| {
        let (f, p) = (fit.clone(), p.clone());
        move |d: &Data| f(d, &p)
    };
    match c.mode {
        Mode::Sweep => {
            let mut all = vec![("base".to_string(), base)];
            all.extend(variants);
            for (label, p) in all {
                c.input["variant"] = json!(label);
                if let Some(cp) = check_p {
                    cp(c, &p);
                }
                sweep_one(c, d, with(&p), eq, &obs, &label);
            }
            c.input.as_object_mut().map(|o| o.remove("variant"));
        }
        Mode::Search => {
            if let Some(cp) = check_p {
                cp(c, &base);
            }
            if let Some(m) = run_type(c, d, d2, with(&base), eq, &obs, deterministic) {
                let mut alts: Vec<(String, _)> = vec![];
                let bdbg = format!("{:?}", base);
                let variants: Vec<(String, P)> = variants.into_iter().filter(|(_, p)| format!("{:?}", p) != bdbg).collect();
                if !variants.is_empty() {
                    for _ in 0..2 {
                        let (l, p) = rng.pick(&variants);
                        if !alts.iter().any(|(x, _)| x == l) {
                            alts.push((l.clone(), with(p)));
                        }
                    }
                }
                run_related(c, rng, d, d2, &m, with(&base), alts, eq, &obs);
            }
        }
    }
}

/// coverage of one (type, parameter variant): fit, then every round-trip clause in both formats
fn sweep_one<M, F, O>(c: &mut Case, d: &Data, fit: F, eq: EqFn<M>, obs: &O, label: &str)
where
    M: Serialize + DeserializeOwned + Debug + Send + 'static,
    F: Fn(&Data) -> Result<M, String> + Send + Clone + 'static,
    O: Fn(&M, &Data) -> Vec<f64>,
{
    let mut key: Vec<f64> = d.x.iter().flatten().cloned().collect();
    key.extend(d.y.iter());
    key.push(hash_of(&(c.tname.clone(), label.to_string(), c.f32m)) as f64);
    match fit_guarded(&fit, d) {
        Ok(Ok(m)) => {
            c.out.eval(hash_f64s(&key), true);
            c.out.count(&format!("coverage:{}:{}", c.tname, label));
            check_roundtrip(c, &m, eq, &|mm: &M| obs(mm, d));
        }
        Ok(Err(e)) => {
            c.out.eval(hash_f64s(&key), false);
            c.out.count(&format!("coverage-fit-error:{}:{}({})", c.tname, label, &e[..e.len().min(30)]));
        }
        Err(p) => {
            c.out.eval(hash_f64s(&key), false);
            c.out.count(&format!("coverage-fit-panic:{}:{}({})", c.tname, label, &p[..p.len().min(30)]));
        }
    }
}

fn sorted_classes(y: &[f64]) -> Vec<f64> {
    let mut cl: Vec<f64> = y.to_vec();
    cl.sort_by(|a, b| a.partial_cmp(b).unwrap_or(std::cmp::Ordering::Equal));
    cl.dedup();
    cl
}

/// Training sets systematically related to `d` (the query rows stay): what "fitted on different rows
/// and targets" looks like in practice is rarely an independent sample, far more often the same table
/// after an edit.  `d2` supplies fresh rows from the same generator.
fn related_data(rng: &mut Rng, d: &Data, d2: &Data) -> Vec<(&'static str, Data)> {
    let n = d.x.len();
    let p = d.x.first().map(|r| r.len()).unwrap_or(0);
    let has_y = d.target != Target::NoTarget;
    let mut out: Vec<(&'static str, Data)> = vec![];
    if n == 0 || p == 0 {
        return out;
    }
    // the same rows plus appended rows
    {
        let extra = rng.usize_in(1, 3.min(d2.x.len()));
        let mut v = d.clone();
        v.x.extend(d2.x[..extra].iter().cloned());
        if has_y {
            v.y.extend(d2.y[..extra].iter().cloned());
        }
        out.push(("appended-rows", v));
    }
    // a row-prefix
    if n >= 3 {
        let drop = rng.usize_in(1, (n / 4).max(1));
        let mut v = d.clone();
        v.x.truncate(n - drop);
        if has_y {
            v.y.truncate(n - drop);
        }
        out.push(("row-prefix", v));
    }
    // one target changed (classification: to another class that is present; the class set stays)
    match d.target {
        Target::Reg => {
            let i = rng.below(n);
            let ymax = d.y.iter().fold(0.0f64, |a, v| a.max(v.abs()));
            let mut v = d.clone();
            v.y[i] += 0.5 * ymax.max(1e-3) * if rng.bool() { 1.0 } else { -1.0 };
            out.push(("one-target-changed", v));
        }
        Target::Class(_) => {
            let cl = sorted_classes(&d.y);
            let cand: Vec<usize> = (0..n).filter(|i| d.y.iter().filter(|v| **v == d.y[*i]).count() >= 2).collect();
            if cl.len() >= 2 && !cand.is_empty() {
                let i = *rng.pick(&cand);
                let others: Vec<f64> = cl.iter().cloned().filter(|v| *v != d.y[i]).collect();
                let mut v = d.clone();
                v.y[i] = *rng.pick(&others);
                out.push(("one-target-changed", v));
            }
        }
        Target::NoTarget => {}
    }
    // one feature value changed
    {
        let (i, j) = (rng.below(n), rng.below(p));
        let mut v = d.clone();
        let old = v.x[i][j];
        v.x[i][j] = match d.feat {
            Feat::Cont => {
                let cmax = d.x.iter().fold(0.0f64, |a, r| a.max(r[j].abs()));
                old + 0.5 * cmax.max(1e-3) * if rng.bool() { 1.0 } else { -1.0 }
            }
            Feat::Binary => 1.0 - old,
            Feat::Count => old + 1.0,
            Feat::Cat => {
                if old > 0.0 {
                    old - 1.0
                } else {
                    1.0
                }
            }
        };
        out.push(("one-feature-changed", v));
    }
    // the same rows and targets in another order
    if n >= 2 {
        let r = rng.usize_in(1, n - 1);
        let mut v = d.clone();
        v.x.rotate_left(r);
        if has_y {
            v.y.rotate_left(r);
        }
        if v.x != d.x || v.y != d.y {
            out.push(("rows-permuted", v));
        }
    }
    // one more / one fewer class
    if let Target::Class(_) = d.target {
        let cl = sorted_classes(&d.y);
        {
            let extra = 2.min(d2.x.len());
            let newlabel = cl.last().cloned().unwrap_or(0.0) + 1.0;
            let mut v = d.clone();
            v.x.extend(d2.x[..extra].iter().cloned());
            v.y.extend((0..extra).map(|_| newlabel));
            out.push(("one-more-class", v));
        }
        if cl.len() >= 2 {
            let gone = *rng.pick(&cl);
            let mut v = d.clone();
            v.x = d.x.iter().zip(d.y.iter()).filter(|(_, y)| **y != gone).map(|(r, _)| r.clone()).collect();
            v.y = d.y.iter().cloned().filter(|y| *y != gone).collect();
            if !v.x.is_empty() {
                out.push(("one-fewer-class", v));
            }
        }
    }
    out
}

/// Both serialised states have the same structure and every pair of numbers is within 2 * machine epsilon
/// (ABSOLUTE; SVD: 1e-8, the tolerance of its approximate_eq) of each other, yet not all are identical: the
/// hand-written relations compare with an absolute tolerance, so two different models whose numbers are all tiny (seen: an f32 logistic fit on
/// nearly constant columns that stops at coefficients ~1e-8) compare equal although argmax over their scores
/// differs.  Reported; counted as observed under exactly this predicate.
fn states_within_abs_eps(a: &Value, b: &Value, eps: f64, any_diff: &mut bool) -> bool {
    match (a, b) {
        (Value::Number(x), Value::Number(y)) => {
            if x == y {
                return true;
            }
            match (x.as_f64(), y.as_f64()) {
                (Some(u), Some(v)) if x.is_f64() && y.is_f64() && (u - v).abs() <= 2.0 * eps => {
                    *any_diff = true;
                    true
                }
                _ => false,
            }
        }
        (Value::Array(x), Value::Array(y)) => x.len() == y.len() && x.iter().zip(y.iter()).all(|(u, v)| states_within_abs_eps(u, v, eps, any_diff)),
        (Value::Object(x), Value::Object(y)) => x.len() == y.len() && x.iter().all(|(k, u)| y.get(k).map(|v| states_within_abs_eps(u, v, eps, any_diff)).unwrap_or(false)),
        _ => a == b,
    }
}
fn tolerance_blind_spot<M: Serialize>(c: &Case, a: &M, b: &M) -> bool {
    // (SVD compares with approximate_eq(1e-8): half of 1e-8 here, the helper doubles it)
    let eps = if c.tname == "SVD" {
        0.5e-8
    } else if c.f32m {
        f32::EPSILON as f64
    } else {
        f64::EPSILON
    };
    match (serde_json::to_value(a), serde_json::to_value(b)) {
        (Ok(x), Ok(y)) => {
            let mut any = false;
            states_within_abs_eps(&x, &y, eps, &mut any) && any
        }
        _ => false,
    }
}

/// the predicate of the listed finding pca-eq-ignores-mu on the two serialised states (the caller has checked: the
/// training matrices differ, `==` true both ways - i.e. eigenvectors and eigenvalues agree within the relation's
/// tolerance - and a probe row is transformed differently): type PCA and the stored means differ
fn pca_same_eigen_different_mu(tname: &str, a: &Value, b: &Value) -> bool {
    tname == "PCA" && a["mu"].is_array() && a["mu"] != b["mu"]
}

/// Same rows and targets, another parameter value, equal although predicting differently: which part of the state
/// the relation does not look at (a label for the counted observation; such pairs are outside the clause about
/// different rows and targets, so nothing here decides pass / fail).
fn observed_blind_spot(tname: &str, a: &Value, b: &Value, rows_differ: bool) -> Option<&'static str> {
    let same = |keys: &[&str]| keys.iter().all(|k| !a[*k].is_null() && a[*k] == b[*k]);
    match tname {
        // k-NN: `==` looks at k and the stored targets (classifier: also the class list), never at the
        // training rows, the distance, the weight function or the search structure
        "KNNRegressor" if same(&["k", "y"]) => Some("same-k-and-stored-targets;rows/distance/weights-not-compared"),
        "KNNClassifier" if same(&["k", "y", "classes"]) => Some("same-k-classes-and-stored-targets;rows/distance/weights-not-compared"),
        // PCA: `==` looks at all p eigenvectors and eigenvalues, never at the projection (n_components), mu, pmu
        "PCA" if same(&["eigenvectors", "eigenvalues"]) && a["projection"] != b["projection"] => Some("same-eigenvectors-and-eigenvalues;projection(n_components)-not-compared"),
        // SVC / SVR: `==` looks at the support vectors, their weights and the bias (2 eps), never at the kernel
        "SVC" | "SVR"
            if same(&["instances", "w"])
                && a["kernel"] != b["kernel"]
                && (a["b"].as_f64().unwrap_or(f64::NAN) - b["b"].as_f64().unwrap_or(f64::NAN)).abs() <= 2.0 * f32::EPSILON as f64 =>
        {
            Some("same-support-vectors-weights-and-bias;kernel-not-compared")
        }
        // CoverTree: `==` compares the stored points (through the tree's own distance), not the distance object
        "CoverTree" if same(&["data"]) && a["distance"] != b["distance"] => Some("same-points;distance-object-not-compared"),
        // DBSCAN on the SAME rows (different rows: the listed finding dbscan-eq-ignores-points): `==` looks at
        // the labelling and eps, not at the distance object / min_samples / search structure
        "DBSCAN" if !rows_differ && same(&["cluster_labels", "num_classes", "eps"]) => Some("same-rows-labelling-and-eps;distance/min_samples/algorithm-not-compared"),
        _ => None,
    }
}

/// "does not equal a model fitted on different rows and targets": `m` (fitted on `d` with `fit`) against
/// models fitted on the related training sets and on the same data with another parameter value.  A pair
/// that compares equal although the two models answer some probe row differently is a failure.  Probe
/// rows: the queries, the training rows of both sets.  Permuted rows: the text does not say whether a
/// model may depend on the order of the rows, so that relation is only counted.
#[allow(clippy::too_many_arguments)]
fn run_related<M, F, O>(c: &mut Case, rng: &mut Rng, d: &Data, d2: &Data, m: &M, fit: F, alts: Vec<(String, F)>, eq: EqFn<M>, obs: &O)
where
    M: Serialize + DeserializeOwned + Debug + Send + 'static,
    F: Fn(&Data) -> Result<M, String> + Send + Clone + 'static,
    O: Fn(&M, &Data) -> Vec<f64>,
{
    let e = match eq {
        Some(e) => e,
        None => return,
    };
    let tol = if c.f32m { 1e-4 } else { 1e-9 };
    let mut plan: Vec<(String, Data, F)> = related_data(rng, d, d2).into_iter().map(|(r, dv)| (r.to_string(), dv, fit.clone())).collect();
    for (l, f) in alts {
        plan.push((format!("parameter-changed({})", l.split('=').next().unwrap_or(&l)), d.clone(), f));
    }
    for (rel, dv, f) in plan {
        let relkey = rel.split('(').next().unwrap_or(&rel).to_string();
        let mv = match fit_guarded(&f, &dv) {
            Ok(Ok(mv)) => mv,
            _ => {
                c.out.count(&format!("related:{}:fit-failed(skipped)", relkey));
                continue;
            }
        };
        let dbg = format!("{:?}", mv);
        if dbg.contains("NaN") || dbg.contains("inf") {
            c.out.count(&format!("related:{}:nonfinite-state(skipped)", relkey));
            continue;
        }
        c.out.count(&format!("related:{}:{}", c.tname, relkey));
        let mut probe = d.clone();
        probe.q.extend(d.x.iter().cloned());
        probe.q.extend(dv.x.iter().filter(|r| !d.x.contains(r)).cloned());
        let differ = match (guard(|| obs(m, &probe)), guard(|| obs(&mv, &probe))) {
            (Ok(x), Ok(y)) => !close(&x, &y, tol),
            (Err(_), Err(_)) => false,
            _ => true,
        };
        let sizes = format!("{} rows vs {} rows", d.x.len(), dv.x.len());
        // the relation survives the round trip of one operand (the restored copy stands for the original)
        if let Ok(Ok(r)) = guard(|| bincode::serialize(&mv).and_then(|b| bincode::deserialize::<M>(&b))) {
            if let (Ok(x), Ok(y)) = (guard(|| e(m, &mv)), guard(|| e(m, &r))) {
                if x != y {
                    c.fail("related_data_unequal", &format!("[{}; {}] a == b and a == restored(b) disagree", rel, sizes));
                }
            }
        }
        match (guard(|| e(m, &mv)), guard(|| e(&mv, m))) {
            (Ok(false), Ok(false)) => c.out.count(&format!("related:{}:unequal", relkey)),
            (Ok(a), Ok(b)) if a != b => c.fail("equality_symmetric", &format!("a == b and b == a disagree for a model and the model fitted on related data [{}; {}]", rel, sizes)),
            (Ok(_), Ok(_)) if !differ => c.out.count(&format!("related:{}:equal-and-indistinguishable-on-all-probes", relkey)),
            (Ok(_), Ok(_)) if relkey == "rows-permuted" => c.out.count("related:rows-permuted:equal-but-predict-differently(counted-only)"),
            (Ok(_), Ok(_)) => {
                let (sa, sb) = (serde_json::to_value(m).unwrap_or(Value::Null), serde_json::to_value(&mv).unwrap_or(Value::Null));
                let rows_differ = d.x != dv.x;
                let data_changed = rows_differ || d.y != dv.y;
                if !data_changed {
                    // same rows and targets, another parameter value: OUTSIDE the clause "does not equal a model
                    // fitted on different rows and targets" (coordinator's reading).  Counted observation, with the
                    // blind spot of the relation that explains it where one is known.
                    let why = if tolerance_blind_spot(c, m, &mv) { "all-state-within-absolute-epsilon" } else { observed_blind_spot(&c.tname, &sa, &sb, rows_differ).unwrap_or("unclassified") };
                    c.out.count(&format!("observed:{}:{}:equal-but-predict-differently({})[same-data:outside-the-clause]", c.tname, relkey, why));
                } else if c.tname == "DBSCAN" && rows_differ && dbscan_same_labelling(m, &mv) {
                    // the listed finding, exact predicate: different rows, same labelling, equal
                    if DBSCAN_FINDING_LISTED {
                        c.out.known("dbscan-eq-ignores-points", "DBSCAN models fitted on different rows with the same label vector compare equal (PartialEq ignores the stored points)");
                    }
                    c.out.count("observe:dbscan-eq-ignores-points(different-rows,same-labelling,equal)");
                } else if rows_differ && knn_same_k_targets_classes(&c.tname, &sa, &sb) {
                    // the listed finding, exact predicate: KNN*, training matrices differ, k / targets / classes identical,
                    // == true, a probe row predicted differently
                    known_knn(c, &relkey);
                } else if tolerance_blind_spot(c, m, &mv) {
                    // the listed finding: different rows / targets, all floating-point state within the absolute tolerance
                    known_eps(c, &relkey);
                } else if rows_differ && pca_same_eigen_different_mu(&c.tname, &sa, &sb) {
                    known_pca_mu(c, &relkey);
                } else {
                    c.out.count(&format!("fail-detail:related_data_unequal:{}:{}", c.tname, relkey));
                    c.fail(
                        "related_data_unequal",
                        &format!("[{}; {}] the two models compare equal (both directions) although they predict differently on some probe row", rel, sizes),
                    );
                }
            }
            _ => c.fail("related_data_unequal", &format!("[{}; {}] PartialEq panicked", rel, sizes)),
        }
    }
}

// ------------------------------------------------------------------------------------------
// per-type cases (generic in the scalar width)
// ------------------------------------------------------------------------------------------

fn case_dense_matrix<T: Num>(c: &mut Case, rng: &mut Rng, shape: Option<(usize, usize)>) {
    let n = rng.below(9);
    let p = if n == 0 { 0 } else { rng.usize_in(1, 9) };
    let (n, p) = shape.unwrap_or((n, p));
    let special = rng.chance(0.2);
    let mkv = |rng: &mut Rng| -> Vec<f64> {
        (0..n * p)
            .map(|_| {
                if special {
                    if T::F32 {
                        *rng.pick(&[0.0, -0.0, 1.0, f32::MIN_POSITIVE as f64, 1e-40f32 as f64, f32::MAX as f64, -(f32::MAX as f64), 0.1f32 as f64, (1.0f32 / 3.0) as f64, 1e-45f32 as f64])
                    } else {
                        *rng.pick(&[0.0, -0.0, 1.0, f64::MIN_POSITIVE, 1e-310, f64::MAX, -f64::MAX, 0.1, 1.0 / 3.0, 5e-324])
                    }
                } else if T::F32 {
                    rng.normal() * 10f64.powi(rng.int(-6, 6) as i32)
                } else {
                    rng.normal() * 10f64.powi(rng.int(-6, 6) as i32)
                }
            })
            .collect()
    };
    let v1 = mkv(rng);
    let mut v2 = mkv(rng);
    if n * p > 0 {
        // "different data" for a relation with tolerance machine-epsilon: at least one entry differs visibly
        v2[0] = if v1[0].abs() < 1e3 { v1[0] + 1.0 } else { 0.5 };
    }
    c.input["nrows"] = json!(n);
    c.input["ncols"] = json!(p);
    c.input["values_column_major"] = json!(v1);
    let d = Data { x: vec![v1.clone()], y: vec![], q: vec![], feat: Feat::Cont, target: Target::NoTarget };
    let d2 = Data { x: vec![v2], y: vec![], q: vec![], feat: Feat::Cont, target: Target::NoTarget };
    if n * p == 0 {
        // nothing to tell two empty matrices apart
        let m: DenseMatrix<T> = DenseMatrix::new(n, p, vec![]);
        c.out.eval(hash_of(&(n, p, T::F32)), true);
        check_roundtrip(c, &m, eq_of(), &|mm: &DenseMatrix<T>| matf(mm));
        return;
    }
    // different data in the weakest visible sense: one entry moved by 1 (up or down) must be detected,
    // in both directions; so must a transposed shape with the same storage
    {
        let a: DenseMatrix<T> = DenseMatrix::new(n, p, vect::<T>(&v1));
        let i = rng.below(n * p);
        let mut w = v1.clone();
        let delta = if rng.bool() { 1.0 } else { -1.0 };
        w[i] = if v1[i].abs() < 1e3 { v1[i] + delta } else { 0.5 * delta };
        let b: DenseMatrix<T> = DenseMatrix::new(n, p, vect::<T>(&w));
        if a == b || b == a {
            c.fail("different_data_unequal", &format!("matrices that differ by 1 in entry {} compare equal", i));
        }
        if n != p {
            let tshape: DenseMatrix<T> = DenseMatrix::new(p, n, vect::<T>(&v1));
            if a == tshape || tshape == a {
                c.fail("different_data_unequal", "an n x p and a p x n matrix with the same storage compare equal");
            }
        }
    }
    run_type(
        c,
        &d,
        &d2,
        move |d: &Data| Ok(DenseMatrix::<T>::new(n, p, vect::<T>(&d.x[0]))),
        eq_of(),
        &|m: &DenseMatrix<T>, _d: &Data| {
            let mut o = matf(m);
            // raw storage, a transpose and a product exercise the restored shape
            o.extend(matf(&m.transpose()));
            o.extend(vecf(&m.get_col_as_vec(0)));
            o.extend(vecf(&m.get_row_as_vec(n - 1)));
            o
        },
        true,
    );
}

/// `vs.push((label, base with one field changed))`
macro_rules! var {
    ($vs:ident, $base:ident, $label:expr, |$p:ident| $body:expr) => {{
        #[allow(unused_mut)]
        let mut $p = $base.clone();
        $body;
        $vs.push(($label.to_string(), $p));
    }};
}

fn predict_obs<T: Num>(r: Result<Vec<T>, Failed>) -> Vec<f64> {
    let mut o = vec![];
    push_res(&mut o, r);
    o
}

fn case_linear<T: Num>(c: &mut Case, rng: &mut Rng, which: usize) {
    let p = rng.usize_in(1, 5);
    let n = rng.usize_in(p + 2, p + 30);
    let (mut d, mut d2) = gen_data(rng, n, p, Feat::Cont, Target::Reg, true, true);
    if T::F32 && which >= 2 {
        // Lasso / ElasticNet in f32 on data of scale 1e3 may never return (reported; not a C19 matter)
        let sc = d.x.iter().flatten().fold(0.0f64, |a, v| a.max(v.abs())).max(1e-300);
        let ys = d.y.iter().chain(d2.y.iter()).fold(0.0f64, |a, v| a.max(v.abs())).max(1e-300);
        for dd in [&mut d, &mut d2] {
            for r in dd.x.iter_mut().chain(dd.q.iter_mut()) {
                for v in r.iter_mut() {
                    *v /= sc;
                }
            }
            for v in dd.y.iter_mut() {
                *v /= ys;
            }
        }
    }
    describe(c, &d, "");
    match which {
        0 => {
            let solver_qr = rng.bool();
            c.input["params"] = json!(format!("solver_qr={}", solver_qr));
            let base = LinearRegressionParameters::default().with_solver(if solver_qr { LinearRegressionSolverName::QR } else { LinearRegressionSolverName::SVD });
            let mut vs = vec![];
            var!(vs, base, "solver=QR", |p| p.solver = LinearRegressionSolverName::QR);
            var!(vs, base, "solver=SVD", |p| p.solver = LinearRegressionSolverName::SVD);
            run_est(
                c,
                rng,
                &d,
                &d2,
                base,
                vs,
                Some(check_params),
                |d: &Data, p: &LinearRegressionParameters| LinearRegression::fit(&mat::<T>(&d.x), &vect::<T>(&d.y), p.clone()).map_err(|e| e.to_string()),
                eq_of(),
                |m: &LinearRegression<T, DenseMatrix<T>>, d: &Data| predict_obs(m.predict(&mat::<T>(&d.q))),
                true,
            );
        }
        1 => {
            let mut alpha = *rng.pick(&[0.01, 0.5, 1.0, 10.0]);
            if degen() > 0 && rng.chance(0.4) {
                alpha = 0.0;
            }
            let chol = rng.bool();
            let norm = rng.bool();
            c.input["params"] = json!(format!("alpha={} cholesky={} normalize={}", alpha, chol, norm));
            let base = RidgeRegressionParameters::default()
                .with_alpha(t::<T>(alpha))
                .with_normalize(norm)
                .with_solver(if chol { RidgeRegressionSolverName::Cholesky } else { RidgeRegressionSolverName::SVD });
            let mut vs = vec![];
            var!(vs, base, "solver=Cholesky", |p| p.solver = RidgeRegressionSolverName::Cholesky);
            var!(vs, base, "solver=SVD", |p| p.solver = RidgeRegressionSolverName::SVD);
            var!(vs, base, "normalize=true", |p| p.normalize = true);
            var!(vs, base, "normalize=false", |p| p.normalize = false);
            var!(vs, base, "alpha=0", |p| p.alpha = t::<T>(0.0));
            var!(vs, base, "alpha=1e-6", |p| p.alpha = t::<T>(1e-6));
            var!(vs, base, "alpha=1e3", |p| p.alpha = t::<T>(1e3));
            run_est(
                c,
                rng,
                &d,
                &d2,
                base,
                vs,
                Some(check_params),
                |d: &Data, p: &RidgeRegressionParameters<T>| RidgeRegression::fit(&mat::<T>(&d.x), &vect::<T>(&d.y), p.clone()).map_err(|e| e.to_string()),
                eq_of(),
                |m: &RidgeRegression<T, DenseMatrix<T>>, d: &Data| predict_obs(m.predict(&mat::<T>(&d.q))),
                true,
            );
        }
        2 => {
            let alpha = *rng.pick(&[0.001, 0.05, 0.5]);
            let norm = rng.bool();
            c.input["params"] = json!(format!("alpha={} normalize={}", alpha, norm));
            let base = LassoParameters::default().with_alpha(t::<T>(alpha)).with_normalize(norm).with_max_iter(200);
            let mut vs = vec![];
            var!(vs, base, "normalize=true", |p| p.normalize = true);
            var!(vs, base, "normalize=false", |p| p.normalize = false);
            var!(vs, base, "alpha=1e-3", |p| p.alpha = t::<T>(1e-3));
            var!(vs, base, "alpha=10(all-coefficients-zero)", |p| p.alpha = t::<T>(10.0));
            var!(vs, base, "tol=1e-2", |p| p.tol = t::<T>(1e-2));
            var!(vs, base, "tol=1e-6", |p| p.tol = t::<T>(1e-6));
            var!(vs, base, "max_iter=1", |p| p.max_iter = 1);
            var!(vs, base, "max_iter=1000", |p| p.max_iter = 1000);
            run_est(
                c,
                rng,
                &d,
                &d2,
                base,
                vs,
                Some(check_params),
                |d: &Data, p: &LassoParameters<T>| Lasso::fit(&mat::<T>(&d.x), &vect::<T>(&d.y), p.clone()).map_err(|e| e.to_string()),
                eq_of(),
                |m: &Lasso<T, DenseMatrix<T>>, d: &Data| predict_obs(m.predict(&mat::<T>(&d.q))),
                true,
            );
        }
        _ => {
            let alpha = *rng.pick(&[0.001, 0.05, 0.5]);
            let l1 = *rng.pick(&[0.2, 0.5, 0.9]);
            let norm = rng.bool();
            c.input["params"] = json!(format!("alpha={} l1_ratio={} normalize={}", alpha, l1, norm));
            let base = ElasticNetParameters::default().with_alpha(t::<T>(alpha)).with_l1_ratio(t::<T>(l1)).with_normalize(norm).with_max_iter(200);
            let mut vs = vec![];
            var!(vs, base, "normalize=true", |p| p.normalize = true);
            var!(vs, base, "normalize=false", |p| p.normalize = false);
            var!(vs, base, "alpha=1e-3", |p| p.alpha = t::<T>(1e-3));
            var!(vs, base, "alpha=10", |p| p.alpha = t::<T>(10.0));
            var!(vs, base, "l1_ratio=0.1", |p| p.l1_ratio = t::<T>(0.1));
            var!(vs, base, "l1_ratio=1", |p| p.l1_ratio = t::<T>(1.0));
            var!(vs, base, "tol=1e-2", |p| p.tol = t::<T>(1e-2));
            var!(vs, base, "tol=1e-6", |p| p.tol = t::<T>(1e-6));
            var!(vs, base, "max_iter=1", |p| p.max_iter = 1);
            var!(vs, base, "max_iter=1000", |p| p.max_iter = 1000);
            run_est(
                c,
                rng,
                &d,
                &d2,
                base,
                vs,
                Some(check_params),
                |d: &Data, p: &ElasticNetParameters<T>| ElasticNet::fit(&mat::<T>(&d.x), &vect::<T>(&d.y), p.clone()).map_err(|e| e.to_string()),
                eq_of(),
                |m: &ElasticNet<T, DenseMatrix<T>>, d: &Data| predict_obs(m.predict(&mat::<T>(&d.q))),
                true,
            );
        }
    }
}

fn describe(c: &mut Case, d: &Data, params: &str) {
    c.input["n"] = json!(d.x.len());
    c.input["p"] = json!(d.x.first().map(|r| r.len()).unwrap_or(0));
    c.input["x"] = json!(d.x);
    c.input["y"] = json!(d.y);
    c.input["queries"] = json!(d.q);
    if !params.is_empty() {
        c.input["params"] = json!(params);
    }
    if std::env::var("C19_TRACE_INPUT").is_ok() {
        eprintln!("{}", c.input);
    }
    let n = d.x.len();
    c.out.count(&format!("search:n={}", if n < 5 { "<5" } else if n < 15 { "5..14" } else { ">=15" }));
}

/// parameter structs and enums are serialisable public types too: they have no PartialEq, so the
/// restored value is compared through its Debug rendering and its bytes
fn check_params<P: Serialize + DeserializeOwned + Debug>(c: &mut Case, p: &P) {
    let saved = c.tname.clone();
    c.tname = format!("{}Parameters", saved);
    c.out.eval(hash_of(&format!("{:?}", p)), true);
    if c.mode == Mode::Sweep {
        if let Some(l) = c.input["variant"].as_str() {
            let k = format!("coverage:{}:{}", c.tname, l);
            c.out.count(&k);
        }
    }
    check_roundtrip(c, p, None, &|_: &P| vec![]);
    c.tname = saved;
}

fn case_logistic<T: Num>(c: &mut Case, rng: &mut Rng) {
    let p = rng.usize_in(1, 4);
    let k = rng.usize_in(2, 3);
    let n = rng.usize_in(k + 4, 30);
    let (d, d2) = gen_data(rng, n, p, Feat::Cont, Target::Class(k), true, true);
    let alpha = *rng.pick(&[0.0, 0.1, 1.0]);
    describe(c, &d, &format!("alpha={}", alpha));
    let base = LogisticRegressionParameters::default().with_alpha(t::<T>(alpha));
    let mut vs = vec![];
    var!(vs, base, "solver=LBFGS", |p| p.solver = smartcore::linear::logistic_regression::LogisticRegressionSolverName::LBFGS);
    var!(vs, base, "alpha=0", |p| p.alpha = t::<T>(0.0));
    var!(vs, base, "alpha=0.1", |p| p.alpha = t::<T>(0.1));
    var!(vs, base, "alpha=10", |p| p.alpha = t::<T>(10.0));
    run_est(
        c,
        rng,
        &d,
        &d2,
        base,
        vs,
        Some(check_params),
        |d: &Data, p: &LogisticRegressionParameters<T>| LogisticRegression::fit(&mat::<T>(&d.x), &vect::<T>(&d.y), p.clone()).map_err(|e| e.to_string()),
        eq_of(),
        |m: &LogisticRegression<T, DenseMatrix<T>>, d: &Data| {
            let mut o = vec![];
            push_res(&mut o, m.predict(&mat::<T>(&d.q)));
            o.extend(matf(m.coefficients()));
            o.extend(matf(m.intercept()));
            o
        },
        true,
    );
}

#[allow(clippy::too_many_arguments)]
fn knn_with<T: Num, D>(c: &mut Case, rng: &mut Rng, dist: D, dname: &str, more: Vec<(String, D)>, d: &Data, d2: &Data, regressor: bool)
where
    D: Distance<Vec<T>, T> + Serialize + DeserializeOwned + Debug + Clone + Send + Sync + 'static,
{
    let n = d.x.len();
    let k = rng.usize_in(if regressor { 1 } else { 2 }, n.min(5));
    let cover = rng.bool();
    let wdist = rng.bool();
    describe(c, d, &format!("distance={} k={} cover_tree={} weight_distance={}", dname, k, cover, wdist));
    let alg = if cover { KNNAlgorithmName::CoverTree } else { KNNAlgorithmName::LinearSearch };
    let wf = if wdist { KNNWeightFunction::Distance } else { KNNWeightFunction::Uniform };
    let dn = dname.split('(').next().unwrap_or(dname).to_string();
    let lab = |s: &str| format!("distance={},{}", dn, s);
    if regressor {
        let base = KNNRegressorParameters::default().with_k(k).with_algorithm(alg).with_weight(wf).with_distance(dist);
        let mut vs = vec![];
        var!(vs, base, lab("algorithm=LinearSearch"), |p| p.algorithm = KNNAlgorithmName::LinearSearch);
        var!(vs, base, lab("algorithm=CoverTree"), |p| p.algorithm = KNNAlgorithmName::CoverTree);
        var!(vs, base, lab("weight=Uniform"), |p| p.weight = KNNWeightFunction::Uniform);
        var!(vs, base, lab("weight=Distance"), |p| p.weight = KNNWeightFunction::Distance);
        var!(vs, base, lab("k=1"), |p| p.k = 1);
        var!(vs, base, lab("k=n"), |p| p.k = n);
        for (l, dv) in more.iter() {
            var!(vs, base, format!("distance={}", l), |p| p = p.with_distance(dv.clone()));
        }
        run_est(
            c,
            rng,
            d,
            d2,
            base,
            vs,
            Some(check_params),
            |d: &Data, p: &KNNRegressorParameters<T, D>| KNNRegressor::fit(&mat::<T>(&d.x), &vect::<T>(&d.y), p.clone()).map_err(|e| e.to_string()),
            eq_of(),
            |m: &KNNRegressor<T, D>, d: &Data| predict_obs(m.predict(&mat::<T>(&d.q))),
            true,
        );
    } else {
        let base = KNNClassifierParameters::default().with_k(k).with_algorithm(alg).with_weight(wf).with_distance(dist);
        let mut vs = vec![];
        var!(vs, base, lab("algorithm=LinearSearch"), |p| p.algorithm = KNNAlgorithmName::LinearSearch);
        var!(vs, base, lab("algorithm=CoverTree"), |p| p.algorithm = KNNAlgorithmName::CoverTree);
        var!(vs, base, lab("weight=Uniform"), |p| p.weight = KNNWeightFunction::Uniform);
        var!(vs, base, lab("weight=Distance"), |p| p.weight = KNNWeightFunction::Distance);
        var!(vs, base, lab("k=2(smallest-legal)"), |p| p.k = 2);
        var!(vs, base, lab("k=n"), |p| p.k = n);
        for (l, dv) in more.iter() {
            var!(vs, base, format!("distance={}", l), |p| p = p.with_distance(dv.clone()));
        }
        run_est(
            c,
            rng,
            d,
            d2,
            base,
            vs,
            Some(check_params),
            |d: &Data, p: &KNNClassifierParameters<T, D>| KNNClassifier::fit(&mat::<T>(&d.x), &vect::<T>(&d.y), p.clone()).map_err(|e| e.to_string()),
            eq_of(),
            |m: &KNNClassifier<T, D>, d: &Data| predict_obs(m.predict(&mat::<T>(&d.q))),
            true,
        );
    }
}

/// the distance families: which = 0..5; in Sweep mode every family is visited
fn distance_choices(c: &mut Case, rng: &mut Rng) -> Vec<usize> {
    let w = rng.below(5);
    if c.mode == Mode::Sweep {
        (0..5).collect()
    } else if degen() > 0 && w == 4 {
        // Mahalanobis needs a non-singular covariance; on rank-deficient data the object is ill-defined (distinct
        // points at distance 0: C17's matter).  Counted exclusion.
        c.out.count("degenerate:mahalanobis-excluded(singular-covariance)");
        vec![rng.below(4)]
    } else {
        vec![w]
    }
}
fn minkowski_others(pp: u16) -> Vec<(String, Minkowski)> {
    (1u16..=4).filter(|q| *q != pp).map(|q| (format!("minkowski(p={})", q), Distances::minkowski(q))).collect()
}

fn case_knn<T: Num>(c: &mut Case, rng: &mut Rng, regressor: bool) {
    let p = rng.usize_in(1, 4);
    let n = rng.usize_in(p + 3, 30);
    let kcls = rng.usize_in(2, 3);
    for which in distance_choices(c, rng) {
        let (d, d2) = gen_data(rng, n, p, Feat::Cont, if regressor { Target::Reg } else { Target::Class(kcls) }, which == 4, true);
        match which {
            0 => knn_with::<T, _>(c, rng, Distances::euclidian(), "euclidian", vec![], &d, &d2, regressor),
            1 => knn_with::<T, _>(c, rng, Distances::manhattan(), "manhattan", vec![], &d, &d2, regressor),
            2 => {
                let pp = rng.usize_in(1, 4) as u16;
                knn_with::<T, _>(c, rng, Distances::minkowski(pp), &format!("minkowski({})", pp), minkowski_others(pp), &d, &d2, regressor)
            }
            3 => knn_with::<T, _>(c, rng, Distances::hamming(), "hamming", vec![], &d, &d2, regressor),
            _ => match guard(|| Distances::mahalanobis(&mat::<T>(&d.x))) {
                Ok(md) => knn_with::<T, Mahalanobis<T, DenseMatrix<T>>>(c, rng, md, "mahalanobis", vec![], &d, &d2, regressor),
                Err(_) => c.count("search:fit-panic(mahalanobis-singular)"),
            },
        }
    }
}

fn case_tree<T: Num>(c: &mut Case, rng: &mut Rng, which: usize) {
    let p = rng.usize_in(1, 4);
    let n = rng.usize_in(4, 40);
    let classifier = which % 2 == 0;
    let k = rng.usize_in(2, 4).min(n);
    let (d, d2) = gen_data(rng, n, p, Feat::Cont, if classifier { Target::Class(k) } else { Target::Reg }, false, true);
    let depth = if rng.bool() { Some(rng.usize_in(1, 6) as u16) } else { None };
    let leaf = rng.usize_in(1, 3);
    let split = rng.usize_in(2, 5);
    let crit = rng.below(3);
    let ntrees = rng.usize_in(1, 6);
    let seed = rng.next_u64() % 1000;
    let mtry = if rng.bool() { Some(rng.usize_in(1, p)) } else { None };
    let keep = rng.chance(0.3);
    describe(c, &d, &format!("max_depth={:?} min_samples_leaf={} min_samples_split={} criterion={} n_trees={} seed={} m={:?} keep_samples={}", depth, leaf, split, crit, ntrees, seed, mtry, keep));
    let criterion = match crit {
        0 => SplitCriterion::Gini,
        1 => SplitCriterion::Entropy,
        _ => SplitCriterion::ClassificationError,
    };
    // the fields shared by the four parameter structs
    macro_rules! tree_vars {
        ($vs:ident, $base:ident) => {
            var!($vs, $base, "max_depth=None", |p| p.max_depth = None);
            var!($vs, $base, "max_depth=Some(1)", |p| p.max_depth = Some(1));
            var!($vs, $base, "max_depth=Some(65535)", |p| p.max_depth = Some(u16::MAX));
            var!($vs, $base, "min_samples_leaf=1", |p| p.min_samples_leaf = 1);
            var!($vs, $base, "min_samples_leaf=n", |p| p.min_samples_leaf = n);
            var!($vs, $base, "min_samples_split=2", |p| p.min_samples_split = 2);
            var!($vs, $base, "min_samples_split=n+1", |p| p.min_samples_split = n + 1);
        };
    }
    macro_rules! crit_vars {
        ($vs:ident, $base:ident) => {
            var!($vs, $base, "criterion=Gini", |p| p.criterion = SplitCriterion::Gini);
            var!($vs, $base, "criterion=Entropy", |p| p.criterion = SplitCriterion::Entropy);
            var!($vs, $base, "criterion=ClassificationError", |p| p.criterion = SplitCriterion::ClassificationError);
        };
    }
    macro_rules! forest_vars {
        ($vs:ident, $base:ident) => {
            var!($vs, $base, "n_trees=1", |p| p.n_trees = 1);
            var!($vs, $base, "n_trees=7", |p| p.n_trees = 7);
            var!($vs, $base, "m=None", |p| p.m = None);
            var!($vs, $base, "m=Some(1)", |p| p.m = Some(1));
            var!($vs, $base, "m=Some(p)", |p| p.m = Some(d.x[0].len()));
            var!($vs, $base, "keep_samples=true", |p| p.keep_samples = true);
            var!($vs, $base, "keep_samples=false", |p| p.keep_samples = false);
            var!($vs, $base, "seed=0", |p| p.seed = 0);
            var!($vs, $base, "seed=u64::MAX", |p| p.seed = u64::MAX);
        };
    }
    match which {
        0 => {
            let mut base = DecisionTreeClassifierParameters::default().with_criterion(criterion).with_min_samples_leaf(leaf).with_min_samples_split(split);
            base.max_depth = depth;
            let mut vs = vec![];
            crit_vars!(vs, base);
            tree_vars!(vs, base);
            run_est(
                c,
                rng,
                &d,
                &d2,
                base,
                vs,
                Some(check_params),
                |d: &Data, p: &DecisionTreeClassifierParameters| DecisionTreeClassifier::fit(&mat::<T>(&d.x), &vect::<T>(&d.y), p.clone()).map_err(|e| e.to_string()),
                eq_of(),
                |m: &DecisionTreeClassifier<T>, d: &Data| predict_obs(m.predict(&mat::<T>(&d.q))),
                true,
            );
        }
        1 => {
            let mut base = DecisionTreeRegressorParameters::default().with_min_samples_leaf(leaf).with_min_samples_split(split);
            base.max_depth = depth;
            let mut vs = vec![];
            tree_vars!(vs, base);
            run_est(
                c,
                rng,
                &d,
                &d2,
                base,
                vs,
                Some(check_params),
                |d: &Data, p: &DecisionTreeRegressorParameters| DecisionTreeRegressor::fit(&mat::<T>(&d.x), &vect::<T>(&d.y), p.clone()).map_err(|e| e.to_string()),
                eq_of(),
                |m: &DecisionTreeRegressor<T>, d: &Data| predict_obs(m.predict(&mat::<T>(&d.q))),
                true,
            );
        }
        2 => {
            let mut base = RandomForestClassifierParameters::default()
                .with_criterion(criterion)
                .with_min_samples_leaf(leaf)
                .with_min_samples_split(split)
                .with_n_trees(ntrees as u16)
                .with_keep_samples(keep)
                .with_seed(seed);
            base.max_depth = depth;
            base.m = mtry;
            let mut vs = vec![];
            crit_vars!(vs, base);
            tree_vars!(vs, base);
            forest_vars!(vs, base);
            run_est(
                c,
                rng,
                &d,
                &d2,
                base,
                vs,
                Some(check_params),
                |d: &Data, p: &RandomForestClassifierParameters| RandomForestClassifier::fit(&mat::<T>(&d.x), &vect::<T>(&d.y), p.clone()).map_err(|e| e.to_string()),
                eq_of(),
                |m: &RandomForestClassifier<T>, d: &Data| predict_obs(m.predict(&mat::<T>(&d.q))),
                true,
            );
        }
        _ => {
            let mut base = RandomForestRegressorParameters::default().with_min_samples_leaf(leaf).with_min_samples_split(split).with_n_trees(ntrees).with_keep_samples(keep).with_seed(seed);
            base.max_depth = depth;
            base.m = mtry;
            let mut vs = vec![];
            tree_vars!(vs, base);
            forest_vars!(vs, base);
            run_est(
                c,
                rng,
                &d,
                &d2,
                base,
                vs,
                Some(check_params),
                |d: &Data, p: &RandomForestRegressorParameters| RandomForestRegressor::fit(&mat::<T>(&d.x), &vect::<T>(&d.y), p.clone()).map_err(|e| e.to_string()),
                eq_of(),
                |m: &RandomForestRegressor<T>, d: &Data| predict_obs(m.predict(&mat::<T>(&d.q))),
                true,
            );
        }
    }
}

fn case_nb<T: Num>(c: &mut Case, rng: &mut Rng, which: usize) {
    let p = rng.usize_in(1, 5);
    let k = rng.usize_in(2, 3);
    let n = rng.usize_in(2 * k + 1, 30);
    let feat = match which {
        0 => Feat::Cont,
        1 => Feat::Binary,
        2 => Feat::Count,
        _ => Feat::Cat,
    };
    let (d, d2) = gen_data(rng, n, p, feat, Target::Class(k), true, true);
    let mut alpha = *rng.pick(&[0.5, 1.0, 2.0]);
    if degen() > 0 && rng.chance(0.6) {
        alpha = 0.0; // "0 for no smoothing": ln 0 = -inf for a (category, class) pair that never occurs
    }
    let uniform: Vec<T> = (0..k).map(|_| t::<T>(1.0 / k as f64)).collect();
    let skewed: Vec<T> = (0..k).map(|i| t::<T>(if i == 0 { 1.0 - 0.125 * (k - 1) as f64 } else { 0.125 })).collect();
    let priors = rng.bool();
    match which {
        0 => {
            describe(c, &d, &format!("priors={}", priors));
            let mut base = GaussianNBParameters::default();
            if priors {
                base = base.with_priors(uniform.clone());
            }
            let mut vs = vec![];
            var!(vs, base, "priors=None", |p| p.priors = None);
            var!(vs, base, "priors=Some(uniform)", |p| p.priors = Some(uniform.clone()));
            var!(vs, base, "priors=Some(skewed)", |p| p.priors = Some(skewed.clone()));
            run_est(
                c,
                rng,
                &d,
                &d2,
                base,
                vs,
                Some(check_params),
                |d: &Data, p: &GaussianNBParameters<T>| GaussianNB::fit(&mat::<T>(&d.x), &vect::<T>(&d.y), p.clone()).map_err(|e| e.to_string()),
                eq_of(),
                |m: &GaussianNB<T, DenseMatrix<T>>, d: &Data| predict_obs(m.predict(&mat::<T>(&d.q))),
                true,
            );
        }
        1 => {
            // the data are 0/1 already: a threshold in (0, 1), the default threshold 0 and no threshold at
            // all ("the input consists of binary vectors") describe the same model
            let bz = *rng.pick(&[Some(0.5), Some(0.0), None]);
            describe(c, &d, &format!("alpha={} binarize={:?} priors={}", alpha, bz, priors));
            let mut base = BernoulliNBParameters::default().with_alpha(t::<T>(alpha));
            base.binarize = bz.map(|v| t::<T>(v));
            if priors {
                base = base.with_priors(uniform.clone());
            }
            let mut vs = vec![];
            var!(vs, base, "binarize=None", |p| p.binarize = None);
            var!(vs, base, "binarize=Some(0)", |p| p.binarize = Some(t::<T>(0.0)));
            var!(vs, base, "binarize=Some(0.5)", |p| p.binarize = Some(t::<T>(0.5)));
            var!(vs, base, "priors=None", |p| p.priors = None);
            var!(vs, base, "priors=Some(uniform)", |p| p.priors = Some(uniform.clone()));
            var!(vs, base, "priors=Some(skewed)", |p| p.priors = Some(skewed.clone()));
            var!(vs, base, "priors=None,binarize=None", |p| {
                p.priors = None;
                p.binarize = None
            });
            var!(vs, base, "priors=Some,binarize=None", |p| {
                p.priors = Some(uniform.clone());
                p.binarize = None
            });
            var!(vs, base, "alpha=0(boundary)", |p| p.alpha = t::<T>(0.0));
            var!(vs, base, "alpha=1e-6", |p| p.alpha = t::<T>(1e-6));
            var!(vs, base, "alpha=100", |p| p.alpha = t::<T>(100.0));
            run_est(
                c,
                rng,
                &d,
                &d2,
                base,
                vs,
                Some(check_params),
                |d: &Data, p: &BernoulliNBParameters<T>| BernoulliNB::fit(&mat::<T>(&d.x), &vect::<T>(&d.y), p.clone()).map_err(|e| e.to_string()),
                eq_of(),
                |m: &BernoulliNB<T, DenseMatrix<T>>, d: &Data| predict_obs(m.predict(&mat::<T>(&d.q))),
                true,
            );
        }
        2 => {
            describe(c, &d, &format!("alpha={} priors={}", alpha, priors));
            let mut base = MultinomialNBParameters::default().with_alpha(t::<T>(alpha));
            if priors {
                base = base.with_priors(uniform.clone());
            }
            let mut vs = vec![];
            var!(vs, base, "priors=None", |p| p.priors = None);
            var!(vs, base, "priors=Some(uniform)", |p| p.priors = Some(uniform.clone()));
            var!(vs, base, "priors=Some(skewed)", |p| p.priors = Some(skewed.clone()));
            var!(vs, base, "alpha=0(boundary)", |p| p.alpha = t::<T>(0.0));
            var!(vs, base, "alpha=1e-6", |p| p.alpha = t::<T>(1e-6));
            var!(vs, base, "alpha=100", |p| p.alpha = t::<T>(100.0));
            run_est(
                c,
                rng,
                &d,
                &d2,
                base,
                vs,
                Some(check_params),
                |d: &Data, p: &MultinomialNBParameters<T>| MultinomialNB::fit(&mat::<T>(&d.x), &vect::<T>(&d.y), p.clone()).map_err(|e| e.to_string()),
                eq_of(),
                |m: &MultinomialNB<T, DenseMatrix<T>>, d: &Data| predict_obs(m.predict(&mat::<T>(&d.q))),
                true,
            );
        }
        _ => {
            describe(c, &d, &format!("alpha={}", alpha));
            let base = CategoricalNBParameters::default().with_alpha(t::<T>(alpha));
            let mut vs = vec![];
            var!(vs, base, "alpha=0(boundary)", |p| p.alpha = t::<T>(0.0));
            var!(vs, base, "alpha=1e-6", |p| p.alpha = t::<T>(1e-6));
            var!(vs, base, "alpha=1", |p| p.alpha = t::<T>(1.0));
            var!(vs, base, "alpha=100", |p| p.alpha = t::<T>(100.0));
            run_est(
                c,
                rng,
                &d,
                &d2,
                base,
                vs,
                Some(check_params),
                |d: &Data, p: &CategoricalNBParameters<T>| CategoricalNB::fit(&mat::<T>(&d.x), &vect::<T>(&d.y), p.clone()).map_err(|e| e.to_string()),
                eq_of(),
                |m: &CategoricalNB<T, DenseMatrix<T>>, d: &Data| predict_obs(m.predict(&mat::<T>(&d.q))),
                true,
            );
        }
    }
}

#[allow(clippy::too_many_arguments)]
fn svm_with<T: Num, K>(c: &mut Case, rng: &mut Rng, kernel: K, kname: &str, more: Vec<(String, K)>, d: &Data, d2: &Data, regressor: bool)
where
    K: Kernel<T, Vec<T>> + Serialize + DeserializeOwned + Debug + Clone + Send + Sync + 'static,
{
    let cc = *rng.pick(&[0.5, 1.0, 10.0]);
    let eps = *rng.pick(&[0.1, 0.5, 1.0]);
    describe(c, d, &format!("kernel={} c={} eps={}", kname, cc, eps));
    let kn = kname.split('(').next().unwrap_or(kname).to_string();
    // the kernel alone is a serialisable public type (no PartialEq): round trip + kernel values
    {
        let saved = c.tname.clone();
        c.tname = format!("kernel:{}", kn);
        let qs = rows_t::<T>(&d.q);
        let xs = rows_t::<T>(&d.x);
        let mut all = vec![(kname.to_string(), kernel.clone())];
        if c.mode == Mode::Sweep {
            all.extend(more.iter().cloned());
        }
        for (l, kv) in all {
            c.out.eval(hash_of(&format!("{:?}{:?}", kv, d.q)), true);
            if c.mode == Mode::Sweep {
                c.out.count(&format!("coverage:kernel:{}", l));
                c.input["variant"] = json!(format!("kernel={}", l));
            }
            check_roundtrip(c, &kv, None, &|kk: &K| {
                let mut o = vec![];
                for a in qs.iter() {
                    for b in xs.iter().take(4) {
                        o.push(f(kk.apply(a, b)));
                    }
                }
                o
            });
        }
        c.tname = saved;
    }
    let lab = |s: &str| format!("kernel={},{}", kn, s);
    if regressor {
        let base: SVRParameters<T, DenseMatrix<T>, K> = SVRParameters::default().with_c(t::<T>(cc)).with_eps(t::<T>(eps)).with_kernel(kernel);
        let mut vs = vec![];
        var!(vs, base, lab("eps=0.01"), |p| p.eps = t::<T>(0.01));
        var!(vs, base, lab("eps=1"), |p| p.eps = t::<T>(1.0));
        var!(vs, base, lab("c=0.1"), |p| p.c = t::<T>(0.1));
        var!(vs, base, lab("c=100"), |p| p.c = t::<T>(100.0));
        var!(vs, base, lab("tol=0.1"), |p| p.tol = t::<T>(0.1));
        var!(vs, base, lab("tol=1e-4"), |p| p.tol = t::<T>(1e-4));
        for (l, kv) in more.iter() {
            var!(vs, base, format!("kernel={}", l), |p| p = p.with_kernel(kv.clone()));
        }
        run_est(
            c,
            rng,
            d,
            d2,
            base,
            vs,
            Some(check_params),
            |d: &Data, p: &SVRParameters<T, DenseMatrix<T>, K>| SVR::fit(&mat::<T>(&d.x), &vect::<T>(&d.y), p.clone()).map_err(|e| e.to_string()),
            eq_of(),
            |m: &SVR<T, DenseMatrix<T>, K>, d: &Data| predict_obs(m.predict(&mat::<T>(&d.q))),
            true,
        );
    } else {
        let base: SVCParameters<T, DenseMatrix<T>, K> = SVCParameters::default().with_c(t::<T>(cc)).with_epoch(2).with_kernel(kernel);
        let mut vs = vec![];
        var!(vs, base, lab("epoch=1"), |p| p.epoch = 1);
        var!(vs, base, lab("epoch=3"), |p| p.epoch = 3);
        var!(vs, base, lab("c=0.1"), |p| p.c = t::<T>(0.1));
        var!(vs, base, lab("c=100"), |p| p.c = t::<T>(100.0));
        var!(vs, base, lab("tol=0.1"), |p| p.tol = t::<T>(0.1));
        var!(vs, base, lab("tol=1e-4"), |p| p.tol = t::<T>(1e-4));
        for (l, kv) in more.iter() {
            var!(vs, base, format!("kernel={}", l), |p| p = p.with_kernel(kv.clone()));
        }
        run_est(
            c,
            rng,
            d,
            d2,
            base,
            vs,
            Some(check_params),
            |d: &Data, p: &SVCParameters<T, DenseMatrix<T>, K>| SVC::fit(&mat::<T>(&d.x), &vect::<T>(&d.y), p.clone()).map_err(|e| e.to_string()),
            eq_of(),
            |m: &SVC<T, DenseMatrix<T>, K>, d: &Data| {
                let mut o = vec![];
                push_res(&mut o, m.predict(&mat::<T>(&d.q)));
                push_res(&mut o, m.decision_function(&mat::<T>(&d.q)));
                o
            },
            false, // the visiting order of SVC::fit is drawn from an unseeded generator
        );
    }
}

fn case_svm<T: Num>(c: &mut Case, rng: &mut Rng, regressor: bool) {
    let p = rng.usize_in(1, 4);
    let n = rng.usize_in(6, 24);
    let w = rng.below(4);
    let kinds: Vec<usize> = if c.mode == Mode::Sweep { (0..4).collect() } else { vec![w] };
    for which in kinds {
        let (mut d, mut d2) = gen_data(rng, n, p, Feat::Cont, if regressor { Target::Reg } else { Target::Class(2) }, true, true);
        // keep the kernels in a sane range: standardise the scale of the features
        let sc = d.x.iter().flatten().fold(0.0f64, |a, v| a.max(v.abs())).max(1e-300);
        for dd in [&mut d, &mut d2] {
            for r in dd.x.iter_mut().chain(dd.q.iter_mut()) {
                for v in r.iter_mut() {
                    *v /= sc;
                }
            }
            if regressor {
                let ys = dd.y.iter().fold(0.0f64, |a, v| a.max(v.abs())).max(1e-300);
                for v in dd.y.iter_mut() {
                    *v /= ys;
                }
            }
        }
        match which {
            0 => svm_with::<T, LinearKernel>(c, rng, Kernels::linear(), "linear", vec![], &d, &d2, regressor),
            1 => {
                let g = *rng.pick(&[0.1, 0.7, 2.0]);
                let more = [0.01, 0.1, 0.7, 2.0, 50.0].iter().filter(|v| **v != g).map(|v| (format!("rbf(gamma={})", v), Kernels::rbf(t::<T>(*v)))).collect();
                svm_with::<T, RBFKernel<T>>(c, rng, Kernels::rbf(t::<T>(g)), &format!("rbf(gamma={})", g), more, &d, &d2, regressor)
            }
            2 => {
                let deg = *rng.pick(&[2.0, 3.0]);
                let g = *rng.pick(&[0.5, 1.0]);
                let c0 = *rng.pick(&[0.0, 1.0]);
                let more = [(1.0, 1.0, 0.0), (2.0, 0.5, 1.0), (3.0, 1.0, 0.0), (2.0, 1.0, -1.0), (4.0, 0.25, 0.5)]
                    .iter()
                    .filter(|v| **v != (deg, g, c0))
                    .map(|(a, b, cc)| (format!("polynomial(degree={},gamma={},coef0={})", a, b, cc), Kernels::polynomial(t::<T>(*a), t::<T>(*b), t::<T>(*cc))))
                    .collect();
                svm_with::<T, PolynomialKernel<T>>(c, rng, Kernels::polynomial(t::<T>(deg), t::<T>(g), t::<T>(c0)), &format!("polynomial(degree={},gamma={},coef0={})", deg, g, c0), more, &d, &d2, regressor)
            }
            _ => {
                let g = *rng.pick(&[0.1, 0.5]);
                let c0 = *rng.pick(&[0.0, 0.5]);
                let more = [(0.1, 0.0), (0.5, 0.5), (1.0, -1.0), (0.01, 0.0)]
                    .iter()
                    .filter(|v| **v != (g, c0))
                    .map(|(a, b)| (format!("sigmoid(gamma={},coef0={})", a, b), Kernels::sigmoid(t::<T>(*a), t::<T>(*b))))
                    .collect();
                svm_with::<T, SigmoidKernel<T>>(c, rng, Kernels::sigmoid(t::<T>(g), t::<T>(c0)), &format!("sigmoid(gamma={},coef0={})", g, c0), more, &d, &d2, regressor)
            }
        }
    }
}

fn case_kmeans<T: Num + std::iter::Sum>(c: &mut Case, rng: &mut Rng) {
    let p = rng.usize_in(1, 4);
    let k = rng.usize_in(2, 4);
    let n = rng.usize_in(k + 3, 40);
    // no offset: BBDTree::new overflows the stack on f32 data like 100 +- 1e-3 (reported; not a C19 matter)
    let (d, d2) = gen_data(rng, n, p, Feat::Cont, Target::NoTarget, true, false);
    describe(c, &d, &format!("k={}", k));
    let base = KMeansParameters::default().with_k(k).with_max_iter(50);
    let mut vs = vec![];
    var!(vs, base, "k=2", |p| p.k = 2);
    var!(vs, base, "k=5", |p| p.k = 5);
    var!(vs, base, "max_iter=1", |p| p.max_iter = 1);
    var!(vs, base, "max_iter=100", |p| p.max_iter = 100);
    run_est(
        c,
        rng,
        &d,
        &d2,
        base,
        vs,
        None, // KMeansParameters is not serialisable
        |d: &Data, p: &KMeansParameters| KMeans::<T>::fit(&mat::<T>(&d.x), p.clone()).map_err(|e| e.to_string()),
        eq_of(),
        |m: &KMeans<T>, d: &Data| {
            let mut o = vec![];
            push_res(&mut o, m.predict(&mat::<T>(&d.q)));
            push_res(&mut o, m.predict(&mat::<T>(&d.x)));
            o
        },
        false, // k-means++ seeding is drawn from an unseeded generator
    );
}

fn dbscan_with<T: Num + std::iter::Sum, D>(c: &mut Case, rng: &mut Rng, dist: D, dname: &str, more: Vec<(String, D)>, d: &Data, d2: &Data)
where
    D: Distance<Vec<T>, T> + Serialize + DeserializeOwned + Debug + Clone + Send + Sync + 'static,
{
    // eps around the typical nearest-neighbour distance so that clusters and noise both occur
    let n = d.x.len();
    let mut nn: Vec<f64> = (0..n)
        .map(|i| {
            (0..n)
                .filter(|j| *j != i)
                .map(|j| f(dist.distance(&vect::<T>(&d.x[i]), &vect::<T>(&d.x[j]))))
                .fold(f64::INFINITY, f64::min)
        })
        .collect();
    nn.sort_by(|a, b| a.partial_cmp(b).unwrap_or(std::cmp::Ordering::Equal));
    let mut eps = (nn[n / 2] * *rng.pick(&[0.8, 1.5, 3.0])).max(1e-6);
    if degen() > 0 && rng.chance(0.4) {
        eps = 1e-9; // all noise (or clusters of exact duplicates only)
    }
    let ms = rng.usize_in(1, 4);
    let cover = rng.bool();
    describe(c, d, &format!("distance={} eps={} min_samples={} cover_tree={}", dname, eps, ms, cover));
    let dn = dname.split('(').next().unwrap_or(dname).to_string();
    let lab = |s: &str| format!("distance={},{}", dn, s);
    let base = DBSCANParameters::default()
        .with_eps(t::<T>(eps))
        .with_min_samples(ms)
        .with_algorithm(if cover { KNNAlgorithmName::CoverTree } else { KNNAlgorithmName::LinearSearch })
        .with_distance(dist);
    let mut vs = vec![];
    var!(vs, base, lab("algorithm=LinearSearch"), |p| p.algorithm = KNNAlgorithmName::LinearSearch);
    var!(vs, base, lab("algorithm=CoverTree"), |p| p.algorithm = KNNAlgorithmName::CoverTree);
    var!(vs, base, lab("min_samples=1"), |p| p.min_samples = 1);
    var!(vs, base, lab("min_samples=6"), |p| p.min_samples = 6);
    var!(vs, base, lab("eps=tiny(all-noise)"), |p| p.eps = t::<T>(eps * 1e-3));
    var!(vs, base, lab("eps=huge(one-cluster)"), |p| p.eps = t::<T>(eps * 1e3));
    for (l, dv) in more.iter() {
        var!(vs, base, format!("distance={}", l), |p| p = p.with_distance(dv.clone()));
    }
    run_est(
        c,
        rng,
        d,
        d2,
        base,
        vs,
        None, // DBSCANParameters is not serialisable
        |d: &Data, p: &DBSCANParameters<T, D>| DBSCAN::fit(&mat::<T>(&d.x), p.clone()).map_err(|e| e.to_string()),
        eq_of(),
        |m: &DBSCAN<T, D>, d: &Data| predict_obs(m.predict(&mat::<T>(&d.q))),
        true,
    );
}

fn case_dbscan<T: Num + std::iter::Sum>(c: &mut Case, rng: &mut Rng) {
    let p = rng.usize_in(1, 3);
    let n = rng.usize_in(6, 40);
    for which in distance_choices(c, rng) {
        let (d, d2) = gen_data(rng, n.max(p + 3), p, Feat::Cont, Target::NoTarget, which == 4, true);
        match which {
            0 => dbscan_with::<T, _>(c, rng, Distances::euclidian(), "euclidian", vec![], &d, &d2),
            1 => dbscan_with::<T, _>(c, rng, Distances::manhattan(), "manhattan", vec![], &d, &d2),
            2 => {
                let pp = rng.usize_in(1, 3) as u16;
                dbscan_with::<T, _>(c, rng, Distances::minkowski(pp), &format!("minkowski({})", pp), minkowski_others(pp), &d, &d2)
            }
            3 => dbscan_with::<T, _>(c, rng, Distances::hamming(), "hamming", vec![], &d, &d2),
            _ => match guard(|| Distances::mahalanobis(&mat::<T>(&d.x))) {
                Ok(md) => dbscan_with::<T, Mahalanobis<T, DenseMatrix<T>>>(c, rng, md, "mahalanobis", vec![], &d, &d2),
                Err(_) => c.count("search:fit-panic(mahalanobis-singular)"),
            },
        }
    }
}

fn case_decomposition<T: Num>(c: &mut Case, rng: &mut Rng, pca: bool) {
    let p = rng.usize_in(2, 6);
    let n = rng.usize_in(p + 1, 30);
    let k = rng.usize_in(1, if pca { p } else { p - 1 });
    let (d, d2) = gen_data(rng, n, p, Feat::Cont, Target::NoTarget, true, true);
    let corr = rng.bool();
    describe(c, &d, &format!("n_components={} use_correlation_matrix={}", k, corr));
    if pca {
        let base = PCAParameters::default().with_n_components(k).with_use_correlation_matrix(corr);
        let mut vs = vec![];
        var!(vs, base, "n_components=1", |q| q.n_components = 1);
        var!(vs, base, "n_components=p", |q| q.n_components = p);
        var!(vs, base, "use_correlation_matrix=true", |q| q.use_correlation_matrix = true);
        var!(vs, base, "use_correlation_matrix=false", |q| q.use_correlation_matrix = false);
        run_est(
            c,
            rng,
            &d,
            &d2,
            base,
            vs,
            None, // PCAParameters is not serialisable
            |d: &Data, q: &PCAParameters| PCA::fit(&mat::<T>(&d.x), q.clone()).map_err(|e| e.to_string()),
            eq_of(),
            |m: &PCA<T, DenseMatrix<T>>, d: &Data| {
                let mut o = vec![];
                push_mat(&mut o, m.transform(&mat::<T>(&d.q)));
                o.extend(matf(m.components()));
                o
            },
            true,
        );
    } else {
        let base = SVDParameters::default().with_n_components(k);
        let mut vs = vec![];
        var!(vs, base, "n_components=1", |q| q.n_components = 1);
        var!(vs, base, "n_components=p-1", |q| q.n_components = p - 1);
        run_est(
            c,
            rng,
            &d,
            &d2,
            base,
            vs,
            None, // SVDParameters is not serialisable
            |d: &Data, q: &SVDParameters| SVD::fit(&mat::<T>(&d.x), q.clone()).map_err(|e| e.to_string()),
            eq_of(),
            |m: &SVD<T, DenseMatrix<T>>, d: &Data| {
                let mut o = vec![];
                push_mat(&mut o, m.transform(&mat::<T>(&d.q)));
                o.extend(matf(m.components()));
                o
            },
            true,
        );
    }
}

fn search_obs<T: Num>(o: &mut Vec<f64>, r: Result<Vec<(usize, T, &Vec<T>)>, Failed>) {
    match r {
        Ok(v) => {
            o.push(v.len() as f64);
            for (i, dist, pt) in v {
                o.push(i as f64);
                o.push(f(dist));
                o.extend(vecf(pt));
            }
        }
        Err(_) => o.push(err_marker()),
    }
}

#[allow(clippy::too_many_arguments)]
fn neighbour_with<T: Num, D>(c: &mut Case, rng: &mut Rng, dist: D, dname: &str, more: Vec<(String, D)>, d: &Data, d2: &Data, cover: bool)
where
    D: Distance<Vec<T>, T> + Serialize + DeserializeOwned + Debug + Clone + Send + Sync + 'static,
{
    let n = d.x.len();
    let k = rng.usize_in(1, n.min(4));
    let radius = *rng.pick(&[0.5, 1.0, 3.0]);
    describe(c, d, &format!("distance={} k={} radius={}", dname, k, radius));
    // the distance alone is a serialisable public type (no PartialEq)
    {
        let saved = c.tname.clone();
        c.tname = format!("distance:{}", dname.split('(').next().unwrap_or(dname));
        let qs = rows_t::<T>(&d.q);
        let xs = rows_t::<T>(&d.x);
        let mut all = vec![(dname.to_string(), dist.clone())];
        if c.mode == Mode::Sweep {
            all.extend(more.iter().cloned());
        }
        for (l, dv) in all {
            c.out.eval(hash_of(&format!("{:?}{:?}", dv, d.q)), true);
            if c.mode == Mode::Sweep {
                c.out.count(&format!("coverage:distance:{}", l.split('(').next().unwrap_or(&l)));
                c.input["variant"] = json!(format!("distance={}", l));
            }
            check_roundtrip(c, &dv, None, &|dd: &D| {
                let mut o = vec![];
                for a in qs.iter() {
                    for b in xs.iter().take(4) {
                        o.push(f(dd.distance(a, b)));
                    }
                }
                o
            });
        }
        c.tname = saved;
    }
    // the search structures have one "parameter": the distance object they own
    let mut vs: Vec<(String, D)> = vec![];
    for (l, dv) in more.iter() {
        vs.push((format!("distance={}", l), dv.clone()));
    }
    if c.mode == Mode::Sweep {
        c.input["variant"] = json!(format!("distance={}", dname));
        c.out.count(&format!("coverage:{}:distance={}", c.tname, dname.split('(').next().unwrap_or(dname)));
    }
    if cover {
        run_est(
            c,
            rng,
            d,
            d2,
            dist,
            vs,
            None,
            |d: &Data, dd: &D| CoverTree::new(rows_t::<T>(&d.x), dd.clone()).map_err(|e| e.to_string()),
            eq_of(),
            move |m: &CoverTree<Vec<T>, T, D>, d: &Data| {
                let mut o = vec![];
                for qq in rows_t::<T>(&d.q).iter() {
                    search_obs(&mut o, m.find(qq, k));
                    search_obs(&mut o, m.find_radius(qq, t::<T>(radius)));
                }
                o
            },
            true,
        );
    } else {
        run_est(
            c,
            rng,
            d,
            d2,
            dist,
            vs,
            None,
            |d: &Data, dd: &D| LinearKNNSearch::new(rows_t::<T>(&d.x), dd.clone()).map_err(|e| e.to_string()),
            None, // LinearKNNSearch has no PartialEq
            move |m: &LinearKNNSearch<Vec<T>, T, D>, d: &Data| {
                let mut o = vec![];
                for qq in rows_t::<T>(&d.q).iter() {
                    search_obs(&mut o, m.find(qq, k));
                    search_obs(&mut o, m.find_radius(qq, t::<T>(radius)));
                }
                o
            },
            true,
        );
    }
}

fn case_neighbour<T: Num>(c: &mut Case, rng: &mut Rng, cover: bool) {
    let p = rng.usize_in(1, 4);
    let n = rng.usize_in(1, 30);
    for which in distance_choices(c, rng) {
        let (d, d2) = gen_data(rng, n.max(if which == 4 { p + 3 } else { 1 }), p, Feat::Cont, Target::NoTarget, which == 4, true);
        match which {
            0 => neighbour_with::<T, _>(c, rng, Distances::euclidian(), "euclidian", vec![], &d, &d2, cover),
            1 => neighbour_with::<T, _>(c, rng, Distances::manhattan(), "manhattan", vec![], &d, &d2, cover),
            2 => {
                let pp = rng.usize_in(1, 4) as u16;
                neighbour_with::<T, _>(c, rng, Distances::minkowski(pp), &format!("minkowski({})", pp), minkowski_others(pp), &d, &d2, cover)
            }
            3 => neighbour_with::<T, _>(c, rng, Distances::hamming(), "hamming", vec![], &d, &d2, cover),
            _ => match guard(|| Distances::mahalanobis(&mat::<T>(&d.x))) {
                Ok(md) => neighbour_with::<T, Mahalanobis<T, DenseMatrix<T>>>(c, rng, md, "mahalanobis", vec![], &d, &d2, cover),
                Err(_) => c.count("search:fit-panic(mahalanobis-singular)"),
            },
        }
    }
}

/// small public serialisable types without data: enums, metric structs, the error type
fn case_small_types(c: &mut Case, rng: &mut Rng) {
    use smartcore::linear::logistic_regression::LogisticRegressionSolverName;
    use smartcore::metrics::{ClassificationMetrics, ClusterMetrics, RegressionMetrics};
    c.input["params"] = json!("enums / metric structs / Failed");
    fn one<P: Serialize + DeserializeOwned + Debug>(c: &mut Case, name: &str, p: &P) {
        let saved = c.tname.clone();
        c.tname = name.to_string();
        c.out.eval(hash_of(&format!("{}{:?}", name, p)), true);
        if c.mode == Mode::Sweep {
            let dbg = format!("{:?}", p);
            c.out.count(&format!("coverage:{}:{}", name, dbg.split(|ch| ch == '{' || ch == '(').next().unwrap_or("").trim()));
            c.input["variant"] = json!(format!("{}::{}", name, dbg));
        }
        check_roundtrip(c, p, None, &|_: &P| vec![]);
        c.tname = saved;
    }
    /// Search: one variant at random; Sweep: every variant
    fn each<P: Serialize + DeserializeOwned + Debug>(c: &mut Case, rng: &mut Rng, name: &str, all: &[P]) {
        let i = rng.below(all.len());
        if c.mode == Mode::Sweep {
            for p in all {
                one(c, name, p);
            }
        } else {
            one(c, name, &all[i]);
        }
    }
    each(c, rng, "KNNAlgorithmName", &[KNNAlgorithmName::CoverTree, KNNAlgorithmName::LinearSearch]);
    each(c, rng, "KNNWeightFunction", &[KNNWeightFunction::Uniform, KNNWeightFunction::Distance]);
    each(c, rng, "SplitCriterion", &[SplitCriterion::Gini, SplitCriterion::Entropy, SplitCriterion::ClassificationError]);
    each(c, rng, "LinearRegressionSolverName", &[LinearRegressionSolverName::QR, LinearRegressionSolverName::SVD]);
    each(c, rng, "RidgeRegressionSolverName", &[RidgeRegressionSolverName::Cholesky, RidgeRegressionSolverName::SVD]);
    each(c, rng, "LogisticRegressionSolverName", &[LogisticRegressionSolverName::LBFGS]);
    each(
        c,
        rng,
        "FailedError",
        &[FailedError::FitFailed, FailedError::PredictFailed, FailedError::TransformFailed, FailedError::FindFailed, FailedError::DecompositionFailed, FailedError::SolutionFailed],
    );
    one(c, "metrics::Accuracy", &ClassificationMetrics::accuracy());
    one(c, "metrics::Recall", &ClassificationMetrics::recall());
    one(c, "metrics::Precision", &ClassificationMetrics::precision());
    one(c, "metrics::F1", &ClassificationMetrics::f1(rng.uniform(0.1, 3.0)));
    one(c, "metrics::AUC", &ClassificationMetrics::roc_auc_score());
    one(c, "metrics::MeanSquareError", &RegressionMetrics::mean_squared_error());
    one(c, "metrics::MeanAbsoluteError", &RegressionMetrics::mean_absolute_error());
    one(c, "metrics::R2", &RegressionMetrics::r2());
    one(c, "metrics::HCVScore", &ClusterMetrics::hcv_score());
    // the error type has a hand-written PartialEq
    let msgs = ["", "x", "Number of rows of X doesn't match", "ünï \"quoted\" \n"];
    let mk = |k: usize, msg: &str| match k {
        0 => Failed::fit(msg),
        1 => Failed::predict(msg),
        2 => Failed::transform(msg),
        3 => Failed::because(FailedError::FindFailed, msg),
        4 => Failed::because(FailedError::DecompositionFailed, msg),
        _ => Failed::because(FailedError::SolutionFailed, msg),
    };
    let saved = c.tname.clone();
    c.tname = "Failed".into();
    let (r1, rm1) = (rng.below(6), rng.below(msgs.len()));
    let firsts: Vec<(usize, &str)> = if c.mode == Mode::Sweep { (0..6).flat_map(|k| msgs.iter().map(move |m| (k, *m))).collect() } else { vec![(r1, msgs[rm1])] };
    for (k1, m1) in firsts {
        let a = mk(k1, m1);
        c.out.eval(hash_of(&format!("{:?}", a)), true);
        if c.mode == Mode::Sweep {
            c.out.count(&format!("coverage:Failed:{:?}", a.error()));
            c.input["variant"] = json!(format!("Failed kind {} message {:?}", k1, m1));
        }
        check_roundtrip(c, &a, eq_of(), &|e: &Failed| vec![e.error() as u8 as f64]);
        let (k2, m2) = (rng.below(6), *rng.pick(&msgs));
        let b = mk(k2, m2);
        let expect = k1 == k2 && m1 == m2;
        if (a == b) != expect {
            c.fail("different_data_unequal", "Failed: equality does not follow (kind, message)");
        }
    }
    c.tname = saved;
}

// ------------------------------------------------------------------------------------------
pub const KINDS: &[&str] = &[
    "DenseMatrix",
    "LinearRegression",
    "RidgeRegression",
    "Lasso",
    "ElasticNet",
    "LogisticRegression",
    "KNNClassifier",
    "KNNRegressor",
    "DecisionTreeClassifier",
    "DecisionTreeRegressor",
    "RandomForestClassifier",
    "RandomForestRegressor",
    "GaussianNB",
    "BernoulliNB",
    "MultinomialNB",
    "CategoricalNB",
    "SVC",
    "SVR",
    "KMeans",
    "DBSCAN",
    "PCA",
    "SVD",
    "CoverTree",
    "LinearKNNSearch",
    "small-types",
];

/// boundary shapes of the dense matrix for the sweep: empty, single entry, single row / column, non-square
const DM_SHAPES: &[(usize, usize)] = &[(0, 0), (1, 1), (1, 7), (7, 1), (2, 5), (5, 2), (4, 4)];

fn run_kind<T: Num + std::iter::Sum>(c: &mut Case, rng: &mut Rng, kind: &str) {
    match kind {
        "DenseMatrix" => {
            if c.mode == Mode::Sweep {
                for (n, p) in DM_SHAPES {
                    c.out.count(&format!("coverage:DenseMatrix:{}x{}", n, p));
                    c.input["variant"] = json!(format!("{}x{}", n, p));
                    case_dense_matrix::<T>(c, rng, Some((*n, *p)));
                }
            } else {
                case_dense_matrix::<T>(c, rng, None)
            }
        }
        "LinearRegression" => case_linear::<T>(c, rng, 0),
        "RidgeRegression" => case_linear::<T>(c, rng, 1),
        "Lasso" => case_linear::<T>(c, rng, 2),
        "ElasticNet" => case_linear::<T>(c, rng, 3),
        "LogisticRegression" => case_logistic::<T>(c, rng),
        "KNNClassifier" => case_knn::<T>(c, rng, false),
        "KNNRegressor" => case_knn::<T>(c, rng, true),
        "DecisionTreeClassifier" => case_tree::<T>(c, rng, 0),
        "DecisionTreeRegressor" => case_tree::<T>(c, rng, 1),
        "RandomForestClassifier" => case_tree::<T>(c, rng, 2),
        "RandomForestRegressor" => case_tree::<T>(c, rng, 3),
        "GaussianNB" => case_nb::<T>(c, rng, 0),
        "BernoulliNB" => case_nb::<T>(c, rng, 1),
        "MultinomialNB" => case_nb::<T>(c, rng, 2),
        "CategoricalNB" => case_nb::<T>(c, rng, 3),
        "SVC" => case_svm::<T>(c, rng, false),
        "SVR" => case_svm::<T>(c, rng, true),
        "KMeans" => case_kmeans::<T>(c, rng),
        "DBSCAN" => case_dbscan::<T>(c, rng),
        "PCA" => case_decomposition::<T>(c, rng, true),
        "SVD" => case_decomposition::<T>(c, rng, false),
        "CoverTree" => case_neighbour::<T>(c, rng, true),
        "LinearKNNSearch" => case_neighbour::<T>(c, rng, false),
        _ => case_small_types(c, rng),
    }
}

/// One case, fully determined by (entry, kind, case_seed[, f32]): this tuple is the replay.
/// entry "search": random parameters, all clauses incl. the related-data oracle;
/// entry "sweep": every parameter variant of the kind through both formats.
pub fn run_case(out: &mut Out, mode: Mode, kind: &str, case_seed: u64, width: Option<bool>) {
    run_case_d(out, mode, kind, case_seed, width, false)
}
/// `degenerate`: entry "degenerate" = a search case on one of the degenerate-but-finite data families, with the
/// parameter values that make the degeneracy bite (no smoothing, more clusters than distinct rows, tiny eps)
pub fn run_case_d(out: &mut Out, mode: Mode, kind: &str, case_seed: u64, width: Option<bool>, degenerate: bool) {
    let mut rng = Rng::new(case_seed);
    let drawn = rng.chance(0.3);
    let f32m = width.unwrap_or(drawn);
    F32_MODE.store(f32m, std::sync::atomic::Ordering::Relaxed);
    let fam = if degenerate { rng.usize_in(1, DEGEN_FAMILIES.len() - 1) } else { 0 };
    DEGEN.store(fam, std::sync::atomic::Ordering::Relaxed);
    if degenerate {
        out.count(&format!("degenerate:family:{}", DEGEN_FAMILIES[fam]));
    }
    let mut input = json!({"entry": if degenerate { "degenerate" } else if mode == Mode::Sweep { "sweep" } else { "search" }, "kind": kind, "case_seed": case_seed.to_string(), "f32": f32m});
    if degenerate {
        input["family"] = json!(DEGEN_FAMILIES[fam]);
    }
    let mut c = Case { out, tname: kind.to_string(), input, f32m, mode, nonfinite: false, nan_flp: false };
    if f32m {
        run_kind::<f32>(&mut c, &mut rng, kind);
    } else {
        run_kind::<f64>(&mut c, &mut rng, kind);
    }
    DEGEN.store(0, std::sync::atomic::Ordering::Relaxed);
}

/// corpus / replay inputs that carry their data explicitly (independent of the generators)
fn run_explicit(out: &mut Out, inp: &Value) -> bool {
    let x = rows_from_json(&inp["x"]);
    let y = f64s_from_json(&inp["y"]);
    let q = rows_from_json(&inp["queries"]);
    let kind = inp["kind"].as_str().unwrap_or("").to_string();
    let mut c = Case { out, tname: kind.clone(), input: inp.clone(), f32m: false, mode: Mode::Search, nonfinite: false, nan_flp: false };
    c.out.eval(hash_of(&inp.to_string()), true);
    match kind.as_str() {
        "BernoulliNB" => {
            c.tname = "BernoulliNB".into();
            let mut pr = BernoulliNBParameters::default().with_alpha(inp["alpha"].as_f64().unwrap_or(1.0));
            pr.binarize = inp["binarize"].as_f64();
            check_params(&mut c, &pr);
            match guard(|| BernoulliNB::fit(&mat::<f64>(&x), &y, pr.clone())) {
                Ok(Ok(m)) => {
                    check_roundtrip(&mut c, &m, eq_of(), &|mm: &BernoulliNB<f64, DenseMatrix<f64>>| predict_obs(mm.predict(&mat::<f64>(&q))));
                }
                _ => c.fail("serialise_never_fails", "corpus: BernoulliNB::fit failed on the corpus input"),
            }
            true
        }
        "eq-absolute-epsilon-pair" | "equal-pair" => {
            // witness of the listed finding eq-absolute-epsilon: two data sets (a, b) with different rows / targets
            // whose fits agree field by field within the relation's absolute tolerance
            let (xa, ya) = (rows_from_json(&inp["a"]["x"]), f64s_from_json(&inp["a"]["y"]));
            let (xb, yb) = (rows_from_json(&inp["b"]["x"]), f64s_from_json(&inp["b"]["y"]));
            fn judge<M: Serialize + DeserializeOwned + Debug + PartialEq>(c: &mut Case, a: &M, b: &M, obs: &dyn Fn(&M) -> Vec<f64>, data_differ: bool) {
                let tol = if c.f32m { 1e-4 } else { 1e-9 };
                let differ = !close(&obs(a), &obs(b), tol);
                let equal = a == b && b == a;
                if equal && differ && data_differ {
                    if tolerance_blind_spot(c, a, b) {
                        known_eps(c, "corpus-witness");
                    } else if pca_same_eigen_different_mu(&c.tname, &serde_json::to_value(a).unwrap_or(Value::Null), &serde_json::to_value(b).unwrap_or(Value::Null)) {
                        known_pca_mu(c, "corpus-witness");
                    } else {
                        c.fail("different_data_unequal", "corpus pair: models fitted on different rows / targets compare equal although they predict differently, and not because of the absolute tolerance");
                    }
                } else {
                    c.count(&format!("search:corpus-witness-not-reproduced(equal={},predict-differently={})", equal, differ));
                }
                check_roundtrip(c, a, eq_of(), &|m: &M| obs(m));
            }
            let data_differ = xa != xb || ya != yb;
            match inp["type"].as_str().unwrap_or("") {
                "LogisticRegression<f32>" => {
                    c.tname = "LogisticRegression".into();
                    c.f32m = true;
                    let alpha = inp["alpha"].as_f64().unwrap_or(1.0) as f32;
                    let fit = |x: &Vec<Vec<f64>>, y: &Vec<f64>| LogisticRegression::fit(&mat::<f32>(x), &vect::<f32>(y), LogisticRegressionParameters::default().with_alpha(alpha));
                    match (guard(|| fit(&xa, &ya)), guard(|| fit(&xb, &yb))) {
                        (Ok(Ok(a)), Ok(Ok(b))) => judge(&mut c, &a, &b, &|m: &LogisticRegression<f32, DenseMatrix<f32>>| predict_obs(m.predict(&mat::<f32>(&q))), data_differ),
                        _ => c.count("search:corpus-witness-fit-failed"),
                    }
                    true
                }
                "PCA<f64>" => {
                    c.tname = "PCA".into();
                    let k = inp["n_components"].as_u64().unwrap_or(1) as usize;
                    let fit = |x: &Vec<Vec<f64>>| PCA::fit(&mat::<f64>(x), PCAParameters::default().with_n_components(k));
                    match (guard(|| fit(&xa)), guard(|| fit(&xb))) {
                        (Ok(Ok(a)), Ok(Ok(b))) => judge(
                            &mut c,
                            &a,
                            &b,
                            &|m: &PCA<f64, DenseMatrix<f64>>| {
                                let mut o = vec![];
                                push_mat(&mut o, m.transform(&mat::<f64>(&q)));
                                o
                            },
                            data_differ,
                        ),
                        _ => c.count("search:corpus-witness-fit-failed"),
                    }
                    true
                }
                "SVD<f64>" => {
                    c.tname = "SVD".into();
                    let k = inp["n_components"].as_u64().unwrap_or(1) as usize;
                    let fit = |x: &Vec<Vec<f64>>| SVD::fit(&mat::<f64>(x), SVDParameters::default().with_n_components(k));
                    match (guard(|| fit(&xa)), guard(|| fit(&xb))) {
                        (Ok(Ok(a)), Ok(Ok(b))) => judge(
                            &mut c,
                            &a,
                            &b,
                            &|m: &SVD<f64, DenseMatrix<f64>>| {
                                let mut o = vec![];
                                push_mat(&mut o, m.transform(&mat::<f64>(&q)));
                                o
                            },
                            data_differ,
                        ),
                        _ => c.count("search:corpus-witness-fit-failed"),
                    }
                    true
                }
                _ => false,
            }
        }
        // finite data, non-finite stored state: the model must still equal itself, its bincode copy and a refit
        "KMeans" => {
            c.tname = "KMeans".into();
            let k = inp["k"].as_u64().unwrap_or(2) as usize;
            match guard(|| KMeans::<f64>::fit(&mat::<f64>(&x), KMeansParameters::default().with_k(k))) {
                Ok(Ok(m)) => {
                    check_roundtrip(&mut c, &m, eq_of(), &|mm: &KMeans<f64>| predict_obs(mm.predict(&mat::<f64>(&q))));
                }
                _ => c.count("search:corpus-fit-failed"),
            }
            true
        }
        "CategoricalNB" => {
            c.tname = "CategoricalNB".into();
            let alpha = inp["alpha"].as_f64().unwrap_or(0.0);
            let fit = || CategoricalNB::fit(&mat::<f64>(&x), &y, CategoricalNBParameters::default().with_alpha(alpha));
            match (guard(fit), guard(fit)) {
                (Ok(Ok(m)), Ok(Ok(m2))) => {
                    let finite = check_roundtrip(&mut c, &m, eq_of(), &|mm: &CategoricalNB<f64, DenseMatrix<f64>>| predict_obs(mm.predict(&mat::<f64>(&q))));
                    c.nonfinite = !finite;
                    eq_checked(&mut c, eq_of(), &m, &m2, "refit_equal", "second fit on the same data != first fit", true);
                    c.nonfinite = false;
                }
                _ => c.count("search:corpus-fit-failed"),
            }
            true
        }
        "MultinomialNB" => {
            c.tname = "MultinomialNB".into();
            let alpha = inp["alpha"].as_f64().unwrap_or(0.0);
            match guard(|| MultinomialNB::fit(&mat::<f64>(&x), &y, MultinomialNBParameters::default().with_alpha(alpha))) {
                Ok(Ok(m)) => {
                    check_roundtrip(&mut c, &m, eq_of(), &|mm: &MultinomialNB<f64, DenseMatrix<f64>>| predict_obs(mm.predict(&mat::<f64>(&q))));
                }
                _ => c.count("search:corpus-fit-failed"),
            }
            true
        }
        "RidgeRegression" => {
            c.tname = "RidgeRegression".into();
            let pr = RidgeRegressionParameters::default()
                .with_alpha(inp["alpha"].as_f64().unwrap_or(1.0))
                .with_normalize(inp["normalize"].as_bool().unwrap_or(true))
                .with_solver(if inp["cholesky"].as_bool().unwrap_or(true) { RidgeRegressionSolverName::Cholesky } else { RidgeRegressionSolverName::SVD });
            match guard(|| RidgeRegression::fit(&mat::<f64>(&x), &y, pr.clone())) {
                Ok(Ok(m)) => {
                    check_roundtrip(&mut c, &m, eq_of(), &|mm: &RidgeRegression<f64, DenseMatrix<f64>>| predict_obs(mm.predict(&mat::<f64>(&q))));
                }
                Ok(Err(e)) => c.count(&format!("search:corpus-fit-error({})", e)),
                _ => c.count("search:corpus-fit-failed"),
            }
            true
        }
        "KNNRegressor-prefix" => {
            c.tname = "KNNRegressor".into();
            let cut = inp["prefix"].as_u64().unwrap_or(1) as usize;
            let k = inp["k"].as_u64().unwrap_or(1) as usize;
            let fit = |rows: usize| KNNRegressor::fit(&mat::<f64>(&x[..rows]), &y[..rows].to_vec(), KNNRegressorParameters::default().with_k(k));
            match (guard(|| fit(cut.min(x.len()))), guard(|| fit(x.len()))) {
                (Ok(Ok(a)), Ok(Ok(b))) => {
                    let (oa, ob) = (predict_obs(a.predict(&mat::<f64>(&q))), predict_obs(b.predict(&mat::<f64>(&q))));
                    if !close(&oa, &ob, 1e-9) && (a == b || b == a) {
                        c.fail("related_data_unequal", "[row-prefix] the two models compare equal although they predict differently on some probe row");
                    }
                    check_roundtrip(&mut c, &a, eq_of(), &|mm: &KNNRegressor<f64, Euclidian>| predict_obs(mm.predict(&mat::<f64>(&q))));
                }
                _ => c.fail("serialise_never_fails", "corpus: KNNRegressor::fit failed on the corpus input"),
            }
            true
        }
        _ => false,
    }
}

/// the minimised regression inputs of /verif/corpus/C19 (replay format), sorted by name
fn run_corpus(out: &mut Out) {
    let mut files: Vec<std::path::PathBuf> = std::fs::read_dir("/verif/corpus/C19").map(|d| d.filter_map(|e| e.ok().map(|e| e.path())).collect()).unwrap_or_default();
    files.sort();
    for f in files {
        if f.extension().map(|e| e == "json").unwrap_or(false) {
            let v = read_replay(&f.to_string_lossy());
            let inp = if v.get("input").is_some() { v["input"].clone() } else { v.clone() };
            if run_explicit(out, &inp) {
                out.count("search:corpus-file");
            } else {
                out.count("search:corpus-file-unknown-entry(skipped)");
            }
        }
    }
}

fn replay(path: &str) -> i32 {
    let v = read_replay(path);
    let inp = if v.get("input").is_some() { v["input"].clone() } else { v.clone() };
    let mut out = Out::new("C19", "replay");
    match inp["entry"].as_str().unwrap_or("") {
        e @ ("search" | "sweep" | "degenerate") => {
            let kind = inp["kind"].as_str().unwrap_or("").to_string();
            let seed: u64 = inp["case_seed"].as_str().and_then(|s| s.parse().ok()).or_else(|| inp["case_seed"].as_u64()).unwrap_or(0);
            let mode = if e == "sweep" { Mode::Sweep } else { Mode::Search };
            // unseeded estimators (SVC, KMeans): repeat a few times
            for _ in 0..3 {
                run_case_d(&mut out, mode, &kind, seed, inp["f32"].as_bool(), e == "degenerate");
            }
        }
        "explicit" => {
            if !run_explicit(&mut out, &inp) {
                eprintln!("unknown explicit kind");
                return 2;
            }
        }
        "codec" | "bincode" | "partial_eq" => {
            c19_corr::replay_corr(&mut out, &inp);
        }
        _ => {
            eprintln!("unknown replay entry");
            return 2;
        }
    }
    let failed = out.n_fail() > 0;
    if let Ok(dir) = std::env::var("C19_REPLAY_OUT") {
        out.finish(&dir); // the counters of the replayed case (which `observed:` / `related:` buckets it fell into)
    }
    if failed {
        println!("REPLAY: property=C19 still fails: {}", path);
        1
    } else {
        println!("REPLAY: property=C19 passes: {}", path);
        0
    }
}

fn main() {
    quiet_panics();
    let a = args();
    if let Some(p) = &a.replay {
        std::process::exit(replay(p));
    }
    let mut rng = Rng::new(a.seed);
    let mut out = Out::new(
        "C19",
        "search case = (serialisable type, scalar width, hyper-parameters, training data, second data set with different rows and targets, training sets related to the first (appended rows, row-prefix, one target / one feature changed, permuted, one class more / fewer, another parameter value), query matrix); sweep case = (type, width, data, EVERY parameter variant of the type); non-trivial: the fit succeeded on >= 3 rows (parameter structs, enums, distances, kernels: always); distinct by hash of (type, width, parameters, data)",
    );
    out.max_samples = 3;

    // ---- corpus + correspondence ----
    run_corpus(&mut out);
    // (own stream: the number of draws depends on the state of unseeded fits)
    let mut rng_corr = rng.fork();
    c19_corr::run_corr(&mut out, &mut rng_corr, a.thorough);

    // ---- parameter coverage: every variant of every type, both widths, both formats ----
    let sweeps = if a.thorough { 12 } else { 2 };
    for i in 0..sweeps {
        for kind in KINDS {
            let cs = rng.next_u64();
            if std::env::var("C19_TRACE").is_ok() {
                eprintln!("sweep {} {}", kind, cs);
            }
            run_case(&mut out, Mode::Sweep, kind, cs, Some(i % 2 == 1));
        }
    }

    // ---- degenerate-but-finite data: every kind on every family (duplicates, constant / collinear columns,
    //      constant target, single class) with the parameter values that make the degeneracy bite ----
    let drounds = if a.thorough { 500 } else { 60 };
    for _ in 0..drounds {
        for kind in KINDS {
            if *kind == "DenseMatrix" || *kind == "small-types" {
                continue;
            }
            let cs = rng.next_u64();
            if std::env::var("C19_TRACE").is_ok() {
                eprintln!("degenerate {} {}", kind, cs);
            }
            run_case_d(&mut out, Mode::Search, kind, cs, None, true);
        }
    }

    // ---- search ----
    let rounds = if a.thorough { 2500 } else { 300 };
    for _ in 0..rounds {
        for kind in KINDS {
            let cs = rng.next_u64();
            if std::env::var("C19_TRACE").is_ok() {
                eprintln!("{} {}", kind, cs);
            }
            run_case(&mut out, Mode::Search, kind, cs, None);
        }
    }
    out.finish(&a.out);
}

// ------------------------------------------------------------------------------------------
// correspondence cases
// ------------------------------------------------------------------------------------------
mod c19_corr {
    use super::*;
    use serde::ser::{self, SerializeSeq, SerializeStruct};
    use std::fmt::Display;

    // ---- a serde Serializer that records the calls it receives (the real token stream) ----
    #[derive(Debug, Clone, PartialEq)]
    pub enum Tok {
        Struct(String, usize),
        Field(String),
        U64(u64),
        F64(f64),
        F32(f32),
        SeqBegin(Option<usize>),
        SeqEnd,
        StructEnd,
        Other(&'static str),
    }
    #[derive(Default)]
    pub struct Rec {
        pub toks: Vec<Tok>,
    }
    #[derive(Debug)]
    pub struct RecErr(String);
    impl Display for RecErr {
        fn fmt(&self, f: &mut std::fmt::Formatter<'_>) -> std::fmt::Result {
            write!(f, "{}", self.0)
        }
    }
    impl std::error::Error for RecErr {}
    impl ser::Error for RecErr {
        fn custom<T: Display>(m: T) -> Self {
            RecErr(m.to_string())
        }
    }
    macro_rules! other {
        ($name:ident, $ty:ty) => {
            fn $name(self, _v: $ty) -> Result<(), RecErr> {
                self.toks.push(Tok::Other(stringify!($name)));
                Ok(())
            }
        };
    }
    impl<'a> ser::Serializer for &'a mut Rec {
        type Ok = ();
        type Error = RecErr;
        type SerializeSeq = Self;
        type SerializeTuple = ser::Impossible<(), RecErr>;
        type SerializeTupleStruct = ser::Impossible<(), RecErr>;
        type SerializeTupleVariant = ser::Impossible<(), RecErr>;
        type SerializeMap = ser::Impossible<(), RecErr>;
        type SerializeStruct = Self;
        type SerializeStructVariant = ser::Impossible<(), RecErr>;
        other!(serialize_bool, bool);
        other!(serialize_i8, i8);
        other!(serialize_i16, i16);
        other!(serialize_i32, i32);
        other!(serialize_i64, i64);
        other!(serialize_u8, u8);
        other!(serialize_u16, u16);
        other!(serialize_u32, u32);
        other!(serialize_char, char);
        other!(serialize_str, &str);
        other!(serialize_bytes, &[u8]);
        fn serialize_u64(self, v: u64) -> Result<(), RecErr> {
            self.toks.push(Tok::U64(v));
            Ok(())
        }
        fn serialize_f32(self, v: f32) -> Result<(), RecErr> {
            self.toks.push(Tok::F32(v));
            Ok(())
        }
        fn serialize_f64(self, v: f64) -> Result<(), RecErr> {
            self.toks.push(Tok::F64(v));
            Ok(())
        }
        fn serialize_none(self) -> Result<(), RecErr> {
            self.toks.push(Tok::Other("none"));
            Ok(())
        }
        fn serialize_some<T: ?Sized + Serialize>(self, _v: &T) -> Result<(), RecErr> {
            self.toks.push(Tok::Other("some"));
            Ok(())
        }
        fn serialize_unit(self) -> Result<(), RecErr> {
            self.toks.push(Tok::Other("unit"));
            Ok(())
        }
        fn serialize_unit_struct(self, _n: &'static str) -> Result<(), RecErr> {
            self.toks.push(Tok::Other("unit_struct"));
            Ok(())
        }
        fn serialize_unit_variant(self, _n: &'static str, _i: u32, _v: &'static str) -> Result<(), RecErr> {
            self.toks.push(Tok::Other("unit_variant"));
            Ok(())
        }
        fn serialize_newtype_struct<T: ?Sized + Serialize>(self, _n: &'static str, _v: &T) -> Result<(), RecErr> {
            self.toks.push(Tok::Other("newtype_struct"));
            Ok(())
        }
        fn serialize_newtype_variant<T: ?Sized + Serialize>(self, _n: &'static str, _i: u32, _v: &'static str, _x: &T) -> Result<(), RecErr> {
            self.toks.push(Tok::Other("newtype_variant"));
            Ok(())
        }
        fn serialize_seq(self, len: Option<usize>) -> Result<Self, RecErr> {
            self.toks.push(Tok::SeqBegin(len));
            Ok(self)
        }
        fn serialize_tuple(self, _len: usize) -> Result<Self::SerializeTuple, RecErr> {
            Err(RecErr("tuple".into()))
        }
        fn serialize_tuple_struct(self, _n: &'static str, _len: usize) -> Result<Self::SerializeTupleStruct, RecErr> {
            Err(RecErr("tuple_struct".into()))
        }
        fn serialize_tuple_variant(self, _n: &'static str, _i: u32, _v: &'static str, _len: usize) -> Result<Self::SerializeTupleVariant, RecErr> {
            Err(RecErr("tuple_variant".into()))
        }
        fn serialize_map(self, _len: Option<usize>) -> Result<Self::SerializeMap, RecErr> {
            Err(RecErr("map".into()))
        }
        fn serialize_struct(self, name: &'static str, len: usize) -> Result<Self, RecErr> {
            self.toks.push(Tok::Struct(name.to_string(), len));
            Ok(self)
        }
        fn serialize_struct_variant(self, _n: &'static str, _i: u32, _v: &'static str, _len: usize) -> Result<Self::SerializeStructVariant, RecErr> {
            Err(RecErr("struct_variant".into()))
        }
    }
    impl<'a> SerializeSeq for &'a mut Rec {
        type Ok = ();
        type Error = RecErr;
        fn serialize_element<T: ?Sized + Serialize>(&mut self, v: &T) -> Result<(), RecErr> {
            v.serialize(&mut **self)
        }
        fn end(self) -> Result<(), RecErr> {
            self.toks.push(Tok::SeqEnd);
            Ok(())
        }
    }
    impl<'a> SerializeStruct for &'a mut Rec {
        type Ok = ();
        type Error = RecErr;
        fn serialize_field<T: ?Sized + Serialize>(&mut self, key: &'static str, v: &T) -> Result<(), RecErr> {
            self.toks.push(Tok::Field(key.to_string()));
            v.serialize(&mut **self)
        }
        fn end(self) -> Result<(), RecErr> {
            self.toks.push(Tok::StructEnd);
            Ok(())
        }
    }

    const KEYS: [&str; 8] = ["nrows", "ncols", "values", "NROWS", "nrow", "", "valuess", "shape"];
    fn key_code(k: &str) -> usize {
        KEYS.iter().position(|x| *x == k).unwrap_or(7)
    }

    /// recorded stream -> Gallina `list ktoken`
    fn ktokens(toks: &[Tok]) -> String {
        let mut items: Vec<String> = vec![];
        let mut i = 0;
        while i < toks.len() {
            match &toks[i] {
                Tok::Struct(name, len) => {
                    items.push(format!("KStruct {} {}", coq_bool(name == "DenseMatrix"), coq_n(*len)));
                    i += 1;
                }
                Tok::StructEnd => {
                    items.push("KEnd".into());
                    i += 1;
                }
                Tok::Field(k) => {
                    // the value that follows
                    let (val, next) = match toks.get(i + 1) {
                        Some(Tok::U64(n)) => (format!("(ju {})", coq_n(*n as usize)), i + 2),
                        Some(Tok::SeqBegin(declared)) => {
                            let mut j = i + 2;
                            let mut vals: Vec<f64> = vec![];
                            let mut ok = true;
                            while j < toks.len() && toks[j] != Tok::SeqEnd {
                                match &toks[j] {
                                    Tok::F64(x) => vals.push(*x),
                                    Tok::F32(x) => vals.push(*x as f64),
                                    _ => ok = false,
                                }
                                j += 1;
                            }
                            if let Some(dl) = declared {
                                ok &= *dl == vals.len();
                            }
                            (if ok { format!("(js {})", coq_list_f64(&vals)) } else { "jx".to_string() }, j + 1)
                        }
                        _ => ("jx".to_string(), i + 2),
                    };
                    items.push(format!("KField {} {}", coq_n(key_code(k)), val));
                    i = next;
                }
                _ => {
                    items.push("KField 7%N jx".into());
                    i += 1;
                }
            }
        }
        coq_list(items)
    }

    fn lattice(rng: &mut Rng) -> f64 {
        match rng.below(8) {
            0 => 0.0,
            1 => -0.0,
            2 => rng.int(-3, 3) as f64,
            _ => rng.dyadic(4, 3),
        }
    }

    fn corr_tokens<T: Num>(out: &mut Out, rng: &mut Rng) {
        let (n, p) = (rng.below(5), rng.below(5));
        let len = if rng.chance(0.8) { n * p } else { rng.below(7) }; // `new` does not tie the length to the shape
        let vals: Vec<f64> = (0..len).map(|_| lattice(rng)).collect();
        let m: DenseMatrix<T> = DenseMatrix::new(n, p, vect::<T>(&vals));
        let mut rec = Rec::default();
        let input = json!({"entry": "codec", "what": "tokens", "nrows": n, "ncols": p, "values": vals, "f32": T::F32});
        if m.serialize(&mut rec).is_err() {
            out.corr("dm_tokens", "false".into(), input);
            return;
        }
        out.corr("dm_tokens", format!("corr_tokens {} {} {} {}", coq_n(n), coq_n(p), coq_list_f64(&vals), ktokens(&rec.toks)), input);
    }

    // ---- JSON text fed to the real Deserialize impl ----
    #[derive(Clone, Debug)]
    enum JV {
        U(u64),
        S(Vec<f64>),
        X(&'static str),
    }
    impl JV {
        fn text(&self) -> String {
            match self {
                JV::U(n) => n.to_string(),
                JV::S(v) => format!("[{}]", v.iter().map(|x| format!("{:?}", x)).collect::<Vec<_>>().join(",")),
                JV::X(s) => s.to_string(),
            }
        }
        fn coq(&self) -> String {
            match self {
                JV::U(n) => format!("(ju {})", coq_n(*n as usize)),
                JV::S(v) => format!("(js {})", coq_list_f64(v)),
                JV::X(_) => "jx".into(),
            }
        }
    }
    const WRONG: [&str; 8] = ["\"x\"", "1.5", "-1", "null", "true", "{}", "[1,\"a\"]", "[[1.0]]"];

    fn classify(msg: &str) -> (usize, usize) {
        let field = |m: &str| -> usize {
            let a = m.find('`').map(|i| i + 1).unwrap_or(0);
            let b = m[a..].find('`').map(|i| i + a).unwrap_or(a);
            key_code(&m[a..b])
        };
        if msg.starts_with("invalid length") {
            let n: usize = msg["invalid length ".len()..].split(',').next().and_then(|s| s.trim().parse().ok()).unwrap_or(99);
            (0, n)
        } else if msg.starts_with("duplicate field") {
            (1, field(msg))
        } else if msg.starts_with("missing field") {
            (2, field(msg))
        } else if msg.starts_with("unknown field") {
            (3, field(msg))
        } else if msg.starts_with("invalid type") || msg.starts_with("invalid value") {
            (4, 0)
        } else if msg.starts_with("trailing characters") || msg.starts_with("trailing comma") {
            (5, 0)
        } else if msg.starts_with("EOF") {
            (6, 0)
        } else {
            (99, 0)
        }
    }

    fn json_expected<T: Num>(text: &str) -> String {
        match guard(|| serde_json::from_str::<DenseMatrix<T>>(text)) {
            Ok(Ok(m)) => {
                let (n, p) = m.shape();
                let vals: Vec<T> = m.into();
                format!("(EOk {} {} {})", coq_n(n), coq_n(p), coq_list_f64(&vecf(&vals)))
            }
            Ok(Err(e)) => {
                let (c, a) = classify(&e.to_string());
                format!("(EErr {} {})", coq_n(c), coq_n(a))
            }
            Err(_) => "(EErr 98%N 0%N)".to_string(),
        }
    }

    fn rand_val(rng: &mut Rng, want: usize) -> JV {
        // want: 0 = usize, 1 = Vec; mostly well-typed
        let r = rng.below(10);
        if r == 0 {
            JV::X(*rng.pick(&WRONG))
        } else if r == 1 {
            if want == 0 { JV::S((0..rng.below(3)).map(|_| lattice(rng)).collect()) } else { JV::U(rng.below(5) as u64) }
        } else if want == 0 {
            JV::U(*rng.pick(&[0u64, 1, 2, 3, 7, 1000, u64::MAX]) )
        } else {
            JV::S((0..rng.below(7)).map(|_| lattice(rng)).collect())
        }
    }

    fn corr_json<T: Num>(out: &mut Out, rng: &mut Rng, shape: usize) {
        match shape {
            // sequence form, 0..5 elements
            0 => {
                let len = *rng.pick(&[0usize, 1, 2, 3, 3, 3, 3, 4, 5]);
                let vs: Vec<JV> = (0..len).map(|i| rand_val(rng, if i == 2 { 1 } else { 0 })).collect();
                let text = format!("[{}]", vs.iter().map(|v| v.text()).collect::<Vec<_>>().join(","));
                let exp = json_expected::<T>(&text);
                out.corr("dm_json_seq", format!("corr_json_seq {} {}", coq_list(vs.iter().map(|v| v.coq())), exp), json!({"entry": "codec", "what": "json", "text": text, "f32": T::F32}));
            }
            // map form: a permutation of the three fields, then possibly a duplicate, a missing or an unknown key
            1 => {
                let mut kv: Vec<(usize, JV)> = vec![(0, rand_val(rng, 0)), (1, rand_val(rng, 0)), (2, rand_val(rng, 1))];
                rng.shuffle(&mut kv);
                match rng.below(6) {
                    0 => {
                        let k = rng.below(3);
                        let pos = rng.below(kv.len() + 1);
                        kv.insert(pos, (k, rand_val(rng, if k == 2 { 1 } else { 0 })));
                    }
                    1 => {
                        let pos = rng.below(kv.len());
                        kv.remove(pos);
                    }
                    2 => {
                        let pos = rng.below(kv.len() + 1);
                        let (uk, want) = (rng.usize_in(3, 7), rng.below(2));
                        kv.insert(pos, (uk, rand_val(rng, want)));
                    }
                    3 => {
                        let keep = rng.below(2);
                        kv.truncate(keep);
                    }
                    _ => {}
                }
                let text = format!("{{{}}}", kv.iter().map(|(k, v)| format!("\"{}\":{}", KEYS[*k], v.text())).collect::<Vec<_>>().join(","));
                let exp = json_expected::<T>(&text);
                out.corr(
                    "dm_json_map",
                    format!("corr_json_map {} {}", coq_list(kv.iter().map(|(k, v)| format!("({}, {})", coq_n(*k), v.coq()))), exp),
                    json!({"entry": "codec", "what": "json", "text": text, "f32": T::F32}),
                );
            }
            _ => {
                let text = *rng.pick(&["\"DenseMatrix\"", "5", "null", "1.5", "true"]);
                let exp = json_expected::<T>(text);
                out.corr("dm_json_other", format!("corr_json_other {}", exp), json!({"entry": "codec", "what": "json", "text": text, "f32": T::F32}));
            }
        }
    }

    /// all six field orders of a well-formed object, non-square shapes
    fn corr_json_orders<T: Num>(out: &mut Out, rng: &mut Rng) {
        let perms: [[usize; 3]; 6] = [[0, 1, 2], [0, 2, 1], [1, 0, 2], [1, 2, 0], [2, 0, 1], [2, 1, 0]];
        let (n, p) = (rng.usize_in(1, 4), rng.usize_in(1, 4));
        let vals: Vec<f64> = (0..n * p).map(|_| lattice(rng)).collect();
        let fields = [JV::U(n as u64), JV::U(p as u64), JV::S(vals)];
        for perm in perms.iter() {
            let kv: Vec<(usize, JV)> = perm.iter().map(|k| (*k, fields[*k].clone())).collect();
            let text = format!("{{{}}}", kv.iter().map(|(k, v)| format!("\"{}\":{}", KEYS[*k], v.text())).collect::<Vec<_>>().join(","));
            let exp = json_expected::<T>(&text);
            out.corr(
                "dm_json_map",
                format!("corr_json_map {} {}", coq_list(kv.iter().map(|(k, v)| format!("({}, {})", coq_n(*k), v.coq()))), exp),
                json!({"entry": "codec", "what": "json", "text": text, "f32": T::F32}),
            );
        }
    }

    // ---- bincode bytes ----
    fn bits_of<T: Num>(v: T) -> u64 {
        if T::F32 {
            (f(v) as f32).to_bits() as u64
        } else {
            f(v).to_bits()
        }
    }
    fn coq_bytes(b: &[u8]) -> String {
        coq_list(b.iter().map(|x| coq_n(*x as usize)))
    }
    fn coq_u64s(b: &[u64]) -> String {
        coq_list(b.iter().map(|x| format!("{}%N", x)))
    }
    fn corr_bincode<T: Num>(out: &mut Out, rng: &mut Rng) {
        let w = if T::F32 { 4 } else { 8 };
        let (n, p) = (rng.below(5), rng.below(5));
        let len = if rng.chance(0.8) { n * p } else { rng.below(6) };
        let specials = [0.0, -0.0, f64::NAN, f64::INFINITY, f64::NEG_INFINITY, 1.0 / 3.0, 5e-324, f64::MAX];
        let vals: Vec<T> = (0..len)
            .map(|_| if rng.chance(0.2) { t::<T>(*rng.pick(&specials)) } else { t::<T>(rng.normal() * 100.0) })
            .collect();
        let m: DenseMatrix<T> = DenseMatrix::new(n, p, vals.clone());
        let bits: Vec<u64> = vals.iter().map(|v| bits_of(*v)).collect();
        let bytes = match bincode::serialize(&m) {
            Ok(b) => b,
            Err(_) => {
                out.corr("dm_bincode_ser", "false".into(), json!({"entry": "bincode", "what": "serialize failed"}));
                return;
            }
        };
        let input = json!({"entry": "bincode", "nrows": n, "ncols": p, "bits": bits.iter().map(|b| b.to_string()).collect::<Vec<_>>(), "f32": T::F32});
        out.corr("dm_bincode_ser", format!("corr_bincode_ser {} {} {} {} {}", coq_n(w), coq_n(n), coq_n(p), coq_u64s(&bits), coq_bytes(&bytes)), input.clone());
        // decoding: the bytes as they are, truncated, extended, with an edited length field
        let mut variants: Vec<Vec<u8>> = vec![bytes.clone()];
        let cut = rng.below(bytes.len() + 1);
        variants.push(bytes[..cut].to_vec());
        let mut ext = bytes.clone();
        ext.extend((0..rng.usize_in(1, 9)).map(|_| rng.below(256) as u8));
        variants.push(ext);
        let mut edited = bytes.clone();
        let newlen: u64 = match rng.below(4) {
            0 => len as u64 + 1,
            1 => (len as u64).saturating_sub(1),
            2 => 1u64 << 40,
            _ => rng.below(4) as u64,
        };
        edited[16..24].copy_from_slice(&newlen.to_le_bytes());
        variants.push(edited);
        for v in variants {
            let exp = match guard(|| bincode::deserialize::<DenseMatrix<T>>(&v)) {
                Ok(Ok(r)) => {
                    let (rn, rp) = r.shape();
                    let rv: Vec<T> = r.into();
                    format!("(BOk {} {} {})", coq_n(rn), coq_n(rp), coq_u64s(&rv.iter().map(|x| bits_of(*x)).collect::<Vec<_>>()))
                }
                _ => "BErr".to_string(),
            };
            let mut inp = input.clone();
            inp["bytes"] = json!(v);
            out.corr("dm_bincode_de", format!("corr_bincode_de {} {} {}", coq_n(w), coq_bytes(&v), exp), inp);
        }
    }

    // ---- PartialEq: DenseMatrix directly ----
    fn corr_dm_eq<T: Num>(out: &mut Out, rng: &mut Rng) {
        let eps = if T::F32 { f32::EPSILON as f64 } else { f64::EPSILON };
        let (n, p) = (rng.usize_in(1, 4), rng.usize_in(1, 4));
        let a: Vec<f64> = (0..n * p).map(|_| if rng.chance(0.1) { *rng.pick(&[f64::NAN, f64::INFINITY, f64::NEG_INFINITY]) } else { lattice(rng) }).collect();
        let mut b = a.clone();
        let (mut bn, mut bp) = (n, p);
        match rng.below(8) {
            0 => {}
            1 => {
                std::mem::swap(&mut bn, &mut bp); // transposed shape, same storage
            }
            2 => {
                b.pop(); // DenseMatrix::new does not check the length
            }
            3 => {
                bn += 1;
            }
            _ => {
                let i = rng.below(b.len());
                // multiples of eps/4 around the tolerance; exact on the lattice
                let k = *rng.pick(&[1.0, 2.0, 3.0, 4.0, 5.0, 6.0, 8.0, 4096.0]);
                b[i] += k * eps / 4.0 * if rng.bool() { 1.0 } else { -1.0 };
            }
        }
        // what the implementation holds (f32: rounded once)
        let ta = vect::<T>(&a);
        let tb = vect::<T>(&b);
        let ma: DenseMatrix<T> = DenseMatrix::new(n, p, ta.clone());
        let mb: DenseMatrix<T> = DenseMatrix::new(bn, bp, tb.clone());
        let (fa, fb) = (vecf(&ta), vecf(&tb));
        if T::F32 {
            // only cases whose f32 subtraction is exact are comparable with the binary64 model
            for (x, y) in fa.iter().zip(fb.iter()) {
                let d = x - y;
                if d.is_finite() && (d as f32) as f64 != d {
                    return;
                }
            }
        }
        for (x, y, xa, ya, xn, xp, yn, yp) in [(&ma, &mb, &fa, &fb, n, p, bn, bp), (&mb, &ma, &fb, &fa, bn, bp, n, p)] {
            if let Ok(r) = guard(|| x == y) {
                out.corr(
                    "eq_dense_matrix",
                    format!("corr_dm_eq {} (fdm {} {} {}) (fdm {} {} {}) {}", coq_f64(eps), coq_n(xn), coq_n(xp), coq_list_f64(xa), coq_n(yn), coq_n(yp), coq_list_f64(ya), coq_bool(r)),
                    json!({"entry": "partial_eq", "kind": "DenseMatrix", "f32": T::F32, "a": {"nrows": xn, "ncols": xp, "values": xa.iter().map(|v| hex_f64(*v)).collect::<Vec<_>>()}, "b": {"nrows": yn, "ncols": yp, "values": ya.iter().map(|v| hex_f64(*v)).collect::<Vec<_>>()}}),
                );
            }
        }
    }

    // ---- PartialEq of fitted models: pairs that differ in one field, built by editing the JSON state ----
    fn jf(v: &Value) -> String {
        coq_f64(v.as_f64().unwrap_or(f64::NAN))
    }
    fn jfs(v: &Value) -> String {
        coq_list(v.as_array().map(|a| a.iter().map(jf).collect::<Vec<_>>()).unwrap_or_default())
    }
    fn jffs(v: &Value) -> String {
        coq_list(v.as_array().map(|a| a.iter().map(jfs).collect::<Vec<_>>()).unwrap_or_default())
    }
    fn jfffs(v: &Value) -> String {
        coq_list(v.as_array().map(|a| a.iter().map(jffs).collect::<Vec<_>>()).unwrap_or_default())
    }
    fn jn(v: &Value) -> String {
        format!("{}%N", v.as_u64().unwrap_or(0))
    }
    fn jns(v: &Value) -> String {
        coq_list(v.as_array().map(|a| a.iter().map(jn).collect::<Vec<_>>()).unwrap_or_default())
    }
    fn jnns(v: &Value) -> String {
        coq_list(v.as_array().map(|a| a.iter().map(jns).collect::<Vec<_>>()).unwrap_or_default())
    }
    fn jzs(v: &Value) -> String {
        coq_list(v.as_array().map(|a| a.iter().map(|x| coq_z(x.as_i64().unwrap_or(0))).collect::<Vec<_>>()).unwrap_or_default())
    }
    fn jof(v: &Value) -> String {
        coq_option(if v.is_null() { None } else { Some(jf(v)) })
    }
    fn jon(v: &Value) -> String {
        coq_option(if v.is_null() { None } else { Some(jn(v)) })
    }
    fn jdm(v: &Value) -> String {
        format!("(fdm {} {} {})", jn(&v["nrows"]), jn(&v["ncols"]), jfs(&v["values"]))
    }
    fn jrnode(v: &Value) -> String {
        format!("(frn {} {} {} {} {} {} {})", jn(&v["_index"]), jf(&v["output"]), jn(&v["split_feature"]), jof(&v["split_value"]), jof(&v["split_score"]), jon(&v["true_child"]), jon(&v["false_child"]))
    }
    fn jcnode(v: &Value) -> String {
        format!("(fcn {} {} {} {} {} {} {})", jn(&v["_index"]), jn(&v["output"]), jn(&v["split_feature"]), jof(&v["split_value"]), jof(&v["split_score"]), jon(&v["true_child"]), jon(&v["false_child"]))
    }
    fn jrtree(v: &Value) -> String {
        format!("(frt {} {})", coq_list(v["nodes"].as_array().map(|a| a.iter().map(jrnode).collect::<Vec<_>>()).unwrap_or_default()), jn(&v["depth"]))
    }
    fn jctree(v: &Value) -> String {
        format!(
            "(fct {} {} {} {})",
            coq_list(v["nodes"].as_array().map(|a| a.iter().map(jcnode).collect::<Vec<_>>()).unwrap_or_default()),
            jn(&v["num_classes"]),
            jfs(&v["classes"]),
            jn(&v["depth"])
        )
    }

    /// (Gallina function, printer of one side, expected printer) per kind
    fn model_term(kind: &str, a: &Value, b: &Value, res: Option<bool>) -> Option<String> {
        let rb = || res.map(coq_bool);
        let ro = || coq_option(res.map(coq_bool));
        Some(match kind {
            "LinearRegression" | "RidgeRegression" | "Lasso" | "ElasticNet" => {
                format!("corr_lin_eq {} {} {} {} {}", jdm(&a["coefficients"]), jf(&a["intercept"]), jdm(&b["coefficients"]), jf(&b["intercept"]), rb()?)
            }
            "LogisticRegression" => {
                let pr = |v: &Value| format!("(flogit {} {} {} {} {})", jdm(&v["coefficients"]), jdm(&v["intercept"]), jfs(&v["classes"]), jn(&v["num_attributes"]), jn(&v["num_classes"]));
                format!("corr_logit_eq {} {} {}", pr(a), pr(b), rb()?)
            }
            "DecisionTreeRegressor" => format!("corr_rtree_eq {} {} {}", jrtree(a), jrtree(b), rb()?),
            "DecisionTreeClassifier" => format!("corr_ctree_eq {} {} {}", jctree(a), jctree(b), ro()),
            "RandomForestRegressor" => {
                let pr = |v: &Value| coq_list(v["trees"].as_array().map(|t| t.iter().map(jrtree).collect::<Vec<_>>()).unwrap_or_default());
                format!("corr_rforest_eq {} {} {}", pr(a), pr(b), rb()?)
            }
            "RandomForestClassifier" => {
                let pr = |v: &Value| format!("(fcf {} {})", coq_list(v["trees"].as_array().map(|t| t.iter().map(jctree).collect::<Vec<_>>()).unwrap_or_default()), jfs(&v["classes"]));
                format!("corr_cforest_eq {} {} {}", pr(a), pr(b), ro())
            }
            "PCA" => {
                let pr = |v: &Value| format!("(fpca {} {} {} {} {})", jdm(&v["eigenvectors"]), jfs(&v["eigenvalues"]), jdm(&v["projection"]), jfs(&v["mu"]), jfs(&v["pmu"]));
                format!("corr_pca_eq {} {} {}", pr(a), pr(b), rb()?)
            }
            "SVD" => format!("corr_svd_eq {} {} {} {}", coq_f64(1e-8), jdm(&a["components"]), jdm(&b["components"]), ro()),
            "SVC" | "SVR" => {
                let pr = |v: &Value| format!("(fsvm {} {} {})", jf(&v["b"]), jfs(&v["w"]), jffs(&v["instances"]));
                format!("corr_svm_eq {} {} {}", pr(a), pr(b), rb()?)
            }
            "KMeans" => {
                let pr = |v: &Value| format!("(fkm {} {} {} {} {})", jn(&v["k"]), jns(&v["_y"]), jns(&v["size"]), jf(&v["_distortion"]), jffs(&v["centroids"]));
                format!("corr_kmeans_eq {} {} {}", pr(a), pr(b), rb()?)
            }
            "DBSCAN" => {
                let pr = |v: &Value| format!("(fdb {} {} {})", jzs(&v["cluster_labels"]), jn(&v["num_classes"]), jf(&v["eps"]));
                format!("corr_dbscan_eq {} {} {}", pr(a), pr(b), rb()?)
            }
            "KNNClassifier" => {
                let pr = |v: &Value| format!("(fkc {} {} {})", jfs(&v["classes"]), jns(&v["y"]), jn(&v["k"]));
                format!("corr_knnc_eq {} {} {}", pr(a), pr(b), rb()?)
            }
            "KNNRegressor" => {
                let pr = |v: &Value| format!("(fkr {} {})", jfs(&v["y"]), jn(&v["k"]));
                format!("corr_knnr_eq {} {} {}", pr(a), pr(b), rb()?)
            }
            "CoverTree" => format!("corr_covertree_eq {} {} {}", jffs(&a["data"]), jffs(&b["data"]), rb()?),
            "BernoulliNB" => {
                let pr = |v: &Value| {
                    let d = &v["inner"]["distribution"];
                    format!("(fbern {} {} {} {} {} {})", jfs(&d["class_labels"]), jns(&d["class_count"]), jfs(&d["class_priors"]), jnns(&d["feature_count"]), jffs(&d["feature_log_prob"]), jn(&d["n_features"]))
                };
                format!("corr_bernoulli_eq {} {} {}", pr(a), pr(b), rb()?)
            }
            "CategoricalNB" => {
                let pr = |v: &Value| {
                    let d = &v["inner"]["distribution"];
                    format!("(fcat {} {} {} {} {} {})", jns(&d["class_count"]), jfs(&d["class_labels"]), jfs(&d["class_priors"]), jfffs(&d["coefficients"]), jn(&d["n_features"]), jns(&d["n_categories"]))
                };
                format!("corr_categorical_eq {} {} {}", pr(a), pr(b), rb()?)
            }
            _ => return None,
        })
    }

    /// JSON pointers of all numeric / null leaves and of all non-empty arrays below `v`
    fn leaves(v: &Value, path: String, num: &mut Vec<String>, arrays: &mut Vec<String>) {
        match v {
            Value::Number(_) | Value::Null => num.push(path),
            Value::Array(a) => {
                if !a.is_empty() {
                    arrays.push(path.clone());
                }
                for (i, x) in a.iter().enumerate() {
                    leaves(x, format!("{}/{}", path, i), num, arrays);
                }
            }
            Value::Object(o) => {
                for (k, x) in o.iter() {
                    leaves(x, format!("{}/{}", path, k), num, arrays);
                }
            }
            _ => {}
        }
    }

    /// `which`: Some(i) = the i-th numeric leaf (systematic sweep), None = a random leaf or array
    fn perturb(rng: &mut Rng, v: &Value, root: &str, which: Option<usize>) -> Option<(Value, String)> {
        let mut num = vec![];
        let mut arrays = vec![];
        leaves(v.pointer(root)?, root.to_string(), &mut num, &mut arrays);
        let mut w = v.clone();
        let eps = f64::EPSILON;
        if which.is_none() && rng.chance(0.3) && !arrays.is_empty() {
            let pth = rng.pick(&arrays).clone();
            w.pointer_mut(&pth)?.as_array_mut()?.pop();
            return Some((w, format!("pop {}", pth)));
        }
        if num.is_empty() {
            return None;
        }
        let pth = match which {
            Some(i) => num.get(i)?.clone(),
            None => rng.pick(&num).clone(),
        };
        let leaf = w.pointer_mut(&pth)?;
        let what;
        if leaf.is_null() {
            *leaf = json!(0.5);
            what = format!("null->0.5 {}", pth);
        } else if leaf.is_f64() {
            let old = leaf.as_f64()?;
            let d = *rng.pick(&[0.25 * eps, 0.5 * eps, eps, 1.5 * eps, 2.0 * eps, 2.5 * eps, 3.0 * eps, 4.0 * eps, 1e-9, 0.9e-8, 1.1e-8, 0.5, 0.0]) * if rng.bool() { 1.0 } else { -1.0 };
            let new = if rng.chance(0.1) { old * (1.0 + eps) } else { old + d };
            *leaf = json!(new);
            what = format!("{:e} -> {:e} {}", old, new, pth);
        } else if let Some(u) = leaf.as_u64() {
            let new = if u > 0 && rng.bool() { u - 1 } else { u + 1 };
            *leaf = json!(new);
            what = format!("{} -> {} {}", u, new, pth);
        } else {
            let i = leaf.as_i64()?;
            let new = if rng.bool() { i - 1 } else { i + 1 };
            *leaf = json!(new);
            what = format!("{} -> {} {}", i, new, pth);
        }
        Some((w, what))
    }

    fn corr_model_eq<M: Serialize + DeserializeOwned + PartialEq>(out: &mut Out, rng: &mut Rng, kind: &str, m: &M, root: &str, reps: usize) {
        let v = match serde_json::to_value(m) {
            Ok(v) => v,
            Err(_) => return,
        };
        if v.to_string().len() > 6000 {
            return;
        }
        // every numeric / null leaf once (each field of the object is edited at least once; a random
        // subset of 20 when there are more), then `reps` random edits incl. array truncations
        let mut num = vec![];
        let mut arrays = vec![];
        if let Some(r) = v.pointer(root) {
            leaves(r, root.to_string(), &mut num, &mut arrays);
        }
        let mut sweep: Vec<usize> = (0..num.len()).collect();
        rng.shuffle(&mut sweep);
        sweep.truncate(20);
        let mut plan: Vec<Option<Option<usize>>> = vec![None]; // None = identical pair
        plan.extend(sweep.into_iter().map(|i| Some(Some(i))));
        plan.extend((0..reps).map(|_| Some(None)));
        for step in plan {
            let (w, what) = match step {
                None => (v.clone(), "identical".to_string()),
                Some(which) => match perturb(rng, &v, root, which) {
                    Some(x) => x,
                    None => continue,
                },
            };
            let (a, b): (M, M) = match (guard(|| serde_json::from_value(v.clone())), guard(|| serde_json::from_value(w.clone()))) {
                (Ok(Ok(a)), Ok(Ok(b))) => (a, b),
                _ => continue,
            };
            // one direction per pair (chosen at random), both for the identical pair
            let dirs: Vec<bool> = if step.is_none() { vec![true] } else { vec![rng.bool()] };
            for fwd in dirs {
                let (x, y, vx, vy) = if fwd { (&a, &b, &v, &w) } else { (&b, &a, &w, &v) };
                let res = guard(|| x == y).ok();
                if let Some(term) = model_term(kind, vx, vy, res) {
                    out.corr(&format!("eq_{}", kind), term, json!({"entry": "partial_eq", "kind": kind, "edit": what, "a": vx, "b": vy, "impl_eq": res}));
                }
            }
        }
    }

    fn small_data(rng: &mut Rng, n: usize, p: usize, target: Target, feat: Feat) -> Data {
        let (d, _) = gen_data(rng, n, p, feat, target, true, false);
        d
    }

    fn corr_models(out: &mut Out, rng: &mut Rng, reps: usize) {
        type M = DenseMatrix<f64>;
        let n = rng.usize_in(5, 8);
        let p = rng.usize_in(1, 2);
        let dr = small_data(rng, n, p, Target::Reg, Feat::Cont);
        let dc = small_data(rng, n, p, Target::Class(2), Feat::Cont);
        let (xr, yr) = (mat::<f64>(&dr.x), dr.y.clone());
        let (xc, yc) = (mat::<f64>(&dc.x), dc.y.clone());
        macro_rules! go {
            ($kind:expr, $fit:expr) => {
                go!($kind, $fit, "")
            };
            ($kind:expr, $fit:expr, $root:expr) => {
                let mut r1 = rng.fork();
                if let Ok(Ok(m)) = guard(|| $fit) {
                    corr_model_eq(out, &mut r1, $kind, &m, $root, reps);
                }
            };
        }
        go!("LinearRegression", LinearRegression::fit(&xr, &yr, Default::default()));
        go!("RidgeRegression", RidgeRegression::fit(&xr, &yr, Default::default()));
        go!("Lasso", Lasso::fit(&xr, &yr, LassoParameters::default().with_alpha(0.01)));
        go!("ElasticNet", ElasticNet::fit(&xr, &yr, ElasticNetParameters::default().with_alpha(0.01)));
        go!("LogisticRegression", LogisticRegression::fit(&xc, &yc, Default::default()));
        go!("DecisionTreeRegressor", DecisionTreeRegressor::fit(&xr, &yr, DecisionTreeRegressorParameters::default().with_max_depth(2)));
        go!("DecisionTreeClassifier", DecisionTreeClassifier::fit(&xc, &yc, DecisionTreeClassifierParameters::default().with_max_depth(2)));
        go!("RandomForestRegressor", RandomForestRegressor::fit(&xr, &yr, RandomForestRegressorParameters::default().with_n_trees(2).with_max_depth(2)));
        go!("RandomForestClassifier", RandomForestClassifier::fit(&xc, &yc, RandomForestClassifierParameters::default().with_n_trees(2).with_max_depth(2)));
        let xw = mat::<f64>(&small_data(rng, 6, 3, Target::NoTarget, Feat::Cont).x);
        go!("PCA", PCA::<f64, M>::fit(&xw, PCAParameters::default().with_n_components(2)));
        go!("SVD", SVD::<f64, M>::fit(&xw, SVDParameters::default().with_n_components(2)));
        go!("SVC", SVC::<f64, M, LinearKernel>::fit(&xc, &yc, SVCParameters::default().with_c(1.0)));
        go!("SVR", SVR::<f64, M, LinearKernel>::fit(&xr, &yr, SVRParameters::default().with_eps(0.05).with_c(10.0)));
        go!("KMeans", KMeans::<f64>::fit(&xr, KMeansParameters::default().with_k(2)));
        go!("DBSCAN", DBSCAN::fit(&xr, DBSCANParameters::default().with_eps(1.0).with_min_samples(2).with_algorithm(KNNAlgorithmName::LinearSearch)));
        go!("KNNClassifier", KNNClassifier::fit(&xc, &yc, KNNClassifierParameters::default().with_k(2).with_algorithm(KNNAlgorithmName::LinearSearch)));
        go!("KNNRegressor", KNNRegressor::fit(&xr, &yr, KNNRegressorParameters::default().with_k(2).with_algorithm(KNNAlgorithmName::LinearSearch)));
        go!("CoverTree", CoverTree::new(rows_t::<f64>(&dr.x[..4.min(n)]), Distances::euclidian()), "/data");
        let db = small_data(rng, n, 2, Target::Class(2), Feat::Binary);
        go!("BernoulliNB", BernoulliNB::fit(&mat::<f64>(&db.x), &db.y, BernoulliNBParameters::default().with_binarize(0.5)), "/inner/distribution");
        let dk = small_data(rng, n, 2, Target::Class(2), Feat::Cat);
        go!("CategoricalNB", CategoricalNB::fit(&mat::<f64>(&dk.x), &dk.y, CategoricalNBParameters::default()), "/inner/distribution");
    }

    /// PartialEq on PREFIX pairs: a model and the model fitted on the same rows plus appended rows (both
    /// directions, also with a different k).  The relations with a length test (k-NN on the stored targets,
    /// cover tree on the stored points) must answer `false` exactly like their models.
    fn corr_prefix_pairs(out: &mut Out, rng: &mut Rng) {
        fn emit<M: Serialize + PartialEq>(out: &mut Out, kind: &str, what: &str, a: &M, b: &M) {
            let (va, vb) = match (serde_json::to_value(a), serde_json::to_value(b)) {
                (Ok(x), Ok(y)) => (x, y),
                _ => return,
            };
            for (x, y, vx, vy) in [(a, b, &va, &vb), (b, a, &vb, &va)] {
                let res = guard(|| x == y).ok();
                if let Some(term) = model_term(kind, vx, vy, res) {
                    out.corr(&format!("eq_prefix_{}", kind), term, json!({"entry": "partial_eq", "kind": kind, "edit": what, "a": vx, "b": vy, "impl_eq": res}));
                }
            }
        }
        let n = rng.usize_in(4, 7);
        let p = rng.usize_in(1, 2);
        let cut = rng.usize_in(2, n - 1); // the prefix keeps `cut` rows
        let dr = small_data(rng, n, p, Target::Reg, Feat::Cont);
        let dc = small_data(rng, n, p, Target::Class(2), Feat::Cont);
        let k = rng.usize_in(1, cut.min(3));
        let k2 = if rng.chance(0.25) { k % cut + 1 } else { k };
        let what = format!("row-prefix: {} of {} rows, k = {} / {}", cut, n, k, k2);
        let alg = || if rng_free_bool(n + cut + k) { KNNAlgorithmName::LinearSearch } else { KNNAlgorithmName::CoverTree };
        let fr = |rows: usize, k: usize| KNNRegressor::fit(&mat::<f64>(&dr.x[..rows]), &dr.y[..rows].to_vec(), KNNRegressorParameters::default().with_k(k).with_algorithm(alg()));
        if let (Ok(Ok(a)), Ok(Ok(b))) = (guard(|| fr(cut, k)), guard(|| fr(n, k2))) {
            emit(out, "KNNRegressor", &what, &a, &b);
        }
        let fc = |rows: usize, k: usize| KNNClassifier::fit(&mat::<f64>(&dc.x[..rows]), &dc.y[..rows].to_vec(), KNNClassifierParameters::default().with_k(k).with_algorithm(alg()));
        if let (Ok(Ok(a)), Ok(Ok(b))) = (guard(|| fc(cut, k)), guard(|| fc(n, k2))) {
            emit(out, "KNNClassifier", &what, &a, &b);
        }
        let ft = |rows: usize| CoverTree::new(rows_t::<f64>(&dr.x[..rows]), Distances::euclidian());
        if let (Ok(Ok(a)), Ok(Ok(b))) = (guard(|| ft(cut)), guard(|| ft(n))) {
            emit(out, "CoverTree", &what, &a, &b);
        }
    }
    /// a choice that does not consume the stream
    fn rng_free_bool(x: usize) -> bool {
        x % 2 == 0
    }

    pub fn run_corr(out: &mut Out, rng: &mut Rng, thorough: bool) {
        let k = if thorough { 4 } else { 1 };
        for i in 0..12 * k {
            if i % 3 == 2 {
                corr_tokens::<f32>(out, rng);
            } else {
                corr_tokens::<f64>(out, rng);
            }
        }
        for i in 0..30 * k {
            if i % 4 == 3 {
                corr_json::<f32>(out, rng, i % 2);
            } else {
                corr_json::<f64>(out, rng, i % 2);
            }
        }
        for _ in 0..3 * k {
            corr_json::<f64>(out, rng, 2);
        }
        corr_json_orders::<f64>(out, rng);
        corr_json_orders::<f32>(out, rng);
        for i in 0..8 * k {
            if i % 2 == 1 {
                corr_bincode::<f32>(out, rng);
            } else {
                corr_bincode::<f64>(out, rng);
            }
        }
        for i in 0..14 * k {
            if i % 3 == 2 {
                corr_dm_eq::<f32>(out, rng);
            } else {
                corr_dm_eq::<f64>(out, rng);
            }
        }
        for _ in 0..k {
            corr_models(out, rng, if thorough { 6 } else { 3 });
        }
        for _ in 0..6 * k {
            let mut r1 = rng.fork();
            corr_prefix_pairs(out, &mut r1);
        }
    }

    pub fn replay_corr(_out: &mut Out, _inp: &Value) {
        // correspondence cases are re-decided by the driver (coqc); nothing to evaluate here
    }
}
