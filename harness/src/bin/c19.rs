//! C19 — serialisation round trips.
//!
//! * correspondence (SC.C19.Corr): the token stream that `DenseMatrix`'s hand-written `Serialize`
//!   emits (observed with a recording `serde::Serializer`), what its `Deserialize` visitor answers to
//!   sequence / map forms in every field order (JSON text fed to `serde_json::from_str`, incl.
//!   duplicate / missing / unknown fields and wrong types), the bincode bytes, and the hand-written
//!   `PartialEq` relations on pairs of objects that differ in one field (built by editing the
//!   serde_json state of a fitted model);
//! * search: every serialisable public type fitted on random data -> bincode and JSON round trips,
//!   equality laws (self, restored, refit, different data), predictions on fresh queries.
#![allow(clippy::type_complexity)]
use serde::de::DeserializeOwned;
use serde::Serialize;
use serde_json::{json, Value};
use smartcore::algorithm::neighbour::cover_tree::CoverTree;
use smartcore::algorithm::neighbour::linear_search::LinearKNNSearch;
use smartcore::algorithm::neighbour::KNNAlgorithmName;
use smartcore::cluster::dbscan::{DBSCANParameters, DBSCAN};
use smartcore::cluster::kmeans::{KMeans, KMeansParameters};
use smartcore::decomposition::pca::{PCAParameters, PCA};
use smartcore::decomposition::svd::{SVDParameters, SVD};
use smartcore::ensemble::random_forest_classifier::{RandomForestClassifier, RandomForestClassifierParameters};
use smartcore::ensemble::random_forest_regressor::{RandomForestRegressor, RandomForestRegressorParameters};
use smartcore::error::{Failed, FailedError};
use smartcore::linalg::naive::dense_matrix::DenseMatrix;
use smartcore::linalg::BaseMatrix;
use smartcore::linear::elastic_net::{ElasticNet, ElasticNetParameters};
use smartcore::linear::lasso::{Lasso, LassoParameters};
use smartcore::linear::linear_regression::{LinearRegression, LinearRegressionParameters, LinearRegressionSolverName};
use smartcore::linear::logistic_regression::{LogisticRegression, LogisticRegressionParameters};
use smartcore::linear::ridge_regression::{RidgeRegression, RidgeRegressionParameters, RidgeRegressionSolverName};
use smartcore::math::distance::euclidian::Euclidian;
use smartcore::math::distance::hamming::Hamming;
use smartcore::math::distance::mahalanobis::Mahalanobis;
use smartcore::math::distance::manhattan::Manhattan;
use smartcore::math::distance::minkowski::Minkowski;
use smartcore::math::distance::{Distance, Distances};
use smartcore::math::num::RealNumber;
use smartcore::naive_bayes::bernoulli::{BernoulliNB, BernoulliNBParameters};
use smartcore::naive_bayes::categorical::{CategoricalNB, CategoricalNBParameters};
use smartcore::naive_bayes::gaussian::{GaussianNB, GaussianNBParameters};
use smartcore::naive_bayes::multinomial::{MultinomialNB, MultinomialNBParameters};
use smartcore::neighbors::knn_classifier::{KNNClassifier, KNNClassifierParameters};
use smartcore::neighbors::knn_regressor::{KNNRegressor, KNNRegressorParameters};
use smartcore::neighbors::KNNWeightFunction;
use smartcore::svm::svc::{SVCParameters, SVC};
use smartcore::svm::svr::{SVRParameters, SVR};
use smartcore::svm::{Kernel, Kernels, LinearKernel, PolynomialKernel, RBFKernel, SigmoidKernel};
use smartcore::tree::decision_tree_classifier::{DecisionTreeClassifier, DecisionTreeClassifierParameters, SplitCriterion};
use smartcore::tree::decision_tree_regressor::{DecisionTreeRegressor, DecisionTreeRegressorParameters};
use std::fmt::Debug;
use vharness::*;


// ------------------------------------------------------------------------------------------
// scalar width
// ------------------------------------------------------------------------------------------
pub trait Num: RealNumber + Serialize + DeserializeOwned + Default + Send + Sync + 'static {
    const F32: bool;
}
impl Num for f64 {
    const F32: bool = false;
}
impl Num for f32 {
    const F32: bool = true;
}
fn t<T: Num>(v: f64) -> T {
    T::from_f64(v).unwrap()
}
fn f<T: Num>(v: T) -> f64 {
    v.to_f64().unwrap()
}
fn mat<T: Num>(rows: &[Vec<f64>]) -> DenseMatrix<T> {
    if rows.is_empty() {
        return DenseMatrix::new(0, 0, vec![]);
    }
    let r: Vec<Vec<T>> = rows.iter().map(|r| r.iter().map(|v| t::<T>(*v)).collect()).collect();
    DenseMatrix::from_2d_vec(&r)
}
fn vect<T: Num>(v: &[f64]) -> Vec<T> {
    v.iter().map(|x| t::<T>(*x)).collect()
}
fn vecf<T: Num>(v: &[T]) -> Vec<f64> {
    v.iter().map(|x| f(*x)).collect()
}
fn matf<T: Num>(m: &DenseMatrix<T>) -> Vec<f64> {
    let (n, p) = m.shape();
    let mut o = vec![n as f64, p as f64];
    for r in 0..n {
        for c in 0..p {
            o.push(f(m.get(r, c)));
        }
    }
    o
}
fn rows_t<T: Num>(rows: &[Vec<f64>]) -> Vec<Vec<T>> {
    rows.iter().map(|r| vect::<T>(r)).collect()
}
/// marker pushed into an observation when a call returned `Err`
fn err_marker() -> f64 {
    f64::from_bits(0x7ff8_0000_dead_0001)
}
fn push_res<T: Num>(o: &mut Vec<f64>, r: Result<Vec<T>, Failed>) {
    match r {
        Ok(v) => {
            o.push(v.len() as f64);
            o.extend(vecf(&v));
        }
        Err(_) => o.push(err_marker()),
    }
}
fn push_mat<T: Num>(o: &mut Vec<f64>, r: Result<DenseMatrix<T>, Failed>) {
    match r {
        Ok(m) => o.extend(matf(&m)),
        Err(_) => o.push(err_marker()),
    }
}

// ------------------------------------------------------------------------------------------
// data
// ------------------------------------------------------------------------------------------
#[derive(Clone, Debug)]
pub struct Data {
    x: Vec<Vec<f64>>,
    y: Vec<f64>,
    q: Vec<Vec<f64>>,
}
#[derive(Clone, Copy, PartialEq, Debug)]
enum Feat {
    Cont,
    Binary,
    Count,
    Cat,
}
#[derive(Clone, Copy, PartialEq, Debug)]
enum Target {
    Reg,
    Class(usize),
    NoTarget,
}

static F32_MODE: std::sync::atomic::AtomicBool = std::sync::atomic::AtomicBool::new(false);

struct Gen {
    style: usize,
    scale: f64,
    offset: f64,
    ncat: Vec<usize>,
}

fn gen_row(rng: &mut Rng, p: usize, feat: Feat, g: &Gen) -> Vec<f64> {
    (0..p)
        .map(|j| match feat {
            Feat::Cont => match g.style {
                0 => rng.normal(),
                1 => rng.normal() * g.scale + g.offset,
                2 => rng.dyadic(4, 2),
                _ => rng.int(-3, 3) as f64,
            },
            Feat::Binary => rng.below(2) as f64,
            Feat::Count => rng.below(6) as f64,
            Feat::Cat => rng.below(g.ncat[j]) as f64,
        })
        .collect()
}

/// two independent data sets of the same shape (different rows AND different targets) and one query set
fn gen_data(rng: &mut Rng, n: usize, p: usize, feat: Feat, target: Target, cont_only: bool, offset_ok: bool) -> (Data, Data) {
    let style = if cont_only { rng.below(2) } else { rng.below(4) };
    let g = Gen {
        style,
        // f32: column scales <= 1e2 (iterative fits in f32 on larger scales may return NaN or hang: not C19)
        scale: f64::min(*rng.pick(&[1e-3, 1e-2, 0.1, 1.0, 10.0, 100.0, 1e3]), if F32_MODE.load(std::sync::atomic::Ordering::Relaxed) { 100.0 } else { 1e3 }),
        offset: *rng.pick(&[0.0, 0.0, 1.0, -5.0, 100.0]) * (offset_ok as u8 as f64),
        ncat: (0..p).map(|_| rng.usize_in(2, 4)).collect(),
    };
    let mk_x = |rng: &mut Rng| -> Vec<Vec<f64>> { (0..n).map(|_| gen_row(rng, p, feat, &g)).collect() };
    let x1 = mk_x(rng);
    let x2 = mk_x(rng);
    let w: Vec<f64> = (0..p).map(|_| rng.uniform(-2.0, 2.0)).collect();
    let b = rng.uniform(-1.0, 1.0);
    let lin = |r: &Vec<f64>| -> f64 { r.iter().zip(w.iter()).map(|(a, c)| a * c).sum::<f64>() + b };
    let (y1, y2) = match target {
        Target::NoTarget => (vec![], vec![]),
        Target::Reg => {
            let noise = *rng.pick(&[0.0, 0.01, 0.5]);
            let s = if g.style == 1 { g.scale } else { 1.0 };
            let y1: Vec<f64> = x1.iter().map(|r| lin(r) + noise * s * rng.normal()).collect();
            // different targets: another linear law and other noise
            let y2: Vec<f64> = x2.iter().map(|r| -0.5 * lin(r) + 3.0 * s + s * rng.normal()).collect();
            (y1, y2)
        }
        Target::Class(k) => {
            let palette: Vec<f64> = match if feat == Feat::Cat { rng.below(2) } else { rng.below(3) } {
                0 => (0..k).map(|c| c as f64).collect(),
                1 => (0..k).map(|c| (c as f64) * 2.0 + 1.0).collect(),
                _ => {
                    let base = [-3.5, 2.0, 7.0, 11.25, 40.0];
                    base[..k].to_vec()
                }
            };
            let mode = rng.below(2);
            let mut idx1: Vec<usize> = x1
                .iter()
                .map(|r| if mode == 0 { rng.below(k) } else { ((lin(r).abs() * 1.7) as usize + (rng.chance(0.1) as usize)) % k })
                .collect();
            // every class present (needs n >= k)
            for c in 0..k.min(n) {
                idx1[c] = c;
            }
            // and (if there is room) twice, so that per-class variances are not all zero
            if n >= 2 * k {
                for c in 0..k {
                    idx1[k + c] = c;
                }
            }
            // different targets: every label moved to the next class (same class set, no position agrees)
            let idx2: Vec<usize> = idx1.iter().map(|c| (c + 1) % k).collect();
            (idx1.iter().map(|c| palette[*c]).collect(), idx2.iter().map(|c| palette[*c]).collect())
        }
    };
    // queries: fresh rows, some training rows of both sets (exact hits / ties), one far row
    let m = rng.usize_in(1, 8);
    let mut q: Vec<Vec<f64>> = (0..m).map(|_| gen_row(rng, p, feat, &g)).collect();
    for _ in 0..rng.usize_in(0, 4) {
        q.push(x1[rng.below(n)].clone());
    }
    for _ in 0..rng.usize_in(0, 3) {
        q.push(x2[rng.below(n)].clone());
    }
    if feat == Feat::Cont {
        q.push(gen_row(rng, p, feat, &g).iter().map(|v| v * 50.0 + 7.0).collect());
    }
    (Data { x: x1, y: y1, q: q.clone() }, Data { x: x2, y: y2, q })
}

// ------------------------------------------------------------------------------------------
// the oracle (written from the property text)
// ------------------------------------------------------------------------------------------
fn bits_eq(a: &[f64], b: &[f64]) -> bool {
    a.len() == b.len() && a.iter().zip(b.iter()).all(|(x, y)| x.to_bits() == y.to_bits() || (x.is_nan() && y.is_nan() && x.to_bits() != err_marker().to_bits() && y.to_bits() != err_marker().to_bits()))
}
fn close(a: &[f64], b: &[f64], rel: f64) -> bool {
    a.len() == b.len()
        && a.iter().zip(b.iter()).all(|(x, y)| {
            x.to_bits() == y.to_bits() || (x.is_nan() && y.is_nan()) || (x - y).abs() <= rel * 1.0f64.max(x.abs()).max(y.abs())
        })
}

pub struct Case<'a> {
    pub out: &'a mut Out,
    pub tname: String,
    pub input: Value,
    pub f32m: bool,
}
impl<'a> Case<'a> {
    fn fail(&mut self, oracle: &str, what: &str) {
        let w = format!("{}{}: {}", self.tname, if self.f32m { "<f32>" } else { "<f64>" }, what);
        self.out.fail(oracle, &w, self.input.clone());
    }
    fn count(&mut self, what: &str) {
        let k = format!("{}:{}", what, self.tname);
        self.out.count(&k);
    }
}

type EqFn<M> = Option<fn(&M, &M) -> bool>;

fn eq_checked<M>(c: &mut Case, eq: EqFn<M>, a: &M, b: &M, oracle: &str, what: &str, expect: bool) -> Option<bool> {
    let e = eq?;
    match guard(|| e(a, b)) {
        Ok(v) => {
            if v != expect {
                c.fail(oracle, what);
            }
            Some(v)
        }
        Err(p) => {
            c.fail(oracle, &format!("{} (PartialEq panicked: {})", what, p));
            None
        }
    }
}

/// The round-trip clauses of the property for one fitted object `m`; `obs` = predictions / decision
/// values / transforms on the query set, flattened.
fn check_roundtrip<M, O>(c: &mut Case, m: &M, eq: EqFn<M>, obs: &O) -> bool
where
    M: Serialize + DeserializeOwned + Debug,
    O: Fn(&M) -> Vec<f64>,
{
    c.count("search:type");
    let dbg0 = format!("{:?}", m);
    // A fit on finite data that returns Ok with NaN / inf inside the model (seen: f32 L-BFGS) is a defect of
    // the fit, not of the serialisation: the tolerance relations are degenerate on NaN and JSON has no
    // notation for it.  Such objects get the binary clauses only (bits must survive) and are counted.
    let nonfinite = dbg0.contains("NaN") || dbg0.contains("inf");
    let eq: EqFn<M> = if nonfinite { None } else { eq };
    if nonfinite {
        c.count("observe:nonfinite-state-after-fit(binary-clauses-only)");
    }
    // a model equals itself
    eq_checked(c, eq, m, m, "self_equality", "model != itself", true);
    if eq.is_none() && !nonfinite {
        c.out.count("search:no-PartialEq(equality-through-predictions-only)");
    }
    let o0 = guard(|| obs(m));
    let same_obs = |a: &Result<Vec<f64>, String>, b: &Result<Vec<f64>, String>| -> bool {
        match (a, b) {
            (Ok(x), Ok(y)) => bits_eq(x, y),
            (Err(_), Err(_)) => true,
            _ => false,
        }
    };
    // ---- binary format ----
    match guard(|| bincode::serialize(m)) {
        Err(p) => c.fail("serialise_never_fails", &format!("bincode::serialize panicked: {}", p)),
        Ok(Err(e)) => c.fail("serialise_never_fails", &format!("bincode::serialize: {}", e)),
        Ok(Ok(bytes)) => match guard(|| bincode::deserialize::<M>(&bytes)) {
            Err(p) => c.fail("bincode_deserialise", &format!("bincode::deserialize panicked: {}", p)),
            Ok(Err(e)) => c.fail("bincode_deserialise", &format!("bincode::deserialize of the model's own bytes: {}", e)),
            Ok(Ok(r)) => {
                eq_checked(c, eq, &r, m, "bincode_restored_equal", "restored (bincode) != original", true);
                eq_checked(c, eq, m, &r, "bincode_restored_equal", "original != restored (bincode)", true);
                let o1 = guard(|| obs(&r));
                if !same_obs(&o0, &o1) {
                    c.fail("bincode_predictions_bit_identical", "predictions / decision values / transforms of the restored (bincode) object differ from the original's");
                }
                if format!("{:?}", r) != dbg0 {
                    c.fail("bincode_state_identical", "Debug rendering of the restored (bincode) object differs from the original's (a field changed)");
                }
                match guard(|| bincode::serialize(&r)) {
                    Ok(Ok(b2)) => {
                        if b2 != bytes {
                            c.fail("bincode_state_identical", "re-serialising the restored (bincode) object gives different bytes");
                        }
                    }
                    _ => c.fail("serialise_never_fails", "bincode::serialize of the restored object failed"),
                }
            }
        },
    }
    // ---- JSON text (declaration field order) ----
    match guard(|| serde_json::to_string(m)) {
        Err(p) => c.fail("serialise_never_fails", &format!("serde_json::to_string panicked: {}", p)),
        Ok(Err(e)) => c.fail("serialise_never_fails", &format!("serde_json::to_string: {}", e)),
        Ok(Ok(s)) => match guard(|| serde_json::from_str::<M>(&s)) {
            Err(p) => c.fail("json_deserialise", &format!("serde_json::from_str panicked: {}", p)),
            Ok(Err(e)) => {
                if nonfinite {
                    // serde_json writes NaN / inf as null, which cannot be read back
                    c.count("observe:json-of-nonfinite-state-not-restorable");
                } else {
                    c.fail("json_deserialise", &format!("serde_json::from_str of the model's own JSON: {}", e));
                }
            }
            Ok(Ok(r)) => {
                eq_checked(c, eq, &r, m, "json_restored_equal", "restored (JSON) != original", true);
                let o1 = guard(|| obs(&r));
                let tol = if c.f32m { 1e-4 } else { 1e-9 };
                let ok = match (&o0, &o1) {
                    (Ok(x), Ok(y)) => {
                        if bits_eq(x, y) {
                            c.out.count("search:json-predictions-exact");
                            true
                        } else {
                            c.out.count("search:json-predictions-not-bit-identical");
                            close(x, y, tol)
                        }
                    }
                    (Err(p), Err(_)) => {
                        c.count(&format!("search:observation-panics({})", &p[..p.len().min(40)]));
                        true
                    }
                    _ => false,
                };
                if !ok {
                    c.fail("json_predictions_equal_up_to_rounding", "predictions of the restored (JSON) object differ from the original's by more than the decimal rounding");
                }
            }
        },
    }
    // ---- JSON value (sorted field order: a permutation of the declaration order) ----
    if !nonfinite {
        match guard(|| serde_json::to_value(m)) {
            Ok(Ok(v)) => match guard(|| serde_json::from_value::<M>(v)) {
                Ok(Ok(r)) => {
                    eq_checked(c, eq, &r, m, "json_restored_equal", "restored (JSON value, sorted keys) != original", true);
                    let o1 = guard(|| obs(&r));
                    if !same_obs(&o0, &o1) {
                        c.fail("json_value_predictions_identical", "predictions of the object restored from serde_json::Value (keys in sorted order) differ");
                    }
                }
                Ok(Err(e)) => c.fail("json_deserialise", &format!("serde_json::from_value (sorted keys): {}", e)),
                Err(p) => c.fail("json_deserialise", &format!("serde_json::from_value panicked: {}", p)),
            },
            Ok(Err(e)) => c.fail("serialise_never_fails", &format!("serde_json::to_value: {}", e)),
            Err(p) => c.fail("serialise_never_fails", &format!("serde_json::to_value panicked: {}", p)),
        }
    }
    !nonfinite
}

/// Whole property for one type: fit on `d`, round trips, refit equality, inequality against a fit on
/// `d2` (different rows and targets).
fn run_type<M, F, O>(c: &mut Case, d: &Data, d2: &Data, fit: F, eq: EqFn<M>, obs: O, deterministic: bool)
where
    M: Serialize + DeserializeOwned + Debug + Send + 'static,
    F: Fn(&Data) -> Result<M, String> + Send + Clone + 'static,
    O: Fn(&M, &Data) -> Vec<f64>,
{
    let mut key: Vec<f64> = d.x.iter().flatten().cloned().collect();
    key.extend(d.y.iter());
    key.push(hash_of(&c.tname) as f64);
    key.push(c.f32m as u8 as f64);
    key.push(hash_of(&c.input["params"].to_string()) as f64);
    let m = match fit_guarded(&fit, d) {
        Ok(Ok(m)) => m,
        Ok(Err(e)) => {
            c.out.eval(hash_f64s(&key), false);
            c.count(&format!("search:fit-error({})", &e[..e.len().min(40)]));
            return;
        }
        Err(p) => {
            c.out.eval(hash_f64s(&key), false);
            c.count(&format!("search:fit-panic({})", &p[..p.len().min(40)]));
            if p.contains("does not return") && std::env::var("C19_TRACE").is_ok() {
                eprintln!("TIMEOUT {}", c.input);
            }
            return;
        }
    };
    c.out.eval(hash_f64s(&key), d.x.len() >= 3);
    if std::env::var("C19_DUMP").is_ok() {
        eprintln!("DUMP {} {}", c.tname, serde_json::to_string(&m).unwrap_or_default());
    }
    if !check_roundtrip(c, &m, eq, &|mm: &M| obs(mm, d)) {
        return;
    }
    // second fit on the same data
    if let Ok(Ok(m2)) = fit_guarded(&fit, d) {
        if deterministic {
            eq_checked(c, eq, &m, &m2, "refit_equal", "second fit on the same data != first fit", true);
            let same = matches!((bincode::serialize(&m), bincode::serialize(&m2)), (Ok(a), Ok(b)) if a == b);
            if same {
                c.out.count("search:refit-bytes-identical");
            } else {
                c.count("search:refit-bytes-differ");
            }
        } else {
            c.count("search:refit-skipped(unseeded-randomness)");
        }
    }
    // fit on different rows and targets
    if let Ok(Ok(m3)) = fit_guarded(&fit, d2) {
        if let Some(e) = eq {
            let e1 = guard(|| e(&m, &m3));
            let e2 = guard(|| e(&m3, &m));
            match (e1, e2) {
                (Ok(false), Ok(false)) => c.out.count("search:different-data-unequal"),
                (Ok(a), Ok(b)) if a != b => c.fail("equality_symmetric", "a == b and b == a disagree for models fitted on different data"),
                (Ok(_), Ok(_)) if c.tname == "DBSCAN" && dbscan_same_labelling(&m, &m3) => {
                    // DBSCAN's PartialEq looks at (cluster_labels, num_classes, eps) only, never at the stored
                    // points: two fits on different rows with the same labelling are equal.  Reported; counted
                    // here (or raised as the listed known finding) under exactly this predicate.
                    if DBSCAN_FINDING_LISTED {
                        c.out.known("dbscan-eq-ignores-points", "DBSCAN models fitted on different rows with the same label vector compare equal (PartialEq ignores the stored points)");
                    }
                    c.out.count("observe:dbscan-eq-ignores-points(different-rows,same-labelling,equal)");
                }
                (Ok(_), Ok(_)) => {
                    // equal: only acceptable if the two models cannot be told apart by their behaviour
                    let oa = guard(|| obs(&m, d));
                    let ob = guard(|| obs(&m3, d));
                    let same = match (&oa, &ob) {
                        (Ok(x), Ok(y)) => bits_eq(x, y),
                        _ => false,
                    };
                    if same {
                        c.count("search:different-data-equal-but-indistinguishable(excluded)");
                    } else {
                        c.fail("different_data_unequal", "models fitted on different rows and targets compare equal although they predict differently");
                    }
                }
                _ => c.fail("different_data_unequal", "PartialEq panicked on models fitted on different data of the same shape"),
            }
        }
    }
}

/// a fit that does not return within 2 s is a (counted) fit failure, not a C19 matter
fn fit_guarded<M, F>(fit: &F, d: &Data) -> Result<Result<M, String>, String>
where
    M: Send + 'static,
    F: Fn(&Data) -> Result<M, String> + Send + Clone + 'static,
{
    let f2 = fit.clone();
    let d2 = d.clone();
    match with_watchdog(2, move || f2(&d2)) {
        None => Err("fit does not return within 2 s".to_string()),
        Some(r) => r,
    }
}

/// KNOWN_FINDINGS.txt lists `property=C19 id=dbscan-eq-ignores-points`
const DBSCAN_FINDING_LISTED: bool = true;
fn dbscan_same_labelling<M: Serialize>(a: &M, b: &M) -> bool {
    match (serde_json::to_value(a), serde_json::to_value(b)) {
        (Ok(x), Ok(y)) => x["cluster_labels"] == y["cluster_labels"] && x["num_classes"] == y["num_classes"] && x["eps"] == y["eps"] && x["cluster_labels"].is_array(),
        _ => false,
    }
}

fn eq_of<M: PartialEq>() -> EqFn<M> {
    Some(|a: &M, b: &M| a == b)
}

// ------------------------------------------------------------------------------------------
// per-type cases (generic in the scalar width)
// ------------------------------------------------------------------------------------------

fn case_dense_matrix<T: Num>(c: &mut Case, rng: &mut Rng) {
    let n = rng.below(9);
    let p = if n == 0 { 0 } else { rng.usize_in(1, 9) };
    let special = rng.chance(0.2);
    let mkv = |rng: &mut Rng| -> Vec<f64> {
        (0..n * p)
            .map(|_| {
                if special {
                    if T::F32 {
                        *rng.pick(&[0.0, -0.0, 1.0, f32::MIN_POSITIVE as f64, 1e-40f32 as f64, f32::MAX as f64, -(f32::MAX as f64), 0.1f32 as f64, (1.0f32 / 3.0) as f64, 1e-45f32 as f64])
                    } else {
                        *rng.pick(&[0.0, -0.0, 1.0, f64::MIN_POSITIVE, 1e-310, f64::MAX, -f64::MAX, 0.1, 1.0 / 3.0, 5e-324])
                    }
                } else if T::F32 {
                    rng.normal() * 10f64.powi(rng.int(-6, 6) as i32)
                } else {
                    rng.normal() * 10f64.powi(rng.int(-6, 6) as i32)
                }
            })
            .collect()
    };
    let v1 = mkv(rng);
    let mut v2 = mkv(rng);
    if n * p > 0 {
        // "different data" for a relation with tolerance machine-epsilon: at least one entry differs visibly
        v2[0] = if v1[0].abs() < 1e3 { v1[0] + 1.0 } else { 0.5 };
    }
    c.input["nrows"] = json!(n);
    c.input["ncols"] = json!(p);
    c.input["values_column_major"] = json!(v1);
    let d = Data { x: vec![v1.clone()], y: vec![], q: vec![] };
    let d2 = Data { x: vec![v2], y: vec![], q: vec![] };
    if n * p == 0 {
        // nothing to tell two empty matrices apart
        let m: DenseMatrix<T> = DenseMatrix::new(n, p, vec![]);
        c.out.eval(hash_of(&(n, p, T::F32)), true);
        check_roundtrip(c, &m, eq_of(), &|mm: &DenseMatrix<T>| matf(mm));
        return;
    }
    // different data in the weakest visible sense: one entry moved by 1 (up or down) must be detected,
    // in both directions; so must a transposed shape with the same storage
    {
        let a: DenseMatrix<T> = DenseMatrix::new(n, p, vect::<T>(&v1));
        let i = rng.below(n * p);
        let mut w = v1.clone();
        let delta = if rng.bool() { 1.0 } else { -1.0 };
        w[i] = if v1[i].abs() < 1e3 { v1[i] + delta } else { 0.5 * delta };
        let b: DenseMatrix<T> = DenseMatrix::new(n, p, vect::<T>(&w));
        if a == b || b == a {
            c.fail("different_data_unequal", &format!("matrices that differ by 1 in entry {} compare equal", i));
        }
        if n != p {
            let tshape: DenseMatrix<T> = DenseMatrix::new(p, n, vect::<T>(&v1));
            if a == tshape || tshape == a {
                c.fail("different_data_unequal", "an n x p and a p x n matrix with the same storage compare equal");
            }
        }
    }
    run_type(
        c,
        &d,
        &d2,
        move |d: &Data| Ok(DenseMatrix::<T>::new(n, p, vect::<T>(&d.x[0]))),
        eq_of(),
        |m: &DenseMatrix<T>, _d: &Data| {
            let mut o = matf(m);
            // raw storage, a transpose and a product exercise the restored shape
            o.extend(matf(&m.transpose()));
            o.extend(vecf(&m.get_col_as_vec(0)));
            o.extend(vecf(&m.get_row_as_vec(n - 1)));
            o
        },
        true,
    );
}

fn case_linear<T: Num>(c: &mut Case, rng: &mut Rng, which: usize) {
    let p = rng.usize_in(1, 5);
    let n = rng.usize_in(p + 2, p + 30);
    let (mut d, mut d2) = gen_data(rng, n, p, Feat::Cont, Target::Reg, true, true);
    if T::F32 && which >= 2 {
        // Lasso / ElasticNet in f32 on data of scale 1e3 may never return (reported; not a C19 matter)
        let sc = d.x.iter().flatten().fold(0.0f64, |a, v| a.max(v.abs())).max(1e-300);
        let ys = d.y.iter().chain(d2.y.iter()).fold(0.0f64, |a, v| a.max(v.abs())).max(1e-300);
        for dd in [&mut d, &mut d2] {
            for r in dd.x.iter_mut().chain(dd.q.iter_mut()) {
                for v in r.iter_mut() {
                    *v /= sc;
                }
            }
            for v in dd.y.iter_mut() {
                *v /= ys;
            }
        }
    }
    describe(c, &d, "");
    let q = |m: &dyn Fn(&DenseMatrix<T>) -> Result<Vec<T>, Failed>, d: &Data| -> Vec<f64> {
        let mut o = vec![];
        push_res(&mut o, m(&mat::<T>(&d.q)));
        o
    };
    match which {
        0 => {
            let solver_qr = rng.bool();
            c.input["params"] = json!(format!("solver_qr={}", solver_qr));
            let mk = move || LinearRegressionParameters::default().with_solver(if solver_qr { LinearRegressionSolverName::QR } else { LinearRegressionSolverName::SVD });
            check_params(c, &mk());
            run_type(
                c,
                &d,
                &d2,
                move |d: &Data| LinearRegression::fit(&mat::<T>(&d.x), &vect::<T>(&d.y), mk()).map_err(|e| e.to_string()),
                eq_of(),
                |m: &LinearRegression<T, DenseMatrix<T>>, d: &Data| q(&|x| m.predict(x), d),
                true,
            );
        }
        1 => {
            let alpha = *rng.pick(&[0.01, 0.5, 1.0, 10.0]);
            let chol = rng.bool();
            let norm = rng.bool();
            c.input["params"] = json!(format!("alpha={} cholesky={} normalize={}", alpha, chol, norm));
            let mk = move || {
                RidgeRegressionParameters::default()
                    .with_alpha(t::<T>(alpha))
                    .with_normalize(norm)
                    .with_solver(if chol { RidgeRegressionSolverName::Cholesky } else { RidgeRegressionSolverName::SVD })
            };
            check_params(c, &mk());
            run_type(
                c,
                &d,
                &d2,
                move |d: &Data| RidgeRegression::fit(&mat::<T>(&d.x), &vect::<T>(&d.y), mk()).map_err(|e| e.to_string()),
                eq_of(),
                |m: &RidgeRegression<T, DenseMatrix<T>>, d: &Data| q(&|x| m.predict(x), d),
                true,
            );
        }
        2 => {
            let alpha = *rng.pick(&[0.001, 0.05, 0.5]);
            let norm = rng.bool();
            c.input["params"] = json!(format!("alpha={} normalize={}", alpha, norm));
            let mk = move || LassoParameters::default().with_alpha(t::<T>(alpha)).with_normalize(norm).with_max_iter(200);
            check_params(c, &mk());
            run_type(
                c,
                &d,
                &d2,
                move |d: &Data| Lasso::fit(&mat::<T>(&d.x), &vect::<T>(&d.y), mk()).map_err(|e| e.to_string()),
                eq_of(),
                |m: &Lasso<T, DenseMatrix<T>>, d: &Data| q(&|x| m.predict(x), d),
                true,
            );
        }
        _ => {
            let alpha = *rng.pick(&[0.001, 0.05, 0.5]);
            let l1 = *rng.pick(&[0.2, 0.5, 0.9]);
            let norm = rng.bool();
            c.input["params"] = json!(format!("alpha={} l1_ratio={} normalize={}", alpha, l1, norm));
            let mk = move || ElasticNetParameters::default().with_alpha(t::<T>(alpha)).with_l1_ratio(t::<T>(l1)).with_normalize(norm).with_max_iter(200);
            check_params(c, &mk());
            run_type(
                c,
                &d,
                &d2,
                move |d: &Data| ElasticNet::fit(&mat::<T>(&d.x), &vect::<T>(&d.y), mk()).map_err(|e| e.to_string()),
                eq_of(),
                |m: &ElasticNet<T, DenseMatrix<T>>, d: &Data| q(&|x| m.predict(x), d),
                true,
            );
        }
    }
}

fn describe(c: &mut Case, d: &Data, params: &str) {
    c.input["n"] = json!(d.x.len());
    c.input["p"] = json!(d.x.first().map(|r| r.len()).unwrap_or(0));
    c.input["x"] = json!(d.x);
    c.input["y"] = json!(d.y);
    c.input["queries"] = json!(d.q);
    if !params.is_empty() {
        c.input["params"] = json!(params);
    }
    if std::env::var("C19_TRACE_INPUT").is_ok() {
        eprintln!("{}", c.input);
    }
    let n = d.x.len();
    c.out.count(&format!("search:n={}", if n < 5 { "<5" } else if n < 15 { "5..14" } else { ">=15" }));
}

/// parameter structs and enums are serialisable public types too: they have no PartialEq, so the
/// restored value is compared through its Debug rendering and its bytes
fn check_params<P: Serialize + DeserializeOwned + Debug>(c: &mut Case, p: &P) {
    let saved = c.tname.clone();
    c.tname = format!("{}Parameters", saved);
    c.out.eval(hash_of(&format!("{:?}", p)), true);
    check_roundtrip(c, p, None, &|_: &P| vec![]);
    c.tname = saved;
}

fn case_logistic<T: Num>(c: &mut Case, rng: &mut Rng) {
    let p = rng.usize_in(1, 4);
    let k = rng.usize_in(2, 3);
    let n = rng.usize_in(k + 4, 30);
    let (d, d2) = gen_data(rng, n, p, Feat::Cont, Target::Class(k), true, true);
    let alpha = *rng.pick(&[0.0, 0.1, 1.0]);
    describe(c, &d, &format!("alpha={}", alpha));
    let mk = move || LogisticRegressionParameters::default().with_alpha(t::<T>(alpha));
    check_params(c, &mk());
    run_type(
        c,
        &d,
        &d2,
        move |d: &Data| LogisticRegression::fit(&mat::<T>(&d.x), &vect::<T>(&d.y), mk()).map_err(|e| e.to_string()),
        eq_of(),
        |m: &LogisticRegression<T, DenseMatrix<T>>, d: &Data| {
            let mut o = vec![];
            push_res(&mut o, m.predict(&mat::<T>(&d.q)));
            o.extend(matf(m.coefficients()));
            o.extend(matf(m.intercept()));
            o
        },
        true,
    );
}

fn knn_with<T: Num, D>(c: &mut Case, rng: &mut Rng, dist: D, dname: &str, d: &Data, d2: &Data, regressor: bool)
where
    D: Distance<Vec<T>, T> + Serialize + DeserializeOwned + Debug + Clone + Send + Sync + 'static,
{
    let n = d.x.len();
    let k = rng.usize_in(if regressor { 1 } else { 2 }, n.min(5));
    let cover = rng.bool();
    let wdist = rng.bool();
    describe(c, d, &format!("distance={} k={} cover_tree={} weight_distance={}", dname, k, cover, wdist));
    let alg = move || if cover { KNNAlgorithmName::CoverTree } else { KNNAlgorithmName::LinearSearch };
    let wf = move || if wdist { KNNWeightFunction::Distance } else { KNNWeightFunction::Uniform };
    if regressor {
        let dd = dist.clone();
        let mk = move || KNNRegressorParameters::default().with_k(k).with_algorithm(alg()).with_weight(wf()).with_distance(dd.clone());
        check_params(c, &mk());
        run_type(
            c,
            d,
            d2,
            move |d: &Data| KNNRegressor::fit(&mat::<T>(&d.x), &vect::<T>(&d.y), mk()).map_err(|e| e.to_string()),
            eq_of(),
            |m: &KNNRegressor<T, D>, d: &Data| {
                let mut o = vec![];
                push_res(&mut o, m.predict(&mat::<T>(&d.q)));
                o
            },
            true,
        );
    } else {
        let dd = dist.clone();
        let mk = move || KNNClassifierParameters::default().with_k(k).with_algorithm(alg()).with_weight(wf()).with_distance(dd.clone());
        check_params(c, &mk());
        run_type(
            c,
            d,
            d2,
            move |d: &Data| KNNClassifier::fit(&mat::<T>(&d.x), &vect::<T>(&d.y), mk()).map_err(|e| e.to_string()),
            eq_of(),
            |m: &KNNClassifier<T, D>, d: &Data| {
                let mut o = vec![];
                push_res(&mut o, m.predict(&mat::<T>(&d.q)));
                o
            },
            true,
        );
    }
}

fn case_knn<T: Num>(c: &mut Case, rng: &mut Rng, regressor: bool) {
    let p = rng.usize_in(1, 4);
    let n = rng.usize_in(p + 3, 30);
    let which = rng.below(5);
    let kcls = rng.usize_in(2, 3);
    let (d, d2) = gen_data(rng, n, p, Feat::Cont, if regressor { Target::Reg } else { Target::Class(kcls) }, which == 4, true);
    match which {
        0 => knn_with::<T, _>(c, rng, Distances::euclidian(), "euclidian", &d, &d2, regressor),
        1 => knn_with::<T, _>(c, rng, Distances::manhattan(), "manhattan", &d, &d2, regressor),
        2 => {
            let pp = rng.usize_in(1, 4) as u16;
            knn_with::<T, _>(c, rng, Distances::minkowski(pp), &format!("minkowski({})", pp), &d, &d2, regressor)
        }
        3 => knn_with::<T, _>(c, rng, Distances::hamming(), "hamming", &d, &d2, regressor),
        _ => match guard(|| Distances::mahalanobis(&mat::<T>(&d.x))) {
            Ok(md) => knn_with::<T, Mahalanobis<T, DenseMatrix<T>>>(c, rng, md, "mahalanobis", &d, &d2, regressor),
            Err(_) => c.count("search:fit-panic(mahalanobis-singular)"),
        },
    }
}

fn case_tree<T: Num>(c: &mut Case, rng: &mut Rng, which: usize) {
    let p = rng.usize_in(1, 4);
    let n = rng.usize_in(4, 40);
    let classifier = which % 2 == 0;
    let k = rng.usize_in(2, 4).min(n);
    let (d, d2) = gen_data(rng, n, p, Feat::Cont, if classifier { Target::Class(k) } else { Target::Reg }, false, true);
    let depth = if rng.bool() { Some(rng.usize_in(1, 6) as u16) } else { None };
    let leaf = rng.usize_in(1, 3);
    let split = rng.usize_in(2, 5);
    let crit = rng.below(3);
    let ntrees = rng.usize_in(1, 6);
    let seed = rng.next_u64() % 1000;
    let mtry = if rng.bool() { Some(rng.usize_in(1, p)) } else { None };
    describe(c, &d, &format!("max_depth={:?} min_samples_leaf={} min_samples_split={} criterion={} n_trees={} seed={} m={:?}", depth, leaf, split, crit, ntrees, seed, mtry));
    let criterion = move || match crit {
        0 => SplitCriterion::Gini,
        1 => SplitCriterion::Entropy,
        _ => SplitCriterion::ClassificationError,
    };
    let predict_obs = |r: Result<Vec<T>, Failed>| -> Vec<f64> {
        let mut o = vec![];
        push_res(&mut o, r);
        o
    };
    match which {
        0 => {
            let mk = move || {
                let mut pr = DecisionTreeClassifierParameters::default().with_criterion(criterion()).with_min_samples_leaf(leaf).with_min_samples_split(split);
                if let Some(dp) = depth {
                    pr = pr.with_max_depth(dp);
                }
                pr
            };
            check_params(c, &mk());
            run_type(
                c,
                &d,
                &d2,
                move |d: &Data| DecisionTreeClassifier::fit(&mat::<T>(&d.x), &vect::<T>(&d.y), mk()).map_err(|e| e.to_string()),
                eq_of(),
                |m: &DecisionTreeClassifier<T>, d: &Data| predict_obs(m.predict(&mat::<T>(&d.q))),
                true,
            );
        }
        1 => {
            let mk = move || {
                let mut pr = DecisionTreeRegressorParameters::default().with_min_samples_leaf(leaf).with_min_samples_split(split);
                if let Some(dp) = depth {
                    pr = pr.with_max_depth(dp);
                }
                pr
            };
            check_params(c, &mk());
            run_type(
                c,
                &d,
                &d2,
                move |d: &Data| DecisionTreeRegressor::fit(&mat::<T>(&d.x), &vect::<T>(&d.y), mk()).map_err(|e| e.to_string()),
                eq_of(),
                |m: &DecisionTreeRegressor<T>, d: &Data| predict_obs(m.predict(&mat::<T>(&d.q))),
                true,
            );
        }
        2 => {
            let mk = move || {
                let mut pr = RandomForestClassifierParameters::default()
                    .with_criterion(criterion())
                    .with_min_samples_leaf(leaf)
                    .with_min_samples_split(split)
                    .with_n_trees(ntrees as u16)
                    .with_seed(seed);
                if let Some(dp) = depth {
                    pr = pr.with_max_depth(dp);
                }
                if let Some(mm) = mtry {
                    pr = pr.with_m(mm);
                }
                pr
            };
            check_params(c, &mk());
            run_type(
                c,
                &d,
                &d2,
                move |d: &Data| RandomForestClassifier::fit(&mat::<T>(&d.x), &vect::<T>(&d.y), mk()).map_err(|e| e.to_string()),
                eq_of(),
                |m: &RandomForestClassifier<T>, d: &Data| predict_obs(m.predict(&mat::<T>(&d.q))),
                true,
            );
        }
        _ => {
            let mk = move || {
                let mut pr = RandomForestRegressorParameters::default().with_min_samples_leaf(leaf).with_min_samples_split(split).with_n_trees(ntrees).with_seed(seed);
                if let Some(dp) = depth {
                    pr = pr.with_max_depth(dp);
                }
                if let Some(mm) = mtry {
                    pr = pr.with_m(mm);
                }
                pr
            };
            check_params(c, &mk());
            run_type(
                c,
                &d,
                &d2,
                move |d: &Data| RandomForestRegressor::fit(&mat::<T>(&d.x), &vect::<T>(&d.y), mk()).map_err(|e| e.to_string()),
                eq_of(),
                |m: &RandomForestRegressor<T>, d: &Data| predict_obs(m.predict(&mat::<T>(&d.q))),
                true,
            );
        }
    }
}

fn case_nb<T: Num>(c: &mut Case, rng: &mut Rng, which: usize) {
    let p = rng.usize_in(1, 5);
    let k = rng.usize_in(2, 3);
    let n = rng.usize_in(2 * k + 1, 30);
    let feat = match which {
        0 => Feat::Cont,
        1 => Feat::Binary,
        2 => Feat::Count,
        _ => Feat::Cat,
    };
    let (d, d2) = gen_data(rng, n, p, feat, Target::Class(k), true, true);
    let alpha = *rng.pick(&[0.5, 1.0, 2.0]);
    let predict_obs = |r: Result<Vec<T>, Failed>| -> Vec<f64> {
        let mut o = vec![];
        push_res(&mut o, r);
        o
    };
    match which {
        0 => {
            let priors = rng.bool();
            describe(c, &d, &format!("priors={}", priors));
            let mk = move || {
                let pr = GaussianNBParameters::default();
                if priors {
                    pr.with_priors((0..k).map(|_| t::<T>(1.0 / k as f64)).collect())
                } else {
                    pr
                }
            };
            check_params(c, &mk());
            run_type(
                c,
                &d,
                &d2,
                move |d: &Data| GaussianNB::fit(&mat::<T>(&d.x), &vect::<T>(&d.y), mk()).map_err(|e| e.to_string()),
                eq_of(),
                |m: &GaussianNB<T, DenseMatrix<T>>, d: &Data| predict_obs(m.predict(&mat::<T>(&d.q))),
                true,
            );
        }
        1 => {
            describe(c, &d, &format!("alpha={} binarize=0.5", alpha));
            let mk = move || BernoulliNBParameters::default().with_alpha(t::<T>(alpha)).with_binarize(t::<T>(0.5));
            check_params(c, &mk());
            run_type(
                c,
                &d,
                &d2,
                move |d: &Data| BernoulliNB::fit(&mat::<T>(&d.x), &vect::<T>(&d.y), mk()).map_err(|e| e.to_string()),
                eq_of(),
                |m: &BernoulliNB<T, DenseMatrix<T>>, d: &Data| predict_obs(m.predict(&mat::<T>(&d.q))),
                true,
            );
        }
        2 => {
            describe(c, &d, &format!("alpha={}", alpha));
            let mk = move || MultinomialNBParameters::default().with_alpha(t::<T>(alpha));
            check_params(c, &mk());
            run_type(
                c,
                &d,
                &d2,
                move |d: &Data| MultinomialNB::fit(&mat::<T>(&d.x), &vect::<T>(&d.y), mk()).map_err(|e| e.to_string()),
                eq_of(),
                |m: &MultinomialNB<T, DenseMatrix<T>>, d: &Data| predict_obs(m.predict(&mat::<T>(&d.q))),
                true,
            );
        }
        _ => {
            describe(c, &d, &format!("alpha={}", alpha));
            let mk = move || CategoricalNBParameters::default().with_alpha(t::<T>(alpha));
            check_params(c, &mk());
            run_type(
                c,
                &d,
                &d2,
                move |d: &Data| CategoricalNB::fit(&mat::<T>(&d.x), &vect::<T>(&d.y), mk()).map_err(|e| e.to_string()),
                eq_of(),
                |m: &CategoricalNB<T, DenseMatrix<T>>, d: &Data| predict_obs(m.predict(&mat::<T>(&d.q))),
                true,
            );
        }
    }
}

fn svm_with<T: Num, K>(c: &mut Case, rng: &mut Rng, kernel: K, kname: &str, d: &Data, d2: &Data, regressor: bool)
where
    K: Kernel<T, Vec<T>> + Serialize + DeserializeOwned + Debug + Clone + Send + Sync + 'static,
{
    let cc = *rng.pick(&[0.5, 1.0, 10.0]);
    let eps = *rng.pick(&[0.1, 0.5, 1.0]);
    describe(c, d, &format!("kernel={} c={} eps={}", kname, cc, eps));
    // the kernel alone is a serialisable public type (no PartialEq): round trip + kernel values
    {
        let saved = c.tname.clone();
        c.tname = format!("kernel:{}", kname.split('(').next().unwrap_or(kname));
        let qs = rows_t::<T>(&d.q);
        let xs = rows_t::<T>(&d.x);
        c.out.eval(hash_of(&format!("{:?}{:?}", kernel, d.q)), true);
        check_roundtrip(c, &kernel, None, &|kk: &K| {
            let mut o = vec![];
            for a in qs.iter() {
                for b in xs.iter().take(4) {
                    o.push(f(kk.apply(a, b)));
                }
            }
            o
        });
        c.tname = saved;
    }
    if regressor {
        let kk = kernel.clone();
        let mk = move || SVRParameters::default().with_c(t::<T>(cc)).with_eps(t::<T>(eps)).with_kernel(kk.clone());
        check_params::<SVRParameters<T, DenseMatrix<T>, K>>(c, &mk());
        run_type(
            c,
            d,
            d2,
            move |d: &Data| SVR::fit(&mat::<T>(&d.x), &vect::<T>(&d.y), mk()).map_err(|e| e.to_string()),
            eq_of(),
            |m: &SVR<T, DenseMatrix<T>, K>, d: &Data| {
                let mut o = vec![];
                push_res(&mut o, m.predict(&mat::<T>(&d.q)));
                o
            },
            true,
        );
    } else {
        let kk = kernel.clone();
        let mk = move || SVCParameters::default().with_c(t::<T>(cc)).with_epoch(2).with_kernel(kk.clone());
        check_params::<SVCParameters<T, DenseMatrix<T>, K>>(c, &mk());
        run_type(
            c,
            d,
            d2,
            move |d: &Data| SVC::fit(&mat::<T>(&d.x), &vect::<T>(&d.y), mk()).map_err(|e| e.to_string()),
            eq_of(),
            |m: &SVC<T, DenseMatrix<T>, K>, d: &Data| {
                let mut o = vec![];
                push_res(&mut o, m.predict(&mat::<T>(&d.q)));
                push_res(&mut o, m.decision_function(&mat::<T>(&d.q)));
                o
            },
            false, // the visiting order of SVC::fit is drawn from an unseeded generator
        );
    }
}

fn case_svm<T: Num>(c: &mut Case, rng: &mut Rng, regressor: bool) {
    let p = rng.usize_in(1, 4);
    let n = rng.usize_in(6, 24);
    let (mut d, mut d2) = gen_data(rng, n, p, Feat::Cont, if regressor { Target::Reg } else { Target::Class(2) }, true, true);
    // keep the kernels in a sane range: standardise the scale of the features
    let sc = d.x.iter().flatten().fold(0.0f64, |a, v| a.max(v.abs())).max(1e-300);
    for dd in [&mut d, &mut d2] {
        for r in dd.x.iter_mut().chain(dd.q.iter_mut()) {
            for v in r.iter_mut() {
                *v /= sc;
            }
        }
        if regressor {
            let ys = dd.y.iter().fold(0.0f64, |a, v| a.max(v.abs())).max(1e-300);
            for v in dd.y.iter_mut() {
                *v /= ys;
            }
        }
    }
    match rng.below(4) {
        0 => svm_with::<T, LinearKernel>(c, rng, Kernels::linear(), "linear", &d, &d2, regressor),
        1 => {
            let g = *rng.pick(&[0.1, 0.7, 2.0]);
            svm_with::<T, RBFKernel<T>>(c, rng, Kernels::rbf(t::<T>(g)), &format!("rbf({})", g), &d, &d2, regressor)
        }
        2 => {
            let deg = *rng.pick(&[2.0, 3.0]);
            let g = *rng.pick(&[0.5, 1.0]);
            let c0 = *rng.pick(&[0.0, 1.0]);
            svm_with::<T, PolynomialKernel<T>>(c, rng, Kernels::polynomial(t::<T>(deg), t::<T>(g), t::<T>(c0)), &format!("polynomial({},{},{})", deg, g, c0), &d, &d2, regressor)
        }
        _ => {
            let g = *rng.pick(&[0.1, 0.5]);
            let c0 = *rng.pick(&[0.0, 0.5]);
            svm_with::<T, SigmoidKernel<T>>(c, rng, Kernels::sigmoid(t::<T>(g), t::<T>(c0)), &format!("sigmoid({},{})", g, c0), &d, &d2, regressor)
        }
    }
}

fn case_kmeans<T: Num + std::iter::Sum>(c: &mut Case, rng: &mut Rng) {
    let p = rng.usize_in(1, 4);
    let k = rng.usize_in(2, 4);
    let n = rng.usize_in(k + 3, 40);
    // no offset: BBDTree::new overflows the stack on f32 data like 100 +- 1e-3 (reported; not a C19 matter)
    let (d, d2) = gen_data(rng, n, p, Feat::Cont, Target::NoTarget, true, false);
    describe(c, &d, &format!("k={}", k));
    run_type(
        c,
        &d,
        &d2,
        move |d: &Data| KMeans::<T>::fit(&mat::<T>(&d.x), KMeansParameters::default().with_k(k).with_max_iter(50)).map_err(|e| e.to_string()),
        eq_of(),
        |m: &KMeans<T>, d: &Data| {
            let mut o = vec![];
            push_res(&mut o, m.predict(&mat::<T>(&d.q)));
            push_res(&mut o, m.predict(&mat::<T>(&d.x)));
            o
        },
        false, // k-means++ seeding is drawn from an unseeded generator
    );
}

fn dbscan_with<T: Num + std::iter::Sum, D>(c: &mut Case, rng: &mut Rng, dist: D, dname: &str, d: &Data, d2: &Data)
where
    D: Distance<Vec<T>, T> + Serialize + DeserializeOwned + Debug + Clone + Send + Sync + 'static,
{
    // eps around the typical nearest-neighbour distance so that clusters and noise both occur
    let n = d.x.len();
    let mut nn: Vec<f64> = (0..n)
        .map(|i| {
            (0..n)
                .filter(|j| *j != i)
                .map(|j| f(dist.distance(&vect::<T>(&d.x[i]), &vect::<T>(&d.x[j]))))
                .fold(f64::INFINITY, f64::min)
        })
        .collect();
    nn.sort_by(|a, b| a.partial_cmp(b).unwrap_or(std::cmp::Ordering::Equal));
    let eps = (nn[n / 2] * *rng.pick(&[0.8, 1.5, 3.0])).max(1e-6);
    let ms = rng.usize_in(1, 4);
    let cover = rng.bool();
    describe(c, d, &format!("distance={} eps={} min_samples={} cover_tree={}", dname, eps, ms, cover));
    let dd = dist.clone();
    let mk = move || {
        DBSCANParameters::default()
            .with_eps(t::<T>(eps))
            .with_min_samples(ms)
            .with_algorithm(if cover { KNNAlgorithmName::CoverTree } else { KNNAlgorithmName::LinearSearch })
            .with_distance(dd.clone())
    };
    run_type(
        c,
        d,
        d2,
        move |d: &Data| DBSCAN::fit(&mat::<T>(&d.x), mk()).map_err(|e| e.to_string()),
        eq_of(),
        |m: &DBSCAN<T, D>, d: &Data| {
            let mut o = vec![];
            push_res(&mut o, m.predict(&mat::<T>(&d.q)));
            o
        },
        true,
    );
}

fn case_dbscan<T: Num + std::iter::Sum>(c: &mut Case, rng: &mut Rng) {
    let p = rng.usize_in(1, 3);
    let n = rng.usize_in(6, 40);
    let (d, d2) = gen_data(rng, n, p, Feat::Cont, Target::NoTarget, false, true);
    match rng.below(3) {
        0 => dbscan_with::<T, _>(c, rng, Distances::euclidian(), "euclidian", &d, &d2),
        1 => dbscan_with::<T, _>(c, rng, Distances::manhattan(), "manhattan", &d, &d2),
        _ => {
            let pp = rng.usize_in(1, 3) as u16;
            dbscan_with::<T, _>(c, rng, Distances::minkowski(pp), &format!("minkowski({})", pp), &d, &d2)
        }
    }
}

fn case_decomposition<T: Num>(c: &mut Case, rng: &mut Rng, pca: bool) {
    let p = rng.usize_in(2, 6);
    let n = rng.usize_in(p + 1, 30);
    let k = rng.usize_in(1, if pca { p } else { p - 1 });
    let (d, d2) = gen_data(rng, n, p, Feat::Cont, Target::NoTarget, true, true);
    let corr = rng.bool();
    describe(c, &d, &format!("n_components={} use_correlation_matrix={}", k, corr));
    if pca {
        run_type(
            c,
            &d,
            &d2,
            move |d: &Data| PCA::fit(&mat::<T>(&d.x), PCAParameters::default().with_n_components(k).with_use_correlation_matrix(corr)).map_err(|e| e.to_string()),
            eq_of(),
            |m: &PCA<T, DenseMatrix<T>>, d: &Data| {
                let mut o = vec![];
                push_mat(&mut o, m.transform(&mat::<T>(&d.q)));
                o.extend(matf(m.components()));
                o
            },
            true,
        );
    } else {
        run_type(
            c,
            &d,
            &d2,
            move |d: &Data| SVD::fit(&mat::<T>(&d.x), SVDParameters::default().with_n_components(k)).map_err(|e| e.to_string()),
            eq_of(),
            |m: &SVD<T, DenseMatrix<T>>, d: &Data| {
                let mut o = vec![];
                push_mat(&mut o, m.transform(&mat::<T>(&d.q)));
                o.extend(matf(m.components()));
                o
            },
            true,
        );
    }
}

fn search_obs<T: Num>(o: &mut Vec<f64>, r: Result<Vec<(usize, T, &Vec<T>)>, Failed>) {
    match r {
        Ok(v) => {
            o.push(v.len() as f64);
            for (i, dist, pt) in v {
                o.push(i as f64);
                o.push(f(dist));
                o.extend(vecf(pt));
            }
        }
        Err(_) => o.push(err_marker()),
    }
}

fn neighbour_with<T: Num, D>(c: &mut Case, rng: &mut Rng, dist: D, dname: &str, d: &Data, d2: &Data, cover: bool)
where
    D: Distance<Vec<T>, T> + Serialize + DeserializeOwned + Debug + Clone + Send + Sync + 'static,
{
    let n = d.x.len();
    let k = rng.usize_in(1, n.min(4));
    let radius = *rng.pick(&[0.5, 1.0, 3.0]);
    describe(c, d, &format!("distance={} k={} radius={}", dname, k, radius));
    // the distance alone is a serialisable public type (no PartialEq)
    {
        let saved = c.tname.clone();
        c.tname = format!("distance:{}", dname.split('(').next().unwrap_or(dname));
        let qs = rows_t::<T>(&d.q);
        let xs = rows_t::<T>(&d.x);
        c.out.eval(hash_of(&format!("{:?}{:?}", dist, d.q)), true);
        check_roundtrip(c, &dist, None, &|dd: &D| {
            let mut o = vec![];
            for a in qs.iter() {
                for b in xs.iter().take(4) {
                    o.push(f(dd.distance(a, b)));
                }
            }
            o
        });
        c.tname = saved;
    }
    if cover {
        let dd = dist.clone();
        run_type(
            c,
            d,
            d2,
            move |d: &Data| CoverTree::new(rows_t::<T>(&d.x), dd.clone()).map_err(|e| e.to_string()),
            eq_of(),
            |m: &CoverTree<Vec<T>, T, D>, d: &Data| {
                let mut o = vec![];
                for qq in rows_t::<T>(&d.q).iter() {
                    search_obs(&mut o, m.find(qq, k));
                    search_obs(&mut o, m.find_radius(qq, t::<T>(radius)));
                }
                o
            },
            true,
        );
    } else {
        let dd = dist.clone();
        run_type(
            c,
            d,
            d2,
            move |d: &Data| LinearKNNSearch::new(rows_t::<T>(&d.x), dd.clone()).map_err(|e| e.to_string()),
            None, // LinearKNNSearch has no PartialEq
            |m: &LinearKNNSearch<Vec<T>, T, D>, d: &Data| {
                let mut o = vec![];
                for qq in rows_t::<T>(&d.q).iter() {
                    search_obs(&mut o, m.find(qq, k));
                    search_obs(&mut o, m.find_radius(qq, t::<T>(radius)));
                }
                o
            },
            true,
        );
    }
}

fn case_neighbour<T: Num>(c: &mut Case, rng: &mut Rng, cover: bool) {
    let p = rng.usize_in(1, 4);
    let n = rng.usize_in(1, 30);
    let which = rng.below(5);
    let (d, d2) = gen_data(rng, n.max(if which == 4 { p + 3 } else { 1 }), p, Feat::Cont, Target::NoTarget, which == 4, true);
    match which {
        0 => neighbour_with::<T, _>(c, rng, Distances::euclidian(), "euclidian", &d, &d2, cover),
        1 => neighbour_with::<T, _>(c, rng, Distances::manhattan(), "manhattan", &d, &d2, cover),
        2 => {
            let pp = rng.usize_in(1, 4) as u16;
            neighbour_with::<T, _>(c, rng, Distances::minkowski(pp), &format!("minkowski({})", pp), &d, &d2, cover)
        }
        3 => neighbour_with::<T, _>(c, rng, Distances::hamming(), "hamming", &d, &d2, cover),
        _ => match guard(|| Distances::mahalanobis(&mat::<T>(&d.x))) {
            Ok(md) => neighbour_with::<T, Mahalanobis<T, DenseMatrix<T>>>(c, rng, md, "mahalanobis", &d, &d2, cover),
            Err(_) => c.count("search:fit-panic(mahalanobis-singular)"),
        },
    }
}

/// small public serialisable types without data: enums, metric structs, the error type
fn case_small_types(c: &mut Case, rng: &mut Rng) {
    use smartcore::metrics::{ClassificationMetrics, ClusterMetrics, RegressionMetrics};
    c.input["params"] = json!("enums / metric structs / Failed");
    fn one<P: Serialize + DeserializeOwned + Debug>(c: &mut Case, name: &str, p: &P) {
        let saved = c.tname.clone();
        c.tname = name.to_string();
        c.out.eval(hash_of(&format!("{}{:?}", name, p)), true);
        check_roundtrip(c, p, None, &|_: &P| vec![]);
        c.tname = saved;
    }
    one(c, "KNNAlgorithmName", rng.pick(&[KNNAlgorithmName::CoverTree, KNNAlgorithmName::LinearSearch]));
    one(c, "KNNWeightFunction", rng.pick(&[KNNWeightFunction::Uniform, KNNWeightFunction::Distance]));
    one(c, "SplitCriterion", rng.pick(&[SplitCriterion::Gini, SplitCriterion::Entropy, SplitCriterion::ClassificationError]));
    one(c, "LinearRegressionSolverName", rng.pick(&[LinearRegressionSolverName::QR, LinearRegressionSolverName::SVD]));
    one(c, "RidgeRegressionSolverName", rng.pick(&[RidgeRegressionSolverName::Cholesky, RidgeRegressionSolverName::SVD]));
    one(c, "metrics::Accuracy", &ClassificationMetrics::accuracy());
    one(c, "metrics::Recall", &ClassificationMetrics::recall());
    one(c, "metrics::Precision", &ClassificationMetrics::precision());
    one(c, "metrics::F1", &ClassificationMetrics::f1(rng.uniform(0.1, 3.0)));
    one(c, "metrics::AUC", &ClassificationMetrics::roc_auc_score());
    one(c, "metrics::MeanSquareError", &RegressionMetrics::mean_squared_error());
    one(c, "metrics::MeanAbsoluteError", &RegressionMetrics::mean_absolute_error());
    one(c, "metrics::R2", &RegressionMetrics::r2());
    one(c, "metrics::HCVScore", &ClusterMetrics::hcv_score());
    // the error type has a hand-written PartialEq
    let msgs = ["", "x", "Number of rows of X doesn't match", "ünï \"quoted\" \n"];
    let mk = |k: usize, msg: &str| match k {
        0 => Failed::fit(msg),
        1 => Failed::predict(msg),
        2 => Failed::transform(msg),
        3 => Failed::because(FailedError::FindFailed, msg),
        4 => Failed::because(FailedError::DecompositionFailed, msg),
        _ => Failed::because(FailedError::SolutionFailed, msg),
    };
    let (k1, m1) = (rng.below(6), *rng.pick(&msgs));
    let a = mk(k1, m1);
    let saved = c.tname.clone();
    c.tname = "Failed".into();
    c.out.eval(hash_of(&format!("{:?}", a)), true);
    check_roundtrip(c, &a, eq_of(), &|e: &Failed| vec![e.error() as u8 as f64]);
    let (k2, m2) = (rng.below(6), *rng.pick(&msgs));
    let b = mk(k2, m2);
    let expect = k1 == k2 && m1 == m2;
    if (a == b) != expect {
        c.fail("different_data_unequal", "Failed: equality does not follow (kind, message)");
    }
    c.tname = saved;
}

// ------------------------------------------------------------------------------------------
pub const KINDS: &[&str] = &[
    "DenseMatrix",
    "LinearRegression",
    "RidgeRegression",
    "Lasso",
    "ElasticNet",
    "LogisticRegression",
    "KNNClassifier",
    "KNNRegressor",
    "DecisionTreeClassifier",
    "DecisionTreeRegressor",
    "RandomForestClassifier",
    "RandomForestRegressor",
    "GaussianNB",
    "BernoulliNB",
    "MultinomialNB",
    "CategoricalNB",
    "SVC",
    "SVR",
    "KMeans",
    "DBSCAN",
    "PCA",
    "SVD",
    "CoverTree",
    "LinearKNNSearch",
    "small-types",
];

fn run_kind<T: Num + std::iter::Sum>(c: &mut Case, rng: &mut Rng, kind: &str) {
    match kind {
        "DenseMatrix" => case_dense_matrix::<T>(c, rng),
        "LinearRegression" => case_linear::<T>(c, rng, 0),
        "RidgeRegression" => case_linear::<T>(c, rng, 1),
        "Lasso" => case_linear::<T>(c, rng, 2),
        "ElasticNet" => case_linear::<T>(c, rng, 3),
        "LogisticRegression" => case_logistic::<T>(c, rng),
        "KNNClassifier" => case_knn::<T>(c, rng, false),
        "KNNRegressor" => case_knn::<T>(c, rng, true),
        "DecisionTreeClassifier" => case_tree::<T>(c, rng, 0),
        "DecisionTreeRegressor" => case_tree::<T>(c, rng, 1),
        "RandomForestClassifier" => case_tree::<T>(c, rng, 2),
        "RandomForestRegressor" => case_tree::<T>(c, rng, 3),
        "GaussianNB" => case_nb::<T>(c, rng, 0),
        "BernoulliNB" => case_nb::<T>(c, rng, 1),
        "MultinomialNB" => case_nb::<T>(c, rng, 2),
        "CategoricalNB" => case_nb::<T>(c, rng, 3),
        "SVC" => case_svm::<T>(c, rng, false),
        "SVR" => case_svm::<T>(c, rng, true),
        "KMeans" => case_kmeans::<T>(c, rng),
        "DBSCAN" => case_dbscan::<T>(c, rng),
        "PCA" => case_decomposition::<T>(c, rng, true),
        "SVD" => case_decomposition::<T>(c, rng, false),
        "CoverTree" => case_neighbour::<T>(c, rng, true),
        "LinearKNNSearch" => case_neighbour::<T>(c, rng, false),
        _ => case_small_types(c, rng),
    }
}

/// One search case, fully determined by (kind, case_seed): this pair is the replay.
pub fn run_case(out: &mut Out, kind: &str, case_seed: u64) {
    let mut rng = Rng::new(case_seed);
    let f32m = rng.chance(0.3);
    F32_MODE.store(f32m, std::sync::atomic::Ordering::Relaxed);
    let input = json!({"entry": "search", "kind": kind, "case_seed": case_seed.to_string(), "f32": f32m});
    let mut c = Case { out, tname: kind.to_string(), input, f32m };
    if f32m {
        run_kind::<f32>(&mut c, &mut rng, kind);
    } else {
        run_kind::<f64>(&mut c, &mut rng, kind);
    }
}

fn replay(path: &str) -> i32 {
    let v = read_replay(path);
    let inp = if v.get("input").is_some() { v["input"].clone() } else { v.clone() };
    let mut out = Out::new("C19", "replay");
    match inp["entry"].as_str().unwrap_or("") {
        "search" => {
            let kind = inp["kind"].as_str().unwrap_or("").to_string();
            let seed: u64 = inp["case_seed"].as_str().and_then(|s| s.parse().ok()).or_else(|| inp["case_seed"].as_u64()).unwrap_or(0);
            // unseeded estimators (SVC, KMeans): repeat a few times
            for _ in 0..3 {
                run_case(&mut out, &kind, seed);
            }
        }
        "codec" | "bincode" | "partial_eq" => {
            c19_corr::replay_corr(&mut out, &inp);
        }
        _ => {
            eprintln!("unknown replay entry");
            return 2;
        }
    }
    if out.n_fail() > 0 {
        println!("REPLAY: property=C19 still fails: {}", path);
        1
    } else {
        println!("REPLAY: property=C19 passes: {}", path);
        0
    }
}

fn main() {
    quiet_panics();
    let a = args();
    if let Some(p) = &a.replay {
        std::process::exit(replay(p));
    }
    let mut rng = Rng::new(a.seed);
    let mut out = Out::new(
        "C19",
        "search case = (serialisable type, scalar width, hyper-parameters, training data, second data set with different rows and targets, query matrix); non-trivial: the fit succeeded on >= 3 rows (parameter structs, enums, distances, kernels: always); distinct by hash of (type, width, parameters, data)",
    );
    out.max_samples = 3;

    // ---- corpus + correspondence ----
    c19_corr::run_corr(&mut out, &mut rng, a.thorough);

    // ---- search ----
    let rounds = if a.thorough { 4000 } else { 300 };
    for _ in 0..rounds {
        for kind in KINDS {
            let cs = rng.next_u64();
            if std::env::var("C19_TRACE").is_ok() {
                eprintln!("{} {}", kind, cs);
            }
            run_case(&mut out, kind, cs);
        }
    }
    out.finish(&a.out);
}

// ------------------------------------------------------------------------------------------
// correspondence cases
// ------------------------------------------------------------------------------------------
mod c19_corr {
    use super::*;
    use serde::ser::{self, SerializeSeq, SerializeStruct};
    use std::fmt::Display;

    // ---- a serde Serializer that records the calls it receives (the real token stream) ----
    #[derive(Debug, Clone, PartialEq)]
    pub enum Tok {
        Struct(String, usize),
        Field(String),
        U64(u64),
        F64(f64),
        F32(f32),
        SeqBegin(Option<usize>),
        SeqEnd,
        StructEnd,
        Other(&'static str),
    }
    #[derive(Default)]
    pub struct Rec {
        pub toks: Vec<Tok>,
    }
    #[derive(Debug)]
    pub struct RecErr(String);
    impl Display for RecErr {
        fn fmt(&self, f: &mut std::fmt::Formatter<'_>) -> std::fmt::Result {
            write!(f, "{}", self.0)
        }
    }
    impl std::error::Error for RecErr {}
    impl ser::Error for RecErr {
        fn custom<T: Display>(m: T) -> Self {
            RecErr(m.to_string())
        }
    }
    macro_rules! other {
        ($name:ident, $ty:ty) => {
            fn $name(self, _v: $ty) -> Result<(), RecErr> {
                self.toks.push(Tok::Other(stringify!($name)));
                Ok(())
            }
        };
    }
    impl<'a> ser::Serializer for &'a mut Rec {
        type Ok = ();
        type Error = RecErr;
        type SerializeSeq = Self;
        type SerializeTuple = ser::Impossible<(), RecErr>;
        type SerializeTupleStruct = ser::Impossible<(), RecErr>;
        type SerializeTupleVariant = ser::Impossible<(), RecErr>;
        type SerializeMap = ser::Impossible<(), RecErr>;
        type SerializeStruct = Self;
        type SerializeStructVariant = ser::Impossible<(), RecErr>;
        other!(serialize_bool, bool);
        other!(serialize_i8, i8);
        other!(serialize_i16, i16);
        other!(serialize_i32, i32);
        other!(serialize_i64, i64);
        other!(serialize_u8, u8);
        other!(serialize_u16, u16);
        other!(serialize_u32, u32);
        other!(serialize_char, char);
        other!(serialize_str, &str);
        other!(serialize_bytes, &[u8]);
        fn serialize_u64(self, v: u64) -> Result<(), RecErr> {
            self.toks.push(Tok::U64(v));
            Ok(())
        }
        fn serialize_f32(self, v: f32) -> Result<(), RecErr> {
            self.toks.push(Tok::F32(v));
            Ok(())
        }
        fn serialize_f64(self, v: f64) -> Result<(), RecErr> {
            self.toks.push(Tok::F64(v));
            Ok(())
        }
        fn serialize_none(self) -> Result<(), RecErr> {
            self.toks.push(Tok::Other("none"));
            Ok(())
        }
        fn serialize_some<T: ?Sized + Serialize>(self, _v: &T) -> Result<(), RecErr> {
            self.toks.push(Tok::Other("some"));
            Ok(())
        }
        fn serialize_unit(self) -> Result<(), RecErr> {
            self.toks.push(Tok::Other("unit"));
            Ok(())
        }
        fn serialize_unit_struct(self, _n: &'static str) -> Result<(), RecErr> {
            self.toks.push(Tok::Other("unit_struct"));
            Ok(())
        }
        fn serialize_unit_variant(self, _n: &'static str, _i: u32, _v: &'static str) -> Result<(), RecErr> {
            self.toks.push(Tok::Other("unit_variant"));
            Ok(())
        }
        fn serialize_newtype_struct<T: ?Sized + Serialize>(self, _n: &'static str, _v: &T) -> Result<(), RecErr> {
            self.toks.push(Tok::Other("newtype_struct"));
            Ok(())
        }
        fn serialize_newtype_variant<T: ?Sized + Serialize>(self, _n: &'static str, _i: u32, _v: &'static str, _x: &T) -> Result<(), RecErr> {
            self.toks.push(Tok::Other("newtype_variant"));
            Ok(())
        }
        fn serialize_seq(self, len: Option<usize>) -> Result<Self, RecErr> {
            self.toks.push(Tok::SeqBegin(len));
            Ok(self)
        }
        fn serialize_tuple(self, _len: usize) -> Result<Self::SerializeTuple, RecErr> {
            Err(RecErr("tuple".into()))
        }
        fn serialize_tuple_struct(self, _n: &'static str, _len: usize) -> Result<Self::SerializeTupleStruct, RecErr> {
            Err(RecErr("tuple_struct".into()))
        }
        fn serialize_tuple_variant(self, _n: &'static str, _i: u32, _v: &'static str, _len: usize) -> Result<Self::SerializeTupleVariant, RecErr> {
            Err(RecErr("tuple_variant".into()))
        }
        fn serialize_map(self, _len: Option<usize>) -> Result<Self::SerializeMap, RecErr> {
            Err(RecErr("map".into()))
        }
        fn serialize_struct(self, name: &'static str, len: usize) -> Result<Self, RecErr> {
            self.toks.push(Tok::Struct(name.to_string(), len));
            Ok(self)
        }
        fn serialize_struct_variant(self, _n: &'static str, _i: u32, _v: &'static str, _len: usize) -> Result<Self::SerializeStructVariant, RecErr> {
            Err(RecErr("struct_variant".into()))
        }
    }
    impl<'a> SerializeSeq for &'a mut Rec {
        type Ok = ();
        type Error = RecErr;
        fn serialize_element<T: ?Sized + Serialize>(&mut self, v: &T) -> Result<(), RecErr> {
            v.serialize(&mut **self)
        }
        fn end(self) -> Result<(), RecErr> {
            self.toks.push(Tok::SeqEnd);
            Ok(())
        }
    }
    impl<'a> SerializeStruct for &'a mut Rec {
        type Ok = ();
        type Error = RecErr;
        fn serialize_field<T: ?Sized + Serialize>(&mut self, key: &'static str, v: &T) -> Result<(), RecErr> {
            self.toks.push(Tok::Field(key.to_string()));
            v.serialize(&mut **self)
        }
        fn end(self) -> Result<(), RecErr> {
            self.toks.push(Tok::StructEnd);
            Ok(())
        }
    }

    const KEYS: [&str; 8] = ["nrows", "ncols", "values", "NROWS", "nrow", "", "valuess", "shape"];
    fn key_code(k: &str) -> usize {
        KEYS.iter().position(|x| *x == k).unwrap_or(7)
    }

    /// recorded stream -> Gallina `list ktoken`
    fn ktokens(toks: &[Tok]) -> String {
        let mut items: Vec<String> = vec![];
        let mut i = 0;
        while i < toks.len() {
            match &toks[i] {
                Tok::Struct(name, len) => {
                    items.push(format!("KStruct {} {}", coq_bool(name == "DenseMatrix"), coq_n(*len)));
                    i += 1;
                }
                Tok::StructEnd => {
                    items.push("KEnd".into());
                    i += 1;
                }
                Tok::Field(k) => {
                    // the value that follows
                    let (val, next) = match toks.get(i + 1) {
                        Some(Tok::U64(n)) => (format!("(ju {})", coq_n(*n as usize)), i + 2),
                        Some(Tok::SeqBegin(declared)) => {
                            let mut j = i + 2;
                            let mut vals: Vec<f64> = vec![];
                            let mut ok = true;
                            while j < toks.len() && toks[j] != Tok::SeqEnd {
                                match &toks[j] {
                                    Tok::F64(x) => vals.push(*x),
                                    Tok::F32(x) => vals.push(*x as f64),
                                    _ => ok = false,
                                }
                                j += 1;
                            }
                            if let Some(dl) = declared {
                                ok &= *dl == vals.len();
                            }
                            (if ok { format!("(js {})", coq_list_f64(&vals)) } else { "jx".to_string() }, j + 1)
                        }
                        _ => ("jx".to_string(), i + 2),
                    };
                    items.push(format!("KField {} {}", coq_n(key_code(k)), val));
                    i = next;
                }
                _ => {
                    items.push("KField 7%N jx".into());
                    i += 1;
                }
            }
        }
        coq_list(items)
    }

    fn lattice(rng: &mut Rng) -> f64 {
        match rng.below(8) {
            0 => 0.0,
            1 => -0.0,
            2 => rng.int(-3, 3) as f64,
            _ => rng.dyadic(4, 3),
        }
    }

    fn corr_tokens<T: Num>(out: &mut Out, rng: &mut Rng) {
        let (n, p) = (rng.below(5), rng.below(5));
        let len = if rng.chance(0.8) { n * p } else { rng.below(7) }; // `new` does not tie the length to the shape
        let vals: Vec<f64> = (0..len).map(|_| lattice(rng)).collect();
        let m: DenseMatrix<T> = DenseMatrix::new(n, p, vect::<T>(&vals));
        let mut rec = Rec::default();
        let input = json!({"entry": "codec", "what": "tokens", "nrows": n, "ncols": p, "values": vals, "f32": T::F32});
        if m.serialize(&mut rec).is_err() {
            out.corr("dm_tokens", "false".into(), input);
            return;
        }
        out.corr("dm_tokens", format!("corr_tokens {} {} {} {}", coq_n(n), coq_n(p), coq_list_f64(&vals), ktokens(&rec.toks)), input);
    }

    // ---- JSON text fed to the real Deserialize impl ----
    #[derive(Clone, Debug)]
    enum JV {
        U(u64),
        S(Vec<f64>),
        X(&'static str),
    }
    impl JV {
        fn text(&self) -> String {
            match self {
                JV::U(n) => n.to_string(),
                JV::S(v) => format!("[{}]", v.iter().map(|x| format!("{:?}", x)).collect::<Vec<_>>().join(",")),
                JV::X(s) => s.to_string(),
            }
        }
        fn coq(&self) -> String {
            match self {
                JV::U(n) => format!("(ju {})", coq_n(*n as usize)),
                JV::S(v) => format!("(js {})", coq_list_f64(v)),
                JV::X(_) => "jx".into(),
            }
        }
    }
    const WRONG: [&str; 8] = ["\"x\"", "1.5", "-1", "null", "true", "{}", "[1,\"a\"]", "[[1.0]]"];

    fn classify(msg: &str) -> (usize, usize) {
        let field = |m: &str| -> usize {
            let a = m.find('`').map(|i| i + 1).unwrap_or(0);
            let b = m[a..].find('`').map(|i| i + a).unwrap_or(a);
            key_code(&m[a..b])
        };
        if msg.starts_with("invalid length") {
            let n: usize = msg["invalid length ".len()..].split(',').next().and_then(|s| s.trim().parse().ok()).unwrap_or(99);
            (0, n)
        } else if msg.starts_with("duplicate field") {
            (1, field(msg))
        } else if msg.starts_with("missing field") {
            (2, field(msg))
        } else if msg.starts_with("unknown field") {
            (3, field(msg))
        } else if msg.starts_with("invalid type") || msg.starts_with("invalid value") {
            (4, 0)
        } else if msg.starts_with("trailing characters") || msg.starts_with("trailing comma") {
            (5, 0)
        } else if msg.starts_with("EOF") {
            (6, 0)
        } else {
            (99, 0)
        }
    }

    fn json_expected<T: Num>(text: &str) -> String {
        match guard(|| serde_json::from_str::<DenseMatrix<T>>(text)) {
            Ok(Ok(m)) => {
                let (n, p) = m.shape();
                let vals: Vec<T> = m.into();
                format!("(EOk {} {} {})", coq_n(n), coq_n(p), coq_list_f64(&vecf(&vals)))
            }
            Ok(Err(e)) => {
                let (c, a) = classify(&e.to_string());
                format!("(EErr {} {})", coq_n(c), coq_n(a))
            }
            Err(_) => "(EErr 98%N 0%N)".to_string(),
        }
    }

    fn rand_val(rng: &mut Rng, want: usize) -> JV {
        // want: 0 = usize, 1 = Vec; mostly well-typed
        let r = rng.below(10);
        if r == 0 {
            JV::X(*rng.pick(&WRONG))
        } else if r == 1 {
            if want == 0 { JV::S((0..rng.below(3)).map(|_| lattice(rng)).collect()) } else { JV::U(rng.below(5) as u64) }
        } else if want == 0 {
            JV::U(*rng.pick(&[0u64, 1, 2, 3, 7, 1000, u64::MAX]) )
        } else {
            JV::S((0..rng.below(7)).map(|_| lattice(rng)).collect())
        }
    }

    fn corr_json<T: Num>(out: &mut Out, rng: &mut Rng, shape: usize) {
        match shape {
            // sequence form, 0..5 elements
            0 => {
                let len = *rng.pick(&[0usize, 1, 2, 3, 3, 3, 3, 4, 5]);
                let vs: Vec<JV> = (0..len).map(|i| rand_val(rng, if i == 2 { 1 } else { 0 })).collect();
                let text = format!("[{}]", vs.iter().map(|v| v.text()).collect::<Vec<_>>().join(","));
                let exp = json_expected::<T>(&text);
                out.corr("dm_json_seq", format!("corr_json_seq {} {}", coq_list(vs.iter().map(|v| v.coq())), exp), json!({"entry": "codec", "what": "json", "text": text, "f32": T::F32}));
            }
            // map form: a permutation of the three fields, then possibly a duplicate, a missing or an unknown key
            1 => {
                let mut kv: Vec<(usize, JV)> = vec![(0, rand_val(rng, 0)), (1, rand_val(rng, 0)), (2, rand_val(rng, 1))];
                rng.shuffle(&mut kv);
                match rng.below(6) {
                    0 => {
                        let k = rng.below(3);
                        let pos = rng.below(kv.len() + 1);
                        kv.insert(pos, (k, rand_val(rng, if k == 2 { 1 } else { 0 })));
                    }
                    1 => {
                        let pos = rng.below(kv.len());
                        kv.remove(pos);
                    }
                    2 => {
                        let pos = rng.below(kv.len() + 1);
                        let (uk, want) = (rng.usize_in(3, 7), rng.below(2));
                        kv.insert(pos, (uk, rand_val(rng, want)));
                    }
                    3 => {
                        let keep = rng.below(2);
                        kv.truncate(keep);
                    }
                    _ => {}
                }
                let text = format!("{{{}}}", kv.iter().map(|(k, v)| format!("\"{}\":{}", KEYS[*k], v.text())).collect::<Vec<_>>().join(","));
                let exp = json_expected::<T>(&text);
                out.corr(
                    "dm_json_map",
                    format!("corr_json_map {} {}", coq_list(kv.iter().map(|(k, v)| format!("({}, {})", coq_n(*k), v.coq()))), exp),
                    json!({"entry": "codec", "what": "json", "text": text, "f32": T::F32}),
                );
            }
            _ => {
                let text = *rng.pick(&["\"DenseMatrix\"", "5", "null", "1.5", "true"]);
                let exp = json_expected::<T>(text);
                out.corr("dm_json_other", format!("corr_json_other {}", exp), json!({"entry": "codec", "what": "json", "text": text, "f32": T::F32}));
            }
        }
    }

    /// all six field orders of a well-formed object, non-square shapes
    fn corr_json_orders<T: Num>(out: &mut Out, rng: &mut Rng) {
        let perms: [[usize; 3]; 6] = [[0, 1, 2], [0, 2, 1], [1, 0, 2], [1, 2, 0], [2, 0, 1], [2, 1, 0]];
        let (n, p) = (rng.usize_in(1, 4), rng.usize_in(1, 4));
        let vals: Vec<f64> = (0..n * p).map(|_| lattice(rng)).collect();
        let fields = [JV::U(n as u64), JV::U(p as u64), JV::S(vals)];
        for perm in perms.iter() {
            let kv: Vec<(usize, JV)> = perm.iter().map(|k| (*k, fields[*k].clone())).collect();
            let text = format!("{{{}}}", kv.iter().map(|(k, v)| format!("\"{}\":{}", KEYS[*k], v.text())).collect::<Vec<_>>().join(","));
            let exp = json_expected::<T>(&text);
            out.corr(
                "dm_json_map",
                format!("corr_json_map {} {}", coq_list(kv.iter().map(|(k, v)| format!("({}, {})", coq_n(*k), v.coq()))), exp),
                json!({"entry": "codec", "what": "json", "text": text, "f32": T::F32}),
            );
        }
    }

    // ---- bincode bytes ----
    fn bits_of<T: Num>(v: T) -> u64 {
        if T::F32 {
            (f(v) as f32).to_bits() as u64
        } else {
            f(v).to_bits()
        }
    }
    fn coq_bytes(b: &[u8]) -> String {
        coq_list(b.iter().map(|x| coq_n(*x as usize)))
    }
    fn coq_u64s(b: &[u64]) -> String {
        coq_list(b.iter().map(|x| format!("{}%N", x)))
    }
    fn corr_bincode<T: Num>(out: &mut Out, rng: &mut Rng) {
        let w = if T::F32 { 4 } else { 8 };
        let (n, p) = (rng.below(5), rng.below(5));
        let len = if rng.chance(0.8) { n * p } else { rng.below(6) };
        let specials = [0.0, -0.0, f64::NAN, f64::INFINITY, f64::NEG_INFINITY, 1.0 / 3.0, 5e-324, f64::MAX];
        let vals: Vec<T> = (0..len)
            .map(|_| if rng.chance(0.2) { t::<T>(*rng.pick(&specials)) } else { t::<T>(rng.normal() * 100.0) })
            .collect();
        let m: DenseMatrix<T> = DenseMatrix::new(n, p, vals.clone());
        let bits: Vec<u64> = vals.iter().map(|v| bits_of(*v)).collect();
        let bytes = match bincode::serialize(&m) {
            Ok(b) => b,
            Err(_) => {
                out.corr("dm_bincode_ser", "false".into(), json!({"entry": "bincode", "what": "serialize failed"}));
                return;
            }
        };
        let input = json!({"entry": "bincode", "nrows": n, "ncols": p, "bits": bits.iter().map(|b| b.to_string()).collect::<Vec<_>>(), "f32": T::F32});
        out.corr("dm_bincode_ser", format!("corr_bincode_ser {} {} {} {} {}", coq_n(w), coq_n(n), coq_n(p), coq_u64s(&bits), coq_bytes(&bytes)), input.clone());
        // decoding: the bytes as they are, truncated, extended, with an edited length field
        let mut variants: Vec<Vec<u8>> = vec![bytes.clone()];
        let cut = rng.below(bytes.len() + 1);
        variants.push(bytes[..cut].to_vec());
        let mut ext = bytes.clone();
        ext.extend((0..rng.usize_in(1, 9)).map(|_| rng.below(256) as u8));
        variants.push(ext);
        let mut edited = bytes.clone();
        let newlen: u64 = match rng.below(4) {
            0 => len as u64 + 1,
            1 => (len as u64).saturating_sub(1),
            2 => 1u64 << 40,
            _ => rng.below(4) as u64,
        };
        edited[16..24].copy_from_slice(&newlen.to_le_bytes());
        variants.push(edited);
        for v in variants {
            let exp = match guard(|| bincode::deserialize::<DenseMatrix<T>>(&v)) {
                Ok(Ok(r)) => {
                    let (rn, rp) = r.shape();
                    let rv: Vec<T> = r.into();
                    format!("(BOk {} {} {})", coq_n(rn), coq_n(rp), coq_u64s(&rv.iter().map(|x| bits_of(*x)).collect::<Vec<_>>()))
                }
                _ => "BErr".to_string(),
            };
            let mut inp = input.clone();
            inp["bytes"] = json!(v);
            out.corr("dm_bincode_de", format!("corr_bincode_de {} {} {}", coq_n(w), coq_bytes(&v), exp), inp);
        }
    }

    // ---- PartialEq: DenseMatrix directly ----
    fn corr_dm_eq<T: Num>(out: &mut Out, rng: &mut Rng) {
        let eps = if T::F32 { f32::EPSILON as f64 } else { f64::EPSILON };
        let (n, p) = (rng.usize_in(1, 4), rng.usize_in(1, 4));
        let a: Vec<f64> = (0..n * p).map(|_| if rng.chance(0.1) { *rng.pick(&[f64::NAN, f64::INFINITY, f64::NEG_INFINITY]) } else { lattice(rng) }).collect();
        let mut b = a.clone();
        let (mut bn, mut bp) = (n, p);
        match rng.below(8) {
            0 => {}
            1 => {
                std::mem::swap(&mut bn, &mut bp); // transposed shape, same storage
            }
            2 => {
                b.pop(); // DenseMatrix::new does not check the length
            }
            3 => {
                bn += 1;
            }
            _ => {
                let i = rng.below(b.len());
                // multiples of eps/4 around the tolerance; exact on the lattice
                let k = *rng.pick(&[1.0, 2.0, 3.0, 4.0, 5.0, 6.0, 8.0, 4096.0]);
                b[i] += k * eps / 4.0 * if rng.bool() { 1.0 } else { -1.0 };
            }
        }
        // what the implementation holds (f32: rounded once)
        let ta = vect::<T>(&a);
        let tb = vect::<T>(&b);
        let ma: DenseMatrix<T> = DenseMatrix::new(n, p, ta.clone());
        let mb: DenseMatrix<T> = DenseMatrix::new(bn, bp, tb.clone());
        let (fa, fb) = (vecf(&ta), vecf(&tb));
        if T::F32 {
            // only cases whose f32 subtraction is exact are comparable with the binary64 model
            for (x, y) in fa.iter().zip(fb.iter()) {
                let d = x - y;
                if d.is_finite() && (d as f32) as f64 != d {
                    return;
                }
            }
        }
        for (x, y, xa, ya, xn, xp, yn, yp) in [(&ma, &mb, &fa, &fb, n, p, bn, bp), (&mb, &ma, &fb, &fa, bn, bp, n, p)] {
            if let Ok(r) = guard(|| x == y) {
                out.corr(
                    "eq_dense_matrix",
                    format!("corr_dm_eq {} (fdm {} {} {}) (fdm {} {} {}) {}", coq_f64(eps), coq_n(xn), coq_n(xp), coq_list_f64(xa), coq_n(yn), coq_n(yp), coq_list_f64(ya), coq_bool(r)),
                    json!({"entry": "partial_eq", "kind": "DenseMatrix", "f32": T::F32, "a": {"nrows": xn, "ncols": xp, "values": xa.iter().map(|v| hex_f64(*v)).collect::<Vec<_>>()}, "b": {"nrows": yn, "ncols": yp, "values": ya.iter().map(|v| hex_f64(*v)).collect::<Vec<_>>()}}),
                );
            }
        }
    }

    // ---- PartialEq of fitted models: pairs that differ in one field, built by editing the JSON state ----
    fn jf(v: &Value) -> String {
        coq_f64(v.as_f64().unwrap_or(f64::NAN))
    }
    fn jfs(v: &Value) -> String {
        coq_list(v.as_array().map(|a| a.iter().map(jf).collect::<Vec<_>>()).unwrap_or_default())
    }
    fn jffs(v: &Value) -> String {
        coq_list(v.as_array().map(|a| a.iter().map(jfs).collect::<Vec<_>>()).unwrap_or_default())
    }
    fn jfffs(v: &Value) -> String {
        coq_list(v.as_array().map(|a| a.iter().map(jffs).collect::<Vec<_>>()).unwrap_or_default())
    }
    fn jn(v: &Value) -> String {
        format!("{}%N", v.as_u64().unwrap_or(0))
    }
    fn jns(v: &Value) -> String {
        coq_list(v.as_array().map(|a| a.iter().map(jn).collect::<Vec<_>>()).unwrap_or_default())
    }
    fn jnns(v: &Value) -> String {
        coq_list(v.as_array().map(|a| a.iter().map(jns).collect::<Vec<_>>()).unwrap_or_default())
    }
    fn jzs(v: &Value) -> String {
        coq_list(v.as_array().map(|a| a.iter().map(|x| coq_z(x.as_i64().unwrap_or(0))).collect::<Vec<_>>()).unwrap_or_default())
    }
    fn jof(v: &Value) -> String {
        coq_option(if v.is_null() { None } else { Some(jf(v)) })
    }
    fn jon(v: &Value) -> String {
        coq_option(if v.is_null() { None } else { Some(jn(v)) })
    }
    fn jdm(v: &Value) -> String {
        format!("(fdm {} {} {})", jn(&v["nrows"]), jn(&v["ncols"]), jfs(&v["values"]))
    }
    fn jrnode(v: &Value) -> String {
        format!("(frn {} {} {} {} {} {} {})", jn(&v["_index"]), jf(&v["output"]), jn(&v["split_feature"]), jof(&v["split_value"]), jof(&v["split_score"]), jon(&v["true_child"]), jon(&v["false_child"]))
    }
    fn jcnode(v: &Value) -> String {
        format!("(fcn {} {} {} {} {} {} {})", jn(&v["_index"]), jn(&v["output"]), jn(&v["split_feature"]), jof(&v["split_value"]), jof(&v["split_score"]), jon(&v["true_child"]), jon(&v["false_child"]))
    }
    fn jrtree(v: &Value) -> String {
        format!("(frt {} {})", coq_list(v["nodes"].as_array().map(|a| a.iter().map(jrnode).collect::<Vec<_>>()).unwrap_or_default()), jn(&v["depth"]))
    }
    fn jctree(v: &Value) -> String {
        format!(
            "(fct {} {} {} {})",
            coq_list(v["nodes"].as_array().map(|a| a.iter().map(jcnode).collect::<Vec<_>>()).unwrap_or_default()),
            jn(&v["num_classes"]),
            jfs(&v["classes"]),
            jn(&v["depth"])
        )
    }

    /// (Gallina function, printer of one side, expected printer) per kind
    fn model_term(kind: &str, a: &Value, b: &Value, res: Option<bool>) -> Option<String> {
        let rb = || res.map(coq_bool);
        let ro = || coq_option(res.map(coq_bool));
        Some(match kind {
            "LinearRegression" | "RidgeRegression" | "Lasso" | "ElasticNet" => {
                format!("corr_lin_eq {} {} {} {} {}", jdm(&a["coefficients"]), jf(&a["intercept"]), jdm(&b["coefficients"]), jf(&b["intercept"]), rb()?)
            }
            "LogisticRegression" => {
                let pr = |v: &Value| format!("(flogit {} {} {} {} {})", jdm(&v["coefficients"]), jdm(&v["intercept"]), jfs(&v["classes"]), jn(&v["num_attributes"]), jn(&v["num_classes"]));
                format!("corr_logit_eq {} {} {}", pr(a), pr(b), rb()?)
            }
            "DecisionTreeRegressor" => format!("corr_rtree_eq {} {} {}", jrtree(a), jrtree(b), rb()?),
            "DecisionTreeClassifier" => format!("corr_ctree_eq {} {} {}", jctree(a), jctree(b), ro()),
            "RandomForestRegressor" => {
                let pr = |v: &Value| coq_list(v["trees"].as_array().map(|t| t.iter().map(jrtree).collect::<Vec<_>>()).unwrap_or_default());
                format!("corr_rforest_eq {} {} {}", pr(a), pr(b), rb()?)
            }
            "RandomForestClassifier" => {
                let pr = |v: &Value| format!("(fcf {} {})", coq_list(v["trees"].as_array().map(|t| t.iter().map(jctree).collect::<Vec<_>>()).unwrap_or_default()), jfs(&v["classes"]));
                format!("corr_cforest_eq {} {} {}", pr(a), pr(b), ro())
            }
            "PCA" => {
                let pr = |v: &Value| format!("(fpca {} {} {} {} {})", jdm(&v["eigenvectors"]), jfs(&v["eigenvalues"]), jdm(&v["projection"]), jfs(&v["mu"]), jfs(&v["pmu"]));
                format!("corr_pca_eq {} {} {}", pr(a), pr(b), rb()?)
            }
            "SVD" => format!("corr_svd_eq {} {} {} {}", coq_f64(1e-8), jdm(&a["components"]), jdm(&b["components"]), ro()),
            "SVC" | "SVR" => {
                let pr = |v: &Value| format!("(fsvm {} {} {})", jf(&v["b"]), jfs(&v["w"]), jffs(&v["instances"]));
                format!("corr_svm_eq {} {} {}", pr(a), pr(b), rb()?)
            }
            "KMeans" => {
                let pr = |v: &Value| format!("(fkm {} {} {} {} {})", jn(&v["k"]), jns(&v["_y"]), jns(&v["size"]), jf(&v["_distortion"]), jffs(&v["centroids"]));
                format!("corr_kmeans_eq {} {} {}", pr(a), pr(b), rb()?)
            }
            "DBSCAN" => {
                let pr = |v: &Value| format!("(fdb {} {} {})", jzs(&v["cluster_labels"]), jn(&v["num_classes"]), jf(&v["eps"]));
                format!("corr_dbscan_eq {} {} {}", pr(a), pr(b), rb()?)
            }
            "KNNClassifier" => {
                let pr = |v: &Value| format!("(fkc {} {} {})", jfs(&v["classes"]), jns(&v["y"]), jn(&v["k"]));
                format!("corr_knnc_eq {} {} {}", pr(a), pr(b), rb()?)
            }
            "KNNRegressor" => {
                let pr = |v: &Value| format!("(fkr {} {})", jfs(&v["y"]), jn(&v["k"]));
                format!("corr_knnr_eq {} {} {}", pr(a), pr(b), rb()?)
            }
            "CoverTree" => format!("corr_covertree_eq {} {} {}", jffs(&a["data"]), jffs(&b["data"]), rb()?),
            "BernoulliNB" => {
                let pr = |v: &Value| {
                    let d = &v["inner"]["distribution"];
                    format!("(fbern {} {} {} {} {} {})", jfs(&d["class_labels"]), jns(&d["class_count"]), jfs(&d["class_priors"]), jnns(&d["feature_count"]), jffs(&d["feature_log_prob"]), jn(&d["n_features"]))
                };
                format!("corr_bernoulli_eq {} {} {}", pr(a), pr(b), rb()?)
            }
            "CategoricalNB" => {
                let pr = |v: &Value| {
                    let d = &v["inner"]["distribution"];
                    format!("(fcat {} {} {} {} {} {})", jns(&d["class_count"]), jfs(&d["class_labels"]), jfs(&d["class_priors"]), jfffs(&d["coefficients"]), jn(&d["n_features"]), jns(&d["n_categories"]))
                };
                format!("corr_categorical_eq {} {} {}", pr(a), pr(b), rb()?)
            }
            _ => return None,
        })
    }

    /// JSON pointers of all numeric / null leaves and of all non-empty arrays below `v`
    fn leaves(v: &Value, path: String, num: &mut Vec<String>, arrays: &mut Vec<String>) {
        match v {
            Value::Number(_) | Value::Null => num.push(path),
            Value::Array(a) => {
                if !a.is_empty() {
                    arrays.push(path.clone());
                }
                for (i, x) in a.iter().enumerate() {
                    leaves(x, format!("{}/{}", path, i), num, arrays);
                }
            }
            Value::Object(o) => {
                for (k, x) in o.iter() {
                    leaves(x, format!("{}/{}", path, k), num, arrays);
                }
            }
            _ => {}
        }
    }

    /// `which`: Some(i) = the i-th numeric leaf (systematic sweep), None = a random leaf or array
    fn perturb(rng: &mut Rng, v: &Value, root: &str, which: Option<usize>) -> Option<(Value, String)> {
        let mut num = vec![];
        let mut arrays = vec![];
        leaves(v.pointer(root)?, root.to_string(), &mut num, &mut arrays);
        let mut w = v.clone();
        let eps = f64::EPSILON;
        if which.is_none() && rng.chance(0.3) && !arrays.is_empty() {
            let pth = rng.pick(&arrays).clone();
            w.pointer_mut(&pth)?.as_array_mut()?.pop();
            return Some((w, format!("pop {}", pth)));
        }
        if num.is_empty() {
            return None;
        }
        let pth = match which {
            Some(i) => num.get(i)?.clone(),
            None => rng.pick(&num).clone(),
        };
        let leaf = w.pointer_mut(&pth)?;
        let what;
        if leaf.is_null() {
            *leaf = json!(0.5);
            what = format!("null->0.5 {}", pth);
        } else if leaf.is_f64() {
            let old = leaf.as_f64()?;
            let d = *rng.pick(&[0.25 * eps, 0.5 * eps, eps, 1.5 * eps, 2.0 * eps, 2.5 * eps, 3.0 * eps, 4.0 * eps, 1e-9, 0.9e-8, 1.1e-8, 0.5, 0.0]) * if rng.bool() { 1.0 } else { -1.0 };
            let new = if rng.chance(0.1) { old * (1.0 + eps) } else { old + d };
            *leaf = json!(new);
            what = format!("{:e} -> {:e} {}", old, new, pth);
        } else if let Some(u) = leaf.as_u64() {
            let new = if u > 0 && rng.bool() { u - 1 } else { u + 1 };
            *leaf = json!(new);
            what = format!("{} -> {} {}", u, new, pth);
        } else {
            let i = leaf.as_i64()?;
            let new = if rng.bool() { i - 1 } else { i + 1 };
            *leaf = json!(new);
            what = format!("{} -> {} {}", i, new, pth);
        }
        Some((w, what))
    }

    fn corr_model_eq<M: Serialize + DeserializeOwned + PartialEq>(out: &mut Out, rng: &mut Rng, kind: &str, m: &M, root: &str, reps: usize) {
        let v = match serde_json::to_value(m) {
            Ok(v) => v,
            Err(_) => return,
        };
        if v.to_string().len() > 6000 {
            return;
        }
        // every numeric / null leaf once (each field of the object is edited at least once; a random
        // subset of 20 when there are more), then `reps` random edits incl. array truncations
        let mut num = vec![];
        let mut arrays = vec![];
        if let Some(r) = v.pointer(root) {
            leaves(r, root.to_string(), &mut num, &mut arrays);
        }
        let mut sweep: Vec<usize> = (0..num.len()).collect();
        rng.shuffle(&mut sweep);
        sweep.truncate(20);
        let mut plan: Vec<Option<Option<usize>>> = vec![None]; // None = identical pair
        plan.extend(sweep.into_iter().map(|i| Some(Some(i))));
        plan.extend((0..reps).map(|_| Some(None)));
        for step in plan {
            let (w, what) = match step {
                None => (v.clone(), "identical".to_string()),
                Some(which) => match perturb(rng, &v, root, which) {
                    Some(x) => x,
                    None => continue,
                },
            };
            let (a, b): (M, M) = match (guard(|| serde_json::from_value(v.clone())), guard(|| serde_json::from_value(w.clone()))) {
                (Ok(Ok(a)), Ok(Ok(b))) => (a, b),
                _ => continue,
            };
            // one direction per pair (chosen at random), both for the identical pair
            let dirs: Vec<bool> = if step.is_none() { vec![true] } else { vec![rng.bool()] };
            for fwd in dirs {
                let (x, y, vx, vy) = if fwd { (&a, &b, &v, &w) } else { (&b, &a, &w, &v) };
                let res = guard(|| x == y).ok();
                if let Some(term) = model_term(kind, vx, vy, res) {
                    out.corr(&format!("eq_{}", kind), term, json!({"entry": "partial_eq", "kind": kind, "edit": what, "a": vx, "b": vy, "impl_eq": res}));
                }
            }
        }
    }

    fn small_data(rng: &mut Rng, n: usize, p: usize, target: Target, feat: Feat) -> Data {
        let (d, _) = gen_data(rng, n, p, feat, target, true, false);
        d
    }

    fn corr_models(out: &mut Out, rng: &mut Rng, reps: usize) {
        type M = DenseMatrix<f64>;
        let n = rng.usize_in(5, 8);
        let p = rng.usize_in(1, 2);
        let dr = small_data(rng, n, p, Target::Reg, Feat::Cont);
        let dc = small_data(rng, n, p, Target::Class(2), Feat::Cont);
        let (xr, yr) = (mat::<f64>(&dr.x), dr.y.clone());
        let (xc, yc) = (mat::<f64>(&dc.x), dc.y.clone());
        macro_rules! go {
            ($kind:expr, $fit:expr) => {
                go!($kind, $fit, "")
            };
            ($kind:expr, $fit:expr, $root:expr) => {
                if let Ok(Ok(m)) = guard(|| $fit) {
                    corr_model_eq(out, rng, $kind, &m, $root, reps);
                }
            };
        }
        go!("LinearRegression", LinearRegression::fit(&xr, &yr, Default::default()));
        go!("RidgeRegression", RidgeRegression::fit(&xr, &yr, Default::default()));
        go!("Lasso", Lasso::fit(&xr, &yr, LassoParameters::default().with_alpha(0.01)));
        go!("ElasticNet", ElasticNet::fit(&xr, &yr, ElasticNetParameters::default().with_alpha(0.01)));
        go!("LogisticRegression", LogisticRegression::fit(&xc, &yc, Default::default()));
        go!("DecisionTreeRegressor", DecisionTreeRegressor::fit(&xr, &yr, DecisionTreeRegressorParameters::default().with_max_depth(2)));
        go!("DecisionTreeClassifier", DecisionTreeClassifier::fit(&xc, &yc, DecisionTreeClassifierParameters::default().with_max_depth(2)));
        go!("RandomForestRegressor", RandomForestRegressor::fit(&xr, &yr, RandomForestRegressorParameters::default().with_n_trees(2).with_max_depth(2)));
        go!("RandomForestClassifier", RandomForestClassifier::fit(&xc, &yc, RandomForestClassifierParameters::default().with_n_trees(2).with_max_depth(2)));
        let xw = mat::<f64>(&small_data(rng, 6, 3, Target::NoTarget, Feat::Cont).x);
        go!("PCA", PCA::<f64, M>::fit(&xw, PCAParameters::default().with_n_components(2)));
        go!("SVD", SVD::<f64, M>::fit(&xw, SVDParameters::default().with_n_components(2)));
        go!("SVC", SVC::<f64, M, LinearKernel>::fit(&xc, &yc, SVCParameters::default().with_c(1.0)));
        go!("SVR", SVR::<f64, M, LinearKernel>::fit(&xr, &yr, SVRParameters::default().with_eps(0.05).with_c(10.0)));
        go!("KMeans", KMeans::<f64>::fit(&xr, KMeansParameters::default().with_k(2)));
        go!("DBSCAN", DBSCAN::fit(&xr, DBSCANParameters::default().with_eps(1.0).with_min_samples(2).with_algorithm(KNNAlgorithmName::LinearSearch)));
        go!("KNNClassifier", KNNClassifier::fit(&xc, &yc, KNNClassifierParameters::default().with_k(2).with_algorithm(KNNAlgorithmName::LinearSearch)));
        go!("KNNRegressor", KNNRegressor::fit(&xr, &yr, KNNRegressorParameters::default().with_k(2).with_algorithm(KNNAlgorithmName::LinearSearch)));
        go!("CoverTree", CoverTree::new(rows_t::<f64>(&dr.x[..4.min(n)]), Distances::euclidian()), "/data");
        let db = small_data(rng, n, 2, Target::Class(2), Feat::Binary);
        go!("BernoulliNB", BernoulliNB::fit(&mat::<f64>(&db.x), &db.y, BernoulliNBParameters::default().with_binarize(0.5)), "/inner/distribution");
        let dk = small_data(rng, n, 2, Target::Class(2), Feat::Cat);
        go!("CategoricalNB", CategoricalNB::fit(&mat::<f64>(&dk.x), &dk.y, CategoricalNBParameters::default()), "/inner/distribution");
    }

    pub fn run_corr(out: &mut Out, rng: &mut Rng, thorough: bool) {
        let k = if thorough { 4 } else { 1 };
        for i in 0..12 * k {
            if i % 3 == 2 {
                corr_tokens::<f32>(out, rng);
            } else {
                corr_tokens::<f64>(out, rng);
            }
        }
        for i in 0..30 * k {
            if i % 4 == 3 {
                corr_json::<f32>(out, rng, i % 2);
            } else {
                corr_json::<f64>(out, rng, i % 2);
            }
        }
        for _ in 0..3 * k {
            corr_json::<f64>(out, rng, 2);
        }
        corr_json_orders::<f64>(out, rng);
        corr_json_orders::<f32>(out, rng);
        for i in 0..8 * k {
            if i % 2 == 1 {
                corr_bincode::<f32>(out, rng);
            } else {
                corr_bincode::<f64>(out, rng);
            }
        }
        for i in 0..14 * k {
            if i % 3 == 2 {
                corr_dm_eq::<f32>(out, rng);
            } else {
                corr_dm_eq::<f64>(out, rng);
            }
        }
        for _ in 0..k {
            corr_models(out, rng, if thorough { 6 } else { 3 });
        }
    }

    pub fn replay_corr(_out: &mut Out, _inp: &Value) {
        // correspondence cases are re-decided by the driver (coqc); nothing to evaluate here
    }
}
