//! C01 — LU / QR / Cholesky / SVD factors and solves: correspondence cases for the Coq models
//! (SC.C01.Corr) and the failing-input search (oracles written directly from the property text:
//! reconstruction relative to |A|, triangularity, permutation, orthonormality, ordering of s,
//! residual / normal-equation / minimum-norm conditions of the solves, Cholesky rejecting a
//! clearly negative eigenvalue).  All oracle arithmetic is done in f64 with compensated dot
//! products, so the oracle's own rounding is negligible against the tolerances.
use serde_json::{json, Value};
use smartcore::linalg::cholesky::CholeskyDecomposableMatrix;
use smartcore::linalg::lu::LUDecomposableMatrix;
use smartcore::linalg::naive::dense_matrix::DenseMatrix;
use smartcore::linalg::qr::QRDecomposableMatrix;
use smartcore::linalg::svd::SVDDecomposableMatrix;
use smartcore::linalg::BaseMatrix;
use smartcore::math::num::RealNumber;
use vharness::*;

type Rows = Vec<Vec<f64>>;

// ------------------------------------------------------------------------------------------
// small exact-ish linear algebra for the oracles (independent of the crate under test)
// ------------------------------------------------------------------------------------------
fn two_sum(a: f64, b: f64) -> (f64, f64) {
    let s = a + b;
    let bb = s - a;
    (s, (a - (s - bb)) + (b - bb))
}
/// compensated dot product (Ogita–Rump–Oishi Dot2): error ~ eps*|result| + eps^2 * cond
fn dot2<I: Iterator<Item = (f64, f64)>>(it: I) -> f64 {
    let (mut s, mut c) = (0.0f64, 0.0f64);
    for (x, y) in it {
        let p = x * y;
        let ep = x.mul_add(y, -p);
        let (t, es) = two_sum(s, p);
        s = t;
        c += ep + es;
    }
    s + c
}
fn shape(a: &Rows) -> (usize, usize) {
    (a.len(), if a.is_empty() { 0 } else { a[0].len() })
}
fn matmul(a: &Rows, b: &Rows) -> Rows {
    let (m, k) = shape(a);
    let (_, n) = shape(b);
    (0..m).map(|i| (0..n).map(|j| dot2((0..k).map(|t| (a[i][t], b[t][j])))).collect()).collect()
}
fn transpose(a: &Rows) -> Rows {
    let (m, n) = shape(a);
    (0..n).map(|j| (0..m).map(|i| a[i][j]).collect()).collect()
}
fn sub(a: &Rows, b: &Rows) -> Rows {
    a.iter().zip(b).map(|(r, s)| r.iter().zip(s).map(|(x, y)| x - y).collect()).collect()
}
fn max_abs(a: &Rows) -> f64 {
    let mut m = 0.0f64;
    for r in a {
        for x in r {
            if x.is_nan() {
                return f64::INFINITY;
            }
            m = m.max(x.abs());
        }
    }
    m
}
fn norm_f(a: &Rows) -> f64 {
    let s = max_abs(a);
    if s == 0.0 || !s.is_finite() {
        return s;
    }
    let mut t = 0.0;
    for r in a {
        for x in r {
            t += (x / s) * (x / s);
        }
    }
    s * t.sqrt()
}
fn identity(n: usize) -> Rows {
    (0..n).map(|i| (0..n).map(|j| if i == j { 1.0 } else { 0.0 }).collect()).collect()
}
fn all_finite(a: &Rows) -> bool {
    a.iter().all(|r| r.iter().all(|x| x.is_finite()))
}
fn top_rows(a: &Rows, n: usize) -> Rows {
    a.iter().take(n).cloned().collect()
}
/// A - B*C with every entry one compensated dot product
fn resid(a: &Rows, b: &Rows, c: &Rows) -> Rows {
    let (m, n) = shape(a);
    let k = c.len();
    (0..m)
        .map(|i| (0..n).map(|j| dot2((0..k).map(|t| (b[i][t], c[t][j])).chain(std::iter::once((-1.0, a[i][j]))))).collect())
        .collect()
}
/// random matrix with orthonormal columns (m x k, k <= m): Gaussian + modified Gram–Schmidt twice
fn rand_orth(rng: &mut Rng, m: usize, k: usize) -> Rows {
    loop {
        let mut cols: Vec<Vec<f64>> = (0..k).map(|_| (0..m).map(|_| rng.normal()).collect()).collect();
        let mut ok = true;
        for j in 0..k {
            for _pass in 0..2 {
                for p in 0..j {
                    let d = dot2((0..m).map(|i| (cols[p][i], cols[j][i])));
                    for i in 0..m {
                        cols[j][i] -= d * cols[p][i];
                    }
                }
            }
            let nr = dot2((0..m).map(|i| (cols[j][i], cols[j][i]))).sqrt();
            if nr < 1e-6 {
                ok = false;
                break;
            }
            for i in 0..m {
                cols[j][i] /= nr;
            }
        }
        if ok {
            return (0..m).map(|i| (0..k).map(|j| cols[j][i]).collect()).collect();
        }
    }
}
/// U diag(s) V^T with U m x k, V n x k orthonormal columns (k = min(m,n))
fn from_singular_values(rng: &mut Rng, m: usize, n: usize, s: &[f64]) -> Rows {
    let k = m.min(n);
    let u = rand_orth(rng, m, k);
    let v = rand_orth(rng, n, k);
    (0..m).map(|i| (0..n).map(|j| dot2((0..k).map(|t| (u[i][t] * s[t], v[j][t])))).collect()).collect()
}
fn log_uniform(rng: &mut Rng, lo: f64, hi: f64) -> f64 {
    (rng.uniform(lo.ln(), hi.ln())).exp()
}
fn to_width(a: &Rows, w32: bool) -> Rows {
    if w32 {
        a.iter().map(|r| r.iter().map(|x| *x as f32 as f64).collect()).collect()
    } else {
        a.clone()
    }
}
fn eps_of(w32: bool) -> f64 {
    if w32 { f32::EPSILON as f64 } else { f64::EPSILON }
}
/// rank over GF(p), p = 2^61 - 1, of an integer matrix (a lower bound of the rational rank)
fn rank_mod_p(a: &Vec<Vec<i64>>) -> usize {
    const P: i128 = (1i128 << 61) - 1;
    let (m, n) = (a.len(), if a.is_empty() { 0 } else { a[0].len() });
    let mut x: Vec<Vec<i128>> = a.iter().map(|r| r.iter().map(|v| ((*v as i128) % P + P) % P).collect()).collect();
    fn pw(mut b: i128, mut e: i128) -> i128 {
        const P: i128 = (1i128 << 61) - 1;
        let mut r = 1i128;
        while e > 0 {
            if e & 1 == 1 {
                r = r * b % P;
            }
            b = b * b % P;
            e >>= 1;
        }
        r
    }
    let mut rank = 0;
    for c in 0..n {
        if rank == m {
            break;
        }
        let mut p = None;
        for r in rank..m {
            if x[r][c] != 0 {
                p = Some(r);
                break;
            }
        }
        if let Some(p) = p {
            x.swap(p, rank);
            let inv = pw(x[rank][c], P - 2);
            for r in rank + 1..m {
                if x[r][c] != 0 {
                    let f = x[r][c] * inv % P;
                    for cc in c..n {
                        x[r][cc] = ((x[r][cc] - f * x[rank][cc]) % P + P) % P;
                    }
                }
            }
            rank += 1;
        }
    }
    rank
}
/// solve the SPD system G y = r by plain Cholesky in f64 (oracle side only; G small and well conditioned)
fn spd_solve(g: &Rows, r: &[f64]) -> Option<Vec<f64>> {
    let n = g.len();
    let mut l = vec![vec![0.0; n]; n];
    for j in 0..n {
        for k in 0..=j {
            let s = dot2((0..k).map(|i| (l[j][i], l[k][i])));
            if k == j {
                let d = g[j][j] - s;
                if !(d > 0.0) {
                    return None;
                }
                l[j][j] = d.sqrt();
            } else {
                l[j][k] = (g[j][k] - s) / l[k][k];
            }
        }
    }
    let mut y = vec![0.0; n];
    for i in 0..n {
        y[i] = (r[i] - dot2((0..i).map(|k| (l[i][k], y[k])))) / l[i][i];
    }
    for i in (0..n).rev() {
        y[i] = (y[i] - dot2((i + 1..n).map(|k| (l[k][i], y[k])))) / l[i][i];
    }
    Some(y)
}

// ------------------------------------------------------------------------------------------
// running the implementation
// ------------------------------------------------------------------------------------------
fn dm<T: RealNumber>(a: &Rows) -> DenseMatrix<T> {
    let v: Vec<Vec<T>> = a.iter().map(|r| r.iter().map(|x| T::from_f64(*x).unwrap()).collect()).collect();
    let (m, n) = shape(a);
    if m == 0 || n == 0 {
        return DenseMatrix::new(m, n, vec![]);
    }
    DenseMatrix::from_2d_vec(&v)
}
fn rows_of<T: RealNumber>(m: &DenseMatrix<T>) -> Rows {
    let (r, c) = m.shape();
    (0..r).map(|i| (0..c).map(|j| m.get(i, j).to_f64().unwrap()).collect()).collect()
}
fn err_code(msg: &str) -> u64 {
    if msg.contains("non-square") {
        1
    } else if msg.contains("positive definite") {
        2
    } else {
        3
    }
}

struct LuOut {
    l: Rows,
    u: Rows,
    p: Rows,
    inv: Option<Rows>, // None = inverse panicked / Err
}
fn lu_t<T: RealNumber>(a: &Rows) -> Result<LuOut, String> {
    let a = dm::<T>(a);
    guard(move || {
        let lu = a.lu().map_err(|e| format!("{}", e))?;
        let l = rows_of(&lu.L());
        let u = rows_of(&lu.U());
        let p = rows_of(&lu.pivot());
        let inv = guard(|| lu.inverse().ok().map(|m| rows_of(&m))).ok().flatten();
        Ok(LuOut { l, u, p, inv })
    })
    .and_then(|r| r)
}
fn lu_run(a: &Rows, w32: bool) -> Result<LuOut, String> {
    if w32 { lu_t::<f32>(a) } else { lu_t::<f64>(a) }
}
fn lu_solve_t<T: RealNumber>(a: &Rows, b: &Rows) -> Result<Rows, String> {
    let (a, b) = (dm::<T>(a), dm::<T>(b));
    guard(move || a.lu_solve_mut(b).map(|x| rows_of(&x)).map_err(|e| format!("{}", e))).and_then(|r| r)
}
fn lu_solve_run(a: &Rows, b: &Rows, w32: bool) -> Result<Rows, String> {
    if w32 { lu_solve_t::<f32>(a, b) } else { lu_solve_t::<f64>(a, b) }
}

/// Ok(Ok((L,U))) | Ok(Err(code)) | Err(panic)
fn chol_t<T: RealNumber>(a: &Rows) -> Result<Result<(Rows, Rows), u64>, String> {
    let a = dm::<T>(a);
    guard(move || match a.cholesky() {
        Ok(c) => Ok((rows_of(&c.L()), rows_of(&c.U()))),
        Err(e) => Err(err_code(&format!("{}", e))),
    })
}
fn chol_run(a: &Rows, w32: bool) -> Result<Result<(Rows, Rows), u64>, String> {
    if w32 { chol_t::<f32>(a) } else { chol_t::<f64>(a) }
}
fn chol_solve_t<T: RealNumber>(a: &Rows, b: &Rows) -> Result<Result<Rows, u64>, String> {
    let (a, b) = (dm::<T>(a), dm::<T>(b));
    guard(move || a.cholesky_solve_mut(b).map(|x| rows_of(&x)).map_err(|e| err_code(&format!("{}", e))))
}
fn chol_solve_run(a: &Rows, b: &Rows, w32: bool) -> Result<Result<Rows, u64>, String> {
    if w32 { chol_solve_t::<f32>(a, b) } else { chol_solve_t::<f64>(a, b) }
}

fn qr_t<T: RealNumber>(a: &Rows) -> Result<(Rows, Rows), String> {
    let a = dm::<T>(a);
    guard(move || {
        let qr = a.qr().map_err(|e| format!("{}", e))?;
        Ok((rows_of(&qr.Q()), rows_of(&qr.R())))
    })
    .and_then(|r| r)
}
fn qr_run(a: &Rows, w32: bool) -> Result<(Rows, Rows), String> {
    if w32 { qr_t::<f32>(a) } else { qr_t::<f64>(a) }
}
fn qr_solve_t<T: RealNumber>(a: &Rows, b: &Rows) -> Result<Rows, String> {
    let (a, b) = (dm::<T>(a), dm::<T>(b));
    guard(move || a.qr_solve_mut(b).map(|x| rows_of(&x)).map_err(|e| format!("{}", e))).and_then(|r| r)
}
fn qr_solve_run(a: &Rows, b: &Rows, w32: bool) -> Result<Rows, String> {
    if w32 { qr_solve_t::<f32>(a, b) } else { qr_solve_t::<f64>(a, b) }
}

struct SvdOut {
    u: Rows,
    s: Vec<f64>,
    v: Rows,
    smat: Rows,
}
fn svd_t<T: RealNumber>(a: &Rows) -> Result<SvdOut, String> {
    let a = dm::<T>(a);
    guard(move || {
        let svd = a.svd().map_err(|e| format!("{}", e))?;
        Ok(SvdOut {
            u: rows_of(&svd.U),
            s: svd.s.iter().map(|x| x.to_f64().unwrap()).collect(),
            v: rows_of(&svd.V),
            smat: rows_of(&svd.S()),
        })
    })
    .and_then(|r| r)
}
fn svd_run(a: &Rows, w32: bool) -> Result<SvdOut, String> {
    if w32 { svd_t::<f32>(a) } else { svd_t::<f64>(a) }
}
fn svd_solve_t<T: RealNumber>(a: &Rows, b: &Rows, use_mut: bool) -> Result<Rows, String> {
    let (a, b) = (dm::<T>(a), dm::<T>(b));
    guard(move || {
        let r = if use_mut { a.svd_solve_mut(b) } else { a.svd_solve(b) };
        r.map(|x| rows_of(&x)).map_err(|e| format!("{}", e))
    })
    .and_then(|r| r)
}
fn svd_solve_run(a: &Rows, b: &Rows, w32: bool, use_mut: bool) -> Result<Rows, String> {
    if w32 { svd_solve_t::<f32>(a, b, use_mut) } else { svd_solve_t::<f64>(a, b, use_mut) }
}

// ------------------------------------------------------------------------------------------
// oracles (property text).  Each returns a list of (clause, message) violations.
// ------------------------------------------------------------------------------------------
const C_FACT: f64 = 8.0; // reconstruction: C_FACT*(m+n)*eps*|A|_F
const C_ORTH: f64 = 8.0; // orthonormality: C_ORTH*(m+n)*eps
const C_SOLVE: f64 = 8.0; // residuals: C_SOLVE*(m+n)*eps*(|A||X|+|B|)

struct Ratios {
    worst: std::collections::BTreeMap<String, f64>,
}
impl Ratios {
    fn new() -> Self {
        Ratios { worst: Default::default() }
    }
    fn see(&mut self, k: &str, r: f64) {
        let e = self.worst.entry(k.to_string()).or_insert(0.0);
        if r > *e || r.is_nan() {
            *e = r;
        }
    }
}

type Viol = Vec<(String, String)>;
fn chk(v: &mut Viol, rt: &mut Ratios, clause: &str, err: f64, tol: f64) {
    let ratio = if tol > 0.0 { err / tol } else if err == 0.0 { 0.0 } else { f64::INFINITY };
    rt.see(clause, ratio);
    if !(err <= tol) {
        v.push((clause.to_string(), format!("error {:e} exceeds tolerance {:e}", err, tol)));
    }
}
fn is_lower(a: &Rows, unit: bool) -> bool {
    let (m, n) = shape(a);
    for i in 0..m {
        for j in 0..n {
            if j > i && a[i][j] != 0.0 {
                return false;
            }
            if unit && i == j && a[i][j] != 1.0 {
                return false;
            }
        }
    }
    true
}
fn is_upper(a: &Rows) -> bool {
    let (m, n) = shape(a);
    for i in 0..m {
        for j in 0..n {
            if j < i && a[i][j] != 0.0 {
                return false;
            }
        }
    }
    true
}
fn is_permutation(p: &Rows) -> bool {
    let n = p.len();
    for i in 0..n {
        if p[i].len() != n {
            return false;
        }
        let mut ones = 0;
        for j in 0..n {
            if p[i][j] == 1.0 {
                ones += 1;
            } else if p[i][j] != 0.0 {
                return false;
            }
        }
        if ones != 1 {
            return false;
        }
    }
    for j in 0..n {
        if (0..n).filter(|&i| p[i][j] == 1.0).count() != 1 {
            return false;
        }
    }
    true
}
fn orth_err(q: &Rows, k: usize) -> f64 {
    // max |Q[:, :k]^T Q[:, :k] - I|
    let m = q.len();
    let mut e = 0.0f64;
    for a in 0..k {
        for b in 0..k {
            let d = dot2((0..m).map(|i| (q[i][a], q[i][b]))) - if a == b { 1.0 } else { 0.0 };
            if d.is_nan() {
                return f64::INFINITY;
            }
            e = e.max(d.abs());
        }
    }
    e
}
/// |A X - B| against C_SOLVE*(m+n)*eps*(|A||X| + |B|)
fn solve_resid(v: &mut Viol, rt: &mut Ratios, clause: &str, a: &Rows, x: &Rows, b: &Rows, eps: f64) {
    let (m, n) = shape(a);
    if !all_finite(x) {
        v.push((clause.to_string(), "solution has non-finite entries".into()));
        return;
    }
    let r = resid(b, a, x);
    let tol = C_SOLVE * (m + n) as f64 * eps * (norm_f(a) * norm_f(x) + norm_f(b));
    chk(v, rt, clause, max_abs(&r), tol);
}
/// |A^T (A X - B)| against C_SOLVE*(m+n)*eps*|A|*(|A||X| + |B|)
fn normal_eq(v: &mut Viol, rt: &mut Ratios, clause: &str, a: &Rows, x: &Rows, b: &Rows, eps: f64) {
    let (m, n) = shape(a);
    if !all_finite(x) {
        v.push((clause.to_string(), "solution has non-finite entries".into()));
        return;
    }
    let r = resid(b, a, x); // B - A X, entries accurate to eps*|r| + eps^2
    let at = transpose(a);
    let g = matmul(&at, &r);
    let na = norm_f(a);
    let tol = C_SOLVE * (m + n) as f64 * eps * na * (na * norm_f(x) + norm_f(b));
    chk(v, rt, clause, max_abs(&g), tol);
}

fn oracle_lu(a: &Rows, w32: bool, rt: &mut Ratios) -> Viol {
    let mut v = vec![];
    let n = a.len();
    let eps = eps_of(w32);
    match lu_run(a, w32) {
        Err(e) => v.push(("lu_panic".into(), e)),
        Ok(o) => {
            if !is_lower(&o.l, true) {
                v.push(("lu_L_unit_lower".into(), "L is not unit lower triangular".into()));
            }
            if !is_upper(&o.u) {
                v.push(("lu_U_upper".into(), "U is not upper triangular".into()));
            }
            if !is_permutation(&o.p) {
                v.push(("lu_P_permutation".into(), "pivot() is not a permutation matrix".into()));
            } else {
                let pa = matmul(&o.p, a);
                let r = resid(&pa, &o.l, &o.u);
                chk(&mut v, rt, "lu_reconstruct", max_abs(&r), C_FACT * (2 * n) as f64 * eps * norm_f(a));
            }
            match &o.inv {
                None => v.push(("lu_inverse".into(), "inverse() failed on a non-singular matrix".into())),
                Some(x) => solve_resid(&mut v, rt, "lu_inverse", a, x, &identity(n), eps),
            }
        }
    }
    v
}
fn oracle_lu_solve(a: &Rows, b: &Rows, w32: bool, rt: &mut Ratios) -> Viol {
    let mut v = vec![];
    match lu_solve_run(a, b, w32) {
        Err(e) => v.push(("lu_solve_panic".into(), e)),
        Ok(x) => {
            if shape(&x) != shape(b) {
                v.push(("lu_solve".into(), "solution has the wrong shape".into()));
            } else {
                solve_resid(&mut v, rt, "lu_solve", a, &x, b, eps_of(w32));
            }
        }
    }
    v
}
fn oracle_chol(a: &Rows, w32: bool, rt: &mut Ratios) -> Viol {
    let mut v = vec![];
    let n = a.len();
    match chol_run(a, w32) {
        Err(e) => v.push(("chol_panic".into(), e)),
        Ok(Err(c)) => v.push(("chol_accepts_spd".into(), format!("cholesky() of a positive-definite matrix returned Err (code {})", c))),
        Ok(Ok((l, u))) => {
            if !is_lower(&l, false) {
                v.push(("chol_L_lower".into(), "L is not lower triangular".into()));
            }
            if u != transpose(&l) {
                v.push(("chol_U_is_Lt".into(), "U is not the transpose of L".into()));
            }
            let r = resid(a, &l, &transpose(&l));
            chk(&mut v, rt, "chol_reconstruct", max_abs(&r), C_FACT * (2 * n) as f64 * eps_of(w32) * norm_f(a));
        }
    }
    v
}
fn oracle_chol_solve(a: &Rows, b: &Rows, w32: bool, rt: &mut Ratios) -> Viol {
    let mut v = vec![];
    match chol_solve_run(a, b, w32) {
        Err(e) => v.push(("chol_solve_panic".into(), e)),
        Ok(Err(c)) => v.push(("chol_solve".into(), format!("cholesky_solve_mut returned Err (code {}) for a positive-definite matrix", c))),
        Ok(Ok(x)) => {
            if shape(&x) != shape(b) {
                v.push(("chol_solve".into(), "solution has the wrong shape".into()));
            } else {
                solve_resid(&mut v, rt, "chol_solve", a, &x, b, eps_of(w32));
            }
        }
    }
    v
}
fn oracle_chol_neg(a: &Rows, w32: bool) -> Viol {
    let mut v = vec![];
    match chol_run(a, w32) {
        Err(e) => v.push(("chol_panic".into(), e)),
        Ok(Err(2)) => {}
        Ok(Err(c)) => v.push(("chol_rejects_negative".into(), format!("wrong error kind {}", c))),
        Ok(Ok(_)) => v.push(("chol_rejects_negative".into(), "cholesky() returned factors for a matrix with a clearly negative eigenvalue".into())),
    }
    v
}
fn oracle_qr(a: &Rows, w32: bool, rt: &mut Ratios) -> Viol {
    let mut v = vec![];
    let (m, n) = shape(a);
    let eps = eps_of(w32);
    match qr_run(a, w32) {
        Err(e) => v.push(("qr_panic".into(), e)),
        Ok((q, r)) => {
            if shape(&q) != (m, n) || shape(&r) != (n, n) {
                v.push(("qr_shapes".into(), "Q or R has the wrong shape".into()));
                return v;
            }
            if !is_upper(&r) {
                v.push(("qr_R_upper".into(), "R is not upper triangular".into()));
            }
            chk(&mut v, rt, "qr_Q_orthonormal", orth_err(&q, n), C_ORTH * (m + n) as f64 * eps);
            let e = resid(a, &q, &r);
            chk(&mut v, rt, "qr_reconstruct", max_abs(&e), C_FACT * (m + n) as f64 * eps * norm_f(a));
        }
    }
    v
}
fn oracle_qr_solve(a: &Rows, b: &Rows, w32: bool, rt: &mut Ratios) -> Viol {
    let mut v = vec![];
    let (m, n) = shape(a);
    match qr_solve_run(a, b, w32) {
        Err(e) => v.push(("qr_solve_panic".into(), e)),
        Ok(xfull) => {
            if xfull.len() < n {
                v.push(("qr_solve".into(), "solution has too few rows".into()));
                return v;
            }
            let x = top_rows(&xfull, n);
            if m == n {
                solve_resid(&mut v, rt, "qr_solve", a, &x, b, eps_of(w32));
            } else {
                normal_eq(&mut v, rt, "qr_solve_lsq", a, &x, b, eps_of(w32));
            }
        }
    }
    v
}
fn oracle_svd(a: &Rows, w32: bool, rt: &mut Ratios) -> Viol {
    let mut v = vec![];
    let (m, n) = shape(a);
    let eps = eps_of(w32);
    match svd_run(a, w32) {
        Err(e) => v.push(("svd_panic".into(), e)),
        Ok(o) => {
            if shape(&o.u) != (m, n) || shape(&o.v) != (n, n) || o.s.len() != n {
                v.push(("svd_shapes".into(), "U, V or s has the wrong shape".into()));
                return v;
            }
            let na = norm_f(a);
            let k = m.min(n);
            if !o.s.iter().all(|x| *x >= 0.0) {
                v.push(("svd_s_nonnegative".into(), format!("a singular value is negative or NaN: {:?}", o.s)));
            }
            if !(0..n.saturating_sub(1)).all(|i| o.s[i] >= o.s[i + 1]) {
                v.push(("svd_s_ordered".into(), format!("singular values are not non-increasing: {:?}", o.s)));
            }
            // a wide matrix has n - m zero singular values; they must come last and be negligible
            if n > m {
                let tail = o.s[m..].iter().fold(0.0f64, |x, y| x.max(y.abs()));
                chk(&mut v, rt, "svd_wide_tail", tail, C_FACT * (m + n) as f64 * eps * na);
            }
            // columns of U that belong to singular values above the noise level must be orthonormal; for a
            // wide matrix the n - m trailing columns belong to zero singular values and are not determined
            // (when cond*(m+n)*eps is not small the smallest genuine values are at the noise level as well)
            let thr = C_FACT * (m + n) as f64 * eps * na;
            let k_eff = if n > m { (0..k).take_while(|&j| o.s[j] > 4.0 * thr).count() } else { k };
            if n > m && k_eff < k {
                rt.see("svd_wide_columns_at_noise_level", (k - k_eff) as f64);
            }
            chk(&mut v, rt, "svd_U_orthonormal", orth_err(&o.u, k_eff), C_ORTH * (m + n) as f64 * eps);
            chk(&mut v, rt, "svd_V_orthonormal", orth_err(&o.v, n), C_ORTH * (m + n) as f64 * eps);
            let us: Rows = o.u.iter().map(|r| r.iter().zip(&o.s).map(|(x, s)| x * s).collect()).collect();
            let e = resid(a, &us, &transpose(&o.v));
            chk(&mut v, rt, "svd_reconstruct", max_abs(&e), C_FACT * (m + n) as f64 * eps * na);
            // S() is diag(s)
            let sd: Rows = (0..n).map(|i| (0..n).map(|j| if i == j { o.s[i] } else { 0.0 }).collect()).collect();
            if o.smat != sd {
                v.push(("svd_S_diag".into(), "S() is not diag(s)".into()));
            }
        }
    }
    v
}
fn oracle_svd_solve(a: &Rows, b: &Rows, w32: bool, use_mut: bool, rt: &mut Ratios) -> Viol {
    let mut v = vec![];
    let (m, n) = shape(a);
    match svd_solve_run(a, b, w32, use_mut) {
        Err(e) => v.push(("svd_solve_panic".into(), e)),
        Ok(xfull) => {
            let x = top_rows(&xfull, n);
            if m == n {
                solve_resid(&mut v, rt, "svd_solve", a, &x, b, eps_of(w32));
            } else {
                normal_eq(&mut v, rt, "svd_solve_lsq", a, &x, b, eps_of(w32));
            }
        }
    }
    v
}
/// A = Bf * Cf (exact small integers, rank r): least squares + minimum norm (X in range(Cf^T))
fn oracle_svd_solve_rd(bf: &Rows, cf: &Rows, b: &Rows, w32: bool, rt: &mut Ratios) -> Viol {
    let mut v = vec![];
    let a = matmul(bf, cf);
    let (_m, n) = shape(&a);
    match svd_solve_run(&a, b, w32, false) {
        Err(e) => v.push(("svd_solve_panic".into(), e)),
        Ok(xfull) => {
            let x = top_rows(&xfull, n);
            if !all_finite(&x) {
                v.push(("svd_solve_rankdef".into(), "solution has non-finite entries".into()));
                return v;
            }
            normal_eq(&mut v, rt, "svd_solve_rankdef_lsq", &a, &x, b, eps_of(w32));
            // minimum norm: every column of X lies in the row space of A = range(Cf^T)
            let g = matmul(cf, &transpose(cf));
            let cx = matmul(cf, &x);
            let p = b[0].len();
            let mut worst = 0.0f64;
            for k in 0..p {
                let rhs: Vec<f64> = (0..cf.len()).map(|i| cx[i][k]).collect();
                if let Some(y) = spd_solve(&g, &rhs) {
                    let mut d2 = 0.0;
                    let mut x2 = 0.0;
                    for t in 0..n {
                        let proj = dot2((0..cf.len()).map(|i| (cf[i][t], y[i])));
                        d2 += (x[t][k] - proj) * (x[t][k] - proj);
                        x2 += x[t][k] * x[t][k];
                    }
                    if x2 > 0.0 {
                        worst = worst.max((d2 / x2).sqrt());
                    }
                }
            }
            // loose: a solution that is not of minimum norm has an O(1) null-space component
            chk(&mut v, rt, "svd_solve_min_norm", worst, if w32 { 1e-2 } else { 1e-6 });
        }
    }
    v
}

// ------------------------------------------------------------------------------------------
// input families
// ------------------------------------------------------------------------------------------
fn pick_dim(rng: &mut Rng, max: usize) -> usize {
    match rng.below(10) {
        0..=3 => rng.usize_in(1, 6.min(max)),
        4..=6 => rng.usize_in(1, 16.min(max)),
        _ => rng.usize_in(1, max),
    }
}
fn cond_sv(rng: &mut Rng, k: usize, cond: f64, graded: bool) -> Vec<f64> {
    // k singular values in [1/cond, 1], largest 1, smallest 1/cond (k >= 2), descending
    let mut s: Vec<f64> = (0..k)
        .map(|i| {
            if i == 0 {
                1.0
            } else if i == k - 1 {
                1.0 / cond
            } else if graded {
                cond.powf(-(i as f64) / (k as f64 - 1.0))
            } else {
                log_uniform(rng, 1.0 / cond, 1.0)
            }
        })
        .collect();
    s.sort_by(|a, b| b.partial_cmp(a).unwrap());
    s
}
fn rand_scale(rng: &mut Rng) -> f64 {
    match rng.below(4) {
        0 => 1.0,
        1 => *rng.pick(&[1e-12, 1e12, 1e-6, 1e6]),
        _ => log_uniform(rng, 1e-12, 1e12),
    }
}
fn scale_rows(a: &Rows, s: f64) -> Rows {
    a.iter().map(|r| r.iter().map(|x| x * s).collect()).collect()
}
fn rand_perm(rng: &mut Rng, n: usize) -> Vec<usize> {
    let mut p: Vec<usize> = (0..n).collect();
    rng.shuffle(&mut p);
    p
}
/// full-column-rank m x n (m >= n) or full-row-rank (m < n) matrix of the named family; returns (name, A)
fn gen_general(rng: &mut Rng, m: usize, n: usize, w32: bool) -> (String, Rows) {
    let k = m.min(n);
    let fam = rng.below(12);
    let cond_max: f64 = 1e6;
    let (name, a): (&str, Rows) = match fam {
        0 => ("dense", (0..m).map(|_| (0..n).map(|_| rng.normal()).collect()).collect()),
        1 | 2 => {
            let c = log_uniform(rng, 1.0, cond_max);
            let s = cond_sv(rng, k, c, false);
            ("cond", from_singular_values(rng, m, n, &s))
        }
        3 => {
            let c = log_uniform(rng, 1e2, cond_max);
            let s = cond_sv(rng, k, c, true);
            ("graded", from_singular_values(rng, m, n, &s))
        }
        4 => ("integer", (0..m).map(|_| (0..n).map(|_| rng.int(-9, 9) as f64).collect()).collect()),
        5 => {
            // diagonal (rectangular: extra rows / columns are zero rows / columns)
            let c = log_uniform(rng, 1.0, cond_max);
            ("diagonal", (0..m).map(|i| (0..n).map(|j| if i == j { (if rng.bool() { -1.0 } else { 1.0 }) * log_uniform(rng, 1.0 / c, 1.0) } else { 0.0 }).collect()).collect())
        }
        6 => {
            // triangular with a dominant diagonal (well conditioned)
            let upper = rng.bool();
            ("triangular", (0..m).map(|i| (0..n).map(|j| {
                if i == j { (if rng.bool() { -1.0 } else { 1.0 }) * rng.uniform(1.0, 2.0) }
                else if (upper && j > i) || (!upper && j < i) { rng.uniform(-1.0, 1.0) / k as f64 } else { 0.0 }
            }).collect()).collect())
        }
        7 => {
            // (scaled) permutation, padded with zero rows / columns when rectangular
            let p = rand_perm(rng, k);
            let rp = rand_perm(rng, m);
            let cp = rand_perm(rng, n);
            let mut a = vec![vec![0.0; n]; m];
            for t in 0..k {
                a[rp[t]][cp[p[t]]] = if rng.chance(0.3) { -1.0 } else { 1.0 };
            }
            ("permutation", a)
        }
        8 => {
            let s = vec![1.0; k];
            ("orthogonal", from_singular_values(rng, m, n, &s))
        }
        9 => {
            // low rank plus ridge on the diagonal
            let r = rng.usize_in(1, k);
            let u: Rows = (0..m).map(|_| (0..r).map(|_| rng.normal()).collect()).collect();
            let w: Rows = (0..r).map(|_| (0..n).map(|_| rng.normal()).collect()).collect();
            let mut a = matmul(&u, &w);
            let ridge = log_uniform(rng, 1e-3, 1.0) * (1.0 + max_abs(&a));
            for i in 0..k {
                a[i][i] += ridge;
            }
            ("lowrank_ridge", a)
        }
        10 => {
            // zero leading entries with negative alternatives below, zero rows (tall) inside a full-rank whole
            let mut a: Rows = (0..m).map(|_| (0..n).map(|_| rng.normal()).collect()).collect();
            for j in 0..k {
                if rng.chance(0.6) {
                    a[j][j] = 0.0;
                }
            }
            for j in 0..k.min(3) {
                if j + 1 < m {
                    a[j + 1][j] = -rng.uniform(1.0, 3.0);
                }
            }
            if m > n + 1 {
                let z = rng.usize_in(0, m - 1);
                for j in 0..n {
                    a[z][j] = 0.0;
                }
            }
            if n > m + 1 {
                let z = rng.usize_in(0, n - 1);
                for i in 0..m {
                    a[i][z] = 0.0;
                }
            }
            ("zero_leading", a)
        }
        _ => {
            // dyadic lattice
            ("dyadic", (0..m).map(|_| (0..n).map(|_| rng.dyadic(4, 3)).collect()).collect())
        }
    };
    let sc = rand_scale(rng);
    let a = to_width(&scale_rows(&a, sc), w32);
    (format!("{}{}", name, if sc == 1.0 { "" } else { ":scaled" }), a)
}
/// estimate of the 2-norm condition number through the oracle's own one-sided Jacobi SVD (f64)
fn cond_estimate(a: &Rows) -> f64 {
    let (m, n) = shape(a);
    let a = if m >= n { a.clone() } else { transpose(a) };
    let (m, n) = shape(&a);
    let sc = max_abs(&a);
    if sc == 0.0 || !sc.is_finite() {
        return f64::INFINITY;
    }
    let mut c: Vec<Vec<f64>> = (0..n).map(|j| (0..m).map(|i| a[i][j] / sc).collect()).collect();
    for _sweep in 0..60 {
        let mut off = 0.0f64;
        for p in 0..n {
            for q in p + 1..n {
                let al: f64 = (0..m).map(|i| c[p][i] * c[p][i]).sum();
                let be: f64 = (0..m).map(|i| c[q][i] * c[q][i]).sum();
                let ga: f64 = (0..m).map(|i| c[p][i] * c[q][i]).sum();
                if ga == 0.0 {
                    continue;
                }
                off = off.max(ga.abs() / (al * be).sqrt().max(1e-300));
                let zeta = (be - al) / (2.0 * ga);
                let t = zeta.signum() / (zeta.abs() + (1.0 + zeta * zeta).sqrt());
                let cs = 1.0 / (1.0 + t * t).sqrt();
                let sn = cs * t;
                for i in 0..m {
                    let (x, y) = (c[p][i], c[q][i]);
                    c[p][i] = cs * x - sn * y;
                    c[q][i] = sn * x + cs * y;
                }
            }
        }
        if off < 1e-15 {
            break;
        }
    }
    let sv: Vec<f64> = c.iter().map(|col| col.iter().map(|x| x * x).sum::<f64>().sqrt()).collect();
    let mx = sv.iter().cloned().fold(0.0f64, f64::max);
    let mn = sv.iter().cloned().fold(f64::INFINITY, f64::min);
    if mn <= 0.0 { f64::INFINITY } else { mx / mn }
}
fn gen_rhs(rng: &mut Rng, m: usize, scale: f64, w32: bool) -> Rows {
    let p = rng.usize_in(1, 4);
    let b: Rows = match rng.below(3) {
        0 => (0..m).map(|_| (0..p).map(|_| rng.int(-5, 5) as f64 * scale).collect()).collect(),
        _ => (0..m).map(|_| (0..p).map(|_| rng.normal() * scale).collect()).collect(),
    };
    to_width(&b, w32)
}
/// symmetric positive definite n x n with condition number <= cond_max
fn gen_spd(rng: &mut Rng, n: usize, w32: bool) -> (String, Rows) {
    let cond_max: f64 = if w32 { 1e3 } else { 1e6 };
    let fam = rng.below(5);
    let (name, mut a): (&str, Rows) = match fam {
        0 | 1 => {
            let c = log_uniform(rng, 1.0, cond_max);
            let lam = cond_sv(rng, n, c, fam == 1);
            let q = rand_orth(rng, n, n);
            ("eig", (0..n).map(|i| (0..n).map(|j| dot2((0..n).map(|t| (q[i][t] * lam[t], q[j][t])))).collect()).collect())
        }
        2 => {
            // Gram matrix of integers plus ridge
            let b: Rows = (0..n + 2).map(|_| (0..n).map(|_| rng.int(-4, 4) as f64).collect()).collect();
            let mut g = matmul(&transpose(&b), &b);
            for i in 0..n {
                g[i][i] += 1.0;
            }
            ("gram_int", g)
        }
        3 => {
            let c = log_uniform(rng, 1.0, cond_max);
            ("diagonal", (0..n).map(|i| (0..n).map(|j| if i == j { log_uniform(rng, 1.0 / c, 1.0) } else { 0.0 }).collect()).collect())
        }
        _ => {
            // low rank + ridge
            let r = rng.usize_in(1, n);
            let u: Rows = (0..n).map(|_| (0..r).map(|_| rng.normal()).collect()).collect();
            let mut g = matmul(&u, &transpose(&u));
            let ridge = log_uniform(rng, 1e-2, 1.0) * (1.0 + max_abs(&g));
            for i in 0..n {
                g[i][i] += ridge;
            }
            ("lowrank_ridge", g)
        }
    };
    let sc = rand_scale(rng);
    a = to_width(&scale_rows(&a, sc), w32);
    for i in 0..n {
        for j in 0..i {
            a[j][i] = a[i][j];
        }
    }
    (format!("spd:{}{}", name, if sc == 1.0 { "" } else { ":scaled" }), a)
}
/// symmetric with one eigenvalue = -frac * (largest), frac in [1e-2, 1]
fn gen_neg_eig(rng: &mut Rng, n: usize, w32: bool) -> Rows {
    let q = rand_orth(rng, n, n);
    let mut lam: Vec<f64> = (0..n).map(|_| rng.uniform(0.1, 1.0)).collect();
    let z = rng.below(n);
    lam[z] = -log_uniform(rng, 1e-2, 1.0);
    if n > 1 && rng.chance(0.3) {
        let z2 = rng.below(n);
        lam[z2] = -rng.uniform(0.1, 1.0);
    }
    let sc = rand_scale(rng);
    let mut a: Rows = (0..n).map(|i| (0..n).map(|j| sc * dot2((0..n).map(|t| (q[i][t] * lam[t], q[j][t])))).collect()).collect();
    a = to_width(&a, w32);
    for i in 0..n {
        for j in 0..i {
            a[j][i] = a[i][j];
        }
    }
    a
}

// ------------------------------------------------------------------------------------------
// search driver
// ------------------------------------------------------------------------------------------
fn report(out: &mut Out, viol: Viol, input: Value) {
    for (clause, what) in viol {
        if let Some(id) = clause.strip_prefix("known:") {
            out.known(id, &what);
            out.count(&format!("known:{}", id));
        } else {
            out.fail(&clause, &what, input.clone());
        }
    }
}
fn key_of(tag: u64, a: &Rows, b: Option<&Rows>, w32: bool) -> u64 {
    let mut k: Vec<f64> = a.iter().flatten().cloned().collect();
    if let Some(b) = b {
        k.extend(b.iter().flatten().cloned());
    }
    k.push(tag as f64);
    k.push(if w32 { 1.0 } else { 0.0 });
    hash_f64s(&k)
}
fn wname(w32: bool) -> &'static str {
    if w32 { "f32" } else { "f64" }
}

/// evaluate the oracle named by `entry` on a self-contained input (also the replay path)
fn eval_entry(input: &Value, rt: &mut Ratios) -> Viol {
    let entry = input["entry"].as_str().unwrap_or("");
    let w32 = input["f32"].as_bool().unwrap_or(false);
    let a = rows_from_json(&input["a"]);
    let b = rows_from_json(&input["b"]);
    match entry {
        "lu" => oracle_lu(&a, w32, rt),
        "lu_solve" => oracle_lu_solve(&a, &b, w32, rt),
        "chol" => oracle_chol(&a, w32, rt),
        "chol_solve" => oracle_chol_solve(&a, &b, w32, rt),
        "chol_neg" => oracle_chol_neg(&a, w32),
        "qr" => oracle_qr(&a, w32, rt),
        "qr_solve" => oracle_qr_solve(&a, &b, w32, rt),
        "svd" => oracle_svd(&a, w32, rt),
        "svd_solve" => oracle_svd_solve(&a, &b, w32, input["use_mut"].as_bool().unwrap_or(false), rt),
        "svd_solve_rd" => oracle_svd_solve_rd(&rows_from_json(&input["bfac"]), &rows_from_json(&input["cfac"]), &b, w32, rt),
        _ => vec![("replay".into(), format!("unknown entry {}", entry))],
    }
}
fn run_case(out: &mut Out, rt: &mut Ratios, input: Value, family: &str, nontrivial: bool) {
    let entry = input["entry"].as_str().unwrap_or("").to_string();
    let w32 = input["f32"].as_bool().unwrap_or(false);
    let a = rows_from_json(&input["a"]);
    let b = rows_from_json(&input["b"]);
    let tag = entry.bytes().fold(7u64, |h, c| h.wrapping_mul(131).wrapping_add(c as u64));
    out.eval(key_of(tag, &a, Some(&b), w32), nontrivial);
    out.count(&format!("search:{}:{}", entry, wname(w32)));
    out.count(&format!("family:{}", family));
    let (m, n) = shape(&a);
    out.count(&format!("shape:{}", if m == n { "square" } else if m > n { "tall" } else { "wide" }));
    out.count(&format!("size:{}", match m.max(n) { 0..=4 => "1-4", 5..=12 => "5-12", 13..=24 => "13-24", _ => "25-40" }));
    let v = eval_entry(&input, rt);
    report(out, v, input);
}

fn regression_corpus(out: &mut Out, rt: &mut Ratios) {
    // D1: qr of tiny-scale matrices (f32 5x3 * 1e-12; f64 4x3 with graded columns 1e-12/1e-15/1e-18)
    let mut rng = Rng::new(20260926);
    for _ in 0..4 {
        let a: Rows = (0..5).map(|_| (0..3).map(|_| rng.normal() * 1e-12).collect()).collect();
        let a = to_width(&a, true);
        run_case(out, rt, json!({"entry": "qr", "a": a, "f32": true, "corpus": "D1"}), "corpus:D1", true);
        let g: Rows = (0..4).map(|_| vec![rng.normal() * 1e-12, rng.normal() * 1e-15, rng.normal() * 1e-18]).collect();
        run_case(out, rt, json!({"entry": "qr", "a": g, "f32": false, "corpus": "D1"}), "corpus:D1", true);
    }
    // D2: svd of wide matrices at scale 1e-12 (2x6, 6x9, 9x12), f32 5x3 at 1e-12
    for &(m, n) in &[(2usize, 6usize), (6, 9), (9, 12), (3, 5), (1, 4)] {
        for _ in 0..3 {
            let a: Rows = (0..m).map(|_| (0..n).map(|_| rng.normal() * 1e-12).collect()).collect();
            run_case(out, rt, json!({"entry": "svd", "a": a, "f32": false, "corpus": "D2"}), "corpus:D2", true);
        }
    }
    for _ in 0..3 {
        let a: Rows = (0..5).map(|_| (0..3).map(|_| rng.normal() * 1e-12).collect()).collect();
        let a = to_width(&a, true);
        run_case(out, rt, json!({"entry": "svd", "a": a, "f32": true, "corpus": "D2"}), "corpus:D2", true);
    }
    // D3: zero pivot followed by a negative one must be rejected, not returned as NaN factors
    for a in [vec![vec![0.0, 0.0], vec![0.0, -1.0]], vec![vec![0.0, 1.0], vec![1.0, 0.0]], vec![vec![1.0, 0.0, 0.0], vec![0.0, 0.0, 0.0], vec![0.0, 0.0, -2.0]]] {
        for w32 in [false, true] {
            run_case(out, rt, json!({"entry": "chol_neg", "a": a, "f32": w32, "corpus": "D3"}), "corpus:D3", true);
        }
    }
    // fixed 6e06fa0: exactly rank-1 matrices with many null directions (singular values decay into the
    // subnormal range; 1/g overflowed and U, V, the solution were NaN)
    {
        let u15: Vec<f64> = vec![0., -2., 3., -3., -2., -3., 2., 3., -2., 1., -2., -1., -1., -1., -1.];
        let v9: Vec<f64> = vec![3., 3., 2., 0., -2., 1., 1., 2., 3.];
        let bf: Rows = u15.iter().map(|x| vec![*x]).collect();
        let cf: Rows = vec![v9.clone()];
        let a = matmul(&bf, &cf);
        let b: Rows = (0..15).map(|i| vec![((i * 7) % 5) as f64 - 2.0, 1.0]).collect();
        run_case(out, rt, json!({"entry": "svd", "a": a, "f32": true, "corpus": "6e06fa0"}), "corpus:svd_underflow", true);
        run_case(out, rt, json!({"entry": "svd_solve_rd", "a": a, "bfac": bf, "cfac": cf, "b": b, "f32": true, "corpus": "6e06fa0"}), "corpus:svd_underflow", true);
        for &(m, n) in &[(38usize, 35usize), (40, 38), (40, 40)] {
            let bf: Rows = (0..m).map(|i| vec![((i * 5 + 1) % 7) as f64 - 3.0]).collect();
            let cf: Rows = vec![(0..n).map(|j| ((j * 3 + 2) % 7) as f64 - 3.0).collect()];
            let bf: Rows = bf.iter().map(|r| vec![if r[0] == 0.0 { 2.0 } else { r[0] }]).collect();
            let cf: Rows = vec![cf[0].iter().map(|x| if *x == 0.0 { -1.0 } else { *x }).collect()];
            let a = matmul(&bf, &cf);
            let b: Rows = (0..m).map(|i| vec![((i * 7) % 5) as f64 - 2.0]).collect();
            for w32 in [false, true] {
                run_case(out, rt, json!({"entry": "svd", "a": a, "f32": w32, "corpus": "6e06fa0"}), "corpus:svd_underflow", true);
                run_case(out, rt, json!({"entry": "svd_solve_rd", "a": a, "bfac": bf, "cfac": cf, "b": b, "f32": w32, "corpus": "6e06fa0"}), "corpus:svd_underflow", true);
            }
        }
    }
    // the crate's own test matrices, checked against the definition instead of abs() of hard-coded factors
    let t: Rows = vec![vec![1., 2., 3.], vec![0., 1., 5.], vec![5., 6., 0.]];
    run_case(out, rt, json!({"entry": "lu", "a": t, "f32": false}), "corpus:unit", true);
    let q: Rows = vec![vec![0.9, 0.4, 0.7], vec![0.4, 0.5, 0.3], vec![0.7, 0.3, 0.8]];
    for e in ["qr", "svd", "chol"] {
        run_case(out, rt, json!({"entry": e, "a": q, "f32": false}), "corpus:unit", true);
    }
}

fn search(out: &mut Out, rt: &mut Ratios, rng: &mut Rng, thorough: bool) {
    let max = 40usize;
    let rounds = if thorough { 12000 } else { 1500 };
    for _ in 0..rounds {
        let w32 = rng.chance(0.35);
        // ---- LU: square, non-singular, cond <= 1e6 ----
        {
            let n = pick_dim(rng, max);
            let (fam, a) = gen_general(rng, n, n, w32);
            let cond = cond_estimate(&a);
            if cond <= 2e6 {
                run_case(out, rt, json!({"entry": "lu", "a": a, "f32": w32}), &fam, n >= 2);
                let bs = if rng.bool() { 1.0 } else { log_uniform(rng, 1e-3, 1e3) };
                let b = gen_rhs(rng, n, max_abs(&a).max(1e-300) * bs, w32);
                run_case(out, rt, json!({"entry": "lu_solve", "a": a, "b": b, "f32": w32}), &fam, n >= 2);
            } else {
                out.count("excluded:ill_conditioned");
            }
        }
        // ---- QR: square / tall, full column rank ----
        {
            let n = pick_dim(rng, max);
            let m = if rng.bool() { n } else { rng.usize_in(n, max) };
            let (fam, a) = gen_general(rng, m, n, w32);
            let cond = cond_estimate(&a);
            if cond <= 2e6 {
                run_case(out, rt, json!({"entry": "qr", "a": a, "f32": w32}), &fam, n >= 2);
                let b = gen_rhs(rng, m, max_abs(&a).max(1e-300), w32);
                run_case(out, rt, json!({"entry": "qr_solve", "a": a, "b": b, "f32": w32}), &fam, n >= 2);
            } else {
                out.count("excluded:ill_conditioned");
            }
        }
        // ---- Cholesky: SPD; and a clearly negative eigenvalue ----
        {
            let n = pick_dim(rng, max);
            let (fam, a) = gen_spd(rng, n, w32);
            run_case(out, rt, json!({"entry": "chol", "a": a, "f32": w32}), &fam, n >= 2);
            let b = gen_rhs(rng, n, max_abs(&a).max(1e-300), w32);
            run_case(out, rt, json!({"entry": "chol_solve", "a": a, "b": b, "f32": w32}), &fam, n >= 2);
            let n2 = pick_dim(rng, max);
            let neg = gen_neg_eig(rng, n2, w32);
            run_case(out, rt, json!({"entry": "chol_neg", "a": neg, "f32": w32}), "neg_eig", n2 >= 2);
        }
        // ---- SVD: any shape ----
        {
            let n = pick_dim(rng, max);
            let m = match rng.below(3) {
                0 => n,
                1 => rng.usize_in(n, max),
                _ => rng.usize_in(1, n),
            };
            let (fam, a) = gen_general(rng, m, n, w32);
            let cond = cond_estimate(&a);
            if cond <= 2e6 {
                run_case(out, rt, json!({"entry": "svd", "a": a, "f32": w32}), &fam, m.min(n) >= 2);
                // SVD::solve treats singular values below ~ sqrt(m+n)*eps*s0 as zero: keep f32 systems clear of it
                if m >= n && (!w32 || cond <= 1e4) {
                    let b = gen_rhs(rng, m, max_abs(&a).max(1e-300), w32);
                    run_case(out, rt, json!({"entry": "svd_solve", "a": a, "b": b, "f32": w32, "use_mut": rng.bool()}), &fam, n >= 2);
                } else {
                    out.count(if m < n { "excluded:svd_solve_wide" } else { "excluded:svd_solve_f32_cond" });
                }
            } else {
                out.count("excluded:ill_conditioned");
            }
        }
        // ---- SVD solve, exactly rank deficient: A = B*C with small integers ----
        {
            let n = if rng.chance(0.7) { rng.usize_in(2, 12) } else { rng.usize_in(2, 40) };
            let m = rng.usize_in(n, (n + 6).min(40));
            let r = rng.usize_in(1, n - 1);
            let bi: Vec<Vec<i64>> = (0..m).map(|_| (0..r).map(|_| rng.int(-3, 3)).collect()).collect();
            let ci: Vec<Vec<i64>> = (0..r).map(|_| (0..n).map(|_| rng.int(-3, 3)).collect()).collect();
            if rank_mod_p(&bi) == r && rank_mod_p(&ci) == r {
                let bf: Rows = bi.iter().map(|x| x.iter().map(|v| *v as f64).collect()).collect();
                let cf: Rows = ci.iter().map(|x| x.iter().map(|v| *v as f64).collect()).collect();
                let a = matmul(&bf, &cf);
                let b = gen_rhs(rng, m, 1.0, w32);
                let input = json!({"entry": "svd_solve_rd", "a": a, "bfac": bf, "cfac": cf, "b": b, "f32": w32});
                run_case(out, rt, input, "rank_deficient", true);
            } else {
                out.count("excluded:rank_factor_not_full");
            }
        }
    }
}

// ------------------------------------------------------------------------------------------
// correspondence cases
// ------------------------------------------------------------------------------------------
fn coq_rows(a: &Rows) -> String {
    coq_rows_f64(a)
}
fn corr_matrix(rng: &mut Rng, m: usize, n: usize, w32: bool, fam: usize) -> (String, Rows) {
    let k = m.min(n);
    let fam = fam % 10;
    let (name, a): (&str, Rows) = match fam {
        0 => ("integer", (0..m).map(|_| (0..n).map(|_| rng.int(-9, 9) as f64).collect()).collect()),
        1 => ("dyadic", (0..m).map(|_| (0..n).map(|_| rng.dyadic(4, 4)).collect()).collect()),
        2 => ("diagonal", (0..m).map(|i| (0..n).map(|j| if i == j { rng.int(-6, 6) as f64 / 4.0 } else { 0.0 }).collect()).collect()),
        3 => {
            let upper = rng.bool();
            ("triangular", (0..m).map(|i| (0..n).map(|j| if i == j { rng.int(1, 5) as f64 * if rng.bool() { 1.0 } else { -1.0 } } else if (upper && j > i) || (!upper && j < i) { rng.dyadic(2, 3) } else { 0.0 }).collect()).collect())
        }
        4 => {
            let p = rand_perm(rng, k);
            let mut a = vec![vec![0.0; n]; m];
            for t in 0..k {
                a[t][p[t]] = if rng.chance(0.3) { -2.0 } else { 1.0 };
            }
            ("permutation", a)
        }
        5 => {
            let mut a: Rows = (0..m).map(|_| (0..n).map(|_| rng.int(-5, 5) as f64).collect()).collect();
            for j in 0..k {
                if rng.chance(0.7) {
                    a[j][j] = 0.0;
                }
            }
            ("zero_leading", a)
        }
        6 => {
            // graded columns
            // the model's hypot is sqrt(a*a+b*b): keep a*a inside the normal range of the width (libm's hypot rescales)
            let step = if w32 { -2 } else { -4 };
            ("graded", (0..m).map(|_| (0..n).map(|j| rng.normal() * 10f64.powi(step * j.min(8) as i32)).collect()).collect())
        }
        7 => {
            let s = if w32 { 1e-12 } else { *rng.pick(&[1e-12, 1e12, 1e-18]) };
            ("scaled", (0..m).map(|_| (0..n).map(|_| rng.normal() * s).collect()).collect())
        }
        _ => ("random", (0..m).map(|_| (0..n).map(|_| rng.normal()).collect()).collect()),
    };
    (name.to_string(), to_width(&a, w32))
}
fn corr_spd(rng: &mut Rng, n: usize, w32: bool, fam: usize) -> (String, Rows) {
    let fam = fam % 6;
    let (name, mut a): (&str, Rows) = match fam {
        0 => {
            let b: Rows = (0..n + 1).map(|_| (0..n).map(|_| rng.int(-3, 3) as f64).collect()).collect();
            let mut g = matmul(&transpose(&b), &b);
            for i in 0..n {
                g[i][i] += 1.0;
            }
            ("gram_int", g)
        }
        1 => {
            let b: Rows = (0..n + 1).map(|_| (0..n).map(|_| rng.normal()).collect()).collect();
            ("gram", matmul(&transpose(&b), &b))
        }
        2 => {
            // indefinite / semidefinite integer symmetric: exercises the rejection paths
            ("sym_int", (0..n).map(|_| (0..n).map(|_| rng.int(-3, 3) as f64).collect()).collect())
        }
        3 => {
            // singular Gram matrix (rank n-1): zero or tiny pivots
            let b: Rows = (0..n.saturating_sub(1).max(1)).map(|_| (0..n).map(|_| rng.int(-2, 2) as f64).collect()).collect();
            ("gram_singular", matmul(&transpose(&b), &b))
        }
        4 => {
            // an exactly zero pivot before the end: the next row divides 0 by 0 (NaN pivot, D3)
            let mut a: Rows = (0..n).map(|i| (0..n).map(|j| if i == j { rng.int(1, 4) as f64 } else { 0.0 }).collect()).collect();
            let z = rng.below(n.max(2) - 1).min(n - 1);
            a[z][z] = 0.0;
            if n >= 2 && rng.bool() {
                let t = rng.usize_in(z + 1, n - 1).min(n - 1);
                a[t][t] = -(rng.int(1, 3) as f64);
            }
            ("zero_pivot", a)
        }
        _ => {
            let s = *rng.pick(&[1e-12, 1e12, 1.0]);
            let b: Rows = (0..n + 2).map(|_| (0..n).map(|_| rng.normal()).collect()).collect();
            ("gram_scaled", scale_rows(&matmul(&transpose(&b), &b), s))
        }
    };
    a = to_width(&a, w32);
    for i in 0..n {
        for j in 0..i {
            a[j][i] = a[i][j];
        }
    }
    (name.to_string(), a)
}
fn opt_rows(x: Option<&Rows>) -> String {
    coq_option(x.map(|r| coq_rows(r)))
}

fn correspondence(out: &mut Out, rng: &mut Rng, thorough: bool) {
    let maxn = if thorough { 12 } else { 8 };
    let reps = if thorough { 60 } else { 24 };
    for rep in 0..reps {
        let w32 = rep % 3 == 2;
        let w = coq_bool(w32);
        let dim = |rng: &mut Rng| if rng.chance(0.5) { rng.usize_in(1, 4) } else { rng.usize_in(1, maxn) };
        // ---- LU factors / inverse / solve (exact) ----
        {
            let n = dim(rng);
            let (fam, mut a) = corr_matrix(rng, n, n, w32, rep);
            if rng.chance(0.15) && n >= 2 {
                // exactly singular: duplicate a row
                let (i, j) = (0, n - 1);
                a[j] = a[i].clone();
            }
            match lu_run(&a, w32) {
                Ok(o) => {
                    out.corr("lu", format!("corr_lu {} {} {} {} {} {}", w, coq_n(n), coq_rows(&a), coq_rows(&o.l), coq_rows(&o.u), coq_rows(&o.p)),
                             json!({"a": a, "f32": w32, "family": fam}));
                    out.corr("lu_inverse", format!("corr_lu_inverse {} {} {} {}", w, coq_n(n), coq_rows(&a), opt_rows(o.inv.as_ref())),
                             json!({"a": a, "f32": w32, "family": fam}));
                }
                Err(e) => out.fail("lu_panic", &e, json!({"entry": "lu", "a": a, "f32": w32})),
            }
            let bn = rng.usize_in(1, 4);
            let b = to_width(&(0..n).map(|_| (0..bn).map(|_| rng.dyadic(4, 3)).collect()).collect(), w32);
            let x = lu_solve_run(&a, &b, w32).ok();
            out.corr("lu_solve", format!("corr_lu_solve {} {} {} {} {} {}", w, coq_n(n), coq_n(bn), coq_rows(&a), coq_rows(&b), opt_rows(x.as_ref())),
                     json!({"a": a, "b": b, "f32": w32, "family": fam}));
        }
        // ---- Cholesky (exact), including rejection and the non-square error ----
        {
            let n = dim(rng);
            let (fam, a) = corr_spd(rng, n, w32, rep);
            let (m, a) = if rng.chance(0.08) { (n + 1, { let mut x = a.clone(); x.push(vec![1.0; n]); x }) } else { (n, a) };
            match chol_run(&a, w32) {
                Ok(r) => {
                    let (code, l, u) = match &r {
                        Ok((l, u)) => (0usize, l.clone(), u.clone()),
                        Err(c) => (*c as usize, vec![], vec![]),
                    };
                    out.corr("cholesky", format!("corr_chol {} {} {} {} {} {} {}", w, coq_n(m), coq_n(n), coq_rows(&a), coq_n(code), coq_rows(&l), coq_rows(&u)),
                             json!({"a": a, "f32": w32, "family": fam, "code": code}));
                    out.count(&format!("corr:cholesky:code={}", code));
                }
                Err(e) => out.fail("chol_panic", &e, json!({"entry": "chol", "a": a, "f32": w32})),
            }
            if m == n {
                let bn = rng.usize_in(1, 3);
                let bm = if rng.chance(0.1) { n + 1 } else { n };
                let b = to_width(&(0..bm).map(|_| (0..bn).map(|_| rng.dyadic(4, 3)).collect()).collect(), w32);
                if let Ok(r) = chol_solve_run(&a, &b, w32) {
                    let x = r.ok();
                    out.corr("cholesky_solve", format!("corr_chol_solve {} {} {} {} {} {} {}", w, coq_n(n), coq_n(bm), coq_n(bn), coq_rows(&a), coq_rows(&b), opt_rows(x.as_ref())),
                             json!({"a": a, "b": b, "f32": w32, "family": fam}));
                }
            }
        }
        // ---- QR (tolerance: hypot) ----
        {
            // graded / tiny-scale columns need a few columns to get below the old absolute thresholds (D1)
            let n = if rep % 10 == 6 { rng.usize_in(6, maxn) } else { dim(rng) };
            let m = if rng.bool() { n } else { rng.usize_in(n, maxn.max(n)) };
            let (fam, a) = corr_matrix(rng, m, n, w32, rep);
            let sc = max_abs(&a).max(1e-300) * (m as f64).sqrt();
            let tol = if w32 { 2e-5 } else { 1e-9 };
            let qr_res = qr_run(&a, w32);
            if let Err(e) = &qr_res {
                out.fail("qr_panic", e, json!({"entry": "qr", "a": a, "f32": w32}));
            }
            if let Ok((q, r)) = qr_res {
                out.corr("qr", format!("corr_qr {} {} {} {} {} {} {} {}", w, coq_n(m), coq_n(n), coq_rows(&a), coq_f64(tol), coq_f64(sc), coq_rows(&q), coq_rows(&r)),
                         json!({"a": a, "f32": w32, "family": fam}));
            }
            let bn = rng.usize_in(1, 3);
            let b = to_width(&(0..m).map(|_| (0..bn).map(|_| rng.dyadic(4, 3) * max_abs(&a).max(1e-300)).collect()).collect(), w32);
            // the solve's sensitivity to the last bits of hypot grows with the condition number: keep it moderate
            if cond_estimate(&a) <= 1e3 || !cond_estimate(&a).is_finite() {
                let x = qr_solve_run(&a, &b, w32).ok();
                let xs = x.as_ref().map(|x| max_abs(x)).unwrap_or(1.0).max(1e-300);
                let tol = if w32 { 1e-2 } else { 1e-7 };
                out.corr("qr_solve", format!("corr_qr_solve {} {} {} {} {} {} {} {} {}", w, coq_n(m), coq_n(n), coq_n(bn), coq_rows(&a), coq_rows(&b), coq_f64(tol), coq_f64(xs), opt_rows(x.as_ref())),
                         json!({"a": a, "b": b, "f32": w32, "family": fam}));
            }
        }
        // ---- SVD of an exactly rank-1 f32 matrix with >= 7 null directions: the singular values decay into the
        //      subnormal range and the `|g| >= min_positive` guards decide (only s and the leading column are determined)
        if rep % 8 == 1 {
            let n = rng.usize_in(8, 9);
            let m = rng.usize_in(n, 10);
            let nz = |rng: &mut Rng| { let v = rng.int(1, 3) as f64; if rng.bool() { v } else { -v } };
            let u: Vec<f64> = (0..m).map(|_| nz(rng)).collect();
            let vv: Vec<f64> = (0..n).map(|_| nz(rng)).collect();
            let a: Rows = (0..m).map(|i| (0..n).map(|j| u[i] * vv[j]).collect()).collect();
            if let Ok(o) = svd_run(&a, true) {
                let reached = o.s.iter().any(|x| *x > 0.0 && *x < 1.2e-38);
                out.count(if reached { "corr:svd_rank1:subnormal_reached" } else { "corr:svd_rank1:subnormal_not_reached" });
                out.corr("svd_rank1", format!("corr_svd true {} {} {} {} {} {} {} {} {}", coq_n(m), coq_n(n), coq_n(1), coq_rows(&a), coq_f64(2e-3), coq_f64(o.s[0]),
                                              coq_rows(&o.u), coq_list_f64(&o.s), coq_rows(&o.v)),
                         json!({"a": a, "f32": true}));
            }
        }
        // ---- SVD: whole routine (tolerance), solve and tail on the implementation's own factors (exact) ----
        {
            let n = if rng.chance(0.5) { rng.usize_in(1, 4) } else { rng.usize_in(1, maxn.min(7)) };
            let m = match (rep / 3) % 3 { 0 => n, 1 => rng.usize_in(n, maxn.min(8).max(n)), _ => rng.usize_in(1, n) };
            // continuous / lattice data only: columns belonging to (near-)equal singular values are not determined
            let a: Rows = to_width(&(0..m).map(|_| (0..n).map(|_| if rng.bool() { rng.normal() } else { rng.dyadic(4, 4) }).collect()).collect(), w32);
            let a = if rng.chance(0.25) { to_width(&scale_rows(&a, *rng.pick(&[1e-12, 1e12])), w32) } else { a };
            // every fourth case: exactly rank-deficient integer product (m >= n), so that SVD::solve's rank threshold
            // decides; the null-space columns are not determined, so only the tail and the solve are compared
            let rankdef = rep % 4 == 3 && m >= n && n >= 2;
            let a = if rankdef {
                let r = rng.usize_in(1, n - 1);
                let bi: Rows = (0..m).map(|_| (0..r).map(|_| rng.int(-3, 3) as f64).collect()).collect();
                let ci: Rows = (0..r).map(|_| (0..n).map(|_| rng.int(-3, 3) as f64).collect()).collect();
                matmul(&bi, &ci)
            } else { a };
            let svd_res = svd_run(&a, w32);
            if svd_res.is_err() {
                // a panic of the implementation must be the model's "no convergence in 30 iterations"
                out.corr("svd", format!("corr_svd_none {} {} {} {}", w, coq_n(m), coq_n(n), coq_rows(&a)), json!({"a": a, "f32": w32, "impl": "panic"}));
            }
            if let Ok(o) = svd_res {
                let k = m.min(n);
                let gap_ok = k >= 1 && o.s[0] > 0.0 && (0..k).all(|i| {
                    let next = if i + 1 < n { o.s[i + 1] } else { 0.0 };
                    (o.s[i] - next) > 1e-3 * o.s[0]
                });
                let small_entry = o.u.iter().flatten().chain(o.v.iter().flatten()).any(|x| x.abs() < 1e-6 && *x != 0.0);
                if rankdef {
                    out.count("corr:svd_solve:rank_deficient_input");
                } else if gap_ok && !small_entry {
                    let tol = if w32 { 2e-3 } else { 1e-8 };
                    out.corr("svd", format!("corr_svd {} {} {} {} {} {} {} {} {} {}", w, coq_n(m), coq_n(n), coq_n(k), coq_rows(&a), coq_f64(tol), coq_f64(o.s[0]),
                                            coq_rows(&o.u), coq_list_f64(&o.s), coq_rows(&o.v)),
                             json!({"a": a, "f32": w32}));
                } else {
                    out.count("corr:svd:excluded_near_tie");
                }
                out.corr("svd_post", format!("corr_svd_post {} {} {} {} {} {}", w, coq_n(m), coq_n(n), coq_rows(&o.u), coq_list_f64(&o.s), coq_rows(&o.v)),
                         json!({"a": a, "f32": w32}));
                if m >= n {
                    let p = rng.usize_in(1, 3);
                    let b = to_width(&(0..m).map(|_| (0..p).map(|_| rng.dyadic(4, 3) * max_abs(&a).max(1e-300)).collect()).collect(), w32);
                    if let Ok(x) = svd_solve_run(&a, &b, w32, rng.bool()) {
                        out.corr("svd_solve", format!("corr_svd_solve {} {} {} {} {} {} {} {} {}", w, coq_n(m), coq_n(n), coq_n(p), coq_rows(&o.u), coq_list_f64(&o.s), coq_rows(&o.v), coq_rows(&b), coq_rows(&x)),
                                 json!({"a": a, "b": b, "f32": w32}));
                    }
                }
            }
        }
    }
}

fn main() {
    quiet_panics();
    let a = args();
    let mut rt = Ratios::new();
    if let Some(path) = &a.replay {
        let v = read_replay(path);
        let input = if v.get("input").is_some() { v["input"].clone() } else { v.clone() };
        let viol = eval_entry(&input, &mut rt);
        if std::env::var("C01_DEBUG").is_ok() {
            let w32 = input["f32"].as_bool().unwrap_or(false);
            let am = rows_from_json(&input["a"]);
            if let Ok(o) = svd_run(&am, w32) {
                println!("debug: s = {:?}", o.s);
                println!("debug: U = {:?}", o.u);
                println!("debug: V = {:?}", o.v);
            }
        }
        let viol: Viol = viol.into_iter().filter(|(c, w)| {
            if c.starts_with("known:") { println!("replay: {} — {}", c, w); false } else { true }
        }).collect();
        if viol.is_empty() {
            println!("replay: property holds on this input");
            std::process::exit(0);
        }
        for (c, w) in &viol {
            println!("replay: {} — {}", c, w);
        }
        std::process::exit(1);
    }
    let mut out = Out::new("C01", "non-trivial = dimension >= 2 (factorisation is not a scalar identity)");
    let mut rng = Rng::new(a.seed);
    regression_corpus(&mut out, &mut rt);
    let mut crng = rng.fork();
    correspondence(&mut out, &mut crng, a.thorough);
    let mut srng = rng.fork();
    search(&mut out, &mut rt, &mut srng, a.thorough);
    out.set("worst_error_over_tolerance", json!(rt.worst));
    out.set("tolerances", json!({"reconstruct": "8*(m+n)*eps*|A|_F", "orthonormal": "8*(m+n)*eps", "solve": "8*(m+n)*eps*(|A|_F|X|_F+|B|_F)", "normal_equations": "8*(m+n)*eps*|A|_F*(|A|_F|X|_F+|B|_F)"}));
    out.finish(&a.out);
}
