//! C08 — Lasso and elastic net: correspondence cases for the Coq model (SC.C08.Corr: the
//! optimiser's recorded iterations re-derived and checked by the model, fit-level validation /
//! standardisation / augmentation / back-transformation, certificate on the final coefficients)
//! and the failing-input search (oracle written from the property text: the objective of the
//! returned coefficients against a dual lower bound of the optimum that is built from an
//! independent coordinate-descent solution; weak duality makes the bound valid whatever the
//! quality of that solution).
use serde_json::{json, Value};
use smartcore::linalg::naive::dense_matrix::DenseMatrix;
use smartcore::linalg::BaseMatrix;
use smartcore::linear::elastic_net::{ElasticNet, ElasticNetParameters};
use smartcore::linear::lasso::{Lasso, LassoParameters};
use smartcore::linear::lasso_optimizer::{VerifLassoIter, VerifLassoRun, VERIF_LASSO_RUNS};
use vharness::*;

// ------------------------------------------------------------------------------------------
// cases
// ------------------------------------------------------------------------------------------
#[derive(Clone, Debug)]
struct Case {
    enet: bool,
    x: Vec<Vec<f64>>,
    y: Vec<f64>,
    alpha: f64,
    l1_ratio: f64,
    normalize: bool,
    tol: f64,
    max_iter: usize,
    /// constant added to every target for the shift clause (0 = none)
    shift: f64,
}

fn case_json(c: &Case, entry: &str) -> Value {
    json!({"entry": entry, "enet": c.enet, "x": c.x, "y": c.y, "alpha": c.alpha, "l1_ratio": c.l1_ratio,
           "normalize": c.normalize, "tol": c.tol, "max_iter": c.max_iter, "shift": c.shift})
}
fn case_from_json(v: &Value) -> Case {
    Case {
        enet: v["enet"].as_bool().unwrap_or(false),
        x: rows_from_json(&v["x"]),
        y: f64s_from_json(&v["y"]),
        alpha: v["alpha"].as_f64().unwrap_or(f64::NAN),
        l1_ratio: v["l1_ratio"].as_f64().unwrap_or(1.0),
        normalize: v["normalize"].as_bool().unwrap_or(false),
        tol: v["tol"].as_f64().unwrap_or(f64::NAN),
        max_iter: v["max_iter"].as_u64().unwrap_or(1000) as usize,
        shift: v["shift"].as_f64().unwrap_or(0.0),
    }
}
fn case_key(c: &Case) -> u64 {
    let mut d: Vec<f64> = c.x.iter().flatten().cloned().collect();
    d.extend(c.y.iter());
    d.extend([c.alpha, c.l1_ratio, c.tol, c.shift, c.max_iter as f64, c.enet as u8 as f64, c.normalize as u8 as f64]);
    hash_f64s(&d)
}

#[derive(Clone, Debug)]
struct FitOut {
    coef: Vec<f64>,
    intercept: f64,
    pred: Vec<f64>,
}
#[derive(Clone, Debug)]
enum Outcome {
    Timeout,
    Panic(String),
    Err(String, Vec<VerifLassoRun>),
    Ok(FitOut, Vec<VerifLassoRun>),
}

const WATCHDOG_SECS: u64 = 20;

/// fits that hit the watchdog so far: after 3 the watchdog shrinks to 3 s, after 8 the remaining search is skipped
/// (the verdict is a violation already; a change that makes many fits loop must not make the check run for hours)
/// fits whose near-optimality was certified by a dual lower bound / neither certified nor refuted by a witness
static CERTIFIED: std::sync::atomic::AtomicUsize = std::sync::atomic::AtomicUsize::new(0);
static INCONCLUSIVE: std::sync::atomic::AtomicUsize = std::sync::atomic::AtomicUsize::new(0);
static TIMEOUTS: std::sync::atomic::AtomicUsize = std::sync::atomic::AtomicUsize::new(0);
fn timeouts() -> usize {
    TIMEOUTS.load(std::sync::atomic::Ordering::SeqCst)
}
const MAX_TIMEOUTS: usize = 8;

fn run_fit(c: &Case, y: &[f64]) -> Outcome {
    let r = run_fit_secs(c, y, if timeouts() >= 3 { 3 } else { WATCHDOG_SECS });
    if let Outcome::Timeout = r {
        TIMEOUTS.fetch_add(1, std::sync::atomic::Ordering::SeqCst);
    }
    r
}
fn run_fit_secs(c: &Case, y: &[f64], secs: u64) -> Outcome {
    let c = c.clone();
    let y = y.to_vec();
    let r = with_watchdog(secs, move || {
        VERIF_LASSO_RUNS.with(|r| r.borrow_mut().clear());
        let x = if c.x.is_empty() { DenseMatrix::from_2d_vec(&vec![vec![]]) } else { dense(&c.x) };
        let res: Result<FitOut, String> = if c.enet {
            // every other case (decided by the case itself) goes through the public builder methods
            let p = if (c.max_iter + c.x.len() + c.normalize as usize) % 2 == 0 {
                ElasticNetParameters::default().with_alpha(c.alpha).with_l1_ratio(c.l1_ratio).with_normalize(c.normalize).with_tol(c.tol).with_max_iter(c.max_iter)
            } else {
                ElasticNetParameters { alpha: c.alpha, l1_ratio: c.l1_ratio, normalize: c.normalize, tol: c.tol, max_iter: c.max_iter }
            };
            ElasticNet::fit(&x, &y, p).map_err(|e| format!("{}", e)).and_then(|m| {
                let pred = m.predict(&x).map_err(|e| format!("{}", e))?;
                let co = m.coefficients();
                Ok(FitOut { coef: (0..co.shape().0).map(|i| co.get(i, 0)).collect(), intercept: m.intercept(), pred })
            })
        } else {
            let p = if (c.max_iter + c.x.len() + c.normalize as usize) % 2 == 0 {
                LassoParameters::default().with_alpha(c.alpha).with_normalize(c.normalize).with_tol(c.tol).with_max_iter(c.max_iter)
            } else {
                LassoParameters { alpha: c.alpha, normalize: c.normalize, tol: c.tol, max_iter: c.max_iter }
            };
            Lasso::fit(&x, &y, p).map_err(|e| format!("{}", e)).and_then(|m| {
                let pred = m.predict(&x).map_err(|e| format!("{}", e))?;
                let co = m.coefficients();
                Ok(FitOut { coef: (0..co.shape().0).map(|i| co.get(i, 0)).collect(), intercept: m.intercept(), pred })
            })
        };
        let runs = VERIF_LASSO_RUNS.with(|r| r.borrow_mut().drain(..).collect::<Vec<_>>());
        (res, runs)
    });
    match r {
        None => Outcome::Timeout,
        Some(Err(msg)) => Outcome::Panic(msg),
        Some(Ok((Err(e), runs))) => Outcome::Err(e, runs),
        Some(Ok((Ok(f), runs))) => Outcome::Ok(f, runs),
    }
}

// ------------------------------------------------------------------------------------------
// the property's definitions, written independently of the implementation and of the model
// ------------------------------------------------------------------------------------------
fn mean(v: &[f64]) -> f64 {
    v.iter().sum::<f64>() / v.len() as f64
}
/// columns of the design the objective is stated in: standardised (two-pass population std) or raw
struct Design {
    z: Vec<Vec<f64>>, // n rows
    means: Vec<f64>,
    stds: Vec<f64>,
}
fn design(x: &[Vec<f64>], normalize: bool) -> Design {
    let n = x.len();
    let p = x[0].len();
    let mut means = vec![0.0; p];
    let mut stds = vec![1.0; p];
    if normalize {
        for j in 0..p {
            let m = (0..n).map(|i| x[i][j]).sum::<f64>() / n as f64;
            let v = (0..n).map(|i| (x[i][j] - m) * (x[i][j] - m)).sum::<f64>() / n as f64;
            means[j] = m;
            stds[j] = v.sqrt();
        }
    }
    let z = (0..n).map(|i| (0..p).map(|j| if normalize { (x[i][j] - means[j]) / stds[j] } else { x[i][j] }).collect()).collect();
    Design { z, means, stds }
}
fn matvec(z: &[Vec<f64>], w: &[f64]) -> Vec<f64> {
    z.iter().map(|r| r.iter().zip(w).map(|(a, b)| a * b).sum()).collect()
}
fn tmatvec(z: &[Vec<f64>], v: &[f64], p: usize) -> Vec<f64> {
    (0..p).map(|j| z.iter().zip(v).map(|(r, vi)| r[j] * vi).sum()).collect()
}
/// ||yc - Z w||^2 + l2 ||w||^2 + l1 |w|_1
fn objective(z: &[Vec<f64>], yc: &[f64], l1: f64, l2: f64, w: &[f64]) -> f64 {
    let r = matvec(z, w);
    let rss: f64 = r.iter().zip(yc).map(|(a, b)| (b - a) * (b - a)).sum();
    rss + l2 * w.iter().map(|v| v * v).sum::<f64>() + l1 * w.iter().map(|v| v.abs()).sum::<f64>()
}
/// cyclic coordinate descent on the objective above (independent reference solution)
fn coordinate_descent(z: &[Vec<f64>], yc: &[f64], l1: f64, l2: f64) -> Vec<f64> {
    let n = z.len();
    let p = z[0].len();
    let mut w = vec![0.0; p];
    let mut r: Vec<f64> = yc.to_vec(); // yc - Z w
    let cn: Vec<f64> = (0..p).map(|j| (0..n).map(|i| z[i][j] * z[i][j]).sum::<f64>()).collect();
    for _sweep in 0..200000 {
        let mut delta: f64 = 0.0;
        for j in 0..p {
            if cn[j] + l2 == 0.0 {
                continue;
            }
            let rho: f64 = (0..n).map(|i| z[i][j] * r[i]).sum::<f64>() + cn[j] * w[j];
            let new = if rho > l1 / 2.0 {
                (rho - l1 / 2.0) / (cn[j] + l2)
            } else if rho < -l1 / 2.0 {
                (rho + l1 / 2.0) / (cn[j] + l2)
            } else {
                0.0
            };
            let d = new - w[j];
            if d != 0.0 {
                for i in 0..n {
                    r[i] -= z[i][j] * d;
                }
                w[j] = new;
                delta = delta.max(d.abs() * cn[j].sqrt());
            }
        }
        let scale = yc.iter().map(|v| v * v).sum::<f64>().sqrt();
        if delta <= 1e-15 * scale {
            break;
        }
    }
    w
}
/// Lower bound of min_w objective: the dual value -|nu|^2/4 - nu.y~ at a feasible point built from `wd`
/// (elastic net through the augmented rows sqrt(l2)*I with zero targets). Valid for ANY wd.
fn dual_lower_bound(z: &[Vec<f64>], yc: &[f64], l1: f64, l2: f64, wd: &[f64]) -> f64 {
    let p = wd.len();
    let zw = matvec(z, wd);
    let mut nu: Vec<f64> = zw.iter().zip(yc).map(|(a, b)| 2.0 * (a - b)).collect();
    let s2 = l2.sqrt();
    let nu_pad: Vec<f64> = wd.iter().map(|w| 2.0 * s2 * w).collect();
    let mut g = tmatvec(z, &nu, p);
    for j in 0..p {
        g[j] += s2 * nu_pad[j];
    }
    let mx = g.iter().fold(0.0f64, |a, b| a.max(b.abs()));
    let mut c = 1.0;
    if mx > l1 {
        c = l1 / mx;
    }
    for v in nu.iter_mut() {
        *v *= c;
    }
    let nn: f64 = nu.iter().map(|v| v * v).sum::<f64>() + nu_pad.iter().map(|v| c * v * c * v).sum::<f64>();
    let ny: f64 = nu.iter().zip(yc).map(|(a, b)| a * b).sum();
    -nn / 4.0 - ny
}

struct Reference {
    d: Design,
    yc: Vec<f64>,
    ymean: f64,
    l1: f64,
    l2: f64,
    w_cd: Vec<f64>,
    lower: f64,
    upper: f64,
    alpha_max: f64,
}
fn reference(c: &Case, y: &[f64]) -> Reference {
    let n = c.x.len() as f64;
    let d = design(&c.x, c.normalize);
    let ymean = mean(y);
    let yc: Vec<f64> = y.iter().map(|v| v - ymean).collect();
    let (l1, l2) = if c.enet { (n * c.alpha * c.l1_ratio, n * c.alpha * (1.0 - c.l1_ratio)) } else { (n * c.alpha, 0.0) };
    let w_cd = coordinate_descent(&d.z, &yc, l1, l2);
    let lower = dual_lower_bound(&d.z, &yc, l1, l2, &w_cd);
    let upper = objective(&d.z, &yc, l1, l2, &w_cd);
    let p = c.x[0].len();
    let g = tmatvec(&d.z, &yc, p);
    let ratio = if c.enet { c.l1_ratio } else { 1.0 };
    let alpha_max = 2.0 * g.iter().fold(0.0f64, |a, b| a.max(b.abs())) / (n * ratio);
    Reference { d, yc, ymean, l1, l2, w_cd, lower, upper, alpha_max }
}

/// multiple of tol allowed by the oracle ("a small multiple of tol")
const C_TOL: f64 = 2.0;

struct Fail {
    oracle: &'static str,
    what: String,
}

/// near-optimality + back-transformation of one fit against the reference
fn check_fit(c: &Case, y: &[f64], f: &FitOut, rf: &Reference, fails: &mut Vec<Fail>) -> (f64, Vec<f64>) {
    let n = c.x.len();
    let p = c.x[0].len();
    let who = if c.enet { "elastic net" } else { "lasso" };
    if f.coef.len() != p || f.pred.len() != n || f.coef.iter().any(|v| !v.is_finite()) || !f.intercept.is_finite() {
        fails.push(Fail { oracle: "finite_output", what: format!("{}: coefficients/intercept not finite or of wrong length: {:?} {}", who, f.coef, f.intercept) });
        return (f64::NAN, vec![]);
    }
    // objective-space coefficients
    let w: Vec<f64> = (0..p).map(|j| f.coef[j] * rf.d.stds[j]).collect();
    let yscale = rf.yc.iter().map(|v| v * v).sum::<f64>();
    let obj = objective(&rf.d.z, &rf.yc, rf.l1, rf.l2, &w);
    let slack = 1e-9 * yscale + 1e-300;
    // FAIL only on a witness: the independent solver's point w_ref is a real point of the domain, so
    // obj > (1 + C_TOL*tol) * objective(w_ref) >= (1 + C_TOL*tol) * optimum is a violation whatever the quality of w_ref.
    // PASS evidence: obj <= (1 + C_TOL*tol) * (certified dual lower bound), the bound built from w_ref and from the
    // returned w itself (valid for any seed by weak duality). Neither (reference not converged on a badly conditioned
    // design and the returned w certified only by an earlier iterate's dual point) is counted as inconclusive.
    let lower = rf.lower.max(dual_lower_bound(&rf.d.z, &rf.yc, rf.l1, rf.l2, &w));
    if !(obj <= rf.upper * (1.0 + C_TOL * c.tol) + slack) {
        fails.push(Fail {
            oracle: "near_optimal",
            what: format!(
                "{}: objective {:e} of the returned coefficients exceeds the objective {:e} reached by an independent solver by {:e} relative (allowed {:e}); certified lower bound of the optimum {:e}",
                who, obj, rf.upper, (obj - rf.upper) / rf.upper.abs().max(1e-300), C_TOL * c.tol, lower
            ),
        });
    } else if obj <= lower * (1.0 + C_TOL * c.tol) + slack {
        CERTIFIED.fetch_add(1, std::sync::atomic::Ordering::SeqCst);
    } else {
        INCONCLUSIVE.fetch_add(1, std::sync::atomic::Ordering::SeqCst);
    }
    // a constant target: the optimum is w = 0 with intercept mean(y)
    if rf.yc.iter().all(|v| *v == 0.0) {
        if f.coef.iter().any(|v| v.abs() > 1e-12) || (f.intercept - rf.ymean).abs() > 1e-12 * (1.0 + rf.ymean.abs()) {
            fails.push(Fail { oracle: "constant_target", what: format!("{}: constant target {:e} but coefficients {:?}, intercept {:e}", who, rf.ymean, f.coef, f.intercept) });
        }
    }
    // predict(X) = ymean + Z w  and  = X coef + intercept
    let zw = matvec(&rf.d.z, &w);
    let pscale = 1.0 + y.iter().fold(0.0f64, |a, b| a.max(b.abs())) + zw.iter().fold(0.0f64, |a, b| a.max(b.abs()));
    for i in 0..n {
        let direct: f64 = c.x[i].iter().zip(&f.coef).map(|(a, b)| a * b).sum::<f64>() + f.intercept;
        let xs = c.x[i].iter().zip(&f.coef).map(|(a, b)| (a * b).abs()).sum::<f64>();
        let tol_i = 1e-9 * (pscale + xs);
        if (f.pred[i] - direct).abs() > tol_i {
            fails.push(Fail { oracle: "back_transform", what: format!("{}: predict(X)[{}] = {:e} but X*coefficients + intercept = {:e}", who, i, f.pred[i], direct) });
            break;
        }
        if (f.pred[i] - (rf.ymean + zw[i])).abs() > tol_i {
            fails.push(Fail { oracle: "back_transform", what: format!("{}: predict(X)[{}] = {:e} but mean(y) + Z*w = {:e} for the objective-space coefficients w", who, i, f.pred[i], rf.ymean + zw[i]) });
            break;
        }
    }
    (obj, w)
}

/// evaluate every clause of the property on one case; `runs_out` receives the optimiser records of the base fit
fn evaluate(c: &Case) -> (Vec<Fail>, Option<(Outcome, Reference)>) {
    let mut fails = vec![];
    let who = if c.enet { "elastic net" } else { "lasso" };
    let rf = reference(c, &c.y);
    let base = run_fit(c, &c.y);
    let mut base_w: Option<(FitOut, Vec<f64>)> = None;
    match &base {
        Outcome::Timeout => fails.push(Fail { oracle: "termination", what: format!("{}: fit did not return within {} s", who, WATCHDOG_SECS) }),
        Outcome::Panic(m) => fails.push(Fail { oracle: "no_panic", what: format!("{}: fit panicked: {}", who, m) }),
        Outcome::Err(e, _) => fails.push(Fail { oracle: "valid_input_fits", what: format!("{}: fit returned Err on a valid input: {}", who, e) }),
        Outcome::Ok(f, runs) => {
            let (_, w) = check_fit(c, &c.y, f, &rf, &mut fails);
            base_w = Some((f.clone(), w));
            // the loop's actual exit against the stated stopping rule gap/dobj < tol || gap <= 0 as the trace hook
            // evaluates it at every iteration: left before the budget <=> the rule held at the last recorded iteration
            if let Some(r) = runs.first() {
                let last_stopped = r.iters.last().map(|it| it.stopped).unwrap_or(false);
                let early = r.iters.len() < r.max_iter || r.exit == "gap";
                if (r.exit == "gap") != last_stopped || (r.exit == "max_iter" && r.iters.len() != r.max_iter) || (early && !last_stopped) {
                    let gd = r.iters.last().map(|it| it.gap / it.dobj).unwrap_or(f64::NAN);
                    fails.push(Fail {
                        oracle: "exit_rule",
                        what: format!("{}: optimize left its loop after {} of {} iterations (recorded exit '{}') although gap/dobj = {:e} at the last iteration does not satisfy the stopping rule with tol = {:e} (or the rule held and the loop went on)", who, r.iters.len(), r.max_iter, r.exit, gd, r.tol),
                    });
                }
            }
        }
    }
    // shifted targets: same coefficients (both fits certified against the SAME centred objective), intercept + shift
    if c.shift != 0.0 {
        let ys: Vec<f64> = c.y.iter().map(|v| v + c.shift).collect();
        let mut rf2 = reference(c, &ys);
        // the centred target is mathematically unchanged: certify against the unshifted reference objective,
        // allowing for the rounding of the centring itself (relative 1e-16 * |shift| / spread)
        let spread = rf.yc.iter().map(|v| v * v).sum::<f64>().sqrt().max(1e-300);
        let cancel = 1e-15 * c.shift.abs() / spread * (c.y.len() as f64).sqrt();
        match run_fit(c, &ys) {
            Outcome::Timeout => fails.push(Fail { oracle: "termination", what: format!("{}: fit on shifted targets did not return", who) }),
            Outcome::Panic(m) => fails.push(Fail { oracle: "no_panic", what: format!("{}: fit on shifted targets panicked: {}", who, m) }),
            Outcome::Err(e, _) => fails.push(Fail { oracle: "valid_input_fits", what: format!("{}: fit on shifted targets returned Err: {}", who, e) }),
            Outcome::Ok(f2, _) => {
                let mut sub = vec![];
                rf2.d = design(&c.x, c.normalize);
                let (_, w2) = check_fit(c, &ys, &f2, &rf2, &mut sub);
                for s in sub {
                    fails.push(Fail { oracle: s.oracle, what: format!("(targets shifted by {:e}) {}", c.shift, s.what) });
                }
                if let Some((f1, w1)) = &base_w {
                    if !w2.is_empty() && !w1.is_empty() {
                        // strong convexity: ||Z(w - w*)||^2 <= f(w) - f*, so two certified fits of the same objective satisfy
                        // ||Z(w1 - w2)|| <= 2 sqrt(C_TOL tol f*) (+ rounding of the centring)
                        let dz = matvec(&rf.d.z, &w1.iter().zip(&w2).map(|(a, b)| a - b).collect::<Vec<f64>>());
                        let dn = dz.iter().map(|v| v * v).sum::<f64>().sqrt();
                        let bound = 2.0 * (C_TOL * c.tol * rf.upper.abs()).sqrt() + (1e-6 + 10.0 * cancel) * spread;
                        if !(dn <= bound) {
                            fails.push(Fail {
                                oracle: "shift_invariance",
                                what: format!("{}: adding {:e} to every target changed the fitted values by {:e} (norm; allowed {:e}): coefficients {:?} -> {:?}", who, c.shift, dn, bound, f1.coef, f2.coef),
                            });
                        }
                        // intercept: b + coef.colmean is mean(y); it must move by exactly the shift
                        let m1: f64 = f1.intercept + f1.coef.iter().zip(&rf.d.means).map(|(a, b)| a * b).sum::<f64>();
                        let m2: f64 = f2.intercept + f2.coef.iter().zip(&rf.d.means).map(|(a, b)| a * b).sum::<f64>();
                        let sc = 1.0 + c.shift.abs() + rf.ymean.abs() + f1.coef.iter().zip(&rf.d.means).map(|(a, b)| (a * b).abs()).sum::<f64>();
                        if ((m2 - m1) - c.shift).abs() > 1e-9 * sc {
                            fails.push(Fail {
                                oracle: "shift_invariance",
                                what: format!("{}: adding {:e} to every target moved the intercept (at the column means) by {:e}", who, c.shift, m2 - m1),
                            });
                        }
                    }
                }
            }
        }
    }
    // l1_ratio = 1 reproduces Lasso: the elastic-net result must be near-optimal for the LASSO objective
    // (already checked above since l2 = 0) and the two fits must agree within the strong-convexity bound
    if c.enet && c.l1_ratio == 1.0 {
        let mut cl = c.clone();
        cl.enet = false;
        if let (Some((f1, w1)), Outcome::Ok(fl, _)) = (&base_w, run_fit(&cl, &c.y)) {
            let wl: Vec<f64> = (0..w1.len()).map(|j| fl.coef[j] * rf.d.stds[j]).collect();
            let dz = matvec(&rf.d.z, &w1.iter().zip(&wl).map(|(a, b)| a - b).collect::<Vec<f64>>());
            let dn = dz.iter().map(|v| v * v).sum::<f64>().sqrt();
            let spread = rf.yc.iter().map(|v| v * v).sum::<f64>().sqrt();
            let bound = 2.0 * (C_TOL * c.tol * rf.upper.abs()).sqrt() + 1e-6 * spread;
            if !(dn <= bound) {
                fails.push(Fail {
                    oracle: "l1_ratio_one_is_lasso",
                    what: format!("elastic net with l1_ratio = 1 differs from lasso: fitted values differ by {:e} (allowed {:e}); coefficients {:?} vs {:?}", dn, bound, f1.coef, fl.coef),
                });
            }
        }
    }
    (fails, Some((base, rf)))
}

// ------------------------------------------------------------------------------------------
// the two formerly non-terminating families (repair bdb775f bounded the line search): every fit must RETURN.
//   alpha = 0 exactly (inside the statement "alpha >= 0"): the known finding `lasso-alpha-zero-err` is exactly
//     "all settings valid, alpha == 0, outcome Err(Exceeded maximum number of iteration ...)"; anything else on such
//     an input (hang, panic, another Err, Ok with a non-optimal w) is a failure;
//   large scale (|y| at 1e6..1e12 x unit, alpha in its own range or following the scale): a hang or panic is a failure;
//     Err(line search exhausted) / an Ok failing only near_optimal is the listed finding `lasso-large-scale-err` when the
//     input really is in one of its two regimes (|y| >= 1e6 and: n*alpha >= 1e7, or |y - mean y|^2 >= 1e13); the same
//     outcome outside the regimes, any other Err, a wrong intercept etc. is a failure.
// ------------------------------------------------------------------------------------------
const LS_ERR: &str = "Exceeded maximum number of iteration for interior point optimizer";
fn finding_listed(id: &str) -> bool {
    let cands = [format!("{}/../KNOWN_FINDINGS.txt", env!("CARGO_MANIFEST_DIR")), "/verif/KNOWN_FINDINGS.txt".to_string()];
    for c in cands.iter() {
        if let Ok(t) = std::fs::read_to_string(c) {
            return t.lines().any(|l| l.starts_with("finding:") && l.contains("property=C08") && l.contains(&format!("id={} ", id)));
        }
    }
    false
}
/// the predicate of `lasso-large-scale-err` as listed: targets of magnitude >= 1e6 and (n*alpha >= 1e7 or |y - mean y|^2 >= 1e13)
fn large_scale_regime(c: &Case, rf: &Reference) -> Option<&'static str> {
    let ymax = c.y.iter().fold(0.0f64, |a, b| a.max(b.abs()));
    let yc2: f64 = rf.yc.iter().map(|v| v * v).sum();
    if !(ymax >= 1e6) {
        return None;
    }
    if c.x.len() as f64 * c.alpha >= 1e7 {
        Some("n*alpha >= 1e7")
    } else if yc2 >= 1e13 {
        Some("|y - mean y|^2 >= 1e13")
    } else {
        None
    }
}
/// returns the failures; `known` receives (id, what) when exactly the finding's predicate held
fn evaluate_returns(c: &Case, family: &str, out: &mut Out) -> Vec<Fail> {
    let mut fails = vec![];
    let who = if c.enet { "elastic net" } else { "lasso" };
    let rf = reference(c, &c.y);
    match run_fit(c, &c.y) {
        Outcome::Timeout => fails.push(Fail { oracle: "termination", what: format!("{}: fit did not return within the watchdog ({})", who, family) }),
        Outcome::Panic(m) => fails.push(Fail { oracle: "no_panic", what: format!("{}: fit panicked ({}): {}", who, family, m) }),
        Outcome::Err(e, _) => {
            if family == "alpha-zero" && c.alpha == 0.0 && e.contains(LS_ERR) {
                out.known("lasso-alpha-zero-err", &format!("{}::fit with alpha = 0 returns Err({})", if c.enet { "ElasticNet" } else { "Lasso" }, LS_ERR));
                out.count("known:lasso-alpha-zero-err");
            } else if family == "large-scale" && e.contains(LS_ERR) && large_scale_regime(c, &rf).is_some() && finding_listed("lasso-large-scale-err") {
                let regime = large_scale_regime(c, &rf).unwrap();
                out.known("lasso-large-scale-err", &format!("fit on large targets (|y| >= 1e6 and n*alpha >= 1e7 or |y - mean y|^2 >= 1e13) returns Err({}) or an Ok that is not near-optimal", LS_ERR));
                out.count(&format!("known:lasso-large-scale-err:Err:{}", regime));
            } else {
                fails.push(Fail { oracle: "valid_input_fits", what: format!("{}: fit returned Err on a valid input ({}): {}", who, family, e) });
            }
        }
        Outcome::Ok(f, _) => {
            let mut sub = vec![];
            check_fit(c, &c.y, &f, &rf, &mut sub);
            if family == "large-scale" && sub.iter().all(|s| s.oracle == "near_optimal") && !sub.is_empty() && large_scale_regime(c, &rf).is_some() && finding_listed("lasso-large-scale-err") {
                let regime = large_scale_regime(c, &rf).unwrap();
                out.known("lasso-large-scale-err", &format!("fit on large targets (|y| >= 1e6 and n*alpha >= 1e7 or |y - mean y|^2 >= 1e13) returns Err({}) or an Ok that is not near-optimal", LS_ERR));
                out.count(&format!("known:lasso-large-scale-err:Ok-not-near-optimal:{}", regime));
            } else {
                if sub.is_empty() {
                    out.count(&format!("search:{}:Ok-near-optimal", family));
                }
                fails.extend(sub);
            }
        }
    }
    fails
}

// ------------------------------------------------------------------------------------------
// small iteration budgets (valid settings): the fit must return Ok without panic or loop, and whatever it returns
// must satisfy predict(X) = X*coefficients + intercept = mean(y) + Z*w (near-optimality is not asked for here)
// ------------------------------------------------------------------------------------------
fn evaluate_budget(c: &Case) -> Vec<Fail> {
    let mut fails = vec![];
    let who = if c.enet { "elastic net" } else { "lasso" };
    match run_fit(c, &c.y) {
        Outcome::Timeout => fails.push(Fail { oracle: "termination", what: format!("{}: fit with max_iter = {} did not return", who, c.max_iter) }),
        Outcome::Panic(m) => fails.push(Fail { oracle: "no_panic", what: format!("{}: fit with max_iter = {} panicked: {}", who, c.max_iter, m) }),
        Outcome::Err(e, _) => fails.push(Fail { oracle: "valid_input_fits", what: format!("{}: fit with max_iter = {} returned Err on a valid input: {}", who, c.max_iter, e) }),
        Outcome::Ok(f, runs) => {
            let n = c.x.len();
            let p = c.x[0].len();
            if f.coef.len() != p || f.pred.len() != n || f.coef.iter().any(|v| !v.is_finite()) || !f.intercept.is_finite() {
                fails.push(Fail { oracle: "finite_output", what: format!("{}: coefficients/intercept not finite or of wrong length: {:?} {}", who, f.coef, f.intercept) });
                return fails;
            }
            let d = design(&c.x, c.normalize);
            let ymean = mean(&c.y);
            let w: Vec<f64> = (0..p).map(|j| f.coef[j] * d.stds[j]).collect();
            let zw = matvec(&d.z, &w);
            let pscale = 1.0 + c.y.iter().fold(0.0f64, |a, b| a.max(b.abs())) + zw.iter().fold(0.0f64, |a, b| a.max(b.abs()));
            for i in 0..n {
                let direct: f64 = c.x[i].iter().zip(&f.coef).map(|(a, b)| a * b).sum::<f64>() + f.intercept;
                let xs = c.x[i].iter().zip(&f.coef).map(|(a, b)| (a * b).abs()).sum::<f64>();
                let tol_i = 1e-9 * (pscale + xs);
                if (f.pred[i] - direct).abs() > tol_i || (f.pred[i] - (ymean + zw[i])).abs() > tol_i {
                    fails.push(Fail { oracle: "back_transform", what: format!("{}: predict(X)[{}] = {:e}, X*coefficients + intercept = {:e}, mean(y) + Z*w = {:e}", who, i, f.pred[i], direct, ymean + zw[i]) });
                    break;
                }
            }
            // the iteration budget is respected
            if let Some(r) = runs.first() {
                if r.iters.len() > c.max_iter {
                    fails.push(Fail { oracle: "max_iter_respected", what: format!("{}: {} outer iterations with max_iter = {}", who, r.iters.len(), c.max_iter) });
                }
            }
        }
    }
    fails
}

// ------------------------------------------------------------------------------------------
// invalid settings (Lasso): must be Err, never a panic or a loop
// ------------------------------------------------------------------------------------------
fn evaluate_invalid(c: &Case) -> Vec<Fail> {
    let mut fails = vec![];
    let who = if c.enet { "elastic net" } else { "lasso" };
    match run_fit(c, &c.y) {
        Outcome::Err(_, _) => {}
        Outcome::Timeout => fails.push(Fail { oracle: "invalid_is_err", what: format!("{}: fit with an invalid setting did not return (loop)", who) }),
        Outcome::Panic(m) => fails.push(Fail { oracle: "invalid_is_err", what: format!("{}: fit with an invalid setting panicked instead of returning Err: {}", who, m) }),
        Outcome::Ok(f, _) => fails.push(Fail { oracle: "invalid_is_err", what: format!("{}: fit with an invalid setting returned Ok (coefficients {:?})", who, f.coef) }),
    }
    fails
}

// ------------------------------------------------------------------------------------------
// generators
// ------------------------------------------------------------------------------------------
fn gen_xy(rng: &mut Rng, n: usize, p: usize, mean_mode: usize, dyadic: bool) -> (Vec<Vec<f64>>, Vec<f64>) {
    // moderately conditioned: gaussian columns mixed by I + 0.4*U, column scales 1e-1..1e2, offsets up to 3 scales
    let mix: Vec<Vec<f64>> = (0..p).map(|a| (0..p).map(|b| if a == b { 1.0 } else { 0.4 * rng.uniform(-1.0, 1.0) }).collect()).collect();
    let scales: Vec<f64> = (0..p).map(|_| 10f64.powf(rng.uniform(-1.0, 2.0))).collect();
    let offs: Vec<f64> = (0..p).map(|j| if rng.bool() { 0.0 } else { scales[j] * rng.uniform(-3.0, 3.0) }).collect();
    let mut x = vec![vec![0.0; p]; n];
    for i in 0..n {
        let g: Vec<f64> = (0..p).map(|_| rng.normal()).collect();
        for j in 0..p {
            let v: f64 = (0..p).map(|k| g[k] * mix[k][j]).sum();
            x[i][j] = scales[j] * v + offs[j];
            if dyadic {
                x[i][j] = (x[i][j] * 16.0).round() / 16.0;
            }
        }
    }
    // no constant column
    for j in 0..p {
        if (1..n).all(|i| x[i][j] == x[0][j]) {
            x[0][j] += scales[j].max(0.5);
        }
    }
    let beta: Vec<f64> = (0..p).map(|j| if rng.chance(0.3) { 0.0 } else { rng.uniform(-3.0, 3.0) / scales[j] }).collect();
    let noise = 10f64.powf(rng.uniform(-2.0, 0.5));
    let mut y: Vec<f64> = (0..n).map(|i| x[i].iter().zip(&beta).map(|(a, b)| a * b).sum::<f64>() + noise * rng.normal()).collect();
    let m = mean(&y);
    let spread = (y.iter().map(|v| (v - m) * (v - m)).sum::<f64>() / n as f64).sqrt().max(1e-3);
    let target_mean = match mean_mode {
        0 => 0.0,
        1 => rng.uniform(-10.0, 10.0),
        _ => spread * 10f64.powf(rng.uniform(3.0, 6.0)) * if rng.bool() { 1.0 } else { -1.0 },
    };
    for v in y.iter_mut() {
        *v = *v - m + target_mean;
        if dyadic {
            *v = (*v * 16.0).round() / 16.0;
        }
    }
    (x, y)
}

fn gen_case(rng: &mut Rng, nmax: usize, pmax: usize, enet: bool, dyadic: bool) -> Case {
    let p = rng.usize_in(1, pmax);
    let n = rng.usize_in(p + 1, nmax.max(p + 1));
    let mean_mode = rng.below(3);
    let (x, y) = gen_xy(rng, n, p, mean_mode, dyadic);
    let normalize = rng.bool();
    let l1_ratio = if enet { *rng.pick(&[1.0, 1.0, 0.9, 0.5, 0.25, 0.05, 0.7]) } else { 1.0 };
    let l1_ratio = if enet && rng.chance(0.3) { rng.uniform(0.02, 1.0) } else { l1_ratio };
    let tol = *rng.pick(&[1e-3, 1e-4, 1e-5, 1e-6]);
    let mut c = Case { enet, x, y, alpha: 1.0, l1_ratio, normalize, tol, max_iter: 1000, shift: 0.0 };
    let amax = reference(&c, &c.y).alpha_max.max(2e-3);
    c.alpha = match rng.below(8) {
        0 => 1e-3,
        1 => amax * rng.uniform(1.0, 3.0),          // every coefficient zero
        2 => amax * rng.uniform(0.5, 1.0),          // sparse regime
        _ => (1e-3f64.ln() + rng.unit() * ((1.5 * amax).ln() - 1e-3f64.ln())).exp(),
    };
    c.shift = match rng.below(4) {
        0 => 0.0,
        1 => rng.uniform(-20.0, 20.0),
        2 => *rng.pick(&[10.0, 1000.0, -1000.0]),
        _ => 10f64.powf(rng.uniform(3.0, 6.0)),
    };
    c
}

// ------------------------------------------------------------------------------------------
// Coq terms
// ------------------------------------------------------------------------------------------
fn coq_iter(it: &VerifLassoIter) -> String {
    format!(
        "(mkit {} {} {} {} {} {} {} {} {} {} {} {} {} {} {} {})",
        coq_list_f64(&it.w), coq_list_f64(&it.u), coq_list_f64(&it.nu), coq_f64(it.pobj), coq_f64(it.dobj), coq_f64(it.gap),
        coq_f64(it.t_before), coq_f64(it.s_before), coq_bool(it.pitr_before == 0), coq_bool(it.stopped),
        coq_f64(it.t), coq_f64(it.pcgtol), coq_list_f64(&it.dxu_in), coq_f64(it.pcg_err), coq_list_f64(&it.dxu), coq_f64(it.s)
    )
}
fn coq_run(r: &VerifLassoRun) -> String {
    let exit = match r.exit {
        "gap" => 0,
        "max_iter" => 1,
        _ => 2,
    };
    format!(
        "(mkrun {} {} {} {} {} {} {} {})",
        coq_f64(r.lambda), coq_f64(r.tol), coq_n(r.max_iter), coq_list_f64(&r.y), coq_f64(r.t0),
        coq_list(r.iters.iter().map(coq_iter)), coq_n(exit), coq_list_f64(&r.w_final)
    )
}
fn coq_result(f: Option<&FitOut>) -> String {
    coq_option(f.map(|f| coq_pair(&coq_list_f64(&f.coef), &coq_f64(f.intercept))))
}

/// one correspondence case: the fit re-checked by the model on the optimiser's own records
fn corr_case(out: &mut Out, c: &Case, group: &str) {
    if timeouts() >= MAX_TIMEOUTS {
        out.count("corr-skipped:after-8-timeouts");
        return;
    }
    let input = case_json(c, "corr");
    let outcome = run_fit(c, &c.y);
    let (res, runs): (Option<FitOut>, Vec<VerifLassoRun>) = match outcome {
        Outcome::Ok(f, r) => (Some(f), r),
        Outcome::Err(_, r) => (None, r),
        Outcome::Timeout => {
            // a loop is a failure of the property itself, not of the correspondence
            out.fail("termination", &format!("{}: fit did not return within {} s (correspondence input)", if c.enet { "elastic net" } else { "lasso" }, WATCHDOG_SECS), case_json(c, "fit"));
            return;
        }
        Outcome::Panic(m) => {
            out.fail("no_panic", &format!("{}: fit panicked (correspondence input): {}", if c.enet { "elastic net" } else { "lasso" }, m), case_json(c, "fit"));
            return;
        }
    };
    if runs.len() > 1 {
        out.count("corr-skipped:several-optimize-calls");
        return;
    }
    // dual seed for the certificate: reference solution in the optimiser's coordinates
    let valid_shape = !c.x.is_empty() && c.x.len() > c.x[0].len() && c.y.len() == c.x.len() && !c.x[0].is_empty();
    let wd: Vec<f64> = if valid_shape && res.is_some() {
        let rf = reference(c, &c.y);
        let gamma = 1.0 / (1.0 + rf.l2).sqrt();
        rf.w_cd.iter().map(|w| w / gamma).collect()
    } else {
        vec![]
    };
    // shrink factor of the validator's dual point: its feasibility test is exact, so the point is pulled inside by
    // 16 ulp times the cancellation ratio of X^T nu (at least 2^-30); what that costs is added to the tolerance
    let mut shrink = 1.0 - 2f64.powi(-30);
    let mut cert = res.is_some() && !wd.is_empty();
    if !wd.is_empty() {
        let rf = reference(c, &c.y);
        let gamma = 1.0 / (1.0 + rf.l2).sqrt();
        let pad = gamma * rf.l2.sqrt();
        let p = wd.len();
        let lam = (rf.l1 * gamma).max(f64::EPSILON);
        let nu0: Vec<f64> = matvec(&rf.d.z, &wd).iter().zip(&rf.yc).map(|(a, b)| 2.0 * (gamma * a - b)).collect();
        let mut mx: f64 = 0.0;
        let mut ab: f64 = 0.0;
        for j in 0..p {
            let v: f64 = (0..nu0.len()).map(|i| gamma * rf.d.z[i][j] * nu0[i]).sum::<f64>() + pad * 2.0 * pad * wd[j];
            let a: f64 = (0..nu0.len()).map(|i| (gamma * rf.d.z[i][j] * nu0[i]).abs()).sum::<f64>() + (pad * 2.0 * pad * wd[j]).abs();
            mx = mx.max(v.abs());
            ab = ab.max(a);
        }
        let kappa = ab / mx.min(lam).max(1e-300);
        shrink = 1.0 - (16.0 * f64::EPSILON * kappa).max(2f64.powi(-30)).min(0.5);
        if shrink < 1.0 - 1e-7 {
            // X^T nu is rounding noise compared with its terms (penalty far below the property's range: alpha < 1e-3):
            // the float run of the validator cannot certify anything there
            if c.alpha >= 1e-3 {
                out.count("corr-cert:shrunk-by>1e-7");
            }
        }
    }
    if cert && c.alpha < 1e-3 {
        // below the property's penalty range the optimum can be rounding noise relative to |yc|^2 (near-interpolation):
        // the validator's exact float run has no absolute slack, so no certificate is attempted there (counted)
        cert = false;
        out.count("corr-cert:not-attempted(alpha<1e-3)");
    }
    let ctol = C_TOL * c.tol + 4.0 * (1.0 - shrink);
    let run = coq_option(runs.first().map(coq_run));
    let term = if c.enet {
        format!(
            "corr_enet {} {} {} {} {} {} {} {} {} {} {} {}",
            coq_rows_f64(&c.x), coq_list_f64(&c.y), coq_f64(c.alpha), coq_f64(c.l1_ratio), coq_bool(c.normalize), coq_f64(c.tol),
            coq_n(c.max_iter), run, coq_result(res.as_ref()), coq_option(if cert { Some(coq_list_f64(&wd)) } else { None }), coq_f64(shrink), coq_f64(ctol)
        )
    } else {
        format!(
            "corr_lasso {} {} {} {} {} {} {} {} {} {} {}",
            coq_rows_f64(&c.x), coq_list_f64(&c.y), coq_f64(c.alpha), coq_bool(c.normalize), coq_f64(c.tol),
            coq_n(c.max_iter), run, coq_result(res.as_ref()), coq_option(if cert { Some(coq_list_f64(&wd)) } else { None }), coq_f64(shrink), coq_f64(ctol)
        )
    };
    out.corr(group, term, input);
    if let Some(r) = runs.first() {
        out.count(&format!("corr-exit:{}", r.exit));
        out.count(&format!("corr-iterations:{}", match r.iters.len() { 0..=5 => "<=5", 6..=15 => "6-15", 16..=30 => "16-30", _ => ">30" }));
    } else {
        out.count("corr-exit:not-reached");
    }
}

// ------------------------------------------------------------------------------------------
fn record(out: &mut Out, c: &Case, fails: Vec<Fail>, entry: &str) {
    for f in fails {
        out.fail(f.oracle, &f.what, case_json(c, entry));
    }
}

fn search_case(out: &mut Out, c: &Case, family: &str) {
    if timeouts() >= MAX_TIMEOUTS {
        out.count("search:skipped-after-8-timeouts");
        return;
    }
    let (fails, info) = evaluate(c);
    let mut nontrivial = false;
    if let Some((base, rf)) = &info {
        nontrivial = c.alpha > 0.02 * rf.alpha_max && c.alpha < rf.alpha_max;
        out.count(&format!("search:{}:{}", if c.enet { "enet" } else { "lasso" }, family));
        out.count(&format!("search:regime:{}", if c.alpha >= rf.alpha_max { "all-zero" } else if nontrivial { "sparse/shrunk" } else { "near-least-squares" }));
        out.count(&format!("search:tol:{:e}", c.tol));
        out.count(&format!("search:normalize:{}", c.normalize));
        if c.shift != 0.0 {
            out.count(&format!("search:shift:{}", if c.shift.abs() >= 1000.0 { ">=1e3" } else { "<1e3" }));
        }
        if let Outcome::Ok(_, runs) = base {
            if let Some(r) = runs.first() {
                out.count(&format!("search:exit:{}", r.exit));
            }
        }
        // the independent reference itself must be certified tightly, otherwise the lower bound is weak (counted)
        if !(rf.upper - rf.lower <= 1e-7 * rf.upper.abs() + 1e-12) {
            out.count("search:reference-not-tight");
        }
    }
    out.eval(case_key(c), nontrivial);
    record(out, c, fails, "fit");
}

fn invalid_cases(rng: &mut Rng) -> Vec<(Case, &'static str)> {
    let mut v = vec![];
    let base = |rng: &mut Rng| {
        let p = rng.usize_in(1, 5);
        let n = rng.usize_in(p + 1, 20);
        let mm = rng.below(2);
        let (x, y) = gen_xy(rng, n, p, mm, false);
        Case { enet: false, x, y, alpha: 10f64.powf(rng.uniform(-3.0, 0.5)), l1_ratio: 1.0, normalize: rng.bool(), tol: 1e-4, max_iter: 1000, shift: 0.0 }
    };
    let mut c = base(rng);
    c.alpha = -10f64.powf(rng.uniform(-6.0, 1.0));
    v.push((c, "alpha<0"));
    let mut c = base(rng);
    c.tol = *rng.pick(&[0.0, -1e-4, -1.0]);
    v.push((c, "tol<=0"));
    let mut c = base(rng);
    c.max_iter = 0;
    v.push((c, "max_iter=0"));
    // n <= p
    let p = rng.usize_in(1, 6);
    let n = rng.usize_in(1, p);
    let (x, y) = gen_xy(rng, n, p, 0, false);
    v.push((Case { enet: false, x, y, alpha: 0.1, l1_ratio: 1.0, normalize: rng.bool(), tol: 1e-4, max_iter: 1000, shift: 0.0 }, "n<=p"));
    // length mismatch
    let mut c = base(rng);
    if rng.bool() {
        c.y.pop();
    } else {
        c.y.push(0.5);
    }
    v.push((c, "length-mismatch"));
    // constant column under normalisation, any value (repaired af78fc0: only values whose one-pass variance rounds to
    // exactly zero used to be rejected), Lasso and ElasticNet
    for enet in [false, true] {
        let mut c = base(rng);
        c.normalize = true;
        c.enet = enet;
        c.l1_ratio = if enet { *rng.pick(&[1.0, 0.5, 0.1]) } else { 1.0 };
        let j = rng.below(c.x[0].len());
        let val = match rng.below(4) {
            0 => *rng.pick(&[0.0, 1.0, 3.5, -2.0, 100.0]),
            1 => *rng.pick(&[0.1, 0.3, 0.7, 1.1, -0.1, 123.456, 1e6 + 0.3, 1e-9, -3.3e4]),
            2 => rng.uniform(-5.0, 5.0),
            _ => 10f64.powf(rng.uniform(-6.0, 6.0)) * if rng.bool() { 1.0 } else { -1.0 },
        };
        for r in c.x.iter_mut() {
            r[j] = val;
        }
        v.push((c, if enet { "constant-column(enet)" } else { "constant-column" }));
    }
    v
}

// ------------------------------------------------------------------------------------------
// api_trait_twin: fit / predict through `smartcore::api::{SupervisedEstimator, Predictor}` give exactly
// what the inherent methods give (training matrix and fresh rows, model fitted either way); under the
// watchdog (a fit that does not return is the business of the other oracles: counted, not judged here)
// ------------------------------------------------------------------------------------------
fn twin_rows(c: &Case) -> Vec<Vec<f64>> {
    let mut r = Rng::new(case_key(c) ^ 0x7717);
    if c.x.is_empty() || c.x[0].is_empty() {
        return vec![];
    }
    (0..3).map(|_| { let row = r.pick(&c.x).clone(); row.iter().map(|v| v * r.uniform(0.5, 1.5) + 0.1 * r.normal()).collect() }).collect()
}
/// None = watchdog
fn twin_case(c: &Case, xnew: &[Vec<f64>]) -> Option<Option<twin::Diff>> {
    if c.x.is_empty() || c.x[0].is_empty() || xnew.is_empty() {
        return Some(None);
    }
    let c = c.clone();
    let xnew = xnew.to_vec();
    let r = with_watchdog(if timeouts() >= 3 { 6 } else { 2 * WATCHDOG_SECS }, move || {
        let x = dense(&c.x);
        let xn = dense(&xnew);
        let y = c.y.clone();
        let probes = [("the training matrix", &x), ("the fresh rows", &xn)];
        macro_rules! run {
            ($ty:ty, $p:expr) => {{
                let p = $p;
                twin::check(
                    "SupervisedEstimator",
                    "Predictor",
                    "predict",
                    || twin::fit_sup::<$ty, _, _, _>(&x, &y, p.clone()),
                    || <$ty>::fit(&x, &y, p.clone()),
                    |m: &$ty, z: &DenseMatrix<f64>| twin::predict(m, z),
                    |m: &$ty, z: &DenseMatrix<f64>| m.predict(z),
                    &probes,
                    |m: &$ty| serde_json::to_string(m).unwrap_or_default(),
                    true,
                )
            }};
        }
        let d = if c.enet {
            run!(ElasticNet<f64, DenseMatrix<f64>>, ElasticNetParameters { alpha: c.alpha, l1_ratio: c.l1_ratio, normalize: c.normalize, tol: c.tol, max_iter: c.max_iter })
        } else {
            run!(Lasso<f64, DenseMatrix<f64>>, LassoParameters { alpha: c.alpha, normalize: c.normalize, tol: c.tol, max_iter: c.max_iter })
        };
        VERIF_LASSO_RUNS.with(|r| r.borrow_mut().clear());
        d
    });
    match r {
        None => {
            TIMEOUTS.fetch_add(1, std::sync::atomic::Ordering::SeqCst);
            None
        }
        Some(Err(msg)) => Some(Some(twin::Diff { call: "harness".into(), what: format!("the twin comparison itself panicked: {}", msg) })),
        Some(Ok(d)) => Some(d),
    }
}
fn check_twin(out: &mut Out, c: &Case, family: &str) {
    if timeouts() >= MAX_TIMEOUTS {
        out.count("search:skipped-after-8-timeouts");
        return;
    }
    out.eval(case_key(c) ^ 0x7717, true);
    out.count(&format!("twin:{}:{}", if c.enet { "enet" } else { "lasso" }, family));
    let xnew = twin_rows(c);
    match twin_case(c, &xnew) {
        None => out.count("twin:watchdog(not judged)"),
        Some(None) => {}
        Some(Some(_)) => {
            // shrink: fewer fresh rows, fewer training rows
            let (mut cur, mut xn) = (c.clone(), xnew);
            let mut progress = true;
            let mut budget = 200;
            while progress && budget > 0 {
                progress = false;
                let mut i = 0;
                while xn.len() > 1 && i < xn.len() && budget > 0 {
                    let mut t = xn.clone();
                    t.remove(i);
                    budget -= 1;
                    if matches!(twin_case(&cur, &t), Some(Some(_))) { xn = t; progress = true; } else { i += 1; }
                }
                let mut i = 0;
                while cur.x.len() > 2 && i < cur.x.len() && budget > 0 {
                    let mut t = cur.clone();
                    t.x.remove(i);
                    if i < t.y.len() {
                        t.y.remove(i);
                    }
                    budget -= 1;
                    if matches!(twin_case(&t, &xn), Some(Some(_))) { cur = t; progress = true; } else { i += 1; }
                }
            }
            if let Some(Some(d)) = twin_case(&cur, &xn) {
                let mut w = case_json(&cur, "twin");
                w["oracle"] = json!(twin::ORACLE);
                w["xnew"] = json!(xn);
                w["differing_call"] = json!(d.call);
                out.count(&format!("twin:failing:{}", if c.enet { "ElasticNet" } else { "Lasso" }));
                out.fail(twin::ORACLE, &format!("{}: {}: {}", if c.enet { "ElasticNet" } else { "Lasso" }, d.call, d.what), w);
            }
        }
    }
}

fn replay(path: &str) -> i32 {
    let v = read_replay(path);
    let inp = if v.get("input").is_some() { v["input"].clone() } else { v.clone() };
    let c = case_from_json(&inp);
    if std::env::var("C08_DEBUG").is_ok() {
        // print the optimiser's records of the base fit (diagnosis aid; not part of the check)
        match run_fit(&c, &c.y) {
            Outcome::Ok(_, runs) | Outcome::Err(_, runs) => {
                for r in &runs {
                    println!("lambda={:e} tol={:e} t0={:e} exit={} iters={} y={:?}", r.lambda, r.tol, r.t0, r.exit, r.iters.len(), r.y);
                    for (k, it) in r.iters.iter().enumerate() {
                        println!("  #{} w={:?} u={:?} pobj={:e} dobj={:e} gap={:e} t={:e} pcgtol={:e} err={:e} dxu={:?} s={:e}", k, it.w, it.u, it.pobj, it.dobj, it.gap, it.t, it.pcgtol, it.pcg_err, it.dxu, it.s);
                    }
                }
            }
            o => println!("{:?}", o),
        }
    }
    let fails = match inp["entry"].as_str().unwrap_or("fit") {
        "twin" => {
            let xnew = if inp.get("xnew").is_some() { rows_from_json(&inp["xnew"]) } else { twin_rows(&c) };
            match twin_case(&c, &xnew) {
                Some(Some(d)) => vec![Fail { oracle: twin::ORACLE, what: format!("{}: {}", d.call, d.what) }],
                _ => vec![],
            }
        }
        "invalid" => evaluate_invalid(&c),
        "budget" => evaluate_budget(&c),
        "alpha-zero" | "large-scale" => {
            let mut o = Out::new("C08", "replay");
            evaluate_returns(&c, inp["entry"].as_str().unwrap(), &mut o)
        }
        _ => evaluate(&c).0,
    };
    if fails.is_empty() {
        println!("REPLAY: property=C08 passes: {}", path);
        0
    } else {
        for f in &fails {
            println!("REPLAY: property=C08 still fails [{}]: {}", f.oracle, f.what);
        }
        1
    }
}

fn main() {
    quiet_panics();
    let a = args();
    if let Some(p) = &a.replay {
        std::process::exit(replay(p));
    }
    let mut rng = Rng::new(a.seed);
    let t_start = std::time::Instant::now();
    let timing = std::env::var("C08_TIMING").is_ok();
    if std::env::var("C08_PROBE").is_ok() {
        // diagnosis aid (not part of the check): hang / failure frequency per decade of the target scale
        for dec in 3i32..=12 {
            for mode in 0..2 {
                let (mut hang, mut bad, mut okc) = (0, 0, 0);
                let mut max_ok: f64 = 0.0;
                let mut first: Option<Case> = None;
                for i in 0..40 {
                    let mut c = gen_case(&mut rng, 30, 4, i % 2 == 1, false);
                    let f = 10f64.powi(dec);
                    for yi in c.y.iter_mut() {
                        *yi *= f;
                    }
                    c.shift = 0.0;
                    if mode == 1 {
                        c.alpha = (c.alpha * f).max(1e-3);
                    }
                    let rf = reference(&c, &c.y);
                    match run_fit_secs(&c, &c.y, 2) {
                        Outcome::Timeout => {
                            hang += 1;
                            if first.is_none() {
                                first = Some(c.clone());
                            }
                        }
                        Outcome::Ok(f, _) => {
                            let mut fl = vec![];
                            check_fit(&c, &c.y, &f, &rf, &mut fl);
                            if fl.is_empty() {
                                okc += 1;
                                let winf = rf.w_cd.iter().fold(0.0f64, |a, b| a.max(b.abs()));
                                if rf.l1 * winf > max_ok { max_ok = rf.l1 * winf; }
                            } else {
                                bad += 1;
                                println!("   bad(Ok): n={} p={} alpha={:e} amax={:e} tol={:e} norm={} enet={} :: {}", c.x.len(), c.x[0].len(), c.alpha, rf.alpha_max, c.tol, c.normalize, c.enet, &fl[0].what[..fl[0].what.len().min(160)]);
                                std::fs::write(format!("/tmp/b08/probe_{}_{}_{}.json", dec, mode, i), serde_json::to_string(&case_json(&c, "fit")).unwrap()).ok();
                            }
                        }
                        Outcome::Err(e, runs) => {
                            bad += 1;
                            let winf = rf.w_cd.iter().fold(0.0f64, |a, b| a.max(b.abs()));
                            println!("      lambda*|w_ref|_inf = {:e}, |yc|^2 = {:e}", rf.l1 * winf, rf.yc.iter().map(|v| v * v).sum::<f64>());
                            println!("   bad(Err): n={} p={} alpha={:e} amax={:e} tol={:e} norm={} enet={} iters={} :: {}", c.x.len(), c.x[0].len(), c.alpha, rf.alpha_max, c.tol, c.normalize, c.enet, runs.first().map(|r| r.iters.len()).unwrap_or(0), e);
                            std::fs::write(format!("/tmp/b08/probe_{}_{}_{}.json", dec, mode, i), serde_json::to_string(&case_json(&c, "fit")).unwrap()).ok();
                        }
                        _ => bad += 1,
                    }
                }
                println!("decade 1e{} alpha-mode {}: ok {} bad {} hang {}  (largest lambda*|w_ref|_inf among ok: {:e})", dec, if mode == 1 { "scaled" } else { "unscaled" }, okc, bad, hang, max_ok);
                if let Some(c) = first {
                    println!("   first hang: n={} p={} alpha={:e} alpha_max={:e} tol={:e} normalize={} enet={}", c.x.len(), c.x[0].len(), c.alpha, reference(&c, &c.y).alpha_max, c.tol, c.normalize, c.enet);
                }
            }
        }
        return;
    }
    let mut out = Out::new(
        "C08",
        "search case = (X, y, alpha, tol, normalize[, l1_ratio][, shift]) fitted by Lasso / ElasticNet under a watchdog; non-trivial: 0.02*alpha_max < alpha < alpha_max (penalty active, not all coefficients zero); distinct by hash of all inputs. api-trait twin case = a search case fitted and queried through smartcore::api::{SupervisedEstimator, Predictor} and through the inherent methods; all results must coincide bit for bit",
    );

    // ---- corpus: D8 (elastic net, shifted targets) on the design-round input shape ----
    {
        let x = vec![
            vec![1.0, 2.0, 0.5], vec![2.0, 0.5, 1.5], vec![3.0, 1.5, -0.5], vec![4.0, 3.5, 2.0], vec![5.0, 2.5, 0.0],
            vec![6.0, 4.0, 1.0], vec![7.0, 1.0, 3.0], vec![8.0, 5.0, -1.0],
        ];
        let y = vec![-2.1, 1.3, -0.4, -1.9, 1.2, -1.0, 4.9, -1.8];
        for &shift in &[10.0, 1000.0] {
            for &normalize in &[false, true] {
                let c = Case { enet: true, x: x.clone(), y: y.clone(), alpha: 0.05, l1_ratio: 0.5, normalize, tol: 1e-4, max_iter: 1000, shift };
                search_case(&mut out, &c, "corpus-D8");
            }
        }
        let c = Case { enet: true, x: x.clone(), y: y.clone(), alpha: 0.05, l1_ratio: 0.5, normalize: false, tol: 1e-4, max_iter: 1000, shift: 0.0 };
        corr_case(&mut out, &c, "enet_fit");
        // corpus: constant target (repaired eff8af9): hang for n*alpha = 0.25, Err for a generic alpha
        let x1 = vec![vec![1.0], vec![2.0], vec![3.0], vec![4.0]];
        for &(alpha, enet, normalize) in &[(0.0625, false, false), (0.1, false, true), (0.0625, true, false), (1e-3, true, true)] {
            let c = Case { enet, x: x1.clone(), y: vec![1.0; 4], alpha, l1_ratio: if enet { 0.5 } else { 1.0 }, normalize, tol: 1e-4, max_iter: 1000, shift: 0.0 };
            search_case(&mut out, &c, "corpus-constant-target");
            corr_case(&mut out, &c, if enet { "enet_fit" } else { "lasso_fit" });
        }
        let c = Case { enet: false, x: vec![vec![-0.5625], vec![-0.125], vec![0.0625], vec![-0.1875]], y: vec![15.5625; 4], alpha: 1e-3, l1_ratio: 1.0, normalize: true, tol: 1e-5, max_iter: 1000, shift: 0.0 };
        search_case(&mut out, &c, "corpus-constant-target");
        // corpus: constant column with a non-dyadic value (repaired af78fc0): 0.1 x 3 never returned, 0.3 x 3 returned Ok
        for &(v, n) in &[(0.1f64, 3usize), (0.3, 3), (0.3, 6), (0.7, 6)] {
            for &enet in &[false, true] {
                let x: Vec<Vec<f64>> = (0..n).map(|_| vec![v]).collect();
                let y: Vec<f64> = (0..n).map(|i| i as f64).collect();
                let c = Case { enet, x, y, alpha: 0.1, l1_ratio: if enet { 0.5 } else { 1.0 }, normalize: true, tol: 1e-4, max_iter: 1000, shift: 0.0 };
                out.eval(case_key(&c), true);
                out.count("search:invalid:corpus-constant-column");
                let fails = evaluate_invalid(&c);
                record(&mut out, &c, fails, "invalid");
                corr_case(&mut out, &c, if c.enet { "enet_invalid" } else { "lasso_invalid" });
            }
        }
    }

    if timing { eprintln!("[c08 timing] {:.1}s before: // ---- correspondence ----", t_start.elapsed().as_secs_f64()); }
    // ---- corpus/C08/*.json (minimised regression inputs and known-finding witnesses), every run ----
    {
        let dirs = [format!("{}/../corpus/C08", env!("CARGO_MANIFEST_DIR")), "/verif/corpus/C08".to_string()];
        if let Some(dir) = dirs.iter().find(|d| std::path::Path::new(d).is_dir()) {
            let mut files: Vec<_> = std::fs::read_dir(dir).map(|r| r.filter_map(|e| e.ok()).map(|e| e.path()).collect()).unwrap_or_default();
            files.sort();
            for f in files.iter().filter(|f| f.extension().map(|e| e == "json").unwrap_or(false)) {
                let v = read_replay(f.to_str().unwrap());
                let inp = if v.get("input").is_some() { v["input"].clone() } else { v.clone() };
                let c = case_from_json(&inp);
                let entry = inp["entry"].as_str().unwrap_or("fit").to_string();
                out.eval(case_key(&c), true);
                out.count("search:corpus-file");
                let fails = match entry.as_str() {
                    "invalid" => evaluate_invalid(&c),
                    "budget" => evaluate_budget(&c),
                    "alpha-zero" | "large-scale" => evaluate_returns(&c, &entry, &mut out),
                    _ => evaluate(&c).0,
                };
                record(&mut out, &c, fails, &entry);
                if entry == "fit" {
                    // also through the model (D19 exercises the null step of the line search)
                    let mut c0 = c.clone();
                    c0.shift = 0.0;
                    corr_case(&mut out, &c0, if c0.enet { "enet_fit" } else { "lasso_fit" });
                }
            }
        } else {
            out.count("search:corpus-dir-not-found");
        }
    }
    // ---- the two formerly non-terminating families (both tiers, every run) ----
    {
        // witnesses: alpha = 0 (Lasso and ElasticNet) and the 1e8-scale input of the build round
        let xa = vec![vec![1.0, 2.0], vec![2.0, 0.5], vec![3.0, 1.5], vec![4.0, 3.5], vec![5.0, 2.5]];
        let ya = vec![-2.1, 1.3, -0.4, -1.9, 1.2];
        for &enet in &[false, true] {
            for &normalize in &[false, true] {
                let c = Case { enet, x: xa.clone(), y: ya.clone(), alpha: 0.0, l1_ratio: if enet { 0.5 } else { 1.0 }, normalize, tol: 1e-4, max_iter: 1000, shift: 0.0 };
                out.eval(case_key(&c), true);
                out.count("search:alpha-zero:witness");
                let fails = evaluate_returns(&c, "alpha-zero", &mut out);
                record(&mut out, &c, fails, "alpha-zero");
                corr_case(&mut out, &c, if enet { "enet_fit" } else { "lasso_fit" });
            }
        }
        let xl = vec![vec![1.0, 2.0], vec![2.0, 0.5], vec![3.0, 1.5], vec![4.0, 3.5], vec![5.0, 2.5], vec![6.0, 4.0]];
        let yl: Vec<f64> = [-2.1, 1.3, -0.4, -1.9, 1.2, 2.0].iter().map(|v| v * 1e8).collect();
        let c = Case { enet: false, x: xl, y: yl, alpha: 1e8, l1_ratio: 1.0, normalize: false, tol: 1e-4, max_iter: 1000, shift: 0.0 };
        out.eval(case_key(&c), true);
        out.count("search:large-scale:witness");
        let fails = evaluate_returns(&c, "large-scale", &mut out);
        record(&mut out, &c, fails, "large-scale");
        corr_case(&mut out, &c, "lasso_fit");
        let c = Case { enet: false, x: vec![vec![100.0], vec![200.0], vec![300.0], vec![400.0]], y: vec![1e6, -1e6, 2e6, -1.5e6], alpha: 5.625e7, l1_ratio: 1.0, normalize: false, tol: 1e-4, max_iter: 1000, shift: 0.0 };
        out.eval(case_key(&c), true);
        out.count("search:large-scale:witness");
        let fails = evaluate_returns(&c, "large-scale", &mut out);
        record(&mut out, &c, fails, "large-scale");
        corr_case(&mut out, &c, "lasso_fit");
    }
    // alpha = 0 on random valid data
    for i in 0..(if a.thorough { 400 } else { 60 }) {
        if timeouts() >= MAX_TIMEOUTS {
            out.count("search:skipped-after-8-timeouts");
            continue;
        }
        let enet = i % 2 == 1;
        let mut c = gen_case(&mut rng, 30, 5, enet, false);
        c.alpha = 0.0;
        c.shift = 0.0;
        out.eval(case_key(&c), true);
        out.count(&format!("search:alpha-zero:{}", if enet { "enet" } else { "lasso" }));
        let fails = evaluate_returns(&c, "alpha-zero", &mut out);
        record(&mut out, &c, fails, "alpha-zero");
    }
    // targets at scale 1e6 .. 1e12 x unit, alpha in the quantifier's own range or following the scale, both normalisations
    for i in 0..(if a.thorough { 1500 } else { 200 }) {
        if timeouts() >= MAX_TIMEOUTS {
            out.count("search:skipped-after-8-timeouts");
            continue;
        }
        let enet = i % 2 == 1;
        let mut c = gen_case(&mut rng, 30, 5, enet, false);
        let f = 10f64.powf(rng.uniform(6.0, 12.0));
        for yi in c.y.iter_mut() {
            *yi *= f;
        }
        c.shift = 0.0;
        c.normalize = i % 4 < 2;
        if rng.bool() {
            c.alpha = (c.alpha * f).max(1e-3);
        }
        out.eval(case_key(&c), true);
        out.count(&format!("search:large-scale:{}", if enet { "enet" } else { "lasso" }));
        let fails = evaluate_returns(&c, "large-scale", &mut out);
        record(&mut out, &c, fails, "large-scale");
    }

    // ---- correspondence ----
    // every case = one whole fit whose recorded outer iterations (5..40 each) are re-derived one by one
    // by the model inside Coq; shapes up to 16 x 5 (augmented: 21 x 5)
    let ncorr = if a.thorough { 2500 } else { 600 };
    for i in 0..ncorr {
        let enet = i % 2 == 1;
        let (nmax, pmax) = match i % 5 { 0 => (6, 2), 1 => (9, 3), 2 | 3 => (12, 4), _ => (16, 5) };
        let mut c = gen_case(&mut rng, nmax, pmax, enet, i % 3 == 0);
        c.shift = 0.0;
        if i % 8 == 5 {
            c.max_iter = rng.usize_in(1, 6); // leave through the iteration budget
        }
        if i % 16 == 7 {
            c.alpha = 1e-9; // almost no penalty (alpha = 0 exactly never returns: reported finding, outside the quantifier)
        }
        if i % 32 == 9 {
            let v = *rng.pick(&[0.0, 1.0, -2.5]);
            for yi in c.y.iter_mut() {
                *yi = v; // constant target: first test closes the gap (repair eff8af9)
            }
        }
        corr_case(&mut out, &c, if enet { "enet_fit" } else { "lasso_fit" });
    }
    // invalid settings through the model's validation
    for _ in 0..(if a.thorough { 12 } else { 4 }) {
        for (c, _) in invalid_cases(&mut rng) {
            corr_case(&mut out, &c, if c.enet { "enet_invalid" } else { "lasso_invalid" });
        }
    }

    if timing { eprintln!("[c08 timing] {:.1}s before: // ---- search ----", t_start.elapsed().as_secs_f64()); }
    // ---- search ----
    let nsearch = if a.thorough { 100000 } else { 10000 };
    for i in 0..nsearch {
        let enet = i % 2 == 1;
        let c = gen_case(&mut rng, 60, 6, enet, false);
        search_case(&mut out, &c, "random");
        if i < 3 {
            out.sample(json!({"enet": c.enet, "n": c.x.len(), "p": c.x[0].len(), "alpha": c.alpha, "tol": c.tol, "normalize": c.normalize, "l1_ratio": c.l1_ratio, "shift": c.shift}));
        }
    }
    if timing { eprintln!("[c08 timing] {:.1}s before: // small / boundary shapes", t_start.elapsed().as_secs_f64()); }
    // small / boundary shapes: n = p + 1, p = 1
    for i in 0..(if a.thorough { 6000 } else { 800 }) {
        let enet = i % 2 == 1;
        let mut c = gen_case(&mut rng, 8, 6, enet, i % 4 == 0);
        if i % 3 == 0 {
            let p = c.x[0].len();
            c.x.truncate(p + 1);
            c.y.truncate(p + 1);
        }
        // a column must not have become constant
        let p = c.x[0].len();
        if (0..p).any(|j| c.x.iter().all(|r| r[j] == c.x[0][j])) {
            continue;
        }
        search_case(&mut out, &c, "small");
    }
    if timing { eprintln!("[c08 timing] {:.1}s before: // targets at small and large scales", t_start.elapsed().as_secs_f64()); }
    // targets at small and large scales, 1e-8 .. 1e4 x unit (the objective is homogeneous of degree 2 in y when alpha scales along)
    for i in 0..(if a.thorough { 6000 } else { 600 }) {
        let enet = i % 2 == 1;
        let mut c = gen_case(&mut rng, 40, 6, enet, false);
        // scales above ~1e5 x unit can hang (reported finding: NaN direction + unbounded line search); the
        // family stays where no hang was ever observed so that a NEW hang is a failure
        let f = 10f64.powf(rng.uniform(-8.0, 4.0));
        for yi in c.y.iter_mut() {
            *yi *= f;
        }
        c.shift *= f;
        if rng.bool() {
            c.alpha = (c.alpha * f).max(1e-3); // same regime as before the scaling
        }
        search_case(&mut out, &c, "y-scale");
    }
    if timing { eprintln!("[c08 timing] {:.1}s before: // constant targets (repaired", t_start.elapsed().as_secs_f64()); }
    // constant targets (repaired defect eff8af9: Err("tolerance shoud be > 0") for a generic alpha, a hang when
    // n*alpha is a power of two below 1): the optimum is w = 0, intercept = mean(y)
    for i in 0..(if a.thorough { 600 } else { 120 }) {
        let enet = i % 2 == 1;
        let mut c = gen_case(&mut rng, 12, 3, enet, false);
        let v = *rng.pick(&[0.0, 1.0, 15.5625, -3.0]);
        for yi in c.y.iter_mut() {
            *yi = v;
        }
        c.shift = 0.0;
        if i % 3 == 0 {
            c.alpha = 0.25 / c.x.len() as f64;
        }
        c.shift = if i % 4 == 0 { 10.0 } else { 0.0 };
        search_case(&mut out, &c, "constant-target");
    }
    if timing { eprintln!("[c08 timing] {:.1}s before: // lattice data:", t_start.elapsed().as_secs_f64()); }
    // lattice data: p in {1,2}, small integer entries (all of X^T X, X^T y exact), penalty grid through the whole path
    for i in 0..(if a.thorough { 12000 } else { 1500 }) {
        let p = rng.usize_in(1, 2);
        let n = rng.usize_in(p + 1, 5);
        let x: Vec<Vec<f64>> = (0..n).map(|_| (0..p).map(|_| rng.int(-3, 3) as f64).collect()).collect();
        if (0..p).any(|j| x.iter().all(|r| r[j] == x[0][j])) {
            continue;
        }
        // moderately conditioned: skip (near-)collinear pairs
        if p == 2 {
            let m0 = mean(&x.iter().map(|r| r[0]).collect::<Vec<_>>());
            let m1 = mean(&x.iter().map(|r| r[1]).collect::<Vec<_>>());
            let (mut s00, mut s11, mut s01) = (0.0, 0.0, 0.0);
            for r in &x {
                s00 += (r[0] - m0) * (r[0] - m0);
                s11 += (r[1] - m1) * (r[1] - m1);
                s01 += (r[0] - m0) * (r[1] - m1);
            }
            let raw = {
                let (a, b, c2) = (x.iter().map(|r| r[0] * r[0]).sum::<f64>(), x.iter().map(|r| r[1] * r[1]).sum::<f64>(), x.iter().map(|r| r[0] * r[1]).sum::<f64>());
                c2 * c2 / (a * b)
            };
            if s01 * s01 > 0.9 * s00 * s11 || raw > 0.9 {
                out.count("search:lattice:skipped-collinear");
                continue;
            }
        }
        let y: Vec<f64> = (0..n).map(|_| rng.int(-4, 4) as f64).collect();
        let enet = i % 2 == 1;
        let c = Case {
            enet,
            x,
            y,
            alpha: *rng.pick(&[1e-3, 0.01, 0.1, 0.25, 0.5, 1.0, 2.0, 5.0, 20.0]),
            l1_ratio: if enet { *rng.pick(&[1.0, 0.5, 0.1]) } else { 1.0 },
            normalize: rng.bool(),
            tol: *rng.pick(&[1e-3, 1e-4, 1e-6]),
            max_iter: 1000,
            shift: *rng.pick(&[0.0, 0.0, 3.0, -100.0]),
        };
        search_case(&mut out, &c, "lattice");
    }
    if timing { eprintln!("[c08 timing] {:.1}s before: // correlated columns", t_start.elapsed().as_secs_f64()); }
    // correlated columns (still moderately conditioned: pairwise correlation pushed up to ~0.9)
    for i in 0..(if a.thorough { 6000 } else { 600 }) {
        let enet = i % 2 == 1;
        let mut c = gen_case(&mut rng, 40, 6, enet, false);
        let p = c.x[0].len();
        if p < 2 {
            continue;
        }
        let n = c.x.len();
        let col0: Vec<f64> = c.x.iter().map(|r| r[0]).collect();
        let m0 = mean(&col0);
        let s0 = (col0.iter().map(|v| (v - m0) * (v - m0)).sum::<f64>() / n as f64).sqrt();
        for j in 1..p {
            let cj: Vec<f64> = c.x.iter().map(|r| r[j]).collect();
            let mj = mean(&cj);
            let sj = (cj.iter().map(|v| (v - mj) * (v - mj)).sum::<f64>() / n as f64).sqrt();
            let k = rng.uniform(0.5, 2.0) * if rng.bool() { 1.0 } else { -1.0 };
            for r in 0..n {
                c.x[r][j] += k * sj / s0 * (c.x[r][0] - m0);
            }
        }
        // the penalty regime was drawn for the old design: redraw it relative to the new alpha_max
        let amax = reference(&c, &c.y).alpha_max.max(2e-3);
        c.alpha = (1e-3f64.ln() + rng.unit() * ((1.5 * amax).ln() - 1e-3f64.ln())).exp();
        search_case(&mut out, &c, "correlated");
    }
    if timing { eprintln!("[c08 timing] {:.1}s before: // default parameters of", t_start.elapsed().as_secs_f64()); }
    // default parameters of the two estimators on random data
    for i in 0..(if a.thorough { 3000 } else { 300 }) {
        let enet = i % 2 == 1;
        let mut c = gen_case(&mut rng, 60, 6, enet, false);
        c.alpha = 1.0;
        c.l1_ratio = if enet { 0.5 } else { 1.0 };
        c.normalize = true;
        c.tol = 1e-4;
        c.max_iter = 1000;
        search_case(&mut out, &c, "defaults");
    }
    if timing { eprintln!("[c08 timing] {:.1}s before: // Longley (the data", t_start.elapsed().as_secs_f64()); }
    // Longley (the data of the unit tests), penalty grid, both estimators, both normalisation settings
    {
        let x = vec![
            vec![234.289, 235.6, 159.0, 107.608, 1947., 60.323], vec![259.426, 232.5, 145.6, 108.632, 1948., 61.122],
            vec![258.054, 368.2, 161.6, 109.773, 1949., 60.171], vec![284.599, 335.1, 165.0, 110.929, 1950., 61.187],
            vec![328.975, 209.9, 309.9, 112.075, 1951., 63.221], vec![346.999, 193.2, 359.4, 113.270, 1952., 63.639],
            vec![365.385, 187.0, 354.7, 115.094, 1953., 64.989], vec![363.112, 357.8, 335.0, 116.219, 1954., 63.761],
            vec![397.469, 290.4, 304.8, 117.388, 1955., 66.019], vec![419.180, 282.2, 285.7, 118.734, 1956., 67.857],
            vec![442.769, 293.6, 279.8, 120.445, 1957., 68.169], vec![444.546, 468.1, 263.7, 121.950, 1958., 66.513],
            vec![482.704, 381.3, 255.2, 123.366, 1959., 68.655], vec![502.601, 393.1, 251.4, 125.368, 1960., 69.564],
            vec![518.173, 480.6, 257.2, 127.852, 1961., 69.331], vec![554.894, 400.7, 282.7, 130.081, 1962., 70.551],
        ];
        let y = vec![83.0, 88.5, 88.2, 89.5, 96.2, 98.1, 99.0, 100.0, 101.2, 104.6, 108.4, 110.8, 112.6, 114.2, 115.7, 116.9];
        // normalize = true only: the raw Longley columns are collinear far beyond "moderately conditioned"
        for &alpha in &[1e-3, 0.01, 0.1, 0.5, 1.0, 3.0, 10.0] {
            for &enet in &[false, true] {
                for &tol in &[1e-3, 1e-4, 1e-6] {
                    let c = Case { enet, x: x.clone(), y: y.clone(), alpha, l1_ratio: if enet { 0.5 } else { 1.0 }, normalize: true, tol, max_iter: 1000, shift: if enet { 1000.0 } else { 0.0 } };
                    search_case(&mut out, &c, "longley");
                }
            }
        }
    }
    if timing { eprintln!("[c08 timing] {:.1}s before: // small iteration budgets on valid", t_start.elapsed().as_secs_f64()); }
    // small iteration budgets on valid settings: Ok, finite, consistent, budget respected
    for i in 0..(if a.thorough { 6000 } else { 600 }) {
        if timeouts() >= MAX_TIMEOUTS {
            out.count("search:skipped-after-8-timeouts");
            continue;
        }
        let enet = i % 2 == 1;
        let mut c = gen_case(&mut rng, 30, 6, enet, false);
        c.shift = 0.0;
        c.max_iter = rng.usize_in(1, 12);
        out.eval(case_key(&c), true);
        out.count("search:budget");
        let fails = evaluate_budget(&c);
        record(&mut out, &c, fails, "budget");
    }
    if timing { eprintln!("[c08 timing] {:.1}s before: // invalid settings", t_start.elapsed().as_secs_f64()); }
    // invalid settings
    for _ in 0..(if a.thorough { 1500 } else { 250 }) {
        for (c, what) in invalid_cases(&mut rng) {
            if timeouts() >= MAX_TIMEOUTS {
                out.count("search:skipped-after-8-timeouts");
                continue;
            }
            out.eval(case_key(&c), true);
            out.count(&format!("search:invalid:{}", what));
            let fails = evaluate_invalid(&c);
            record(&mut out, &c, fails, "invalid");
        }
    }
    // ---- api-trait twins (last: the streams of the sections above are unchanged) ----
    for i in 0..(if a.thorough { 600 } else { 80 }) {
        let c = gen_case(&mut rng, 30, 6, i % 2 == 1, false);
        check_twin(&mut out, &c, "random");
    }
    for _ in 0..(if a.thorough { 10 } else { 2 }) {
        for (c, _) in invalid_cases(&mut rng) {
            check_twin(&mut out, &c, "invalid-settings");
        }
    }
    out.set("near_optimal_evidence", json!({
        "fits_certified_by_dual_bound": CERTIFIED.load(std::sync::atomic::Ordering::SeqCst),
        "fits_neither_certified_nor_refuted": INCONCLUSIVE.load(std::sync::atomic::Ordering::SeqCst),
        "rule": "fail iff objective(returned w) > (1 + 2 tol) * objective(independent coordinate-descent point) + 1e-9|yc|^2; certified iff objective(returned w) <= (1 + 2 tol) * max(dual bound seeded by the reference, dual bound seeded by the returned w) + 1e-9|yc|^2"
    }));
    for _ in 0..INCONCLUSIVE.load(std::sync::atomic::Ordering::SeqCst) {
        out.count("search:near-optimal:neither-certified-nor-refuted");
    }
    if timing { eprintln!("[c08 timing] {:.1}s end", t_start.elapsed().as_secs_f64()); }
    out.finish(&a.out);
}
