//! C04 — nearest-neighbour search (LinearKNNSearch, CoverTree, HeapSelection) and the k-NN
//! estimators: correspondence cases for the Coq model (SC.C04.Corr; the cover-tree searches are
//! run by the model on the implementation's own serde-dumped tree and the well-formedness
//! hypothesis of the exactness theorems is evaluated on that tree; the construction model must
//! rebuild that tree node for node, with the private scale functions observed through cfg hooks) and
//! the failing-input search (brute-force oracles written from the property text).
use serde::{Deserialize, Serialize};
use serde_json::{json, Value};
use smartcore::algorithm::neighbour::cover_tree::CoverTree;
use smartcore::algorithm::neighbour::linear_search::LinearKNNSearch;
use smartcore::algorithm::neighbour::KNNAlgorithmName;
use smartcore::algorithm::sort::heap_select::HeapSelection;
use smartcore::math::distance::{Distance, Distances};
use smartcore::neighbors::knn_classifier::{KNNClassifier, KNNClassifierParameters};
use smartcore::neighbors::knn_regressor::{KNNRegressor, KNNRegressorParameters};
use smartcore::neighbors::KNNWeightFunction;
use vharness::*;

// ------------------------------------------------------------------------------------------
// metrics: one enum that delegates to the implementation's metrics (so one search-structure type)
// ------------------------------------------------------------------------------------------
#[derive(Clone, Debug, Serialize, Deserialize, PartialEq)]
enum Met {
    E,
    M,
    K(u16),
    H,
}
impl Distance<Vec<f64>, f64> for Met {
    fn distance(&self, a: &Vec<f64>, b: &Vec<f64>) -> f64 {
        match self {
            Met::E => Distances::euclidian().distance(a, b),
            Met::M => Distances::manhattan().distance(a, b),
            Met::K(p) => Distances::minkowski(*p).distance(a, b),
            Met::H => Distance::<Vec<f64>, f64>::distance(&Distances::hamming(), a, b),
        }
    }
}
impl Met {
    fn name(&self) -> String {
        match self {
            Met::E => "euclid".into(),
            Met::M => "manhattan".into(),
            Met::K(p) => format!("minkowski{}", p),
            Met::H => "hamming".into(),
        }
    }
    fn from_name(s: &str) -> Met {
        match s {
            "euclid" => Met::E,
            "manhattan" => Met::M,
            "hamming" => Met::H,
            _ => Met::K(s.trim_start_matches("minkowski").parse().unwrap_or(3)),
        }
    }
    fn exact(&self) -> bool {
        !matches!(self, Met::K(_))
    }
}
/// The metric by its definition (oracle side; independent of the implementation's code).
fn odist(m: &Met, a: &[f64], b: &[f64]) -> f64 {
    match m {
        Met::E => {
            let mut s = 0.0;
            for i in 0..a.len() {
                s += (a[i] - b[i]) * (a[i] - b[i]);
            }
            s.sqrt()
        }
        Met::M => {
            let mut s = 0.0;
            for i in 0..a.len() {
                s += (a[i] - b[i]).abs();
            }
            s
        }
        Met::K(p) => {
            let mut s = 0.0;
            for i in 0..a.len() {
                s += (a[i] - b[i]).abs().powf(*p as f64);
            }
            s.powf(1.0 / (*p as f64))
        }
        Met::H => a.iter().zip(b.iter()).filter(|(x, y)| x != y).count() as f64 / a.len() as f64,
    }
}
fn close(m: &Met, a: f64, b: f64) -> bool {
    if m.exact() {
        a == b
    } else {
        (a - b).abs() <= 1e-12 * a.abs().max(b.abs()).max(1.0)
    }
}


/// Cases in which every distance and every sum `bound + max_dist` the cover tree forms is computed
/// without rounding (so the triangle inequality holds for the floats exactly): Manhattan on small
/// dyadic coordinates, and Euclid on the 3x3 lattice with the query on the lattice (all collinear
/// triples there have distances s, s, 2s).  Elsewhere the cover tree's pruning test
/// `d <= bound + max_dist` is exact only up to rounding: points within a relative margin of the
/// bound are excluded from the oracle (and counted).
fn exact_arith(m: &Met, data: &[Vec<f64>], q: &[f64], fam: &str) -> bool {
    if std::env::var("C04_STRICT").is_ok() {
        return true;
    }
    let dyadic = |x: &f64| x.abs() <= 64.0 && (x * 16.0).fract() == 0.0;
    match m {
        Met::M => data.iter().flatten().all(dyadic) && q.iter().all(dyadic),
        Met::E => fam == "exhaustive" && q.iter().all(|x| *x == 0.0 || *x == 1.0 || *x == 2.0),
        _ => false,
    }
}
const MARGIN: f64 = 1e-12;

type Res = Vec<(usize, f64, Vec<f64>)>;
fn own(r: Vec<(usize, f64, &Vec<f64>)>) -> Res {
    r.into_iter().map(|(i, d, p)| (i, d, p.clone())).collect()
}

struct Built {
    cover: CoverTree<Vec<f64>, f64, Met>,
    linear: LinearKNNSearch<Vec<f64>, f64, Met>,
    /// the largest `max_dist` of any node of the cover tree (serde dump): bounds the `max_dist` of whichever
    /// node a query pruned, for the margin of the known finding covertree-radius-boundary-rounding
    maxmd: f64,
}
fn tree_max_dist(v: &Value) -> f64 {
    let own = v["max_dist"].as_f64().unwrap_or(0.0);
    v["children"].as_array().map(|a| a.iter().map(tree_max_dist).fold(own, f64::max)).unwrap_or(own)
}
fn ulp(x: f64) -> f64 {
    let x = x.abs();
    if !x.is_finite() {
        return f64::INFINITY;
    }
    f64::from_bits(x.to_bits() + 1) - x
}
/// KNOWN_FINDINGS covertree-radius-boundary-rounding: the cover tree's pruning test `d <= r + max_dist` is
/// evaluated in floating point, so a point ON the boundary (|d - r| <= 8 ulp of the pruning sum) can be
/// omitted.  `maxmd` over-approximates the pruned node's max_dist by the largest one in the tree.
const KNOWN_BOUNDARY: &str = "covertree-radius-boundary-rounding";
fn boundary_margin(r: f64, maxmd: f64) -> f64 {
    8.0 * ulp(r + maxmd)
}
fn build(m: &Met, data: &[Vec<f64>]) -> Result<Built, String> {
    let d1 = data.to_vec();
    let d2 = data.to_vec();
    let (m1, m2) = (m.clone(), m.clone());
    guard(move || {
        let c = CoverTree::new(d1, m1);
        let l = LinearKNNSearch::new(d2, m2);
        (c, l)
    })
    .and_then(|(c, l)| match (c, l) {
        (Ok(c), Ok(l)) => {
            let maxmd = serde_json::to_value(&c).map(|v| tree_max_dist(&v["root"])).unwrap_or(f64::INFINITY);
            Ok(Built { cover: c, linear: l, maxmd })
        }
        _ => Err("constructor returned Err".to_string()),
    })
}
/// Ok(Some(result)) | Ok(None) = Err(..) returned | Err(msg) = panic
fn do_find(b: &Built, cover: bool, q: &Vec<f64>, k: usize) -> Result<Option<Res>, String> {
    guard(|| if cover { b.cover.find(q, k).ok().map(own) } else { b.linear.find(q, k).ok().map(own) })
}
fn do_radius(b: &Built, cover: bool, q: &Vec<f64>, r: f64) -> Result<Option<Res>, String> {
    guard(|| if cover { b.cover.find_radius(q, r).ok().map(own) } else { b.linear.find_radius(q, r).ok().map(own) })
}
fn algo_name(cover: bool) -> &'static str {
    if cover { "cover" } else { "linear" }
}

// ------------------------------------------------------------------------------------------
// oracles (from the property text)
// ------------------------------------------------------------------------------------------
fn key_of(data: &[Vec<f64>], q: &[f64], extra: &[f64]) -> u64 {
    let mut v: Vec<f64> = data.iter().flatten().cloned().collect();
    v.extend_from_slice(q);
    v.extend_from_slice(extra);
    hash_f64s(&v)
}

/// k-NN query: exactly k entries, distinct true indices, true distances and points, and the
/// distances are the k smallest (compared as sorted multisets).  k = 0 and k > n must be Err.
fn check_find(out: &mut Out, m: &Met, data: &[Vec<f64>], b: &Built, cover: bool, q: &Vec<f64>, k: usize, fam: &str) {
    let n = data.len();
    let input = json!({"entry": "find", "metric": m.name(), "data": data, "q": q, "k": k, "algo": algo_name(cover), "family": fam});
    out.eval(key_of(data, q, &[k as f64, cover as u8 as f64]), n >= 3 && k >= 1 && k < n);
    let oracle = if cover { "cover_find_exact" } else { "linear_find_exact" };
    let r = do_find(b, cover, q, k);
    if k == 0 || k > n {
        match r {
            Ok(None) => {}
            Ok(Some(_)) => out.fail("param_errors", "find with k = 0 or k > n returned Ok", input),
            Err(e) => out.fail("param_errors", &format!("find with k = 0 or k > n panicked: {}", e), input),
        }
        return;
    }
    let res = match r {
        Err(e) => return out.fail(oracle, &format!("find panicked: {}", e), input),
        Ok(None) => return out.fail(oracle, "find returned Err for 1 <= k <= n", input),
        Ok(Some(r)) => r,
    };
    let mut all: Vec<f64> = data.iter().map(|p| odist(m, p, q)).collect();
    if res.len() != k {
        let mut w = input.clone();
        w["got_len"] = json!(res.len());
        return out.fail(oracle, "result does not have exactly k entries", w);
    }
    let mut seen = vec![false; n];
    for (i, d, p) in &res {
        if *i >= n || seen[*i] {
            return out.fail(oracle, "index out of range or repeated", input);
        }
        seen[*i] = true;
        if !close(m, *d, all[*i]) || p != &data[*i] {
            let mut w = input.clone();
            w["entry_idx"] = json!(i);
            w["entry_dist"] = json!(d);
            w["true_dist"] = json!(all[*i]);
            return out.fail(oracle, "entry does not carry its true distance / point", w);
        }
    }
    let mut got: Vec<f64> = res.iter().map(|e| e.1).collect();
    got.sort_by(|a, b| a.partial_cmp(b).unwrap());
    all.sort_by(|a, b| a.partial_cmp(b).unwrap());
    let scale = all[n - 1].max(1.0);
    let loose = cover && !exact_arith(m, data, q, fam);
    for j in 0..k {
        let same = if loose { (got[j] - all[j]).abs() <= MARGIN * scale } else { close(m, got[j], all[j]) };
        if same && got[j] != all[j] && m.exact() {
            out.count("observed:cover-find-neighbour-substituted-within-rounding-margin");
        }
        if !same {
            let mut w = input.clone();
            w["got_sorted"] = json!(got);
            w["expected_sorted"] = json!(all[..k].to_vec());
            return out.fail(oracle, "returned distances are not the k smallest", w);
        }
    }
}

/// radius query: exactly the points with distance <= r; r <= 0 must be Err.
fn check_radius(out: &mut Out, m: &Met, data: &[Vec<f64>], b: &Built, cover: bool, q: &Vec<f64>, r: f64, fam: &str) {
    let n = data.len();
    let input = json!({"entry": "radius", "metric": m.name(), "data": data, "q": q, "r": r, "algo": algo_name(cover), "family": fam});
    out.eval(key_of(data, q, &[r, 2.0 + cover as u8 as f64]), n >= 3 && r > 0.0);
    let oracle = if cover { "cover_radius_exact" } else { "linear_radius_exact" };
    let res = do_radius(b, cover, q, r);
    if !(r > 0.0) {
        match res {
            Ok(None) => {}
            Ok(Some(_)) => out.fail("param_errors", "find_radius with r <= 0 returned Ok", input),
            Err(e) => out.fail("param_errors", &format!("find_radius with r <= 0 panicked: {}", e), input),
        }
        return;
    }
    let res = match res {
        Err(e) => return out.fail(oracle, &format!("find_radius panicked: {}", e), input),
        Ok(None) => return out.fail(oracle, "find_radius returned Err for r > 0", input),
        Ok(Some(r)) => r,
    };
    let all: Vec<f64> = data.iter().map(|p| odist(m, p, q)).collect();
    let mut seen = vec![false; n];
    for (i, d, p) in &res {
        if *i >= n || seen[*i] {
            return out.fail(oracle, "index out of range or repeated", input);
        }
        seen[*i] = true;
        if !close(m, *d, all[*i]) || p != &data[*i] {
            return out.fail(oracle, "entry does not carry its true distance / point", input);
        }
    }
    // The exhaustive scan must be exact.  For the cover tree the only tolerated deviation is the known
    // finding: a point ON the boundary (within 8 ulp of the pruning sum) that the exhaustive scan returns
    // is omitted; it is routed to the known id and counted.  Where the arithmetic is provably exact
    // (`exact_arith`) nothing is tolerated.  Minkowski: the oracle's own distance (powf) is uncertain
    // within MARGIN, such points are excluded (and counted) unless they are an instance of the finding.
    let loose = cover && !exact_arith(m, data, q, fam);
    let margin = boundary_margin(r, b.maxmd);
    let mut linear_has: Option<Vec<bool>> = None;
    for i in 0..n {
        let inside = all[i] <= r;
        let oracle_unsure = !m.exact() && (all[i] - r).abs() <= MARGIN * r.max(1.0);
        if inside == seen[i] && !oracle_unsure {
            continue;
        }
        if loose && !seen[i] {
            // candidate for the known finding: on the boundary by the implementation's own distance, and
            // returned by the exhaustive scan
            let d_impl = m.distance(&data[i], q);
            if d_impl <= r && (d_impl - r).abs() <= margin {
                if linear_has.is_none() {
                    let mut v = vec![false; n];
                    if let Ok(Some(lr)) = do_radius(b, false, q, r) {
                        for (j, _, _) in &lr {
                            if *j < n {
                                v[*j] = true;
                            }
                        }
                    }
                    linear_has = Some(v);
                }
                if linear_has.as_ref().map(|v| v[i]).unwrap_or(false) {
                    out.known(KNOWN_BOUNDARY, "CoverTree::find_radius omitted a point whose distance equals the radius up to rounding of the pruning sum (the exhaustive scan returns it)");
                    out.count("known:cover-radius-boundary-omission");
                    out.count(&format!("known:cover-radius-boundary-omission:{}", if d_impl == r { "d==r" } else { "d<r-within-8ulp" }));
                    out.count(&format!("known:cover-radius-boundary-omission:family={}", fam));
                    continue;
                }
            }
        }
        if oracle_unsure {
            out.count("search:excluded-near-tie");
            continue;
        }
        let mut w = input.clone();
        w["point"] = json!(i);
        w["dist"] = json!(all[i]);
        w["returned"] = json!(seen[i]);
        w["boundary_margin"] = json!(margin);
        return out.fail(oracle, "radius result is not exactly the points with distance <= r", w);
    }
}

fn combos(n: usize, r: usize, limit: usize) -> Option<Vec<Vec<usize>>> {
    // all r-subsets of 0..n, or None if more than `limit`
    let mut count: f64 = 1.0;
    for i in 0..r {
        count = count * (n - i) as f64 / (i + 1) as f64;
    }
    if count > limit as f64 {
        return None;
    }
    let mut res = vec![];
    let mut cur: Vec<usize> = (0..r).collect();
    if r > n {
        return Some(res);
    }
    loop {
        res.push(cur.clone());
        let mut i = r;
        loop {
            if i == 0 {
                return Some(res);
            }
            i -= 1;
            if cur[i] != i + n - r {
                break;
            }
        }
        cur[i] += 1;
        for j in i + 1..r {
            cur[j] = cur[j - 1] + 1;
        }
    }
}

/// All k-nearest index sets of the query (ties at the k-th distance give several), or None if
/// there are too many to enumerate.
fn knn_sets(m: &Met, data: &[Vec<f64>], q: &[f64], k: usize) -> Option<(Vec<Vec<usize>>, Vec<f64>)> {
    let ds: Vec<f64> = data.iter().map(|p| odist(m, p, q)).collect();
    let mut sorted = ds.clone();
    sorted.sort_by(|a, b| a.partial_cmp(b).unwrap());
    let dk = sorted[k - 1];
    let tol = 1e-12 * dk.abs().max(1.0);
    let mandatory: Vec<usize> = (0..ds.len()).filter(|&i| ds[i] < dk - tol).collect();
    let ties: Vec<usize> = (0..ds.len()).filter(|&i| ds[i] >= dk - tol && ds[i] <= dk + tol).collect();
    let need = k - mandatory.len();
    let cs = combos(ties.len(), need, 3000)?;
    Some((
        cs.into_iter()
            .map(|c| {
                let mut s = mandatory.clone();
                s.extend(c.into_iter().map(|j| ties[j]));
                s
            })
            .collect(),
        ds,
    ))
}
fn weights_of(distance_w: bool, ds: &[f64]) -> Vec<f64> {
    if !distance_w {
        vec![1.0; ds.len()]
    } else if ds.iter().any(|d| *d == 0.0) {
        ds.iter().map(|d| if *d == 0.0 { 1.0 } else { 0.0 }).collect()
    } else {
        ds.iter().map(|d| 1.0 / d).collect()
    }
}

#[derive(Clone)]
struct EstCase {
    m: Met,
    data: Vec<Vec<f64>>,
    y: Vec<f64>,
    k: usize,
    cover: bool,
    distance_w: bool,
    queries: Vec<Vec<f64>>,
    clf: bool,
    fam: String,
}
impl EstCase {
    fn json(&self) -> Value {
        json!({"entry": if self.clf { "clf" } else { "reg" }, "metric": self.m.name(), "data": self.data, "y": self.y, "k": self.k,
               "algo": algo_name(self.cover), "weight": if self.distance_w { "distance" } else { "uniform" }, "queries": self.queries, "family": self.fam})
    }
    fn algo(&self) -> KNNAlgorithmName {
        if self.cover { KNNAlgorithmName::CoverTree } else { KNNAlgorithmName::LinearSearch }
    }
    fn weight(&self) -> KNNWeightFunction {
        if self.distance_w { KNNWeightFunction::Distance } else { KNNWeightFunction::Uniform }
    }
    /// fit + predict through the implementation: Err(panic) | Ok(None)=fit Err | Ok(Some((state, None)))=predict Err
    fn run(&self) -> Result<Option<(Value, Option<Vec<f64>>)>, String> {
        let c = self.clone();
        guard(move || {
            let x = dense(&c.data);
            let xq = dense(&c.queries);
            if c.clf {
                // documented defaults (k = 3, CoverTree, Uniform) are relied upon, not restated: a setter is
                // called only where the case differs from the documented default value
                let mut p = KNNClassifierParameters::default().with_distance(c.m.clone());
                if c.k != 3 { p = p.with_k(c.k); }
                if !c.cover { p = p.with_algorithm(c.algo()); }
                if c.distance_w { p = p.with_weight(c.weight()); }
                match KNNClassifier::fit(&x, &c.y, p) {
                    Err(_) => None,
                    Ok(knn) => Some((serde_json::to_value(&knn).unwrap_or(Value::Null), knn.predict(&xq).ok())),
                }
            } else {
                let mut p = KNNRegressorParameters::default().with_distance(c.m.clone());
                if c.k != 3 { p = p.with_k(c.k); }
                if !c.cover { p = p.with_algorithm(c.algo()); }
                if c.distance_w { p = p.with_weight(c.weight()); }
                match KNNRegressor::fit(&x, &c.y, p) {
                    Err(_) => None,
                    Ok(knn) => Some((serde_json::to_value(&knn).unwrap_or(Value::Null), knn.predict(&xq).ok())),
                }
            }
        })
    }
}

/// estimator oracle: each prediction is the (weighted) plurality class / weighted mean over SOME
/// k-nearest set of the query row; errors for k out of range.
fn check_est(out: &mut Out, c: &EstCase) -> Option<(Value, Option<Vec<f64>>)> {
    let n = c.data.len();
    let input = c.json();
    let mut kd: Vec<f64> = c.y.clone();
    kd.extend(c.queries.iter().flatten());
    kd.extend_from_slice(&[c.k as f64, c.cover as u8 as f64, c.distance_w as u8 as f64, c.clf as u8 as f64]);
    out.eval(key_of(&c.data, &kd, &[]), n >= 3 && c.k < n);
    let oracle = if c.clf { "knn_classifier_vote" } else { "knn_regressor_mean" };
    let r = match c.run() {
        Err(e) => {
            out.fail(oracle, &format!("fit/predict panicked: {}", e), input);
            return None;
        }
        Ok(r) => r,
    };
    let kmin = if c.clf { 2 } else { 1 };
    if c.k < kmin {
        if r.is_some() {
            out.fail("param_errors", "fit accepted k below the minimum", input);
        }
        return r;
    }
    let (state, preds) = match r {
        None => {
            out.fail(oracle, "fit returned Err for admissible parameters", input);
            return None;
        }
        Some(x) => x,
    };
    if c.k > n {
        if preds.is_some() {
            out.fail("param_errors", "predict with k > n returned Ok", input);
        }
        return Some((state, preds));
    }
    let preds_v = match &preds {
        None => {
            out.fail(oracle, "predict returned Err for 1 <= k <= n", input);
            return Some((state, preds));
        }
        Some(p) => p.clone(),
    };
    if preds_v.len() != c.queries.len() {
        out.fail(oracle, "wrong number of predictions", input);
        return Some((state, preds));
    }
    let mut classes: Vec<f64> = c.y.clone();
    classes.sort_by(|a, b| a.partial_cmp(b).unwrap());
    classes.dedup();
    for (qi, q) in c.queries.iter().enumerate() {
        let (sets, ds) = match knn_sets(&c.m, &c.data, q, c.k) {
            None => {
                out.count("search:excluded-too-many-tied-sets");
                continue;
            }
            Some(x) => x,
        };
        let mut ok = false;
        let mut expected: Vec<f64> = vec![];
        for s in &sets {
            let sd: Vec<f64> = s.iter().map(|&i| ds[i]).collect();
            let w = weights_of(c.distance_w, &sd);
            let wsum: f64 = w.iter().sum();
            if c.clf {
                let score: Vec<f64> = classes.iter().map(|cl| s.iter().zip(w.iter()).filter(|(i, _)| c.y[**i] == *cl).map(|(_, w)| *w / wsum).sum()).collect();
                let mx = score.iter().cloned().fold(f64::NEG_INFINITY, f64::max);
                for (ci, cl) in classes.iter().enumerate() {
                    if score[ci] >= mx - 1e-9 * mx.abs().max(1.0) {
                        expected.push(*cl);
                        if *cl == preds_v[qi] {
                            ok = true;
                        }
                    }
                }
            } else {
                let mean: f64 = s.iter().zip(w.iter()).map(|(i, w)| c.y[*i] * *w).sum::<f64>() / wsum;
                let scale = c.y.iter().fold(1.0f64, |a, b| a.max(b.abs()));
                expected.push(mean);
                if (mean - preds_v[qi]).abs() <= 1e-9 * scale {
                    ok = true;
                }
            }
            if ok {
                break;
            }
        }
        if !ok {
            let mut w = input.clone();
            w["query_row"] = json!(qi);
            w["got"] = json!(preds_v[qi]);
            expected.truncate(6);
            w["acceptable"] = json!(expected);
            out.fail(oracle, "prediction is not the weighted plurality class / weighted mean over any k-nearest set", w);
            return Some((state, preds));
        }
    }
    Some((state, preds))
}

// ------------------------------------------------------------------------------------------
// api_trait_twin: fit / predict through `smartcore::api::{SupervisedEstimator, Predictor}` give exactly
// what the inherent methods give (training matrix and query rows, model fitted either way)
// ------------------------------------------------------------------------------------------
fn twin_est(c: &EstCase) -> Option<twin::Diff> {
    type DM = smartcore::linalg::naive::dense_matrix::DenseMatrix<f64>;
    if c.data.is_empty() || c.data[0].is_empty() || c.queries.is_empty() {
        return None;
    }
    let x = dense(&c.data);
    let xq = dense(&c.queries);
    let y = c.y.clone();
    let probes = [("the training matrix", &x), ("the query rows", &xq)];
    macro_rules! run {
        ($ty:ty, $p:expr) => {{
            let p = $p;
            twin::check(
                "SupervisedEstimator",
                "Predictor",
                "predict",
                || twin::fit_sup::<$ty, _, _, _>(&x, &y, p.clone()),
                || <$ty>::fit(&x, &y, p.clone()),
                |m: &$ty, z: &DM| twin::predict(m, z),
                |m: &$ty, z: &DM| m.predict(z),
                &probes,
                |m: &$ty| serde_json::to_string(m).unwrap_or_default(),
                true,
            )
        }};
    }
    if c.clf {
        run!(KNNClassifier<f64, Met>, KNNClassifierParameters::default().with_k(c.k).with_algorithm(c.algo()).with_weight(c.weight()).with_distance(c.m.clone()))
    } else {
        run!(KNNRegressor<f64, Met>, KNNRegressorParameters::default().with_k(c.k).with_algorithm(c.algo()).with_weight(c.weight()).with_distance(c.m.clone()))
    }
}

fn check_twin(out: &mut Out, c: &EstCase) {
    let mut kd: Vec<f64> = c.y.clone();
    kd.extend(c.queries.iter().flatten());
    kd.extend_from_slice(&[c.k as f64, c.cover as u8 as f64, c.distance_w as u8 as f64, c.clf as u8 as f64, -7.0]);
    out.eval(key_of(&c.data, &kd, &[]), c.data.len() >= 3 && c.k < c.data.len());
    out.count(&format!("twin:{}:{}:{}", if c.clf { "clf" } else { "reg" }, algo_name(c.cover), if c.distance_w { "distance" } else { "uniform" }));
    if twin_est(c).is_none() {
        return;
    }
    // shrink: fewer query rows, fewer training rows
    let mut cur = c.clone();
    let mut progress = true;
    while progress {
        progress = false;
        let mut i = 0;
        while cur.queries.len() > 1 && i < cur.queries.len() {
            let mut t = cur.clone();
            t.queries.remove(i);
            if twin_est(&t).is_some() { cur = t; progress = true; } else { i += 1; }
        }
        let mut i = 0;
        while cur.data.len() > 1 && i < cur.data.len() {
            let mut t = cur.clone();
            t.data.remove(i);
            t.y.remove(i);
            if twin_est(&t).is_some() { cur = t; progress = true; } else { i += 1; }
        }
    }
    if let Some(d) = twin_est(&cur) {
        let mut w = cur.json();
        w["oracle"] = json!(twin::ORACLE);
        w["differing_call"] = json!(d.call);
        out.count(&format!("twin:failing:{}", if c.clf { "KNNClassifier" } else { "KNNRegressor" }));
        out.fail(twin::ORACLE, &format!("{}: {}: {}", if c.clf { "KNNClassifier" } else { "KNNRegressor" }, d.call, d.what), w);
    }
}

// ------------------------------------------------------------------------------------------
// data families
// ------------------------------------------------------------------------------------------
const FAMILIES: [&str; 10] = ["cont", "lattice", "dyadic", "identical", "collinear", "dups", "binary", "clusters", "scales", "scaleulp"];

fn gen_point(rng: &mut Rng, fam: &str, dim: usize) -> Vec<f64> {
    (0..dim)
        .map(|_| match fam {
            "cont" | "clusters" | "scales" => rng.uniform(-10.0, 10.0),
            "lattice" | "identical" | "collinear" | "dups" => rng.int(0, 3) as f64,
            "dyadic" => rng.dyadic(4, 2),
            "binary" => rng.int(0, 1) as f64,
            _ => rng.uniform(-1.0, 1.0),
        })
        .collect()
}
fn gen_data(rng: &mut Rng, fam: &str, n: usize, dim: usize) -> Vec<Vec<f64>> {
    match fam {
        "identical" => {
            let p = gen_point(rng, fam, dim);
            vec![p; n]
        }
        "collinear" => {
            let b = gen_point(rng, fam, dim);
            let mut v: Vec<f64> = (0..dim).map(|_| rng.int(-2, 2) as f64).collect();
            if v.iter().all(|x| *x == 0.0) {
                v[0] = 1.0;
            }
            (0..n)
                .map(|_| {
                    let t = rng.int(-6, 6) as f64;
                    (0..dim).map(|j| b[j] + t * v[j]).collect()
                })
                .collect()
        }
        "dups" => {
            let mut d: Vec<Vec<f64>> = vec![];
            for i in 0..n {
                if i > 0 && rng.chance(0.5) {
                    let j = rng.below(i);
                    let p = d[j].clone();
                    d.push(p);
                } else {
                    let cont = rng.bool();
                    d.push(gen_point(rng, if cont { "cont" } else { "lattice" }, dim));
                }
            }
            d
        }
        "clusters" => {
            let nc = rng.usize_in(1, 4);
            let centres: Vec<Vec<f64>> = (0..nc).map(|_| (0..dim).map(|_| rng.uniform(-100.0, 100.0)).collect()).collect();
            (0..n)
                .map(|_| {
                    let c = rng.pick(&centres).clone();
                    let s = *rng.pick(&[1e-3, 1e-1, 1.0]);
                    c.iter().map(|x| x + s * rng.normal()).collect()
                })
                .collect()
        }
        "scales" => {
            // geometrically spread: distances over many orders of magnitude (deep trees)
            (0..n)
                .map(|i| {
                    let s = 2f64.powi((i % 24) as i32 - 12);
                    (0..dim).map(|_| s * rng.int(-3, 3) as f64).collect()
                })
                .collect()
        }
        "scaleulp" => {
            // distances from data[0] within 2 ulp of a power of the cover tree's base 1.3 (scales -60..25):
            // the rounded logarithm of get_scale sits on the wrong side of the integer there (the defect
            // repaired in e7f605b: the farthest point was dropped from the tree).  data[0] is the origin,
            // the other points lie on the axes / the diagonal at the critical distance and fractions of it.
            let k = rng.int(-60, 25);
            let r = 1.3f64.powf(k as f64);
            let ulps = rng.int(-2, 2);
            let d = f64::from_bits((r.to_bits() as i64 + ulps) as u64);
            let mut pts: Vec<Vec<f64>> = vec![vec![0.0; dim]];
            for i in 1..n {
                let f = *rng.pick(&[1.0, 1.0, 0.5, 0.75, 0.25, -1.0, -0.5]);
                let f = if i == n - 1 { 1.0 } else { f };
                let mut p = vec![0.0; dim];
                if dim > 1 && rng.chance(0.2) {
                    for x in p.iter_mut() {
                        *x = f * d * 0.5;
                    }
                } else {
                    p[rng.below(dim)] = f * d;
                }
                pts.push(p);
            }
            pts
        }
        _ => (0..n).map(|_| gen_point(rng, fam, dim)).collect(),
    }
}
fn gen_query(rng: &mut Rng, fam: &str, data: &[Vec<f64>]) -> Vec<f64> {
    let dim = data[0].len();
    match rng.below(5) {
        0 | 1 => rng.pick(data).clone(),                                   // in-sample
        2 => gen_point(rng, if fam == "identical" { "lattice" } else { fam }, dim),
        3 => {
            // near a data point
            let p = rng.pick(data).clone();
            p.iter().map(|x| x + *rng.pick(&[0.0, 0.5, -0.5, 0.25, 1.0])).collect()
        }
        _ => (0..dim).map(|_| rng.uniform(-30.0, 30.0)).collect(),       // far / out of sample
    }
}
fn gen_metric(rng: &mut Rng, fam: &str) -> Met {
    match rng.below(if fam == "binary" { 5 } else { 4 }) {
        0 => Met::E,
        1 => Met::M,
        2 => Met::K(*rng.pick(&[1u16, 2, 3, 4])),
        3 => {
            if fam == "binary" || fam == "lattice" || fam == "dups" { Met::H } else { Met::E }
        }
        _ => Met::H,
    }
}
fn gen_radii(rng: &mut Rng, m: &Met, data: &[Vec<f64>], q: &Vec<f64>) -> Vec<f64> {
    let ds: Vec<f64> = data.iter().map(|p| odist(m, p, q)).collect();
    let mut rs = vec![];
    // exactly a realised distance (boundary point must be included), midpoints, tiny, huge
    let d = *rng.pick(&ds);
    if d > 0.0 {
        rs.push(d);
    }
    let d2 = *rng.pick(&ds);
    rs.push((d + d2) / 2.0 + 1e-3);
    rs.push(*rng.pick(&[1e-9, 0.5, 1.0, 2.0, 1e6]));
    rs
}

// ------------------------------------------------------------------------------------------
// Gallina literals
// ------------------------------------------------------------------------------------------
fn coq_res(r: &Option<Res>) -> String {
    coq_option(r.as_ref().map(|v| coq_list(v.iter().map(|(i, d, _)| format!("({}, {})", coq_n(*i), coq_f64(*d))))))
}
fn coq_jtree(v: &Value) -> String {
    let idx = v["idx"].as_u64().unwrap_or(0) as usize;
    let md = v["max_dist"].as_f64().unwrap_or(f64::NAN);
    let ch: Vec<String> = v["children"].as_array().map(|a| a.iter().map(coq_jtree).collect()).unwrap_or_default();
    format!("(J {} {} {})", coq_n(idx), coq_f64(md), coq_list(ch))
}
fn coq_metric(m: &Met, data: &[Vec<f64>], q: Option<&Vec<f64>>, with_pp: bool) -> String {
    match m {
        Met::E => "MEuclid".into(),
        Met::M => "MManhattan".into(),
        Met::H => "MHamming".into(),
        Met::K(_) => {
            // distances by the implementation's metric (powf is not reproduced in Coq)
            let dqs: Vec<f64> = match q {
                Some(q) => data.iter().map(|p| m.distance(p, q)).collect(),
                None => vec![],
            };
            let dpp: Vec<Vec<f64>> = if with_pp { data.iter().map(|a| data.iter().map(|b| m.distance(a, b)).collect()).collect() } else { vec![] };
            format!("(MTable {} {})", coq_list_f64(&dqs), coq_rows_f64(&dpp))
        }
    }
}
fn tree_nodes(v: &Value) -> usize {
    1 + v["children"].as_array().map(|a| a.iter().map(tree_nodes).sum::<usize>()).unwrap_or(0)
}
fn tree_depth(v: &Value) -> usize {
    1 + v["children"].as_array().map(|a| a.iter().map(tree_depth).max().unwrap_or(0)).unwrap_or(0)
}


// ------------------------------------------------------------------------------------------
// construction: CoverTree::new through the model of build_cover_tree / batch_insert
// ------------------------------------------------------------------------------------------
/// The scale functions of the construction are parameters of the model (ln / powf are not reproduced
/// in Coq): `get_cover_radius(s)` is tabulated through the cfg hook, `get_scale(d)` through the hook
/// as the EXPECTED value, and the rounded logarithm `ceil(inv_log_base * ln d)` (the one sub-expression
/// of get_scale that the model takes as a parameter) is re-stated here with the tree's own dumped
/// `inv_log_base`.  A mis-statement can only make the correspondence fail (the model's scale or tree
/// would differ from the implementation's), not pass.
struct ScaleTabs {
    lo: i64,
    rtab: Vec<f64>,
    raw: Vec<(f64, i64)>,
    exp: Vec<(f64, i64)>,
}
fn scale_tables(m: &Met, data: &[Vec<f64>], b: &Built, tv: &Value) -> Option<ScaleTabs> {
    let inv_log_base = tv["inv_log_base"].as_f64()?;
    let mut ds: Vec<f64> = vec![];
    for x in data {
        for y in data {
            let d = m.distance(x, y);
            if !d.is_finite() {
                return None;
            }
            if d > 0.0 {
                ds.push(d);
            }
        }
    }
    ds.sort_by(|x, y| x.partial_cmp(y).unwrap());
    ds.dedup();
    let raw: Vec<(f64, i64)> = ds.iter().map(|d| (*d, (inv_log_base * d.ln()).ceil() as i64)).collect();
    let exp: Vec<(f64, i64)> = ds.iter().map(|d| (*d, b.cover.verif_get_scale(*d))).collect();
    let all = || raw.iter().chain(exp.iter()).map(|e| e.1);
    let lo = all().min().unwrap_or(0) - 8;
    let hi = all().max().unwrap_or(0) + 2;
    if hi - lo > 400 {
        return None; // extreme dynamic range: table too long for a literal
    }
    let rtab: Vec<f64> = (lo..=hi).map(|s| b.cover.verif_get_cover_radius(s)).collect();
    Some(ScaleTabs { lo, rtab, raw, exp })
}
fn coq_scale_tab(t: &[(f64, i64)]) -> String {
    coq_list(t.iter().map(|(d, s)| format!("({}, {})", coq_f64(*d), coq_z(*s))))
}

// ------------------------------------------------------------------------------------------
// correspondence
// ------------------------------------------------------------------------------------------
fn corr_heap(out: &mut Out, rng: &mut Rng) {
    let k = rng.usize_in(1, 9);
    let len = rng.usize_in(1, 24);
    let lat = rng.bool();
    let adds: Vec<f64> = (0..len).map(|_| if lat { rng.int(0, 6) as f64 } else { rng.uniform(-5.0, 5.0) }).collect();
    let a2 = adds.clone();
    let r = guard(move || {
        let mut h = HeapSelection::<f64>::with_capacity(k);
        let mut peeks = vec![];
        for x in &a2 {
            h.add(*x);
            peeks.push(*h.peek());
        }
        (h.get(), peeks)
    });
    if let Ok((heap, peeks)) = r {
        out.corr(
            "heap_add_peek",
            format!("corr_heap_adds {} {} {} {}", coq_n(k), coq_list_f64(&adds), coq_list_f64(&heap), coq_list_f64(&peeks)),
            json!({"entry": "heap", "k": k, "adds": adds}),
        );
    }
}
fn corr_heap_replace(out: &mut Out, rng: &mut Rng) {
    let k = rng.usize_in(1, 10);
    let lat = rng.bool();
    let mut g = |rng: &mut Rng| if lat { rng.int(0, 6) as f64 } else { rng.uniform(-5.0, 5.0) };
    let init: Vec<f64> = (0..k).map(|_| g(rng)).collect();
    let ops: Vec<f64> = (0..rng.usize_in(1, 8)).map(|_| g(rng)).collect();
    let mut arrays: Vec<Vec<f64>> = vec![];
    for upto in 0..=ops.len() {
        let (i2, o2) = (init.clone(), ops.clone());
        let r = guard(move || {
            let mut h = HeapSelection::<f64>::with_capacity(k);
            for x in &i2 {
                h.add(*x);
            }
            for x in &o2[..upto] {
                *h.peek_mut() = *x;
                h.heapify();
            }
            h.get()
        });
        match r {
            Ok(a) => arrays.push(a),
            Err(_) => return,
        }
    }
    out.corr(
        "heap_heapify",
        format!("corr_heap_replace {} {} {}", coq_list_f64(&init), coq_list_f64(&ops), coq_rows_f64(&arrays)),
        json!({"entry": "heap_replace", "init": init, "ops": ops}),
    );
}

/// One data set: the dumped tree's well-formedness, and batches of find / radius queries through
/// both structures, the cover-tree ones evaluated by the model on the dumped tree.
fn corr_dataset(out: &mut Out, rng: &mut Rng, m: &Met, data: &[Vec<f64>], fam: &str, nq: usize) {
    let b = match build(m, data) {
        Ok(b) => b,
        Err(_) => return, // reported by the search part
    };
    let n = data.len();
    let tv = serde_json::to_value(&b.cover).unwrap_or(Value::Null);
    if tv["identical_excluded"].as_bool() != Some(false) {
        out.fail("model_assumption", "CoverTree.identical_excluded is not false", json!({"entry": "find", "metric": m.name(), "data": data, "q": data[0], "k": 1, "algo": "cover"}));
    }
    let root = &tv["root"];
    let jt = coq_jtree(root);
    let cdata = coq_rows_f64(data);
    let base = json!({"metric": m.name(), "data": data, "family": fam, "tree_nodes": tree_nodes(root), "tree_depth": tree_depth(root)});
    out.count(&format!("corr-tree-depth={}", tree_depth(root).min(12)));
    // wf: the hypothesis of cover_find_exact / cover_radius_exact on the implementation's tree
    let mut inp = base.clone();
    inp["entry"] = json!("wf");
    out.corr("cover_tree_wf", format!("corr_wf {} {} {}", coq_metric(m, data, None, true), cdata, jt), inp);
    // construction: the model of CoverTree::new must build the very tree the implementation dumped
    match scale_tables(m, data, &b, &tv) {
        Some(st) => {
            let tabs = format!("{} {} {}", coq_z(st.lo), coq_list_f64(&st.rtab), coq_scale_tab(&st.raw));
            let mut inp = base.clone();
            inp["entry"] = json!("build");
            out.corr("cover_tree_build", format!("corr_build {} {} {} {}", coq_metric(m, data, None, true), cdata, tabs, jt), inp.clone());
            // get_scale: the model's value on every pairwise distance = the implementation's, and the
            // hypothesis of build_wf that the returned scale's cover radius reaches the distance
            out.corr("cover_tree_scale", format!("corr_scale {} {}", tabs, coq_scale_tab(&st.exp)), inp);
        }
        None => out.count("corr-build-skipped:scale-range"),
    }
    let mut ms_c = vec![];
    let mut ms_l = vec![];
    let mut fq_c = vec![];
    let mut fq_l = vec![];
    let mut fr_c = vec![];
    let mut fr_l = vec![];
    let mut ms_rc = vec![];
    let mut ms_rl = vec![];
    let mut qlog = vec![];
    for qi in 0..nq {
        let q = gen_query(rng, fam, data);
        let k = match qi % 4 {
            0 => rng.usize_in(1, n),
            1 => 1,
            2 => n,
            _ => *rng.pick(&[0, n + 1, (n + 1) / 2, 2]),
        };
        let mq = coq_metric(m, data, Some(&q), false);
        for cover in [true, false] {
            if let Ok(r) = do_find(&b, cover, &q, k) {
                let t = format!("({}, {}, {})", coq_list_f64(&q), coq_n(k), coq_res(&r));
                if cover {
                    ms_c.push(mq.clone());
                    fq_c.push(t);
                } else {
                    ms_l.push(mq.clone());
                    fq_l.push(t);
                }
            }
        }
        let radii = gen_radii(rng, m, data, &q);
        let r = if qi % 5 == 4 { *rng.pick(&[0.0, -1.0]) } else { *rng.pick(&radii) };
        for cover in [true, false] {
            if let Ok(res) = do_radius(&b, cover, &q, r) {
                let t = format!("({}, {}, {})", coq_list_f64(&q), coq_f64(r), coq_res(&res));
                if cover {
                    ms_rc.push(mq.clone());
                    fr_c.push(t);
                } else {
                    ms_rl.push(mq.clone());
                    fr_l.push(t);
                }
            }
        }
        qlog.push(json!({"q": q, "k": k, "r": r}));
    }
    let mut inp = base.clone();
    inp["queries"] = json!(qlog);
    inp["entry"] = json!("corr_queries");
    out.corr("cover_find_on_impl_tree", format!("corr_cover_find_many {} {} {} {}", coq_list(ms_c), cdata, jt, coq_list(fq_c)), inp.clone());
    out.corr("linear_find", format!("corr_linear_find_many {} {} {}", coq_list(ms_l), cdata, coq_list(fq_l)), inp.clone());
    out.corr("cover_radius_on_impl_tree", format!("corr_cover_radius_many {} {} {} {}", coq_list(ms_rc), cdata, jt, coq_list(fr_c)), inp.clone());
    out.corr("linear_radius", format!("corr_linear_radius_many {} {} {}", coq_list(ms_rl), cdata, coq_list(fr_l)), inp);
}

fn corr_est(out: &mut Out, c: &EstCase, state: &Value, preds: &Option<Vec<f64>>) {
    let root = if c.cover { Some(&state["knn_algorithm"]["CoverTree"]["root"]) } else { None };
    if c.cover && root.map(|r| r.is_null()).unwrap_or(true) {
        return;
    }
    let jt = coq_option(root.map(coq_jtree));
    let ms = coq_list(c.queries.iter().map(|q| coq_metric(&c.m, &c.data, Some(q), false)));
    let exp: Vec<Option<f64>> = match preds {
        // `predict` returns Err as a whole when one row fails (k > n fails for every row)
        None => c.queries.iter().map(|_| None).collect(),
        Some(p) => p.iter().map(|x| Some(*x)).collect(),
    };
    let exp = coq_list(exp.iter().map(|o| coq_option(o.map(coq_f64))));
    let w = coq_n(c.distance_w as usize);
    if c.clf {
        let classes = f64s_from_json(&state["classes"]);
        let yi = usizes_from_json(&state["y"]);
        out.corr("clf_fit_classes", format!("corr_clf_fit {} {} {}", coq_list_f64(&c.y), coq_list_f64(&classes), coq_list_n(&yi)), c.json());
        out.corr(
            "clf_predict",
            format!("corr_clf_predict {} {} {} {} {} {} {} {} {}", ms, coq_rows_f64(&c.data), jt, coq_list_f64(&classes), coq_list_n(&yi), w, coq_n(c.k), coq_rows_f64(&c.queries), exp),
            c.json(),
        );
    } else {
        let y = f64s_from_json(&state["y"]);
        out.corr(
            "reg_predict",
            format!("corr_reg_predict {} {} {} {} {} {} {} {}", ms, coq_rows_f64(&c.data), jt, coq_list_f64(&y), w, coq_n(c.k), coq_rows_f64(&c.queries), exp),
            c.json(),
        );
    }
}

fn gen_est(rng: &mut Rng, nmax: usize, clf: bool) -> EstCase {
    let fam = *rng.pick(&FAMILIES);
    let n = match rng.below(8) {
        0 => 1,
        1 => 2,
        _ => rng.usize_in(1, nmax),
    };
    let dim = rng.usize_in(1, 6.min(1 + nmax / 4));
    let data = gen_data(rng, fam, n, dim);
    let m = gen_metric(rng, fam);
    let y: Vec<f64> = if clf {
        let labels: Vec<f64> = {
            let nl = rng.usize_in(1, 4);
            // class labels are arbitrary reals: integers, negatives, and fractional values that share an
            // integer part (0.25 / 0.75, -0.5 / 0.5, 10.5 / 10.25) so that a mapping keyed on a truncated
            // or rounded label would merge classes
            let pool = [2.0, 3.0, 7.0, -1.0, 0.0, 10.5, 0.25, 0.75, -0.5, 0.5, 10.25, 2.5];
            let off = if rng.chance(0.3) { 6 } else { 0 };
            (0..nl).map(|i| pool[(off + i + rng.below(3)) % 12]).collect()
        };
        (0..n).map(|_| *rng.pick(&labels)).collect()
    } else if rng.bool() {
        (0..n).map(|_| rng.int(-4, 4) as f64).collect()
    } else {
        (0..n).map(|_| rng.uniform(-50.0, 50.0)).collect()
    };
    let kmin = if clf { 2 } else { 1 };
    let k = match rng.below(10) {
        0 => kmin,
        1 => n.max(kmin),
        2 => *rng.pick(&[0, 1, n + 1]),
        _ => rng.usize_in(kmin, n.max(kmin)),
    };
    let nq = rng.usize_in(1, 5);
    let queries: Vec<Vec<f64>> = (0..nq).map(|_| gen_query(rng, fam, &data)).collect();
    EstCase { m, data, y, k, cover: rng.bool(), distance_w: rng.bool(), queries, clf, fam: fam.to_string() }
}

// ------------------------------------------------------------------------------------------
// search
// ------------------------------------------------------------------------------------------
fn search_dataset(out: &mut Out, rng: &mut Rng, m: &Met, data: &[Vec<f64>], fam: &str, nq: usize, all_k: bool) {
    let n = data.len();
    out.count(&format!("search:family={}", fam));
    out.count(&format!("search:metric={}", m.name().trim_end_matches(char::is_numeric)));
    out.count(&format!("search:n<={}", [1usize, 2, 5, 10, 25, 50, 100, 200].iter().find(|b| n <= **b).unwrap_or(&200)));
    let b = match build(m, data) {
        Ok(b) => b,
        Err(e) => {
            out.eval(key_of(data, &[], &[]), true);
            out.fail("construction", &format!("CoverTree::new / LinearKNNSearch::new failed: {}", e), json!({"entry": "find", "metric": m.name(), "data": data, "q": data[0], "k": 1, "algo": "cover", "family": fam}));
            return;
        }
    };
    for _ in 0..nq {
        let q = gen_query(rng, fam, data);
        let ks: Vec<usize> = if all_k { (0..=n + 1).collect() } else { vec![1, n, rng.usize_in(1, n), rng.usize_in(1, n), *rng.pick(&[0, n + 1])] };
        for &k in &ks {
            check_find(out, m, data, &b, true, &q, k, fam);
            check_find(out, m, data, &b, false, &q, k, fam);
        }
        let mut radii = gen_radii(rng, m, data, &q);
        radii.push(*rng.pick(&[0.0, -1.0, -1e-9]));
        // radii EXACTLY equal (by the implementation's own metric) to the query's distance to a data point:
        // the boundary point must be returned (exhaustive scan: always; cover tree: known finding
        // covertree-radius-boundary-rounding when it is omitted)
        for _ in 0..3 {
            let d = m.distance(rng.pick(data), &q);
            if d > 0.0 && d.is_finite() {
                radii.push(d);
                out.count("search:radius-exactly-a-realised-distance");
            }
        }
        for &r in &radii {
            check_radius(out, m, data, &b, true, &q, r, fam);
            check_radius(out, m, data, &b, false, &q, r, fam);
        }
    }
}

fn multisets(npts: usize, size: usize) -> Vec<Vec<usize>> {
    // non-decreasing index sequences of length `size` over 0..npts
    let mut res = vec![];
    let mut cur = vec![0usize; size];
    loop {
        res.push(cur.clone());
        let mut i = size;
        loop {
            if i == 0 {
                return res;
            }
            i -= 1;
            if cur[i] + 1 < npts {
                break;
            }
        }
        let v = cur[i] + 1;
        for j in i..size {
            cur[j] = v;
        }
    }
}
fn lattice3() -> Vec<Vec<f64>> {
    (0..9).map(|i| vec![(i % 3) as f64, (i / 3) as f64]).collect()
}
/// exhaustively all multisets of up to `maxm` points of the 3x3 lattice; queries: the nine lattice
/// points and four off-lattice points; all k; radii around every realisable distance
fn search_exhaustive(out: &mut Out, rng: &mut Rng, maxm: usize, sample6: Option<usize>) {
    let lat = lattice3();
    let mut queries = lat.clone();
    queries.extend(vec![vec![0.5, 0.5], vec![1.0, 2.5], vec![-1.0, 1.0], vec![3.0, 3.0]]);
    let radii = [0.5, 1.0, 2f64.sqrt(), 2.0, 5f64.sqrt(), 8f64.sqrt(), 1.2, 0.0];
    for size in 1..=maxm {
        let mut ms = multisets(9, size);
        if size == 6 {
            if let Some(s) = sample6 {
                rng.shuffle(&mut ms);
                ms.truncate(s);
            }
        }
        for (mi, ms_) in ms.iter().enumerate() {
            let mut data: Vec<Vec<f64>> = ms_.iter().map(|&i| lat[i].clone()).collect();
            if mi % 2 == 1 {
                rng.shuffle(&mut data); // the first point becomes the root: vary it
            }
            let m = match mi % 5 {
                0 | 1 | 2 => Met::E,
                3 => Met::M,
                _ => Met::K(3),
            };
            out.count(&format!("search:exhaustive-3x3:size={}", size));
            let b = match build(&m, &data) {
                Ok(b) => b,
                Err(e) => {
                    out.fail("construction", &format!("construction failed: {}", e), json!({"entry": "find", "metric": m.name(), "data": data, "q": data[0], "k": 1, "algo": "cover", "family": "exhaustive"}));
                    continue;
                }
            };
            for q in &queries {
                for k in 0..=size + 1 {
                    check_find(out, &m, &data, &b, true, q, k, "exhaustive");
                    if mi % 4 == 0 {
                        check_find(out, &m, &data, &b, false, q, k, "exhaustive");
                    }
                }
                for &r in &radii {
                    check_radius(out, &m, &data, &b, true, q, r, "exhaustive");
                }
            }
        }
    }
}

/// HeapSelection in isolation: after any add sequence the array holds the k smallest so far and
/// peek is their maximum.
fn check_heap(out: &mut Out, k: usize, adds: &[f64]) {
    let input = json!({"entry": "heap", "k": k, "adds": adds});
    let mut kd = adds.to_vec();
    kd.push(k as f64);
    out.eval(hash_f64s(&kd), adds.len() > k && k >= 2);
    out.count("search:heap");
    let a2 = adds.to_vec();
    let r = guard(move || {
        let mut h = HeapSelection::<f64>::with_capacity(k);
        let mut peeks = vec![];
        for x in &a2 {
            h.add(*x);
            peeks.push(*h.peek());
        }
        (h.get(), peeks)
    });
    match r {
        Err(e) => out.fail("heap_keeps_k_smallest", &format!("panic: {}", e), input),
        Ok((mut heap, peeks)) => {
            for t in 1..=adds.len() {
                let mut pre = adds[..t].to_vec();
                pre.sort_by(|a, b| a.partial_cmp(b).unwrap());
                let kth = pre[k.min(t) - 1];
                if peeks[t - 1] != kth {
                    return out.fail("heap_keeps_k_smallest", "peek is not the maximum of the k smallest so far", input);
                }
            }
            let mut all = adds.to_vec();
            all.sort_by(|a, b| a.partial_cmp(b).unwrap());
            all.truncate(k);
            heap.sort_by(|a, b| a.partial_cmp(b).unwrap());
            if heap != all {
                out.fail("heap_keeps_k_smallest", "stored multiset is not the k smallest", input);
            }
        }
    }
}

// ------------------------------------------------------------------------------------------
// replay
// ------------------------------------------------------------------------------------------
fn est_from_json(inp: &Value, clf: bool) -> EstCase {
    EstCase {
        m: Met::from_name(inp["metric"].as_str().unwrap_or("euclid")),
        data: rows_from_json(&inp["data"]),
        y: f64s_from_json(&inp["y"]),
        k: inp["k"].as_u64().unwrap_or(1) as usize,
        cover: inp["algo"].as_str() != Some("linear"),
        distance_w: inp["weight"].as_str() == Some("distance"),
        queries: rows_from_json(&inp["queries"]),
        clf,
        fam: "replay".into(),
    }
}
fn replay(path: &str) -> i32 {
    let v = read_replay(path);
    let inp = if v.get("input").is_some() { v["input"].clone() } else { v.clone() };
    let mut out = Out::new("C04", "replay");
    let m = Met::from_name(inp["metric"].as_str().unwrap_or("euclid"));
    let data = rows_from_json(&inp["data"]);
    let cover = inp["algo"].as_str() != Some("linear");
    match inp["entry"].as_str().unwrap_or("") {
        "find" | "radius" | "wf" | "build" | "corr_queries" => {
            match build(&m, &data) {
                Err(e) => out.fail("construction", &e, inp.clone()),
                Ok(b) => {
                    let entry = inp["entry"].as_str().unwrap_or("");
                    if entry == "find" {
                        let q = f64s_from_json(&inp["q"]);
                        check_find(&mut out, &m, &data, &b, cover, &q, inp["k"].as_u64().unwrap_or(1) as usize, "replay");
                    } else if entry == "radius" {
                        let q = f64s_from_json(&inp["q"]);
                        check_radius(&mut out, &m, &data, &b, cover, &q, inp["r"].as_f64().unwrap_or(1.0), "replay");
                    } else {
                        // a correspondence case: evaluate the oracles on all its queries (or a sweep)
                        let qs: Vec<(Vec<f64>, usize, f64)> = match inp["queries"].as_array() {
                            Some(a) => a.iter().map(|e| (f64s_from_json(&e["q"]), e["k"].as_u64().unwrap_or(1) as usize, e["r"].as_f64().unwrap_or(1.0))).collect(),
                            None => data.iter().map(|p| (p.clone(), 1usize, 1.0)).collect(),
                        };
                        for (q, k, r) in qs {
                            for c in [true, false] {
                                for kk in (0..=data.len() + 1).filter(|kk| *kk == k || inp["queries"].is_null()) {
                                    check_find(&mut out, &m, &data, &b, c, &q, kk, "replay");
                                }
                                check_radius(&mut out, &m, &data, &b, c, &q, r, "replay");
                            }
                        }
                    }
                }
            }
        }
        "clf" | "reg" => {
            let c = est_from_json(&inp, inp["entry"].as_str() == Some("clf"));
            check_est(&mut out, &c);
            check_twin(&mut out, &c);
        }
        "heap" => {
            let adds = f64s_from_json(&inp["adds"]);
            check_heap(&mut out, inp["k"].as_u64().unwrap_or(1) as usize, &adds);
        }
        "heap_replace" => {}
        _ => {
            eprintln!("unknown replay entry");
            return 2;
        }
    }
    if out.n_fail() > 0 {
        println!("REPLAY: property=C04 still fails: {}", path);
        1
    } else {
        println!("REPLAY: property=C04 passes: {}", path);
        0
    }
}

fn main() {
    quiet_panics();
    let a = args();
    if let Some(p) = &a.replay {
        std::process::exit(replay(p));
    }
    let mut rng = Rng::new(a.seed);
    let mut out = Out::new(
        "C04",
        "search case = (metric, data set, query, k or radius, search structure) resp. (estimator, data, labels, k, weights, structure, query rows) resp. (heap capacity, add sequence); non-trivial: n >= 3 and 1 <= k < n (radius: r > 0; heap: more adds than capacity >= 2); distinct by hash of all of these. api-trait twin case = an estimator case fitted and queried through smartcore::api::{SupervisedEstimator, Predictor} and through the inherent methods; all results must coincide bit for bit",
    );
    let t = a.thorough;

    // ---- corpus: D7 (repaired): a single point; all-identical points; two identical points ----
    let corpus: Vec<(Vec<Vec<f64>>, &str)> = vec![
        (vec![vec![1.0, 2.0]], "corpus-single"),
        (vec![vec![3.0]; 5], "corpus-identical"),
        (vec![vec![0.0, 0.0]; 2], "corpus-identical"),
        (vec![vec![1.0], vec![1.0], vec![2.0]], "corpus-dups"),
        ((1..=9).map(|i| vec![i as f64]).collect(), "corpus-test-suite"),
        // repaired in e7f605b: the farthest point is 1 ulp beyond 1.3^-3 resp. 1.3^21 from data[0]; get_scale's
        // rounded logarithm gave a scale whose cover radius fell short of it and the point was dropped
        (vec![vec![0.0], vec![0.2275830678197542], vec![0.4551661356395084]], "corpus-scale-ulp"),
        (vec![vec![0.0, 0.0], vec![123.5322645367253, 0.0], vec![0.0, 247.0645290734506]], "corpus-scale-ulp"),
    ];
    for (data, fam) in &corpus {
        for m in [Met::E, Met::M] {
            let mut r2 = rng.fork();
            search_dataset(&mut out, &mut r2, &m, data, fam, 4, true);
            corr_dataset(&mut out, &mut r2, &m, data, fam, 5);
        }
        let n = data.len();
        for clf in [true, false] {
            for cover in [true, false] {
                let y: Vec<f64> = (0..n).map(|i| if clf { (i % 2) as f64 } else { i as f64 * 1.5 }).collect();
                let c = EstCase { m: Met::E, data: data.clone(), y, k: if clf { 2 } else { 1 }, cover, distance_w: cover, queries: vec![data[0].clone(), data[n - 1].iter().map(|x| x + 0.5).collect()], clf, fam: fam.to_string() };
                if let Some((s, p)) = check_est(&mut out, &c) {
                    corr_est(&mut out, &c, &s, &p);
                }
            }
        }
    }

    // ---- known finding covertree-radius-boundary-rounding: its witness on every run (a radius equal, bit for
    // bit, to the distance of a data point; the pruning sum r + max_dist is rounded).  check_radius routes an
    // omission of the boundary point to the known id; the exhaustive scan must return it. ----
    {
        let data = vec![vec![0.0, 4.0], vec![0.0, 0.0], vec![1.0, 3.0], vec![0.0, 2.0]];
        let q = vec![4.0, 0.0];
        let r = 4.242640687119285; // = d(q, data[2]) = sqrt(18)
        out.count("search:family=corpus-radius-boundary");
        if let Ok(b) = build(&Met::E, &data) {
            check_radius(&mut out, &Met::E, &data, &b, true, &q, r, "corpus-radius-boundary");
            check_radius(&mut out, &Met::E, &data, &b, false, &q, r, "corpus-radius-boundary");
        }
    }

    // ---- correspondence ----
    for _ in 0..(if t { 400 } else { 60 }) {
        corr_heap(&mut out, &mut rng);
    }
    for _ in 0..(if t { 200 } else { 30 }) {
        corr_heap_replace(&mut out, &mut rng);
    }
    let ncd = if t { 400 } else { 72 };
    for i in 0..ncd {
        let fam = FAMILIES[i % FAMILIES.len()];
        let n = match i % 12 {
            0 => 1,
            1 => 2,
            2 => 3,
            _ => rng.usize_in(2, if t { 40 } else { 26 }),
        };
        let dim = rng.usize_in(1, 4);
        let data = gen_data(&mut rng, fam, n, dim);
        let mut m = gen_metric(&mut rng, fam);
        if n > 16 {
            if let Met::K(_) = m {
                m = Met::E; // MTable literals grow with n^2
            }
        }
        out.count(&format!("corr-data:family={}", fam));
        corr_dataset(&mut out, &mut rng, &m, &data, fam, 6);
    }
    for i in 0..(if t { 300 } else { 60 }) {
        let c = gen_est(&mut rng, 16, i % 2 == 0);
        if let Some((s, p)) = check_est(&mut out, &c) {
            corr_est(&mut out, &c, &s, &p);
        }
    }
    for _ in 0..(if t { 30 } else { 10 }) {
        // fit parameter / shape errors
        let clf = rng.bool();
        let x_n = rng.usize_in(1, 6);
        let y_n = if rng.chance(0.3) { x_n + 1 } else { x_n };
        let k = rng.usize_in(0, 3);
        let data: Vec<Vec<f64>> = (0..x_n).map(|i| vec![i as f64]).collect();
        let y: Vec<f64> = (0..y_n).map(|i| (i % 2) as f64).collect();
        let r = guard(|| {
            let x = dense(&data);
            if clf {
                KNNClassifier::fit(&x, &y, KNNClassifierParameters::default().with_k(k)).is_ok()
            } else {
                KNNRegressor::fit(&x, &y, KNNRegressorParameters::default().with_k(k)).is_ok()
            }
        });
        if let Ok(ok) = r {
            out.corr("fit_param_errors", format!("corr_fit_ok {} {} {} {} {}", coq_bool(clf), coq_n(x_n), coq_n(y_n), coq_n(k), coq_bool(ok)), json!({"entry": "heap_replace"}));
        }
    }

    // ---- search ----
    // exhaustive multisets on the 3x3 lattice
    if t {
        search_exhaustive(&mut out, &mut rng, 6, None);
    } else {
        search_exhaustive(&mut out, &mut rng, 5, Some(400));
        search_exhaustive_six(&mut out, &mut rng, 1200);
    }
    // random data sets over the quantifier's families
    let nds = if t { 60000 } else { 6000 };
    for i in 0..nds {
        let fam = FAMILIES[i % FAMILIES.len()];
        let n = match rng.below(10) {
            0 => rng.usize_in(1, 3),
            1 | 2 | 3 => rng.usize_in(2, 12),
            4 | 5 | 6 => rng.usize_in(5, 40),
            7 | 8 => rng.usize_in(20, 90),
            _ => rng.usize_in(60, 200),
        };
        let dim = rng.usize_in(1, 6);
        let data = gen_data(&mut rng, fam, n, dim);
        let m = gen_metric(&mut rng, fam);
        let all_k = n <= 12;
        search_dataset(&mut out, &mut rng, &m, &data, fam, if n <= 40 { 4 } else { 2 }, all_k);
        if i < 3 {
            out.sample(json!({"metric": m.name(), "family": fam, "n": n, "dim": dim, "first_points": data.iter().take(3).collect::<Vec<_>>()}));
        }
    }
    // estimators
    for i in 0..(if t { 60000 } else { 6000 }) {
        let c = gen_est(&mut rng, if i % 5 == 0 { 120 } else { 30 }, i % 2 == 0);
        out.count(&format!("search:estimator:{}:{}:{}", if c.clf { "clf" } else { "reg" }, algo_name(c.cover), if c.distance_w { "distance" } else { "uniform" }));
        check_est(&mut out, &c);
    }
    // heap in isolation
    for _ in 0..(if t { 200000 } else { 20000 }) {
        let k = rng.usize_in(1, 12);
        let len = rng.usize_in(1, 40);
        let lat = rng.bool();
        let adds: Vec<f64> = (0..len).map(|_| if lat { rng.int(0, 5) as f64 } else { rng.uniform(-5.0, 5.0) }).collect();
        check_heap(&mut out, k, &adds);
    }
    // api-trait twins (last: the streams of the sections above are unchanged)
    for i in 0..(if t { 1200 } else { 120 }) {
        let c = gen_est(&mut rng, if i % 5 == 0 { 60 } else { 20 }, i % 2 == 0);
        check_twin(&mut out, &c);
    }
    out.finish(&a.out);
}

/// quick tier: a random sample of the 3003 six-point multisets (the thorough tier does them all)
fn search_exhaustive_six(out: &mut Out, rng: &mut Rng, sample: usize) {
    let lat = lattice3();
    let mut ms = multisets(9, 6);
    rng.shuffle(&mut ms);
    ms.truncate(sample);
    let queries: Vec<Vec<f64>> = vec![vec![0.0, 0.0], vec![1.0, 1.0], vec![2.0, 1.0], vec![0.5, 1.5], vec![3.0, 0.0]];
    for ms_ in ms.iter() {
        let mut data: Vec<Vec<f64>> = ms_.iter().map(|&i| lat[i].clone()).collect();
        rng.shuffle(&mut data);
        out.count("search:exhaustive-3x3:size=6(sample)");
        let m = Met::E;
        if let Ok(b) = build(&m, &data) {
            for q in &queries {
                for k in 0..=7 {
                    check_find(out, &m, &data, &b, true, q, k, "exhaustive");
                }
                for &r in &[1.0, 2f64.sqrt(), 2.0] {
                    check_radius(out, &m, &data, &b, true, q, r, "exhaustive");
                }
            }
        } else {
            out.fail("construction", "construction failed", json!({"entry": "find", "metric": "euclid", "data": data, "q": data[0], "k": 1, "algo": "cover"}));
        }
    }
}
