//! C06 — random forests: correspondence cases for the Coq model (SC.C06.Corr) and the
//! failing-input search.  The search oracle is written from the property text: it reads the fitted
//! forest through its serde serialisation (trees[], classes, samples), obtains the member trees'
//! own predictions by deserialising each tree, and recomputes votes / means, the out-of-bag
//! membership, label originality, stratification of the bootstrap (masks from serde, counts from
//! the cfg hook VERIF_FOREST_TRACE), the target range and the number of trees; reproducibility is
//! checked by fitting again (bincode bytes, predictions) with unrelated fits in between.
use serde_json::{json, Value};
use smartcore::ensemble::random_forest_classifier::{RandomForestClassifier, RandomForestClassifierParameters};
use smartcore::ensemble::random_forest_regressor::{RandomForestRegressor, RandomForestRegressorParameters};
use smartcore::tree::decision_tree_classifier::{DecisionTreeClassifier, SplitCriterion};
use smartcore::tree::decision_tree_regressor::DecisionTreeRegressor;
use vharness::*;

type Trace = Vec<(Vec<usize>, Vec<usize>, usize)>;

#[derive(Clone, Debug)]
struct PNode {
    out: f64, // regressor: the value; classifier: the class index
    feat: usize,
    sv: Option<f64>,
    ss: Option<f64>,
    tc: Option<usize>,
    fc: Option<usize>,
}
#[derive(Clone, Debug)]
struct Tree {
    nodes: Vec<PNode>,
    depth: usize,
    classes: Vec<f64>,
}
#[derive(Clone, Debug)]
struct Case {
    cls: bool,
    crit: usize, // 0 gini, 1 entropy, 2 classification error
    x: Vec<Vec<f64>>,
    y: Vec<f64>,
    n_trees: usize,
    m: Option<usize>,
    md: Option<u16>,
    msl: usize,
    mss: usize,
    keep: bool,
    seed: u64,
}
impl Case {
    fn to_json(&self) -> Value {
        json!({"entry": "forest", "cls": self.cls, "crit": self.crit, "x": self.x, "y": self.y,
               "n_trees": self.n_trees, "m": self.m, "md": self.md, "msl": self.msl, "mss": self.mss,
               "keep": self.keep, "seed": self.seed.to_string(), "n": self.x.len(), "p": self.x[0].len()})
    }
    fn from_json(v: &Value) -> Case {
        Case {
            cls: v["cls"].as_bool().unwrap_or(false),
            crit: v["crit"].as_u64().unwrap_or(0) as usize,
            x: rows_from_json(&v["x"]),
            y: f64s_from_json(&v["y"]),
            n_trees: v["n_trees"].as_u64().unwrap_or(1) as usize,
            m: v["m"].as_u64().map(|d| d as usize),
            md: v["md"].as_u64().map(|d| d as u16),
            msl: v["msl"].as_u64().unwrap_or(1) as usize,
            mss: v["mss"].as_u64().unwrap_or(2) as usize,
            keep: v["keep"].as_bool().unwrap_or(false),
            seed: v["seed"].as_str().and_then(|s| s.parse::<u64>().ok()).or_else(|| v["seed"].as_u64()).unwrap_or(0),
        }
    }
}

fn criterion(c: usize) -> SplitCriterion {
    match c {
        0 => SplitCriterion::Gini,
        1 => SplitCriterion::Entropy,
        _ => SplitCriterion::ClassificationError,
    }
}

fn parse_tree(v: &Value, cls: bool) -> Tree {
    let nodes = v["nodes"]
        .as_array()
        .unwrap()
        .iter()
        .map(|nd| PNode {
            out: if cls { nd["output"].as_u64().unwrap() as f64 } else { nd["output"].as_f64().unwrap_or(f64::NAN) },
            feat: nd["split_feature"].as_u64().unwrap() as usize,
            sv: nd["split_value"].as_f64(),
            ss: nd["split_score"].as_f64(),
            tc: nd["true_child"].as_u64().map(|c| c as usize),
            fc: nd["false_child"].as_u64().map(|c| c as usize),
        })
        .collect();
    Tree { nodes, depth: v["depth"].as_u64().unwrap_or(0) as usize, classes: if cls { f64s_from_json(&v["classes"]) } else { vec![] } }
}

/// What one fit exposes: serialised state, hook records, the forest's predictions and the member
/// trees' own predictions (each member deserialised from its JSON and asked directly).
struct Fitted {
    bytes: Vec<u8>,
    n_members: usize,
    trees: Vec<Tree>,
    classes: Vec<f64>,
    samples: Option<Vec<Vec<bool>>>,
    trace: Trace,
    vars: Vec<(usize, Vec<usize>)>,
    pred_train: Vec<f64>,
    pred_extra: Vec<f64>,
    oob: Option<Vec<f64>>,
    member_train: Vec<Vec<f64>>, // [tree][row]
    member_extra: Vec<Vec<f64>>,
}

fn parse_samples(v: &Value) -> Option<Vec<Vec<bool>>> {
    v.as_array().map(|a| a.iter().map(|m| m.as_array().map(|b| b.iter().map(|x| x.as_bool().unwrap_or(false)).collect()).unwrap_or_default()).collect())
}


/// parameters of a case: struct literal, or — for every other case, decided by the case itself so that
/// replays agree — the public builder methods starting from `default()` (`with_*` must store exactly what
/// it is given; an `Option` field left at its default must be `None` for the builder to be usable)
fn via_builder(c: &Case) -> bool {
    (c.x.len() + c.mss + c.msl + c.n_trees as usize + (c.seed % 7) as usize) % 2 == 0
}
fn clf_params(c: &Case) -> RandomForestClassifierParameters {
    let literal = RandomForestClassifierParameters { criterion: criterion(c.crit), max_depth: c.md, min_samples_leaf: c.msl, min_samples_split: c.mss, n_trees: c.n_trees as u16, m: c.m, keep_samples: c.keep, seed: c.seed };
    let d = RandomForestClassifierParameters::default();
    if !via_builder(c) || (c.md.is_none() && d.max_depth.is_some()) || (c.m.is_none() && d.m.is_some()) {
        return literal;
    }
    let mut p = d.with_criterion(criterion(c.crit)).with_min_samples_leaf(c.msl).with_min_samples_split(c.mss).with_n_trees(c.n_trees as u16).with_keep_samples(c.keep).with_seed(c.seed);
    if let Some(md) = c.md { p = p.with_max_depth(md); }
    if let Some(m) = c.m { p = p.with_m(m); }
    p
}
fn reg_params(c: &Case) -> RandomForestRegressorParameters {
    let literal = RandomForestRegressorParameters { max_depth: c.md, min_samples_leaf: c.msl, min_samples_split: c.mss, n_trees: c.n_trees, m: c.m, keep_samples: c.keep, seed: c.seed };
    let d = RandomForestRegressorParameters::default();
    if !via_builder(c) || (c.md.is_none() && d.max_depth.is_some()) || (c.m.is_none() && d.m.is_some()) {
        return literal;
    }
    let mut p = d.with_min_samples_leaf(c.msl).with_min_samples_split(c.mss).with_n_trees(c.n_trees).with_keep_samples(c.keep).with_seed(c.seed);
    if let Some(md) = c.md { p = p.with_max_depth(md); }
    if let Some(m) = c.m { p = p.with_m(m); }
    p
}
/// Err = panic, Ok(None) = fit returned Err.
fn run_impl(c: &Case, extra: &[Vec<f64>], members: bool) -> Result<Option<Fitted>, String> {
    guard(|| {
        let xm = dense(&c.x);
        let em = if extra.is_empty() { None } else { Some(dense(extra)) };
        if c.cls {
            let params = clf_params(c);
            match RandomForestClassifier::fit(&xm, &c.y, params) {
                Err(_) => None,
                Ok(f) => {
                    let trace = smartcore::ensemble::random_forest_classifier::VERIF_FOREST_TRACE.with(|v| v.borrow().clone());
                    let vars = smartcore::tree::decision_tree_classifier::VERIF_TREE_VARS.with(|v| v.borrow().clone());
                    let v = serde_json::to_value(&f).unwrap();
                    let bytes = bincode::serialize(&f).unwrap();
                    let tv = v["trees"].as_array().cloned().unwrap_or_default();
                    let pred_train = f.predict(&xm).unwrap();
                    let pred_extra = em.as_ref().map(|e| f.predict(e).unwrap()).unwrap_or_default();
                    let oob = f.predict_oob(&xm).ok();
                    let (mut mt, mut me) = (vec![], vec![]);
                    if members {
                        for t in &tv {
                            let tr: DecisionTreeClassifier<f64> = serde_json::from_value(t.clone()).unwrap();
                            mt.push(tr.predict(&xm).unwrap());
                            me.push(em.as_ref().map(|e| tr.predict(e).unwrap()).unwrap_or_default());
                        }
                    }
                    Some(Fitted {
                        bytes,
                        n_members: tv.len(),
                        trees: tv.iter().map(|t| parse_tree(t, true)).collect(),
                        classes: f64s_from_json(&v["classes"]),
                        samples: parse_samples(&v["samples"]),
                        trace,
                        vars,
                        pred_train,
                        pred_extra,
                        oob,
                        member_train: mt,
                        member_extra: me,
                    })
                }
            }
        } else {
            let params = reg_params(c);
            match RandomForestRegressor::fit(&xm, &c.y, params) {
                Err(_) => None,
                Ok(f) => {
                    let trace = smartcore::ensemble::random_forest_regressor::VERIF_FOREST_TRACE.with(|v| v.borrow().clone());
                    let vars = smartcore::tree::decision_tree_regressor::VERIF_TREE_VARS.with(|v| v.borrow().clone());
                    let v = serde_json::to_value(&f).unwrap();
                    let bytes = bincode::serialize(&f).unwrap();
                    let tv = v["trees"].as_array().cloned().unwrap_or_default();
                    let pred_train = f.predict(&xm).unwrap();
                    let pred_extra = em.as_ref().map(|e| f.predict(e).unwrap()).unwrap_or_default();
                    let oob = f.predict_oob(&xm).ok();
                    let (mut mt, mut me) = (vec![], vec![]);
                    if members {
                        for t in &tv {
                            let tr: DecisionTreeRegressor<f64> = serde_json::from_value(t.clone()).unwrap();
                            mt.push(tr.predict(&xm).unwrap());
                            me.push(em.as_ref().map(|e| tr.predict(e).unwrap()).unwrap_or_default());
                        }
                    }
                    Some(Fitted {
                        bytes,
                        n_members: tv.len(),
                        trees: tv.iter().map(|t| parse_tree(t, false)).collect(),
                        classes: vec![],
                        samples: parse_samples(&v["samples"]),
                        trace,
                        vars,
                        pred_train,
                        pred_extra,
                        oob,
                        member_train: mt,
                        member_extra: me,
                    })
                }
            }
        }
    })
}

// ------------------------------------------------------------------------------------------
// the oracle (from the property text)
// ------------------------------------------------------------------------------------------
thread_local! {
    static STATS: std::cell::RefCell<std::collections::BTreeMap<&'static str, u64>> = std::cell::RefCell::new(std::collections::BTreeMap::new());
}
fn stat(k: &'static str, n: u64) {
    STATS.with(|s| *s.borrow_mut().entry(k).or_insert(0) += n);
}
fn same(a: f64, b: f64) -> bool {
    a.to_bits() == b.to_bits() || a == b || (a.is_nan() && b.is_nan())
}
fn same_vec(a: &[f64], b: &[f64]) -> bool {
    a.len() == b.len() && a.iter().zip(b).all(|(u, v)| same(*u, *v))
}
fn distinct_labels(y: &[f64]) -> Vec<f64> {
    let mut l: Vec<f64> = vec![];
    for v in y {
        if !l.contains(v) {
            l.push(*v);
        }
    }
    l
}

/// Is `pred` the aggregate (plurality label / arithmetic mean) of `members`?  Err(description) if not.
fn aggregate_ok(cls: bool, pred: f64, members: &[f64], tol: f64) -> Result<(), String> {
    if cls {
        let votes = |l: f64| members.iter().filter(|m| **m == l).count();
        let best = members.iter().map(|m| votes(*m)).max().unwrap_or(0);
        if votes(pred) == best {
            Ok(())
        } else {
            Err(format!("forest predicts {} ({} of {} votes) but a plurality class has {} votes; member predictions {:?}", pred, votes(pred), members.len(), best, members))
        }
    } else {
        let mean = members.iter().sum::<f64>() / members.len() as f64;
        if (pred - mean).abs() <= tol {
            Ok(())
        } else {
            Err(format!("forest predicts {} but the mean of the {} member predictions is {}", pred, members.len(), mean))
        }
    }
}

fn gen_extra(c: &Case, key: u64) -> Vec<Vec<f64>> {
    let n = c.x.len();
    let p = c.x[0].len();
    let mut r = Rng::new(key);
    let mut extra: Vec<Vec<f64>> = vec![];
    for _ in 0..5 {
        let mut row = c.x[r.below(n)].clone();
        let j = r.below(p);
        row[j] = match r.below(3) {
            0 => c.x[r.below(n)][j],
            1 => row[j] + r.dyadic(2, 2),
            _ => r.uniform(-10.0, 10.0),
        };
        extra.push(row);
    }
    extra
}

/// Two fits with the same data, parameters and seed compare equal with the crate's own `PartialEq`
/// (both directions) and each forest equals itself.  None = holds; Some(description) otherwise.
fn eq_check(c: &Case) -> Option<String> {
    let r = guard(|| {
        let xm = dense(&c.x);
        let verdict = |ab: bool, ba: bool, aa: bool, bb: bool| -> Option<String> {
            if !aa || !bb {
                Some("a fitted forest does not compare equal (==) to itself".into())
            } else if !ab || !ba {
                Some(format!("two fits with the same data, parameters and seed do not compare equal (a == b: {}, b == a: {})", ab, ba))
            } else {
                None
            }
        };
        if c.cls {
            let mk = || RandomForestClassifier::fit(&xm, &c.y, RandomForestClassifierParameters { criterion: criterion(c.crit), max_depth: c.md, min_samples_leaf: c.msl, min_samples_split: c.mss, n_trees: c.n_trees as u16, m: c.m, keep_samples: c.keep, seed: c.seed });
            match (mk(), mk()) {
                (Ok(a), Ok(b)) => verdict(a == b, b == a, a == a, b == b),
                _ => Some("fit fails".into()),
            }
        } else {
            let mk = || RandomForestRegressor::fit(&xm, &c.y, RandomForestRegressorParameters { max_depth: c.md, min_samples_leaf: c.msl, min_samples_split: c.mss, n_trees: c.n_trees, m: c.m, keep_samples: c.keep, seed: c.seed });
            match (mk(), mk()) {
                (Ok(a), Ok(b)) => verdict(a == b, b == a, a == a, b == b),
                _ => Some("fit fails".into()),
            }
        }
    });
    match r {
        Ok(v) => v,
        Err(m) => Some(format!("comparing two fits panicked: {}", m)),
    }
}

/// Evaluate every clause of the property on one case; returns the violated clauses.
fn eval_case(c: &Case, extra_in: &[Vec<f64>], deep: bool) -> Vec<(String, String)> {
    let mut fails: Vec<(String, String)> = vec![];
    let n = c.x.len();
    let p = c.x[0].len();
    let extra: Vec<Vec<f64>> = extra_in.iter().filter(|r| r.len() == p).cloned().collect();
    let f = match run_impl(c, &extra, true) {
        Err(m) => return vec![("no_panic".into(), format!("fit/predict panicked: {}", m))],
        Ok(None) => return vec![("fit_ok".into(), "fit returned Err on a valid training set".into())],
        Ok(Some(r)) => r,
    };
    let labels = distinct_labels(&c.y);
    let ymax = c.y.iter().fold(0.0f64, |m, v| m.max(v.abs()));
    let (ylo, yhi) = c.y.iter().fold((f64::INFINITY, f64::NEG_INFINITY), |(a, b), v| (a.min(*v), b.max(*v)));
    let tol = 1e-9 * (1.0 + ymax);
    stat("forests", 1);
    stat("member_trees", f.n_members as u64);

    // --- the forest holds exactly n_trees member trees ---
    if f.n_members != c.n_trees {
        fails.push(("n_trees_members".into(), format!("the forest holds {} member trees, n_trees = {}", f.n_members, c.n_trees)));
        return fails;
    }

    // --- a forest's prediction is the plurality class / arithmetic mean of its members' predictions ---
    'agg: for (what, preds, members, cnt) in [("training", &f.pred_train, &f.member_train, n), ("unseen", &f.pred_extra, &f.member_extra, extra.len())] {
        for i in 0..cnt {
            let ms: Vec<f64> = (0..f.n_members).map(|t| members[t][i]).collect();
            stat("predictions_recomputed", 1);
            if let Err(w) = aggregate_ok(c.cls, preds[i], &ms, tol) {
                fails.push((if c.cls { "forest_vote" } else { "forest_mean" }.into(), format!("{} row {}: {}", what, i, w)));
                break 'agg;
            }
        }
    }

    // --- bootstrap samples: counts from the hook, masks from the serialised forest ---
    let trace_ok = f.trace.len() == c.n_trees && f.trace.iter().all(|e| e.1.len() == n);
    if !trace_ok {
        fails.push(("bootstrap".into(), format!("the fit recorded {} bootstrap samples for {} trees (or of the wrong length)", f.trace.len(), c.n_trees)));
    }
    if c.cls && trace_ok {
        for (t, e) in f.trace.iter().enumerate() {
            for l in &labels {
                let size = c.y.iter().filter(|v| *v == l).count();
                let got: usize = (0..n).filter(|i| c.y[*i] == *l).map(|i| e.1[i]).sum();
                stat("class_strata_checked", 1);
                if size == 1 {
                    stat("class_strata_of_one_row", 1);
                }
                if got != size || !(0..n).any(|i| c.y[i] == *l && e.1[i] > 0) {
                    fails.push(("bootstrap_stratified".into(), format!("tree {}: the bootstrap sample holds {} draws of class {} which has {} rows", t, got, l, size)));
                    break;
                }
            }
        }
    }
    match (&f.samples, c.keep) {
        (None, false) => {}
        (Some(_), false) => {} // keeping more than asked is not excluded by the property
        (None, true) => fails.push(("oob_membership".into(), "keep_samples = true but the forest stores no samples".into())),
        (Some(masks), true) => {
            if masks.len() != c.n_trees || masks.iter().any(|m| m.len() != n) {
                fails.push(("oob_membership".into(), format!("the forest stores {} sample masks for {} trees (or of the wrong length)", masks.len(), c.n_trees)));
            } else {
                // every bootstrap sample of the classifier contains at least one row of every class
                if c.cls {
                    'strat: for (t, m) in masks.iter().enumerate() {
                        for l in &labels {
                            if !(0..n).any(|i| c.y[i] == *l && m[i]) {
                                fails.push(("bootstrap_stratified".into(), format!("tree {}: the stored sample contains no row of class {}", t, l)));
                                break 'strat;
                            }
                        }
                    }
                }
                // the stored masks are the rows the tree's bootstrap sample contained
                if trace_ok {
                    'mask: for t in 0..c.n_trees {
                        for i in 0..n {
                            if masks[t][i] != (f.trace[t].1[i] > 0) {
                                fails.push(("oob_membership".into(), format!("tree {}: row {} was drawn {} times but the stored sample says {}", t, i, f.trace[t].1[i], masks[t][i])));
                                break 'mask;
                            }
                        }
                    }
                }
                // out-of-bag prediction of training row i = aggregate over exactly the trees without row i
                match &f.oob {
                    None => fails.push(("oob_prediction".into(), "predict_oob fails although samples were kept".into())),
                    Some(oob) => {
                        for i in 0..n {
                            let ms: Vec<f64> = (0..c.n_trees).filter(|t| !masks[*t][i]).map(|t| f.member_train[t][i]).collect();
                            if ms.is_empty() {
                                stat("oob_rows_without_oob_tree", 1);
                                continue;
                            }
                            stat("oob_predictions_recomputed", 1);
                            if ms.len() < c.n_trees {
                                stat("oob_predictions_proper_subset", 1);
                            }
                            if let Err(w) = aggregate_ok(c.cls, oob[i], &ms, tol) {
                                let who: Vec<usize> = (0..c.n_trees).filter(|t| !masks[*t][i]).collect();
                                fails.push(("oob_prediction".into(), format!("training row {} (out of bag for trees {:?}): {}", i, who, w)));
                                break;
                            }
                            if c.cls && !labels.contains(&oob[i]) {
                                fails.push(("labels_original".into(), format!("out-of-bag prediction {} of row {} is not an original label", oob[i], i)));
                                break;
                            }
                            if !c.cls && !(oob[i] >= ylo - tol && oob[i] <= yhi + tol) {
                                fails.push(("target_range".into(), format!("out-of-bag prediction {} of row {} lies outside the target range [{}, {}]", oob[i], i, ylo, yhi)));
                                break;
                            }
                        }
                    }
                }
            }
        }
    }
    // the tree was grown on the recorded sample: its root statistic is that of the counted rows
    if trace_ok {
        for t in 0..c.n_trees {
            let cnt = &f.trace[t].1;
            let root = &f.trees[t].nodes[0];
            let tot: usize = cnt.iter().sum();
            if tot == 0 {
                continue;
            }
            stat("roots_checked_against_counts", 1);
            if c.cls {
                let lab = f.trees[t].classes.get(root.out as usize).cloned().unwrap_or(f64::NAN);
                let w = |l: f64| (0..n).filter(|i| c.y[*i] == l).map(|i| cnt[i]).sum::<usize>();
                let best = labels.iter().map(|l| w(*l)).max().unwrap();
                if !labels.contains(&lab) || w(lab) != best {
                    fails.push(("oob_membership".into(), format!("tree {}: root class {} is not a plurality class of its recorded bootstrap sample", t, lab)));
                    break;
                }
            } else {
                let mean = (0..n).map(|i| cnt[i] as f64 * c.y[i]).sum::<f64>() / tot as f64;
                if !((root.out - mean).abs() <= tol) {
                    fails.push(("oob_membership".into(), format!("tree {}: root value {} is not the mean {} of its recorded bootstrap sample", t, root.out, mean)));
                    break;
                }
            }
        }
    }

    // --- classifier predictions are original label values; regressor predictions lie in the target range ---
    for (what, preds) in [("training", &f.pred_train), ("unseen", &f.pred_extra)] {
        for (i, v) in preds.iter().enumerate() {
            if c.cls {
                if !labels.contains(v) {
                    fails.push(("labels_original".into(), format!("{} row {}: prediction {} is not an original label", what, i, v)));
                    break;
                }
            } else if !(*v >= ylo - tol && *v <= yhi + tol) {
                fails.push(("target_range".into(), format!("{} row {}: prediction {} lies outside the target range [{}, {}]", what, i, v, ylo, yhi)));
                break;
            }
        }
    }

    // --- same data, parameters and seed: identical forest, identical predictions ---
    if deep {
        // unrelated fits in between (hidden state such as a thread-local generator would show)
        let mut other = c.clone();
        other.seed = c.seed.wrapping_add(0x9E37_79B9);
        other.n_trees = 2;
        let _ = run_impl(&other, &[], false);
        let mut other2 = c.clone();
        other2.x.reverse();
        other2.y.reverse();
        let _ = run_impl(&other2, &[], false);
    }
    stat("refits_compared", 1);
    match run_impl(c, &extra, false) {
        Ok(Some(g)) => {
            if g.bytes != f.bytes {
                fails.push(("reproducible".into(), "a second fit with the same data, parameters and seed serialises to different bytes".into()));
            } else if !same_vec(&g.pred_train, &f.pred_train) || !same_vec(&g.pred_extra, &f.pred_extra) {
                fails.push(("reproducible".into(), "a second fit with the same data, parameters and seed predicts differently".into()));
            } else if match (&g.oob, &f.oob) { (Some(a), Some(b)) => !same_vec(a, b), (None, None) => false, _ => true } {
                fails.push(("reproducible".into(), "a second fit with the same data, parameters and seed gives different out-of-bag predictions".into()));
            } else if g.trace != f.trace {
                fails.push(("reproducible".into(), "a second fit with the same seed drew different bootstrap samples".into()));
            }
        }
        _ => fails.push(("reproducible".into(), "a second fit with the same data, parameters and seed fails".into())),
    }
    stat("refits_compared_with_eq", 1);
    if let Some(w) = eq_check(c) {
        fails.push(("reproducible_eq".into(), w));
    }
    // how often the stored state holds an exact zero (the values a relative tolerance mishandles)
    if f.trees.iter().any(|t| t.nodes.iter().any(|nd| (!c.cls && nd.out == 0.0) || nd.sv == Some(0.0) || nd.ss == Some(0.0))) {
        stat("forests_storing_an_exact_zero", 1);
    }
    fails
}

fn valid_case(c: &Case) -> bool {
    if c.x.len() < 2 || c.x[0].is_empty() || c.n_trees < 1 {
        return false;
    }
    if c.cls && distinct_labels(&c.y).len() < 2 {
        return false;
    }
    if let Some(m) = c.m {
        if m < 1 || m > c.x[0].len() {
            return false;
        }
    }
    true
}

/// greedy shrink: fewer trees, fewer rows, fewer features while the same clause keeps failing
fn shrink(c: &Case, extra: &[Vec<f64>], oracle: &str) -> (Case, Vec<Vec<f64>>) {
    let mut cur = c.clone();
    let mut cur_extra: Vec<Vec<f64>> = extra.to_vec();
    let still = |cc: &Case, ex: &[Vec<f64>]| -> bool { valid_case(cc) && eval_case(cc, ex, true).iter().any(|(o, _)| o == oracle) };
    let mut budget = 300;
    let mut progress = true;
    while progress && budget > 0 {
        progress = false;
        while cur.n_trees > 1 && budget > 0 {
            let mut t = cur.clone();
            t.n_trees = if cur.n_trees > 4 { cur.n_trees / 2 } else { cur.n_trees - 1 };
            budget -= 1;
            if still(&t, &cur_extra) {
                cur = t;
                progress = true;
            } else {
                break;
            }
        }
        let mut i = 0;
        while i < cur.x.len() && budget > 0 {
            let mut t = cur.clone();
            t.x.remove(i);
            t.y.remove(i);
            budget -= 1;
            if still(&t, &cur_extra) {
                cur = t;
                progress = true;
            } else {
                i += 1;
            }
        }
        let mut j = 0;
        while cur.x[0].len() > 1 && j < cur.x[0].len() && budget > 0 {
            let mut t = cur.clone();
            for r in t.x.iter_mut() {
                r.remove(j);
            }
            if let Some(m) = t.m {
                t.m = Some(m.min(t.x[0].len()));
            }
            let mut te = cur_extra.clone();
            for r in te.iter_mut() {
                r.remove(j);
            }
            budget -= 1;
            if still(&t, &te) {
                cur = t;
                cur_extra = te;
                progress = true;
            } else {
                j += 1;
            }
        }
    }
    (cur, cur_extra)
}

fn case_key(c: &Case) -> u64 {
    let mut kd: Vec<f64> = c.x.iter().flatten().cloned().collect();
    kd.extend(c.y.iter());
    kd.extend([c.cls as u8 as f64, c.crit as f64, c.md.map(|d| d as f64).unwrap_or(-1.0), c.msl as f64, c.mss as f64, c.n_trees as f64, c.m.map(|d| d as f64).unwrap_or(-1.0), c.keep as u8 as f64, (c.seed >> 32) as f64, (c.seed & 0xffff_ffff) as f64]);
    hash_f64s(&kd)
}

fn check_case(out: &mut Out, c: &Case, family: &str, deep: bool) {
    let key = case_key(c);
    let n = c.x.len();
    out.eval(key, n >= 6 && c.n_trees >= 2);
    out.count(&format!("search:{}:{}", if c.cls { ["gini", "entropy", "classerr"][c.crit] } else { "regression" }, family));
    out.count(&format!("search:rows<={}", if n <= 10 { 10 } else if n <= 40 { 40 } else { 120 }));
    out.count(&format!("search:n_trees<={}", if c.n_trees <= 3 { 3 } else if c.n_trees <= 10 { 10 } else { 30 }));
    out.count(&format!("search:m={}", match c.m { None => "default", Some(m) if m == c.x[0].len() => "p", _ => "1..p-1" }));
    out.count(&format!("search:keep_samples={}", c.keep));
    out.count(&format!("search:max_depth={}", c.md.map(|d| if d <= 2 { "1-2" } else { "3-8" }).unwrap_or("none")));
    if c.cls {
        out.count(&format!("search:classes={}", distinct_labels(&c.y).len()));
    }
    let extra = gen_extra(c, key);
    let fails = eval_case(c, &extra, deep);
    if let Some((oracle, what)) = fails.first() {
        let (small, small_extra) = shrink(c, &extra, oracle);
        let what2 = eval_case(&small, &small_extra, true).into_iter().find(|(o, _)| o == oracle).map(|(_, w)| w).unwrap_or(what.clone());
        let mut inp = small.to_json();
        inp["extra_rows"] = json!(small_extra);
        out.fail(oracle, &what2, inp);
    }
}

// ------------------------------------------------------------------------------------------
// generators
// ------------------------------------------------------------------------------------------
const LABEL_PALETTE: [f64; 9] = [-7.5, -2.0, 0.0, 0.5, 1.0, 3.0, 4.0, 17.0, 100.0];

/// kind: 0 small integers (many ties), 1 continuous, 2 dyadic quarter steps, 3 pairwise distinct dyadic,
/// 4 half-integers symmetric about 0 (the midpoint of -0.5 and 0.5 is a threshold of exactly 0)
fn gen_x(rng: &mut Rng, n: usize, p: usize, kind: usize) -> Vec<Vec<f64>> {
    let mut cols: Vec<Vec<f64>> = vec![];
    for _ in 0..p {
        let constant = kind != 3 && rng.chance(0.1);
        let col: Vec<f64> = if constant {
            let v = rng.int(-2, 2) as f64;
            vec![v; n]
        } else {
            match kind {
                0 => {
                    let hi = rng.int(1, 5);
                    (0..n).map(|_| rng.int(0, hi) as f64).collect()
                }
                1 => (0..n).map(|_| rng.uniform(-5.0, 5.0)).collect(),
                2 => (0..n).map(|_| rng.dyadic(5, 2)).collect(),
                4 => (0..n).map(|_| rng.int(-3, 2) as f64 + 0.5).collect(),
                _ => {
                    let mut v: Vec<f64> = (0..n).map(|i| (i as f64) * 0.25 - (n as f64) / 8.0).collect();
                    rng.shuffle(&mut v);
                    v
                }
            }
        };
        cols.push(col);
    }
    (0..n).map(|i| (0..p).map(|j| cols[j][i]).collect()).collect()
}
fn gen_seed(rng: &mut Rng) -> u64 {
    match rng.below(6) {
        0 => rng.below(4) as u64,
        1 => u64::MAX - rng.below(3) as u64,
        2 => 1u64 << rng.below(64),
        3 => rng.next_u64() % 1000,
        _ => rng.next_u64(),
    }
}
fn gen_case(rng: &mut Rng, nmin: usize, nmax: usize, tmax: usize, force_cls: Option<bool>) -> (Case, &'static str) {
    let n = if rng.chance(0.3) { rng.usize_in(nmin, 12.min(nmax)) } else { rng.usize_in(nmin, nmax) };
    let p = rng.usize_in(1, 6);
    let cls = force_cls.unwrap_or_else(|| rng.bool());
    let kind = rng.below(5);
    let x = gen_x(rng, n, p, kind);
    let y: Vec<f64> = if cls {
        let k = rng.usize_in(2, 4.min(n));
        let mut pal: Vec<f64> = LABEL_PALETTE.to_vec();
        rng.shuffle(&mut pal);
        pal.truncate(k);
        let mode = rng.below(3); // 0 random, 1 depends on the first feature, 2 imbalanced (rare classes of 1-2 rows)
        let mut y: Vec<f64> = (0..n)
            .map(|i| match mode {
                1 if !rng.chance(0.15) => pal[((x[i][0] * 2.0).floor().rem_euclid(k as f64)) as usize],
                2 => pal[0],
                _ => *rng.pick(&pal),
            })
            .collect();
        // every class occurs: plant each label once (imbalanced mode: once or twice) at distinct rows
        let mut rows: Vec<usize> = (0..n).collect();
        rng.shuffle(&mut rows);
        let mut at = 0;
        for l in 0..k {
            let reps = if mode == 2 && l > 0 && at + 2 * (k - l) <= n && rng.bool() { 2 } else { 1 };
            for _ in 0..reps {
                if at < n {
                    y[rows[at]] = pal[l];
                    at += 1;
                }
            }
        }
        y
    } else {
        match rng.below(6) {
            0 => (0..n).map(|_| rng.int(0, 9) as f64).collect(),
            // targets 0 / constant on either side of x0 = 0: exact-zero outputs and zero-gain splits
            4 => (0..n).map(|i| if rng.chance(0.05) { 1.0 } else if x[i][0] <= 0.0 { 0.0 } else { 4.0 }).collect(),
            5 => (0..n).map(|_| [0.0, 0.0, -2.0, 2.0][rng.below(4)]).collect(),
            1 => (0..n).map(|_| rng.uniform(-10.0, 10.0)).collect(),
            2 => (0..n).map(|i| x[i][0] * 2.0 + rng.dyadic(1, 3)).collect(),
            _ => (0..n).map(|_| 1000.0 + rng.dyadic(2, 4)).collect(),
        }
    };
    let md = if rng.chance(0.45) { None } else { Some(rng.usize_in(1, 8) as u16) };
    let (msl, mss) = if rng.chance(0.4) { (1, 2) } else { (rng.usize_in(1, 5), rng.usize_in(0, 8)) };
    let n_trees = if rng.chance(0.35) { rng.usize_in(1, 4.min(tmax)) } else { rng.usize_in(1, tmax) };
    let m = if rng.chance(0.3) { None } else { Some(rng.usize_in(1, p)) };
    let fam = ["small-int", "continuous", "dyadic", "distinct", "half-int-symmetric"][kind];
    (Case { cls, crit: rng.below(3), x, y, n_trees, m, md, msl, mss, keep: rng.chance(0.6), seed: gen_seed(rng) }, fam)
}

// ------------------------------------------------------------------------------------------
// correspondence
// ------------------------------------------------------------------------------------------
fn coq_on(o: Option<usize>) -> String {
    coq_option(o.map(coq_n))
}
fn coq_of(o: Option<f64>) -> String {
    coq_option(o.map(coq_f64))
}
fn coq_rnodes(t: &Tree) -> String {
    coq_list(t.nodes.iter().map(|nd| format!("({}, {}, {}, {}, {}, {})", coq_f64(nd.out), coq_n(nd.feat), coq_of(nd.sv), coq_of(nd.ss), coq_on(nd.tc), coq_on(nd.fc))))
}
fn coq_cnodes(t: &Tree) -> String {
    coq_list(t.nodes.iter().map(|nd| format!("({}, {}, {}, {}, {}, {})", coq_n(nd.out as usize), coq_n(nd.feat), coq_of(nd.sv), coq_of(nd.ss), coq_on(nd.tc), coq_on(nd.fc))))
}
fn coq_masks(s: &Option<Vec<Vec<bool>>>) -> String {
    coq_option(s.as_ref().map(|ms| coq_list(ms.iter().map(|m| coq_list(m.iter().map(|b| coq_bool(*b)))))))
}
fn log2_table(n: usize) -> String {
    let mut seen: Vec<u64> = vec![];
    let mut items: Vec<String> = vec![];
    for m in 1..=n {
        for c in 1..=m {
            let p = c as f64 / m as f64;
            if !seen.contains(&p.to_bits()) {
                seen.push(p.to_bits());
                items.push(format!("({}, {})", coq_f64(p), coq_f64(p.log2())));
            }
        }
    }
    coq_list(items)
}
/// per tree: (draws, [(node id, features tried)]) from the two recorders
fn coq_oracle(f: &Fitted) -> String {
    coq_list((0..f.trace.len()).map(|t| {
        let lo = f.trace[t].2;
        let hi = if t + 1 < f.trace.len() { f.trace[t + 1].2 } else { f.vars.len() };
        let tab = coq_list(f.vars[lo.min(f.vars.len())..hi.min(f.vars.len())].iter().map(|(id, vs)| format!("({}, {})", coq_n(*id), coq_list_n(vs))));
        format!("({}, {})", coq_list_n(&f.trace[t].0), tab)
    }))
}
fn probe_rows(c: &Case, rng: &mut Rng, k: usize) -> Vec<Vec<f64>> {
    let n = c.x.len();
    let p = c.x[0].len();
    let mut rows: Vec<Vec<f64>> = vec![];
    for _ in 0..k {
        let mut row = c.x[rng.below(n)].clone();
        if rng.bool() {
            let j = rng.below(p);
            row[j] = c.x[rng.below(n)][j] + if rng.bool() { 0.0 } else { rng.dyadic(1, 2) };
        }
        rows.push(row);
    }
    rows
}
/// whole fit: the model is run on the recorded draws / tried features and must reproduce every
/// member tree field by field, the masks, predict on probe rows and predict_oob
fn corr_forest(out: &mut Out, c: &Case, rng: &mut Rng) {
    let rows = probe_rows(c, rng, 6);
    let res = match run_impl(c, &rows, false) {
        Err(_) => return, // a panic is the search's business
        Ok(r) => r,
    };
    let mut input = c.to_json();
    input["rows"] = json!(rows);
    let md = coq_option(c.md.map(|d| coq_n(d as usize)));
    let m = coq_option(c.m.map(coq_n));
    let (oracle, pred, oob) = match &res {
        Some(f) => (coq_oracle(f), coq_list_f64(&f.pred_extra), coq_option(f.oob.as_ref().map(|o| coq_list_f64(o)))),
        None => ("nil".to_string(), "nil".to_string(), "None".to_string()),
    };
    if c.cls {
        let exp = coq_option(res.as_ref().map(|f| {
            format!("({}, {}, {})", coq_list(f.trees.iter().map(|t| format!("({}, {}, {})", coq_list_f64(&t.classes), coq_cnodes(t), coq_n(t.depth)))), coq_list_f64(&f.classes), coq_masks(&f.samples))
        }));
        let tab = if c.crit == 1 { log2_table(c.x.len()) } else { "nil".to_string() };
        out.corr(
            ["cls_forest_gini", "cls_forest_entropy", "cls_forest_classerr"][c.crit],
            format!("corr_cls_forest {} {} {} {} {} {} {} {} {} {} {} {} {} {} {}", coq_n(c.crit), coq_rows_f64(&c.x), coq_list_f64(&c.y), coq_n(c.n_trees), m, md, coq_n(c.msl), coq_n(c.mss), coq_bool(c.keep), oracle, tab, exp, coq_rows_f64(&rows), pred, oob),
            input,
        );
    } else {
        let exp = coq_option(res.as_ref().map(|f| format!("({}, {})", coq_list(f.trees.iter().map(|t| format!("({}, {})", coq_rnodes(t), coq_n(t.depth)))), coq_masks(&f.samples))));
        out.corr(
            "reg_forest",
            format!("corr_reg_forest {} {} {} {} {} {} {} {} {} {} {} {} {}", coq_rows_f64(&c.x), coq_list_f64(&c.y), coq_n(c.n_trees), m, md, coq_n(c.msl), coq_n(c.mss), coq_bool(c.keep), oracle, exp, coq_rows_f64(&rows), pred, oob),
            input,
        );
    }
}
/// the model's predict / predict_oob on the implementation's own trees and masks; the bootstrap
/// model on the first recorded draw sequences
fn corr_state(out: &mut Out, c: &Case, rng: &mut Rng) {
    let rows = probe_rows(c, rng, 8);
    let f = match run_impl(c, &rows, false) {
        Ok(Some(f)) => f,
        _ => return,
    };
    let mut input = c.to_json();
    input["rows"] = json!(rows);
    let oob = coq_option(f.oob.as_ref().map(|o| coq_list_f64(o)));
    if c.cls {
        out.corr(
            "cls_forest_predict_on_impl_state",
            format!("corr_cls_forest_predict {} {} {} {} {} {} {}", coq_list_f64(&f.classes), coq_list(f.trees.iter().map(coq_cnodes)), coq_masks(&f.samples), coq_rows_f64(&c.x), coq_rows_f64(&rows), coq_list_f64(&f.pred_extra), oob),
            input.clone(),
        );
        let mut classes = distinct_labels(&c.y);
        classes.sort_by(|a, b| a.partial_cmp(b).unwrap());
        let yi: Vec<usize> = c.y.iter().map(|v| classes.iter().position(|l| l == v).unwrap()).collect();
        for e in f.trace.iter().take(2) {
            out.corr("cls_bootstrap", format!("corr_cls_bootstrap {} {} {} {}", coq_list_n(&yi), coq_n(classes.len()), coq_list_n(&e.0), coq_list_n(&e.1)), input.clone());
        }
    } else {
        out.corr(
            "reg_forest_predict_on_impl_state",
            format!("corr_reg_forest_predict {} {} {} {} {} {}", coq_list(f.trees.iter().map(coq_rnodes)), coq_masks(&f.samples), coq_rows_f64(&c.x), coq_rows_f64(&rows), coq_list_f64(&f.pred_extra), oob),
            input.clone(),
        );
        for e in f.trace.iter().take(2) {
            out.corr("reg_bootstrap", format!("corr_reg_bootstrap {} {} {}", coq_n(c.x.len()), coq_list_n(&e.0), coq_list_n(&e.1)), input.clone());
        }
    }
}

// ------------------------------------------------------------------------------------------
// api_trait_twin: fit / predict through `smartcore::api::{SupervisedEstimator, Predictor}` give exactly
// what the inherent methods give (training matrix and extra rows, model fitted either way; the fit is a
// function of (data, parameters, seed), so the two fitted forests must coincide too)
// ------------------------------------------------------------------------------------------
fn twin_case(c: &Case, extra: &[Vec<f64>]) -> Option<twin::Diff> {
    type DM = smartcore::linalg::naive::dense_matrix::DenseMatrix<f64>;
    if c.x.is_empty() || c.x[0].is_empty() || extra.is_empty() {
        return None;
    }
    let x = dense(&c.x);
    let xe = dense(extra);
    let y = c.y.clone();
    let probes = [("the training matrix", &x), ("the extra rows", &xe)];
    macro_rules! run {
        ($ty:ty, $p:expr) => {{
            let p = $p;
            twin::check(
                "SupervisedEstimator",
                "Predictor",
                "predict",
                || twin::fit_sup::<$ty, _, _, _>(&x, &y, p.clone()),
                || <$ty>::fit(&x, &y, p.clone()),
                |m: &$ty, z: &DM| twin::predict(m, z),
                |m: &$ty, z: &DM| m.predict(z),
                &probes,
                |m: &$ty| serde_json::to_string(m).unwrap_or_default(),
                true,
            )
        }};
    }
    if c.cls {
        run!(RandomForestClassifier<f64>, RandomForestClassifierParameters { criterion: criterion(c.crit), max_depth: c.md, min_samples_leaf: c.msl, min_samples_split: c.mss, n_trees: c.n_trees as u16, m: c.m, keep_samples: c.keep, seed: c.seed })
    } else {
        run!(RandomForestRegressor<f64>, RandomForestRegressorParameters { max_depth: c.md, min_samples_leaf: c.msl, min_samples_split: c.mss, n_trees: c.n_trees, m: c.m, keep_samples: c.keep, seed: c.seed })
    }
}

fn check_twin(out: &mut Out, c: &Case) {
    let key = case_key(c);
    out.eval(key ^ 0x7717, c.x.len() >= 6 && c.n_trees >= 2);
    out.count(&format!("twin:{}", if c.cls { "classifier" } else { "regressor" }));
    let extra = gen_extra(c, key);
    if twin_case(c, &extra).is_none() {
        return;
    }
    // shrink: fewer extra rows, fewer training rows, fewer trees
    let (mut cur, mut ex) = (c.clone(), extra);
    let mut progress = true;
    let mut budget = 200;
    while progress && budget > 0 {
        progress = false;
        let mut i = 0;
        while ex.len() > 1 && i < ex.len() && budget > 0 {
            let mut t = ex.clone();
            t.remove(i);
            budget -= 1;
            if twin_case(&cur, &t).is_some() { ex = t; progress = true; } else { i += 1; }
        }
        let mut i = 0;
        while cur.x.len() > 2 && i < cur.x.len() && budget > 0 {
            let mut t = cur.clone();
            t.x.remove(i);
            t.y.remove(i);
            budget -= 1;
            if valid_case(&t) && twin_case(&t, &ex).is_some() { cur = t; progress = true; } else { i += 1; }
        }
        if cur.n_trees > 1 && budget > 0 {
            let mut t = cur.clone();
            t.n_trees -= 1;
            budget -= 1;
            if twin_case(&t, &ex).is_some() { cur = t; progress = true; }
        }
    }
    if let Some(d) = twin_case(&cur, &ex) {
        let mut inp = cur.to_json();
        inp["oracle"] = json!(twin::ORACLE);
        inp["extra_rows"] = json!(ex);
        inp["differing_call"] = json!(d.call);
        out.count(&format!("twin:failing:{}", if c.cls { "RandomForestClassifier" } else { "RandomForestRegressor" }));
        out.fail(twin::ORACLE, &format!("{}: {}: {}", if c.cls { "RandomForestClassifier" } else { "RandomForestRegressor" }, d.call, d.what), inp);
    }
}

fn replay(path: &str) -> i32 {
    let v = read_replay(path);
    let inp = if v.get("input").is_some() { v["input"].clone() } else { v.clone() };
    let fails = match inp["entry"].as_str().unwrap_or("") {
        "forest" => {
            let c = Case::from_json(&inp);
            let extra = if inp.get("extra_rows").is_some() { rows_from_json(&inp["extra_rows"]) } else if inp.get("rows").is_some() { rows_from_json(&inp["rows"]) } else { gen_extra(&c, case_key(&c)) };
            let mut f = eval_case(&c, &extra, true);
            if let Some(d) = twin_case(&c, &extra) {
                f.push((twin::ORACLE.to_string(), format!("{}: {}", d.call, d.what)));
            }
            f
        }
        _ => {
            eprintln!("unknown replay entry");
            return 2;
        }
    };
    if fails.is_empty() {
        println!("REPLAY: property=C06 passes: {}", path);
        0
    } else {
        for (o, w) in &fails {
            println!("REPLAY: property=C06 still fails [{}]: {}", o, w);
        }
        println!("REPLAY: property=C06 still fails: {}", path);
        1
    }
}

fn iris_like() -> (Vec<Vec<f64>>, Vec<f64>) {
    let x = vec![
        vec![5.1, 3.5, 1.4, 0.2], vec![4.9, 3.0, 1.4, 0.2], vec![4.7, 3.2, 1.3, 0.2], vec![4.6, 3.1, 1.5, 0.2], vec![5.0, 3.6, 1.4, 0.2],
        vec![5.4, 3.9, 1.7, 0.4], vec![4.6, 3.4, 1.4, 0.3], vec![5.0, 3.4, 1.5, 0.2], vec![4.4, 2.9, 1.4, 0.2], vec![4.9, 3.1, 1.5, 0.1],
        vec![7.0, 3.2, 4.7, 1.4], vec![6.4, 3.2, 4.5, 1.5], vec![6.9, 3.1, 4.9, 1.5], vec![5.5, 2.3, 4.0, 1.3], vec![6.5, 2.8, 4.6, 1.5],
        vec![5.7, 2.8, 4.5, 1.3], vec![6.3, 3.3, 4.7, 1.6], vec![4.9, 2.4, 3.3, 1.0], vec![6.6, 2.9, 4.6, 1.3], vec![5.2, 2.7, 3.9, 1.4],
    ];
    let y = vec![0., 0., 0., 0., 0., 0., 0., 0., 1., 1., 1., 1., 1., 1., 1., 1., 1., 1., 1., 1.];
    (x, y)
}
fn longley() -> (Vec<Vec<f64>>, Vec<f64>) {
    let x = vec![
        vec![234.289, 235.6, 159., 107.608, 1947., 60.323], vec![259.426, 232.5, 145.6, 108.632, 1948., 61.122], vec![258.054, 368.2, 161.6, 109.773, 1949., 60.171],
        vec![284.599, 335.1, 165., 110.929, 1950., 61.187], vec![328.975, 209.9, 309.9, 112.075, 1951., 63.221], vec![346.999, 193.2, 359.4, 113.27, 1952., 63.639],
        vec![365.385, 187., 354.7, 115.094, 1953., 64.989], vec![363.112, 357.8, 335., 116.219, 1954., 63.761], vec![397.469, 290.4, 304.8, 117.388, 1955., 66.019],
        vec![419.18, 282.2, 285.7, 118.734, 1956., 67.857], vec![442.769, 293.6, 279.8, 120.445, 1957., 68.169], vec![444.546, 468.1, 263.7, 121.95, 1958., 66.513],
        vec![482.704, 381.3, 255.2, 123.366, 1959., 68.655], vec![502.601, 393.1, 251.4, 125.368, 1960., 69.564], vec![518.173, 480.6, 257.2, 127.852, 1961., 69.331],
        vec![554.894, 400.7, 282.7, 130.081, 1962., 70.551],
    ];
    let y = vec![83.0, 88.5, 88.2, 89.5, 96.2, 98.1, 99.0, 100.0, 101.2, 104.6, 108.4, 110.8, 112.6, 114.2, 115.7, 116.9];
    (x, y)
}

fn main() {
    quiet_panics();
    let a = args();
    if let Some(p) = &a.replay {
        std::process::exit(replay(p));
    }
    let mut rng = Rng::new(a.seed);
    let mut out = Out::new(
        "C06",
        "search case = (training matrix, targets/labels, criterion, n_trees, m, max_depth, min_samples_leaf, min_samples_split, keep_samples, seed); every clause of the property is evaluated on the serialised forest, its member trees' own predictions and the recorded bootstrap counts, and the fit is repeated; non-trivial: >= 6 rows and >= 2 trees; distinct by hash of (data, parameters, seed). api-trait twin case = a search case fitted and queried through smartcore::api::{SupervisedEstimator, Predictor} and through the inherent methods; all results must coincide bit for bit",
    );
    out.max_failures = 6;

    // ---- corpus: no defect of DESIGN Section 2 concerns C06; the unit tests' data sets ----
    let (ix, iy) = iris_like();
    let (lx, ly) = longley();
    for (k, (n_trees, m, md, keep, seed)) in [(10usize, None, None, true, 87u64), (30, Some(2usize), Some(3u16), true, 0), (5, Some(4), None, false, u64::MAX), (1, Some(1), Some(1), true, 1)].iter().enumerate() {
        let c = Case { cls: true, crit: k % 3, x: ix.clone(), y: iy.clone(), n_trees: *n_trees, m: *m, md: *md, msl: 1, mss: 2, keep: *keep, seed: *seed };
        check_case(&mut out, &c, "corpus", true);
        let mut small = c.clone();
        small.n_trees = c.n_trees.min(4);
        corr_forest(&mut out, &small, &mut rng);
        let r = Case { cls: false, crit: 0, x: lx.clone(), y: ly.clone(), n_trees: *n_trees, m: m.map(|v| v + 1), md: *md, msl: 1 + k % 2, mss: 2, keep: *keep, seed: *seed };
        check_case(&mut out, &r, "corpus", true);
        let mut small = r.clone();
        small.n_trees = r.n_trees.min(4);
        corr_forest(&mut out, &small, &mut rng);
    }

    // classes of a single row, two rows only, extreme seeds, one tree (the shapes on which a
    // non-stratified or mis-indexed bootstrap, a wrong mask or a dropped tree shows at once)
    for (k, seed) in [0u64, 1, 87, u64::MAX, 1 << 63, 12345678901234567].iter().enumerate() {
        let x: Vec<Vec<f64>> = (0..7).map(|i| vec![((i * 5 + k) % 7) as f64 * 0.5, (i % 3) as f64]).collect();
        let y = vec![17.0, -2.0, -2.0, 0.5, -2.0, -2.0, -2.0];
        let c = Case { cls: true, crit: k % 3, x: x.clone(), y, n_trees: 1 + k % 4, m: if k % 2 == 0 { None } else { Some(1 + k % 2) }, md: None, msl: 1, mss: 2, keep: true, seed: *seed };
        check_case(&mut out, &c, "corpus", true);
        corr_forest(&mut out, &c, &mut rng);
        let c2 = Case { cls: true, crit: 0, x: vec![vec![0.0], vec![1.0]], y: vec![3.0, 1.0], n_trees: 1 + k, m: Some(1), md: None, msl: 1, mss: 2, keep: true, seed: *seed };
        check_case(&mut out, &c2, "corpus", true);
        corr_forest(&mut out, &c2, &mut rng);
        let r = Case { cls: false, crit: 0, x, y: vec![1.0, 2.0, 4.0, 8.0, 16.0, 32.0, 64.0], n_trees: 1 + k % 4, m: Some(1 + k % 2), md: Some(2), msl: 1 + k % 2, mss: 2, keep: true, seed: *seed };
        check_case(&mut out, &r, "corpus", true);
        corr_forest(&mut out, &r, &mut rng);
    }

    // ---- correspondence: whole fits replayed by the model on the recorded draws ----
    let nfit = if a.thorough { 1500 } else { 400 };
    for i in 0..nfit {
        let cls = i % 2 == 1;
        let (mut c, _) = gen_case(&mut rng, 4, if i % 6 == 0 { 40 } else { 22 }, 5, Some(cls));
        if c.x.len() > 24 {
            c.n_trees = c.n_trees.min(3);
        }
        if c.cls && c.crit == 1 && c.x.len() > 18 {
            c.crit = if i % 4 == 1 { 0 } else { 2 };
        }
        corr_forest(&mut out, &c, &mut rng);
    }
    // ---- correspondence: the model's predict / predict_oob on the implementation's state, bootstrap on recorded draws ----
    let nstate = if a.thorough { 500 } else { 150 };
    for i in 0..nstate {
        let (mut c, _) = gen_case(&mut rng, 4, 120, 30, Some(i % 2 == 1));
        c.keep = i % 5 != 0;
        corr_state(&mut out, &c, &mut rng);
    }

    // ---- search ----
    let nsearch = if a.thorough { 120000 } else { 20000 };
    for i in 0..nsearch {
        let (c, fam) = gen_case(&mut rng, 4, 120, 30, None);
        check_case(&mut out, &c, fam, i % 3 == 0);
        if i < 2 && out.n_fail() == 0 {
            out.sample(json!({"cls": c.cls, "crit": c.crit, "n": c.x.len(), "p": c.x[0].len(), "n_trees": c.n_trees, "m": c.m, "md": c.md, "msl": c.msl, "mss": c.mss, "keep": c.keep, "seed": c.seed.to_string(), "x_head": c.x[..2.min(c.x.len())].to_vec(), "y_head": c.y[..2.min(c.y.len())].to_vec()}));
        }
    }
    // ---- api-trait twins (last: the streams of the sections above are unchanged) ----
    for i in 0..(if a.thorough { 600 } else { 60 }) {
        let (c, _) = gen_case(&mut rng, 4, 40, 8, Some(i % 2 == 1));
        check_twin(&mut out, &c);
    }
    STATS.with(|s| out.set("oracle_counts", json!(*s.borrow())));
    out.finish(&a.out);
}
