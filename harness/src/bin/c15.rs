//! C15 — evaluation metrics: correspondence cases for the Coq model (SC.C15.Corr) and the
//! failing-input search.  Every oracle below is written from the property text (textbook definitions
//! computed from confusion counts / pairwise comparisons / residuals / conditional entropies of the
//! contingency table), not from the implementation and not from the model.
use serde_json::{json, Value};
use smartcore::algorithm::sort::quick_sort::QuickArgSort;
use smartcore::math::vector::RealNumberVector;
use smartcore::metrics;
use smartcore::metrics::cluster_helpers;
use smartcore::metrics::ClusterMetrics;
use std::collections::BTreeMap;
use vharness::*;

const TOL_LOG: f64 = 1e-9; // log-based scores (software ln in the model, hash-order sums in the code)

// ------------------------------------------------------------------------------------------
// helpers
// ------------------------------------------------------------------------------------------
/// exact JSON rendering of a float vector (bit patterns) — replays must not depend on decimal parsing
fn jh(xs: &[f64]) -> Value {
    json!(xs.iter().map(|x| hex_f64(*x)).collect::<Vec<String>>())
}
fn hj(v: &Value) -> Vec<f64> {
    v.as_array()
        .map(|a| {
            a.iter()
                .map(|x| match x {
                    Value::String(s) => f64::from_bits(u64::from_str_radix(s, 16).unwrap_or(0x7ff8000000000000)),
                    other => other.as_f64().unwrap_or(f64::NAN),
                })
                .collect()
        })
        .unwrap_or_default()
}
fn ij(v: &Value) -> Vec<i64> {
    v.as_array().map(|a| a.iter().map(|x| x.as_i64().unwrap_or(0)).collect()).unwrap_or_default()
}
fn to_f(xs: &[i64]) -> Vec<f64> {
    xs.iter().map(|x| *x as f64).collect()
}
/// |a-b| <= tol * max(1,|a|,|b|)
fn close(a: f64, b: f64, tol: f64) -> bool {
    a == b || (a - b).abs() <= tol * 1f64.max(a.abs()).max(b.abs())
}
/// purely relative (for quantities of arbitrary scale)
fn close_rel(a: f64, b: f64, tol: f64) -> bool {
    a == b || (a - b).abs() <= tol * a.abs().max(b.abs())
}
/// Neumaier compensated sum
fn csum<I: IntoIterator<Item = f64>>(it: I) -> f64 {
    let (mut s, mut c) = (0.0f64, 0.0f64);
    for x in it {
        let t = s + x;
        if s.abs() >= x.abs() {
            c += (s - t) + x;
        } else {
            c += (x - t) + s;
        }
        s = t;
    }
    s + c
}
fn opt_f(x: &Result<f64, String>) -> String {
    coq_option(x.as_ref().ok().map(|v| coq_f64(*v)))
}
fn nbucket(n: usize) -> &'static str {
    match n {
        0 => "n=0",
        1 => "n=1",
        2..=5 => "n=2..5",
        6..=20 => "n=6..20",
        21..=60 => "n=21..60",
        61..=120 => "n=61..120",
        _ => "n>120",
    }
}

// ------------------------------------------------------------------------------------------
// classification: accuracy, precision, recall, F-beta
// ------------------------------------------------------------------------------------------
fn check_classification(out: &mut Out, yt: &[f64], yp: &[f64], beta: f64, family: &str) {
    let n = yt.len();
    let input = json!({"entry": "classification", "yt": jh(yt), "yp": jh(yp), "beta": hex_f64(beta), "n": n,
                       "readable": {"yt": yt, "yp": yp, "beta": beta}});
    let binary = yt.iter().chain(yp.iter()).all(|v| *v == 0.0 || *v == 1.0);
    let (mut tp, mut fp, mut fn_, mut tn, mut eq) = (0usize, 0usize, 0usize, 0usize, 0usize);
    for i in 0..n {
        if yt[i] == yp[i] {
            eq += 1;
        }
        match (yt[i] == 1.0, yp[i] == 1.0) {
            (true, true) => tp += 1,
            (false, true) => fp += 1,
            (true, false) => fn_ += 1,
            (false, false) => tn += 1,
        }
    }
    let mut key: Vec<f64> = yt.to_vec();
    key.extend_from_slice(yp);
    key.push(beta);
    out.eval(hash_f64s(&key), n >= 2 && tp + fn_ >= 1 && tn + fp >= 1);
    out.count(&format!("search:classification:{}", family));
    out.count(&format!("search:classification:{}", nbucket(n)));
    let (ytv, ypv) = (yt.to_vec(), yp.to_vec());
    // accuracy = fraction of equal entries
    match guard(|| metrics::accuracy(&ytv, &ypv)) {
        Err(m) => out.fail("accuracy_definition", &format!("panic: {}", m), input.clone()),
        Ok(got) => {
            let exp = eq as f64 / n as f64;
            if !close(got, exp, 1e-12) {
                out.fail("accuracy_definition", &format!("accuracy {} but {} of {} entries are equal", got, eq, n), input.clone());
            }
        }
    }
    if !binary {
        return;
    }
    // precision = TP / (TP + FP)
    if tp + fp > 0 {
        match guard(|| metrics::precision(&ytv, &ypv)) {
            Err(m) => out.fail("precision_definition", &format!("panic: {}", m), input.clone()),
            Ok(got) => {
                let exp = tp as f64 / (tp + fp) as f64;
                if !close(got, exp, 1e-12) {
                    out.fail("precision_definition", &format!("precision {} but TP={} FP={}", got, tp, fp), input.clone());
                }
            }
        }
    } else {
        out.count("search:classification:precision-undefined(no predicted positive)");
    }
    // recall = TP / (TP + FN)
    if tp + fn_ > 0 {
        match guard(|| metrics::recall(&ytv, &ypv)) {
            Err(m) => out.fail("recall_definition", &format!("panic: {}", m), input.clone()),
            Ok(got) => {
                let exp = tp as f64 / (tp + fn_) as f64;
                if !close(got, exp, 1e-12) {
                    out.fail("recall_definition", &format!("recall {} but TP={} FN={}", got, tp, fn_), input.clone());
                }
            }
        }
    } else {
        out.count("search:classification:recall-undefined(no actual positive)");
    }
    // F_beta = (1+b^2) TP / ((1+b^2) TP + b^2 FN + FP)   (= (1+b^2) P R / (b^2 P + R) when TP > 0)
    if tp > 0 {
        match guard(|| metrics::f1(&ytv, &ypv, beta)) {
            Err(m) => out.fail("fbeta_definition", &format!("panic: {}", m), input.clone()),
            Ok(got) => {
                let b2 = beta * beta;
                let exp = (1.0 + b2) * tp as f64 / ((1.0 + b2) * tp as f64 + b2 * fn_ as f64 + fp as f64);
                if !close(got, exp, 1e-12) {
                    out.fail("fbeta_definition", &format!("F_beta {} but confusion counts TP={} FP={} FN={} beta={} give {}", got, tp, fp, fn_, beta, exp), input.clone());
                }
            }
        }
    } else {
        out.count("search:classification:fbeta-undefined(TP=0)");
    }
}

fn gen_binary_pair(rng: &mut Rng, n: usize) -> (Vec<f64>, Vec<f64>, &'static str) {
    let mode = rng.below(7);
    let k = match mode {
        0 => 1.min(n),
        1 => n.saturating_sub(1),
        2 => rng.usize_in(0, n),
        3 => n / 2,
        4 => 0,
        5 => n,
        _ => (0..n).filter(|_| rng.chance(0.3)).count(),
    };
    let mut yt: Vec<f64> = (0..n).map(|i| if i < k { 1.0 } else { 0.0 }).collect();
    rng.shuffle(&mut yt);
    let pm = rng.below(7);
    let yp: Vec<f64> = match pm {
        0 => yt.clone(),
        1 => yt.iter().map(|v| 1.0 - v).collect(),
        2 => vec![1.0; n],
        3 => vec![0.0; n],
        4 => yt.iter().map(|v| if rng.chance(0.15) { 1.0 - v } else { *v }).collect(),
        _ => {
            let q = rng.unit();
            (0..n).map(|_| if rng.chance(q) { 1.0 } else { 0.0 }).collect()
        }
    };
    let fam = match mode {
        0 => "single-positive",
        1 => "single-negative",
        4 => "no-positive",
        5 => "no-negative",
        _ => "mixed-balance",
    };
    (yt, yp, fam)
}

fn gen_beta(rng: &mut Rng) -> f64 {
    match rng.below(5) {
        0 => 1.0,
        1 => 0.5,
        2 => 2.0,
        3 => rng.dyadic(4, 3).abs() + 0.125,
        _ => rng.uniform(0.05, 5.0),
    }
}

// ------------------------------------------------------------------------------------------
// AUC
// ------------------------------------------------------------------------------------------
fn check_auc(out: &mut Out, yt: &[f64], s: &[f64], family: &str) {
    let n = yt.len();
    let input = json!({"entry": "auc", "yt": jh(yt), "scores": jh(s), "n": n, "readable": {"yt": yt, "scores": s}});
    let pos = yt.iter().filter(|v| **v == 1.0).count();
    let neg = yt.iter().filter(|v| **v == 0.0).count();
    let mut distinct: Vec<u64> = s.iter().map(|x| x.to_bits()).collect();
    distinct.sort();
    distinct.dedup();
    let tied = distinct.len() < n;
    let mut key: Vec<f64> = yt.to_vec();
    key.extend_from_slice(s);
    out.eval(hash_f64s(&key), pos >= 1 && neg >= 1 && n >= 3);
    out.count(&format!("search:auc:{}", family));
    out.count(&format!("search:auc:{}", nbucket(n)));
    out.count(if distinct.len() == 1 { "search:auc:ties=constant" } else if tied { "search:auc:ties=some" } else { "search:auc:ties=none" });
    if pos == 0 || neg == 0 {
        out.count("search:auc:undefined(one class only)");
        return;
    }
    if pos == 1 || neg == 1 {
        out.count("search:auc:single-positive-or-negative");
    }
    // probability that a random positive is scored above a random negative, ties one half
    let mut twice = 0u64; // 2 * (wins + ties/2)
    for i in 0..n {
        if yt[i] != 1.0 {
            continue;
        }
        for j in 0..n {
            if yt[j] != 0.0 {
                continue;
            }
            if s[i] > s[j] {
                twice += 2;
            } else if s[i] == s[j] {
                twice += 1;
            }
        }
    }
    let exp = (twice as f64 / 2.0) / (pos as f64 * neg as f64);
    let (ytv, sv) = (yt.to_vec(), s.to_vec());
    match guard(|| metrics::roc_auc_score(&ytv, &sv)) {
        Err(m) => out.fail("auc_is_pairwise_probability", &format!("panic: {}", m), input),
        Ok(got) => {
            if !close(got, exp, 1e-12) {
                out.fail("auc_is_pairwise_probability", &format!("roc_auc_score {} but pairwise definition gives {} (pos={}, neg={})", got, exp, pos, neg), input);
            }
        }
    }
}

fn gen_labels_balance(rng: &mut Rng, n: usize) -> Vec<f64> {
    // every class balance, at least one of each when n >= 2 (mostly)
    let k = if n < 2 {
        rng.below(2)
    } else {
        match rng.below(6) {
            0 => 1,
            1 => n - 1,
            2 => n / 2,
            5 if rng.chance(0.2) => *rng.pick(&[0, n]),
            _ => rng.usize_in(1, n - 1),
        }
    };
    let mut yt: Vec<f64> = (0..n).map(|i| if i < k { 1.0 } else { 0.0 }).collect();
    rng.shuffle(&mut yt);
    yt
}

fn gen_scores(rng: &mut Rng, yt: &[f64]) -> (Vec<f64>, &'static str) {
    let n = yt.len();
    match rng.below(11) {
        9 | 10 => {
            // AUC depends on the ORDER of the scores only: the same scores expressed in a tiny (or huge) unit.  An
            // absolute tie tolerance such as `|a - b| <= epsilon` is invisible at ordinary magnitudes.
            let k = if rng.bool() { -(rng.usize_in(50, 300) as i32) } else { rng.usize_in(50, 300) as i32 };
            let f = (2.0f64).powi(k);
            let levels = rng.usize_in(2, 40);
            let tied = rng.bool();
            (
                (0..n).map(|_| if tied { rng.below(levels) as f64 * f } else { (1.0 + rng.unit()) * f }).collect(),
                if k < 0 { "tiny-unit" } else { "huge-unit" },
            )
        }
        0 => ((0..n).map(|_| rng.unit()).collect(), "distinct-uniform"),
        1 => {
            let k = rng.usize_in(2, 5);
            ((0..n).map(|_| rng.below(k) as f64 / k as f64).collect(), "few-levels")
        }
        2 => (vec![*rng.pick(&[0.0, 0.5, 1.0, -3.25, 1e9]); n], "constant"),
        3 => (
            yt.iter().map(|l| ((l * 0.3 + rng.unit() * 0.7) * 10.0).round() / 10.0).collect(),
            "informative-rounded",
        ),
        4 => ((0..n).map(|_| rng.normal() * 1e6).collect(), "normal-large-scale"),
        5 => ((0..n).map(|_| if rng.bool() { 0.25 } else { 0.75 }).collect(), "two-levels"),
        6 => {
            // long runs of ties plus a few distinct values
            let k = rng.usize_in(1, 3);
            ((0..n).map(|_| if rng.chance(0.8) { rng.below(k) as f64 } else { rng.uniform(-1.0, 4.0) }).collect(), "runs-plus-distinct")
        }
        7 => (yt.iter().map(|l| if rng.chance(0.9) { *l } else { 1.0 - *l }).collect(), "hard-labels-as-scores"),
        _ => ((0..n).map(|_| rng.dyadic(2, 2) * 1e-9).collect(), "tiny-lattice"),
    }
}

// ------------------------------------------------------------------------------------------
// regression: MSE, MAE, R^2
// ------------------------------------------------------------------------------------------
fn check_regression(out: &mut Out, yt: &[f64], yp: &[f64], family: &str) {
    let n = yt.len();
    let input = json!({"entry": "regression", "yt": jh(yt), "yp": jh(yp), "n": n, "readable": {"yt": yt, "yp": yp}});
    let mut key: Vec<f64> = yt.to_vec();
    key.extend_from_slice(yp);
    out.eval(hash_f64s(&key), n >= 2);
    out.count(&format!("search:regression:{}", family));
    out.count(&format!("search:regression:{}", nbucket(n)));
    let (ytv, ypv) = (yt.to_vec(), yp.to_vec());
    let nf = n as f64;
    let mse = csum((0..n).map(|i| (yt[i] - yp[i]) * (yt[i] - yp[i]))) / nf;
    let mae = csum((0..n).map(|i| (yt[i] - yp[i]).abs())) / nf;
    match guard(|| metrics::mean_squared_error(&ytv, &ypv)) {
        Err(m) => out.fail("mse_definition", &format!("panic: {}", m), input.clone()),
        Ok(got) => {
            if !close_rel(got, mse, 1e-11) {
                out.fail("mse_definition", &format!("mean_squared_error {} but mean of squared residuals is {}", got, mse), input.clone());
            }
        }
    }
    match guard(|| metrics::mean_absolute_error(&ytv, &ypv)) {
        Err(m) => out.fail("mae_definition", &format!("panic: {}", m), input.clone()),
        Ok(got) => {
            if !close_rel(got, mae, 1e-11) {
                out.fail("mae_definition", &format!("mean_absolute_error {} but mean of absolute residuals is {}", got, mae), input.clone());
            }
        }
    }
    let mean = csum(yt.iter().cloned()) / nf;
    let ss_tot = csum(yt.iter().map(|y| (y - mean) * (y - mean)));
    let ss_res = csum((0..n).map(|i| (yt[i] - yp[i]) * (yt[i] - yp[i])));
    // conditioning of the total sum of squares: offset / spread
    let maxabs = yt.iter().fold(0.0f64, |a, b| a.max(b.abs()));
    let spread = (ss_tot / nf).sqrt();
    if n < 2 || !(spread > 0.0) || maxabs / spread > 1e5 {
        out.count("search:regression:r2-undefined-or-ill-conditioned(excluded)");
        return;
    }
    let ratio = ss_res / ss_tot;
    let exp = 1.0 - ratio;
    match guard(|| metrics::r2(&ytv, &ypv)) {
        Err(m) => out.fail("r2_definition", &format!("panic: {}", m), input.clone()),
        Ok(got) => {
            if !((got - exp).abs() <= 1e-9 * 1f64.max(ratio.abs())) {
                out.fail("r2_definition", &format!("r2 {} but 1 - SS_res/SS_tot = {}", got, exp), input.clone());
            }
        }
    }
}

fn gen_regression(rng: &mut Rng, n: usize) -> (Vec<f64>, Vec<f64>, &'static str) {
    let lattice = rng.chance(0.3);
    let scale = if lattice { 2f64.powi(rng.int(-40, 40) as i32) } else { 10f64.powf(rng.uniform(-12.0, 12.0)) };
    let offset = scale * *rng.pick(&[0.0, 0.0, 1.0, -1.0, 100.0, -1000.0]);
    let yt: Vec<f64> = (0..n)
        .map(|_| if lattice { offset + scale * rng.dyadic(8, 2) } else { offset + scale * rng.normal() })
        .collect();
    let pm = rng.below(6);
    let yp: Vec<f64> = match pm {
        0 => yt.clone(),
        1 => yt.iter().map(|y| y + scale * 0.01 * rng.normal()).collect(),
        2 => yt.iter().map(|y| y + scale * rng.normal()).collect(),
        3 => (0..n).map(|_| offset + scale * 10.0 * rng.normal()).collect(),
        4 => {
            let m = csum(yt.iter().cloned()) / n as f64;
            vec![m; n]
        }
        _ => yt.iter().map(|y| if lattice { y + scale * rng.dyadic(2, 2) } else { y * 1.1 }).collect(),
    };
    (yt, yp, if lattice { "dyadic-lattice" } else { "continuous-any-scale" })
}

// ------------------------------------------------------------------------------------------
// length mismatch
// ------------------------------------------------------------------------------------------
fn check_mismatch(out: &mut Out, yt: &[f64], yp: &[f64]) {
    let input = json!({"entry": "mismatch", "yt": jh(yt), "yp": jh(yp), "n1": yt.len(), "n2": yp.len()});
    let mut key: Vec<f64> = yt.to_vec();
    key.push(f64::INFINITY);
    key.extend_from_slice(yp);
    out.eval(hash_f64s(&key), true);
    out.count("search:length-mismatch");
    let (a, b) = (yt.to_vec(), yp.to_vec());
    let calls: Vec<(&str, Result<f64, String>)> = vec![
        ("accuracy", guard(|| metrics::accuracy(&a, &b))),
        ("precision", guard(|| metrics::precision(&a, &b))),
        ("recall", guard(|| metrics::recall(&a, &b))),
        ("f1", guard(|| metrics::f1(&a, &b, 1.0))),
        ("mean_squared_error", guard(|| metrics::mean_squared_error(&a, &b))),
        ("mean_absolute_error", guard(|| metrics::mean_absolute_error(&a, &b))),
        ("r2", guard(|| metrics::r2(&a, &b))),
    ];
    for (name, r) in calls {
        if let Ok(v) = r {
            out.fail("length_mismatch_rejected", &format!("{} accepted vectors of length {} and {} (returned {})", name, yt.len(), yp.len(), v), input.clone());
        }
    }
}

// ------------------------------------------------------------------------------------------
// cluster scores
// ------------------------------------------------------------------------------------------
fn impl_hcv(a: &[i64], b: &[i64]) -> Result<(f64, f64, f64), String> {
    let (av, bv) = (to_f(a), to_f(b));
    guard(|| ClusterMetrics::hcv_score().get_score(&av, &bv))
}

/// Rosenberg–Hirschberg definitions from the contingency table (BTreeMap, fixed order)
fn spec_hcv(a: &[i64], b: &[i64]) -> (f64, f64, f64, f64, f64) {
    let n = a.len() as f64;
    let mut na: BTreeMap<i64, f64> = BTreeMap::new();
    let mut nb: BTreeMap<i64, f64> = BTreeMap::new();
    let mut nab: BTreeMap<(i64, i64), f64> = BTreeMap::new();
    for i in 0..a.len() {
        *na.entry(a[i]).or_insert(0.0) += 1.0;
        *nb.entry(b[i]).or_insert(0.0) += 1.0;
        *nab.entry((a[i], b[i])).or_insert(0.0) += 1.0;
    }
    let h_a = -csum(na.values().map(|c| c / n * (c / n).ln()));
    let h_b = -csum(nb.values().map(|c| c / n * (c / n).ln()));
    // H(A|B) = - sum n_ab/n ln(n_ab/n_b)
    let h_a_b = -csum(nab.iter().map(|((_, y), c)| c / n * (c / nb[y]).ln()));
    let h_b_a = -csum(nab.iter().map(|((x, _), c)| c / n * (c / na[x]).ln()));
    let hom = if na.len() == 1 { 1.0 } else { 1.0 - h_a_b / h_a };
    let com = if nb.len() == 1 { 1.0 } else { 1.0 - h_b_a / h_b };
    let v = if hom + com == 0.0 { 0.0 } else { 2.0 * hom * com / (hom + com) };
    (hom, com, v, h_a_b, h_b_a)
}

fn is_function_of(a: &[i64], b: &[i64]) -> bool {
    // a_i is determined by b_i  (H(A|B) = 0)
    let mut m: BTreeMap<i64, i64> = BTreeMap::new();
    for i in 0..a.len() {
        if *m.entry(b[i]).or_insert(a[i]) != a[i] {
            return false;
        }
    }
    true
}

fn check_cluster(out: &mut Out, a: &[i64], b: &[i64], map_a: &[(i64, i64)], map_b: &[(i64, i64)], family: &str) {
    let n = a.len();
    let input = json!({"entry": "cluster", "a": a, "b": b, "n": n,
                       "map_a": map_a.iter().map(|(x, y)| vec![*x, *y]).collect::<Vec<_>>(),
                       "map_b": map_b.iter().map(|(x, y)| vec![*x, *y]).collect::<Vec<_>>()});
    let ka = { let mut v = a.to_vec(); v.sort(); v.dedup(); v.len() };
    let kb = { let mut v = b.to_vec(); v.sort(); v.dedup(); v.len() };
    out.eval(hash_of(&(a.to_vec(), b.to_vec(), map_a.to_vec(), map_b.to_vec())), ka >= 2 && kb >= 2);
    out.count(&format!("search:cluster:{}", family));
    out.count(&format!("search:cluster:{}", nbucket(n)));
    out.count(&format!("search:cluster:classes={}x{}", ka.min(8), kb.min(8)));
    let (hom, com, vm, h_a_b, h_b_a) = spec_hcv(a, b);
    let (h, c, v) = match impl_hcv(a, b) {
        Err(m) => {
            out.fail("hcv_definition", &format!("panic: {}", m), input);
            return;
        }
        Ok(r) => r,
    };
    // the three public functions return the components
    {
        let (av, bv) = (to_f(a), to_f(b));
        let r = guard(|| (metrics::homogeneity_score(&av, &bv), metrics::completeness_score(&av, &bv), metrics::v_measure_score(&av, &bv)));
        let same = |x: f64, y: f64| x == y || (x.is_nan() && y.is_nan()) || close(x, y, 1e-12);
        match r {
            Ok((h2, c2, v2)) if same(h2, h) && same(c2, c) && same(v2, v) => {}
            other => out.fail("hcv_definition", &format!("homogeneity_score/completeness_score/v_measure_score {:?} differ from hcv_score().get_score {:?}", other, (h, c, v)), input.clone()),
        }
    }
    // definition
    if !(close(h, hom, TOL_LOG) && close(c, com, TOL_LOG) && close(v, vm, TOL_LOG)) {
        out.fail("hcv_definition", &format!("(h,c,v) = ({}, {}, {}) but the entropies of the contingency table give ({}, {}, {})", h, c, v, hom, com, vm), input.clone());
    }
    // range
    let inr = |x: f64| x >= 0.0 && x <= 1.0 + 1e-12;
    if !(inr(h) && inr(c) && inr(v)) {
        out.fail("hcv_in_unit_interval", &format!("(h,c,v) = ({}, {}, {}) not in [0,1]", h, c, v), input.clone());
    }
    // conditional entropy zero -> 1 (single class: exactly 1)
    if is_function_of(a, b) {
        out.count("search:cluster:H(C|K)=0");
        if !(close(h, 1.0, TOL_LOG) && (ka > 1 || h == 1.0)) {
            out.fail("hcv_one_when_conditional_entropy_zero", &format!("homogeneity {} although every cluster lies in one class (H(C|K) = {})", h, h_a_b), input.clone());
        }
    }
    if is_function_of(b, a) {
        out.count("search:cluster:H(K|C)=0");
        if !(close(c, 1.0, TOL_LOG) && (kb > 1 || c == 1.0)) {
            out.fail("hcv_one_when_conditional_entropy_zero", &format!("completeness {} although every class lies in one cluster (H(K|C) = {})", c, h_b_a), input.clone());
        }
    }
    // swap
    match impl_hcv(b, a) {
        Err(m) => out.fail("hcv_swap", &format!("panic on swapped arguments: {}", m), input.clone()),
        Ok((h2, c2, v2)) => {
            if !(close(h2, c, TOL_LOG) && close(c2, h, TOL_LOG) && close(v2, v, TOL_LOG)) {
                out.fail("hcv_swap", &format!("hcv(a,b) = ({}, {}, {}) but hcv(b,a) = ({}, {}, {})", h, c, v, h2, c2, v2), input.clone());
            }
        }
    }
    // renaming (injective maps given with the input)
    if !map_a.is_empty() || !map_b.is_empty() {
        let ren = |xs: &[i64], m: &[(i64, i64)]| -> Vec<i64> {
            xs.iter().map(|x| m.iter().find(|(f, _)| f == x).map(|(_, t)| *t).unwrap_or(*x)).collect()
        };
        let (a2, b2) = (ren(a, map_a), ren(b, map_b));
        match impl_hcv(&a2, &b2) {
            Err(m) => out.fail("hcv_relabel_invariant", &format!("panic on renamed labels: {}", m), input.clone()),
            Ok((h2, c2, v2)) => {
                if !(close(h2, h, TOL_LOG) && close(c2, c, TOL_LOG) && close(v2, v, TOL_LOG)) {
                    out.fail("hcv_relabel_invariant", &format!("hcv = ({}, {}, {}) but after renaming labels ({}, {}, {})", h, c, v, h2, c2, v2), input.clone());
                }
            }
        }
    }
}

fn palette(rng: &mut Rng, k: usize) -> Vec<i64> {
    let mode = rng.below(5);
    let mut p: Vec<i64> = vec![];
    while p.len() < k {
        let v = match mode {
            0 => p.len() as i64,
            1 => rng.int(-20, 20),
            2 => rng.int(-1000, 1000),
            3 => rng.int(-1_000_000_000, 1_000_000_000),
            _ => -(p.len() as i64) * 3 - 1,
        };
        if !p.contains(&v) {
            p.push(v);
        }
    }
    p
}
fn injective_map(rng: &mut Rng, xs: &[i64]) -> Vec<(i64, i64)> {
    let mut d = xs.to_vec();
    d.sort();
    d.dedup();
    let targets = palette(rng, d.len());
    let mut t = targets.clone();
    if rng.bool() {
        rng.shuffle(&mut t);
    }
    d.into_iter().zip(t.into_iter()).collect()
}

fn gen_cluster(rng: &mut Rng, nmax: usize) -> (Vec<i64>, Vec<i64>, &'static str) {
    let n = if rng.chance(0.3) { rng.usize_in(1, 12) } else { rng.usize_in(1, nmax) };
    let ka = rng.usize_in(1, 8);
    let kb = rng.usize_in(1, 8);
    let pa = palette(rng, ka);
    let pb = palette(rng, kb);
    let draw = |rng: &mut Rng, p: &[i64], n: usize| -> Vec<i64> { (0..n).map(|_| *rng.pick(p)).collect() };
    match rng.below(10) {
        0 => {
            let a = draw(rng, &pa, n);
            (a.clone(), a, "identical")
        }
        1 => {
            // identical partition, different names
            let a = draw(rng, &pa, n);
            let pb2 = palette(rng, ka);
            let b = a.iter().map(|x| pb2[pa.iter().position(|y| y == x).unwrap()]).collect();
            (a, b, "identical-renamed")
        }
        2 => {
            // b refines a: a is a function of b  -> homogeneity 1
            let b = draw(rng, &pb, n);
            let f: Vec<i64> = pb.iter().map(|_| *rng.pick(&pa)).collect();
            let a = b.iter().map(|x| f[pb.iter().position(|y| y == x).unwrap()]).collect();
            (a, b, "clusters-pure(H(C|K)=0)")
        }
        3 => {
            let a = draw(rng, &pa, n);
            let f: Vec<i64> = pa.iter().map(|_| *rng.pick(&pb)).collect();
            let b = a.iter().map(|x| f[pa.iter().position(|y| y == x).unwrap()]).collect();
            (a, b, "classes-unsplit(H(K|C)=0)")
        }
        4 => {
            // product layout: cell (i,j) has r_i * c_j members -> exactly independent
            let ka = rng.usize_in(1, 5);
            let kb = rng.usize_in(1, 5);
            let pa = palette(rng, ka);
            let pb = palette(rng, kb);
            let r: Vec<usize> = (0..ka).map(|_| rng.usize_in(1, 4)).collect();
            let c: Vec<usize> = (0..kb).map(|_| rng.usize_in(1, 3)).collect();
            let mut pairs: Vec<(i64, i64)> = vec![];
            for i in 0..ka {
                for j in 0..kb {
                    for _ in 0..r[i] * c[j] {
                        pairs.push((pa[i], pb[j]));
                    }
                }
            }
            rng.shuffle(&mut pairs);
            (pairs.iter().map(|p| p.0).collect(), pairs.iter().map(|p| p.1).collect(), "independent-product")
        }
        5 => (vec![pa[0]; n], draw(rng, &pb, n), "single-class-true"),
        6 => (draw(rng, &pa, n), vec![pb[0]; n], "single-class-pred"),
        7 => (vec![pa[0]; n], vec![pb[0]; n], "single-class-both"),
        8 => {
            let a = draw(rng, &pa, n);
            let b = a.iter().map(|x| if rng.chance(0.2) { *rng.pick(&pa) } else { *x }).collect();
            (a, b, "noisy-copy")
        }
        _ => (draw(rng, &pa, n), draw(rng, &pb, n), "random"),
    }
}

// ------------------------------------------------------------------------------------------
// correspondence cases
// ------------------------------------------------------------------------------------------
fn corr_pairwise(out: &mut Out, yt: &[f64], yp: &[f64], beta: f64) {
    let (a, b) = (yt.to_vec(), yp.to_vec());
    let inp = |m: &str| json!({"entry": "corr", "metric": m, "yt": jh(yt), "yp": jh(yp), "beta": hex_f64(beta)});
    let (la, lb) = (coq_list_f64(yt), coq_list_f64(yp));
    out.corr("accuracy", format!("corr_accuracy {} {} {}", la, lb, opt_f(&guard(|| metrics::accuracy(&a, &b)))), inp("accuracy"));
    out.corr("precision", format!("corr_precision {} {} {}", la, lb, opt_f(&guard(|| metrics::precision(&a, &b)))), inp("precision"));
    out.corr("recall", format!("corr_recall {} {} {}", la, lb, opt_f(&guard(|| metrics::recall(&a, &b)))), inp("recall"));
    out.corr("fbeta", format!("corr_fbeta {} {} {} {}", coq_f64(beta), la, lb, opt_f(&guard(|| metrics::f1(&a, &b, beta)))), inp("fbeta"));
}
fn corr_regression(out: &mut Out, yt: &[f64], yp: &[f64]) {
    let (a, b) = (yt.to_vec(), yp.to_vec());
    let inp = |m: &str| json!({"entry": "corr", "metric": m, "yt": jh(yt), "yp": jh(yp)});
    let (la, lb) = (coq_list_f64(yt), coq_list_f64(yp));
    out.corr("mse", format!("corr_mse {} {} {}", la, lb, opt_f(&guard(|| metrics::mean_squared_error(&a, &b)))), inp("mse"));
    out.corr("mae", format!("corr_mae {} {} {}", la, lb, opt_f(&guard(|| metrics::mean_absolute_error(&a, &b)))), inp("mae"));
    out.corr("r2", format!("corr_r2 {} {} {}", la, lb, opt_f(&guard(|| metrics::r2(&a, &b)))), inp("r2"));
}
fn corr_auc(out: &mut Out, yt: &[f64], s: &[f64]) {
    let (a, b) = (yt.to_vec(), s.to_vec());
    let input = json!({"entry": "corr", "metric": "auc", "yt": jh(yt), "scores": jh(s)});
    let got = guard(|| metrics::roc_auc_score(&a, &b));
    let sorted = guard(|| {
        let mut v = b.clone();
        let idx = v.quick_argsort_mut();
        (idx, v)
    });
    match (&got, sorted) {
        (Ok(_), Ok((idx, v))) => out.corr(
            "auc",
            format!("corr_auc {} {} {} {} {}", coq_list_f64(yt), coq_list_f64(s), coq_list_n(&idx), coq_list_f64(&v), opt_f(&got)),
            input,
        ),
        _ => out.corr("auc", format!("corr_auc_plain {} {} {}", coq_list_f64(yt), coq_list_f64(s), opt_f(&got)), input),
    }
}
fn corr_cluster(out: &mut Out, a: &[i64], b: &[i64]) {
    let (av, bv) = (to_f(a), to_f(b));
    let tol = coq_f64(TOL_LOG);
    let input = json!({"entry": "corr", "metric": "cluster", "a": a, "b": b});
    // unique_with_indices
    if let Ok((u, i)) = guard(|| av.unique_with_indices()) {
        let uz: Vec<i64> = u.iter().map(|x| *x as i64).collect();
        out.corr("unique_with_indices", format!("corr_unique {} {} {}", coq_list_z(a), coq_list_z(&uz), coq_list_n(&i)), input.clone());
    }
    // contingency matrix
    let cm = guard(|| cluster_helpers::contingency_matrix(&av, &bv));
    let cm_term = coq_option(cm.as_ref().ok().map(|m| coq_list(m.iter().map(|r| coq_list_n(r)))));
    out.corr("contingency_matrix", format!("corr_contingency {} {} {}", coq_list_z(a), coq_list_z(b), cm_term), input.clone());
    // entropy
    let e = guard(|| cluster_helpers::entropy(&av));
    if let Ok(e) = e {
        out.corr("entropy", format!("corr_entropy {} {} {}", tol, coq_list_z(a), coq_option(e.map(coq_f64))), input.clone());
    }
    // mutual information on the implementation's own table
    if let Ok(m) = &cm {
        let mi = guard(|| cluster_helpers::mutual_info_score::<f64>(m));
        out.corr(
            "mutual_info_score",
            format!("corr_mi {} {} {}", tol, coq_list(m.iter().map(|r| coq_list_n(r))), opt_f(&mi)),
            input.clone(),
        );
    }
    // whole score
    let r = impl_hcv(a, b);
    let term = coq_option(r.ok().map(|(h, c, v)| format!("({}, {}, {})", coq_f64(h), coq_f64(c), coq_f64(v))));
    out.corr("hcv", format!("corr_hcv {} {} {} {}", tol, coq_list_z(a), coq_list_z(b), term), input);
}

// ------------------------------------------------------------------------------------------
/// evaluate the oracles of one stored input (replay file / corpus entry); false = unknown entry
fn run_entry(out: &mut Out, inp: &Value, family: &str) -> bool {
    let mut out = out;
    let pairs = |v: &Value| -> Vec<(i64, i64)> {
        v.as_array().map(|a| a.iter().map(|p| (p[0].as_i64().unwrap_or(0), p[1].as_i64().unwrap_or(0))).collect()).unwrap_or_default()
    };
    match inp["entry"].as_str().unwrap_or("") {
        "classification" => {
            let beta = hj(&json!([inp["beta"].clone()]))[0];
            check_classification(&mut *out, &hj(&inp["yt"]), &hj(&inp["yp"]), beta, family)
        }
        "auc" => check_auc(&mut *out, &hj(&inp["yt"]), &hj(&inp["scores"]), family),
        "regression" => check_regression(&mut *out, &hj(&inp["yt"]), &hj(&inp["yp"]), family),
        "mismatch" => check_mismatch(&mut *out, &hj(&inp["yt"]), &hj(&inp["yp"])),
        "cluster" => check_cluster(&mut *out, &ij(&inp["a"]), &ij(&inp["b"]), &pairs(&inp["map_a"]), &pairs(&inp["map_b"]), family),
        "corr" => {
            // a correspondence case has no oracle of its own: run the search oracles on its input
            match inp["metric"].as_str().unwrap_or("") {
                "auc" => check_auc(&mut *out, &hj(&inp["yt"]), &hj(&inp["scores"]), family),
                "cluster" => check_cluster(&mut *out, &ij(&inp["a"]), &ij(&inp["b"]), &[], &[], family),
                "mse" | "mae" | "r2" => check_regression(&mut *out, &hj(&inp["yt"]), &hj(&inp["yp"]), family),
                _ => {
                    let (yt, yp) = (hj(&inp["yt"]), hj(&inp["yp"]));
                    if yt.len() == yp.len() {
                        let beta = if inp["beta"].is_string() { hj(&json!([inp["beta"].clone()]))[0] } else { 1.0 };
                        check_classification(&mut *out, &yt, &yp, beta, family)
                    } else {
                        check_mismatch(&mut *out, &yt, &yp)
                    }
                }
            }
        }
        _ => return false,
    }
    true
}

fn replay(path: &str) -> i32 {
    let v = read_replay(path);
    let inp = if v.get("input").is_some() { v["input"].clone() } else { v.clone() };
    let mut out = Out::new("C15", "replay");
    if !run_entry(&mut out, &inp, "replay") {
        eprintln!("unknown replay entry");
        return 2;
    }
    if out.n_fail() > 0 {
        println!("REPLAY: property=C15 still fails: {}", path);
        1
    } else {
        println!("REPLAY: property=C15 passes: {}", path);
        0
    }
}

/// minimised regression inputs in /verif/corpus/C15 (absent when the harness runs from a scratch copy)
fn run_corpus_dir(out: &mut Out) {
    let dir = concat!(env!("CARGO_MANIFEST_DIR"), "/../corpus/C15");
    let mut files: Vec<std::path::PathBuf> = match std::fs::read_dir(dir) {
        Ok(rd) => rd.filter_map(|e| e.ok().map(|e| e.path())).filter(|p| p.extension().map(|x| x == "json").unwrap_or(false)).collect(),
        Err(_) => return,
    };
    files.sort();
    for f in files {
        if let Ok(txt) = std::fs::read_to_string(&f) {
            if let Ok(v) = serde_json::from_str::<Value>(&txt) {
                let inp = if v.get("input").is_some() { v["input"].clone() } else { v.clone() };
                run_entry(out, &inp, "corpus");
            }
        }
    }
}

fn main() {
    quiet_panics();
    let a = args();
    if let Some(p) = &a.replay {
        std::process::exit(replay(p));
    }
    // fork(): Rng::new(k+1) is Rng::new(k) shifted by one draw; the fork decorrelates the seeds
    let mut rng = Rng::new(a.seed).fork();
    let mut out = Out::new(
        "C15",
        "search case = one pair of vectors for one metric family (classification / auc / regression / cluster / length mismatch); non-trivial: both classes present and n >= 2 (classification), both classes and n >= 3 (auc), n >= 2 (regression), >= 2 classes in each labelling (cluster); distinct by hash of the vectors",
    );
    let th = a.thorough;

    // ---- corpus: files, then D10 (repaired): single-class labelling gave inf / NaN ----
    run_corpus_dir(&mut out);
    check_cluster(&mut out, &[0, 0, 0, 0], &[0, 0, 1, 1], &[], &[], "corpus");
    check_cluster(&mut out, &[0, 0, 1, 1], &[7, 7, 7, 7], &[], &[], "corpus");
    check_cluster(&mut out, &[3, 3, 3], &[-2, -2, -2], &[(3, -5)], &[(-2, 9)], "corpus");
    corr_cluster(&mut out, &[0, 0, 0, 0], &[0, 0, 1, 1]);
    corr_cluster(&mut out, &[0, 0, 1, 1], &[7, 7, 7, 7]);
    // the crate's own documented examples
    check_cluster(&mut out, &[0, 0, 1, 1, 2, 2], &[1, 1, 2, 2, 3, 3], &[], &[], "corpus");
    check_auc(&mut out, &[0., 0., 1., 1.], &[0.1, 0.4, 0.35, 0.8], "corpus");
    // AUC with a three-way tie across classes
    check_auc(&mut out, &[1., 0., 1., 0., 1.], &[0.5, 0.5, 0.5, 0.2, 0.9], "corpus");
    corr_auc(&mut out, &[1., 0., 1., 0., 1.], &[0.5, 0.5, 0.5, 0.2, 0.9]);

    // ---- correspondence ----
    let nc = if th { 200 } else { 60 };
    for i in 0..nc {
        // classification
        let n = if i < 3 { i } else { rng.usize_in(1, 40) };
        let (mut yt, mut yp, _) = gen_binary_pair(&mut rng, n);
        let mode = rng.below(8);
        if mode == 0 && n > 0 {
            let k = rng.below(n);
            yp[k] = *rng.pick(&[2.0, 0.5, -1.0, f64::NAN]); // not a binary label -> panic
        } else if mode == 1 && n > 0 {
            let k = rng.below(n);
            yt[k] = *rng.pick(&[2.0, 0.5, -1.0]);
        } else if mode == 2 {
            yp.push(1.0); // length mismatch -> panic
        } else if mode == 3 && n > 0 {
            yt.pop();
        }
        corr_pairwise(&mut out, &yt, &yp, gen_beta(&mut rng));
        // accuracy on multi-class / real labels
        if i % 3 == 0 {
            let n = rng.usize_in(1, 40);
            let yt: Vec<f64> = (0..n).map(|_| rng.int(-2, 3) as f64).collect();
            let yp: Vec<f64> = yt.iter().map(|v| if rng.chance(0.3) { rng.int(-2, 3) as f64 } else { *v }).collect();
            let (a2, b2) = (yt.clone(), yp.clone());
            out.corr(
                "accuracy",
                format!("corr_accuracy {} {} {}", coq_list_f64(&yt), coq_list_f64(&yp), opt_f(&guard(|| metrics::accuracy(&a2, &b2)))),
                json!({"entry": "corr", "metric": "accuracy", "yt": jh(&yt), "yp": jh(&yp)}),
            );
        }
        // regression
        let n = if i < 3 { i } else { rng.usize_in(1, 40) };
        let (yt, mut yp, _) = gen_regression(&mut rng, n.max(1));
        let (yt, yp) = if n == 0 { (vec![], vec![]) } else {
            if rng.chance(0.1) { yp.push(0.0); }
            (yt, yp)
        };
        corr_regression(&mut out, &yt, &yp);
        // auc
        let n = if i < 2 { i + 1 } else { rng.usize_in(1, 40) };
        let mut yt = gen_labels_balance(&mut rng, n);
        let (s, _) = gen_scores(&mut rng, &yt);
        if rng.chance(0.08) {
            let k = rng.below(n);
            yt[k] = 2.0; // invalid label -> panic
        }
        corr_auc(&mut out, &yt, &s);
        // cluster
        let (ca, mut cb, _) = gen_cluster(&mut rng, 40);
        if rng.chance(0.06) {
            cb.push(cb[0]); // longer second vector: silently truncated by contingency_matrix
        } else if rng.chance(0.06) {
            cb.pop(); // shorter: index panic
        }
        corr_cluster(&mut out, &ca, &cb);
    }
    // empty vectors
    corr_auc(&mut out, &[], &[]);
    corr_cluster(&mut out, &[], &[]);
    // a few long vectors (the model is cheap to evaluate) and the degenerate cluster layouts:
    // exactly independent (mutual information clamps to 0 -> the v-measure guard), identical
    for _ in 0..(if th { 12 } else { 4 }) {
        let n = rng.usize_in(65, 200);
        let (yt, yp, _) = gen_binary_pair(&mut rng, n);
        corr_pairwise(&mut out, &yt, &yp, gen_beta(&mut rng));
        let (yt, yp, _) = gen_regression(&mut rng, n);
        corr_regression(&mut out, &yt, &yp);
        let yt = gen_labels_balance(&mut rng, n);
        let (s, _) = gen_scores(&mut rng, &yt);
        corr_auc(&mut out, &yt, &s);
        let (ca, cb, _) = gen_cluster(&mut rng, 200);
        corr_cluster(&mut out, &ca, &cb);
    }
    for _ in 0..(if th { 30 } else { 8 }) {
        let ka = rng.usize_in(1, 4);
        let kb = rng.usize_in(1, 4);
        let pa = palette(&mut rng, ka);
        let pb = palette(&mut rng, kb);
        let r: Vec<usize> = (0..ka).map(|_| rng.usize_in(1, 3)).collect();
        let c: Vec<usize> = (0..kb).map(|_| rng.usize_in(1, 3)).collect();
        let mut pairs: Vec<(i64, i64)> = vec![];
        for i in 0..ka {
            for j in 0..kb {
                for _ in 0..r[i] * c[j] {
                    pairs.push((pa[i], pb[j]));
                }
            }
        }
        rng.shuffle(&mut pairs);
        let ca: Vec<i64> = pairs.iter().map(|p| p.0).collect();
        let cb: Vec<i64> = pairs.iter().map(|p| p.1).collect();
        corr_cluster(&mut out, &ca, &cb);
    }

    // ---- search ----
    let nmax = 200;
    let pick_n = |rng: &mut Rng| -> usize {
        match rng.below(10) {
            0 => rng.usize_in(1, 3),
            1..=4 => rng.usize_in(1, 30),
            _ => rng.usize_in(1, nmax),
        }
    };
    // exhaustive small scope: all binary pairs of length <= 4 (quick) / 6 (thorough)
    let lmax = if th { 6 } else { 4 };
    for n in 1..=lmax {
        for m in 0..(1usize << (2 * n)) {
            let yt: Vec<f64> = (0..n).map(|i| (m >> i & 1) as f64).collect();
            let yp: Vec<f64> = (0..n).map(|i| (m >> (n + i) & 1) as f64).collect();
            check_classification(&mut out, &yt, &yp, 1.0, "exhaustive-small");
        }
    }
    // exhaustive small scope for AUC: labels in {0,1}^n, scores in {0,1,2}^n, n <= 4 (quick) / 5
    let amax = if th { 5 } else { 4 };
    for n in 1..=amax {
        let total = (1usize << n) * 3usize.pow(n as u32);
        for m in 0..total {
            let yt: Vec<f64> = (0..n).map(|i| (m >> i & 1) as f64).collect();
            let mut r = m >> n;
            let s: Vec<f64> = (0..n).map(|_| { let d = r % 3; r /= 3; d as f64 }).collect();
            check_auc(&mut out, &yt, &s, "exhaustive-small");
        }
    }
    let reps = if th { 150000 } else { 8000 };
    for i in 0..reps {
        let n = pick_n(&mut rng);
        let (yt, yp, fam) = gen_binary_pair(&mut rng, n);
        check_classification(&mut out, &yt, &yp, gen_beta(&mut rng), fam);
        if i < 2 {
            out.sample(json!({"family": "classification", "yt": yt, "yp": yp}));
        }
        if i % 4 == 0 {
            // accuracy on arbitrary labels
            let k = rng.usize_in(1, 6);
            let yt: Vec<f64> = (0..n).map(|_| rng.below(k) as f64 - 1.0).collect();
            let yp: Vec<f64> = yt.iter().map(|v| if rng.chance(0.4) { rng.below(k) as f64 - 1.0 } else { *v }).collect();
            check_classification(&mut out, &yt, &yp, 1.0, "multiclass-accuracy");
        }
        let n = pick_n(&mut rng);
        let yt = gen_labels_balance(&mut rng, n);
        let (s, fam) = gen_scores(&mut rng, &yt);
        check_auc(&mut out, &yt, &s, fam);
        let n = pick_n(&mut rng);
        let (yt, yp, fam) = gen_regression(&mut rng, n);
        check_regression(&mut out, &yt, &yp, fam);
        let (ca, cb, fam) = gen_cluster(&mut rng, nmax);
        let (ma, mb) = if rng.chance(0.7) { (injective_map(&mut rng, &ca), injective_map(&mut rng, &cb)) } else { (vec![], vec![]) };
        check_cluster(&mut out, &ca, &cb, &ma, &mb, fam);
        if i == 0 {
            out.sample(json!({"family": "cluster", "a": ca, "b": cb}));
        }
        if i % 6 == 0 {
            let n1 = rng.usize_in(0, 30);
            let mut n2 = rng.usize_in(0, 30);
            if n1 == n2 {
                n2 += 1;
            }
            let yt: Vec<f64> = (0..n1).map(|_| rng.below(2) as f64).collect();
            let yp: Vec<f64> = (0..n2).map(|_| rng.below(2) as f64).collect();
            check_mismatch(&mut out, &yt, &yp);
        }
    }
    out.finish(&a.out);
}
