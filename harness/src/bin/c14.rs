//! C14 — PCA and truncated SVD: correspondence cases for the Coq model (SC.C14.Corr) on the
//! implementation's own state (serde JSON of the fitted PCA, the factors its own svd()/evd(true)
//! return on the matrix the model says is handed to them) and the failing-input search (oracle
//! written from the property text: orthonormality, zero column means, decorrelation, ordering,
//! captured variance against an independent Jacobi eigen-solver, optimality against random
//! orthonormal frames, affine / stacking law, rejections).
use serde_json::{json, Value};
use smartcore::decomposition::pca::{PCAParameters, PCA};
use smartcore::decomposition::svd::{SVDParameters, SVD};
use smartcore::linalg::evd::EVDDecomposableMatrix;
use smartcore::linalg::naive::dense_matrix::DenseMatrix;
use smartcore::linalg::svd::SVDDecomposableMatrix;
use smartcore::linalg::{BaseMatrix, Matrix};
use vharness::*;

const EPS: f64 = f64::EPSILON;
type Rows = Vec<Vec<f64>>;

fn to_rows(m: &DenseMatrix<f64>) -> Rows {
    let (n, p) = m.shape();
    (0..n).map(|r| (0..p).map(|c| m.get(r, c)).collect()).collect()
}
/// Gallina literal `(M n p [column-major values])`
fn dm_lit(m: &DenseMatrix<f64>) -> String {
    let (n, p) = m.shape();
    let mut v = Vec::with_capacity(n * p);
    for c in 0..p {
        for r in 0..n {
            v.push(m.get(r, c));
        }
    }
    format!("(M {} {} {})", coq_n(n), coq_n(p), coq_list_f64(&v))
}
fn dm_lit_json(v: &Value) -> String {
    let n = v["nrows"].as_u64().unwrap_or(0) as usize;
    let p = v["ncols"].as_u64().unwrap_or(0) as usize;
    format!("(M {} {} {})", coq_n(n), coq_n(p), coq_list_f64(&f64s_from_json(&v["values"])))
}
fn dm_from_json(v: &Value) -> DenseMatrix<f64> {
    let n = v["nrows"].as_u64().unwrap_or(0) as usize;
    let p = v["ncols"].as_u64().unwrap_or(0) as usize;
    let vals = f64s_from_json(&v["values"]);
    let mut m = DenseMatrix::zeros(n, p);
    for c in 0..p {
        for r in 0..n {
            m.set(r, c, vals[c * n + r]);
        }
    }
    m
}

fn pca_fit(x: &Rows, k: usize, corr: bool) -> Result<Result<PCA<f64, DenseMatrix<f64>>, String>, String> {
    let m = dense(x);
    guard(move || {
        // "By default, covariance matrix is used": the documented default is relied upon, not restated
        let p = PCAParameters::default().with_n_components(k);
        let p = if corr { p.with_use_correlation_matrix(true) } else { p };
        PCA::fit(&m, p).map_err(|e| format!("{}", e))
    })
}
fn tsvd_fit(x: &Rows, k: usize) -> Result<Result<SVD<f64, DenseMatrix<f64>>, String>, String> {
    let m = dense(x);
    guard(move || SVD::fit(&m, SVDParameters::default().with_n_components(k)).map_err(|e| format!("{}", e)))
}

// ------------------------------------------------------------------------------------------
// the matrix PCA::fit hands to its factorisation (same statements as pca.rs; its value is checked
// bit for bit against the Coq model inside every corr_pca_fit case) and the implementation's own
// factorisation of it
// ------------------------------------------------------------------------------------------
fn fact_input(data: &DenseMatrix<f64>, use_corr: bool) -> (DenseMatrix<f64>, bool) {
    let (m, n) = data.shape();
    let mu = data.column_mean();
    let mut x = data.clone();
    for c in 0..n {
        for r in 0..m {
            x.sub_element_mut(r, c, mu[c]);
        }
    }
    if m > n && !use_corr {
        return (x, true);
    }
    let mut cov = DenseMatrix::zeros(n, n);
    for k in 0..m {
        for i in 0..n {
            for j in 0..=i {
                cov.add_element_mut(i, j, x.get(k, i) * x.get(k, j));
            }
        }
    }
    for i in 0..n {
        for j in 0..=i {
            cov.div_element_mut(i, j, m as f64);
            cov.set(j, i, cov.get(i, j));
        }
    }
    if use_corr {
        let sd: Vec<f64> = (0..n).map(|i| cov.get(i, i).sqrt()).collect();
        for i in 0..n {
            for j in 0..=i {
                cov.div_element_mut(i, j, sd[i] * sd[j]);
                cov.set(j, i, cov.get(i, j));
            }
        }
    }
    (cov, false)
}
fn factorise(c: &DenseMatrix<f64>, svd_path: bool) -> Result<(Vec<f64>, DenseMatrix<f64>), String> {
    let c = c.clone();
    guard(move || {
        if svd_path {
            let s = c.svd().unwrap();
            (s.s.clone(), s.V.clone())
        } else {
            let e = c.evd(true).unwrap();
            (e.d.clone(), e.V.clone())
        }
    })
}

// ------------------------------------------------------------------------------------------
// correspondence
// ------------------------------------------------------------------------------------------
fn finite_rows(x: &Rows) -> bool {
    x.iter().all(|r| r.iter().all(|v| v.is_finite()))
}

fn corr_pca(out: &mut Out, rng: &mut Rng, x: &Rows, k: usize, use_corr: bool, validate: bool) {
    let data = dense(x);
    let (_n, p) = data.shape();
    let input = json!({"entry": "pca", "x": x, "k": k, "corr": use_corr});
    let fit = match pca_fit(x, k, use_corr) {
        Err(_) => return, // a panic of the factorisation: the search reports it, nothing to compare
        Ok(f) => f,
    };
    match fit {
        Err(_) => {
            out.corr("pca_fit_err", format!("corr_pca_fit_err {} {} {}", dm_lit(&data), coq_n(k), coq_bool(use_corr)), input);
        }
        Ok(pca) => {
            let st = serde_json::to_value(&pca).unwrap();
            let (cin, svd_path) = fact_input(&data, use_corr);
            let (vals, v) = match factorise(&cin, svd_path) {
                Ok(f) => f,
                Err(_) => return,
            };
            let mu = f64s_from_json(&st["mu"]);
            let pmu = f64s_from_json(&st["pmu"]);
            let eval = f64s_from_json(&st["eigenvalues"]);
            out.corr(
                if svd_path { "pca_fit_svd_path" } else if use_corr { "pca_fit_cor" } else { "pca_fit_evd_path" },
                format!(
                    "corr_pca_fit {} {} {} {} {} {} {} {} {} {} {}",
                    dm_lit(&data),
                    coq_n(k),
                    coq_bool(use_corr),
                    dm_lit(&cin),
                    coq_list_f64(&vals),
                    dm_lit(&v),
                    dm_lit_json(&st["eigenvectors"]),
                    coq_list_f64(&eval),
                    dm_lit_json(&st["projection"]),
                    coq_list_f64(&mu),
                    coq_list_f64(&pmu)
                ),
                input.clone(),
            );
            if validate && finite_rows(&to_rows(&v)) && vals.iter().all(|t| t.is_finite()) {
                out.corr(
                    "pca_hypothesis_validated",
                    format!("corr_pca_valid {} {} {} {} {}", dm_lit(&data), coq_bool(use_corr), coq_list_f64(&vals), dm_lit(&v), coq_f64(1e-9)),
                    input.clone(),
                );
            }
            // transform on the fitted state: the training data, fresh rows, a wrong column count
            let variants = 3;
            for t in 0..variants {
                let x2: Rows = match t {
                    0 => x.clone(),
                    1 => {
                        let r = rng.usize_in(1, 4);
                        (0..r).map(|_| (0..p).map(|j| x[rng.below(x.len())][j] + rng.dyadic(4, 3)).collect()).collect()
                    }
                    _ => {
                        let q = if p > 1 && rng.bool() { p - 1 } else { p + 1 };
                        (0..2).map(|_| (0..q).map(|_| rng.dyadic(4, 3)).collect()).collect()
                    }
                };
                let m2 = dense(&x2);
                let got = guard(|| pca.transform(&m2).ok());
                let e = match got {
                    Ok(Some(t)) => coq_option(Some(dm_lit(&t))),
                    Ok(None) => "None".to_string(),
                    Err(_) => "None".to_string(),
                };
                out.corr(
                    "pca_transform",
                    format!(
                        "corr_pca_transform {} {} {} {} {}",
                        dm_lit_json(&st["projection"]),
                        coq_list_f64(&mu),
                        coq_list_f64(&pmu),
                        dm_lit(&m2),
                        e
                    ),
                    json!({"entry": "pca", "x": x, "k": k, "corr": use_corr, "x2": x2}),
                );
            }
        }
    }
}

fn corr_tsvd(out: &mut Out, rng: &mut Rng, x: &Rows, k: usize, validate: bool) {
    let data = dense(x);
    let (_n, p) = data.shape();
    let input = json!({"entry": "tsvd", "x": x, "k": k});
    let (vals, v) = match factorise(&data, true) {
        Ok(f) => f,
        Err(_) => return,
    };
    let fit = match tsvd_fit(x, k) {
        Err(_) => return,
        Ok(f) => f,
    };
    let e = match &fit {
        Ok(s) => coq_option(Some(dm_lit(s.components()))),
        Err(_) => "None".to_string(),
    };
    out.corr(
        "tsvd_fit",
        format!("corr_tsvd_fit {} {} {} {} {}", dm_lit(&data), coq_n(k), coq_list_f64(&vals), dm_lit(&v), e),
        input.clone(),
    );
    if validate && finite_rows(&to_rows(&v)) && vals.iter().all(|t| t.is_finite()) {
        out.corr(
            "tsvd_hypothesis_validated",
            format!("corr_tsvd_valid {} {} {} {}", dm_lit(&data), coq_list_f64(&vals), dm_lit(&v), coq_f64(1e-9)),
            input.clone(),
        );
    }
    if let Ok(s) = fit {
        for t in 0..3 {
            let x2: Rows = match t {
                0 => x.clone(),
                1 => (0..rng.usize_in(1, 4)).map(|_| (0..p).map(|_| rng.dyadic(4, 3)).collect()).collect(),
                _ => (0..2).map(|_| (0..p + 1).map(|_| rng.dyadic(4, 3)).collect()).collect(),
            };
            let m2 = dense(&x2);
            let got = guard(|| s.transform(&m2).ok());
            let e = match got {
                Ok(Some(t)) => coq_option(Some(dm_lit(&t))),
                _ => "None".to_string(),
            };
            out.corr(
                "tsvd_transform",
                format!("corr_tsvd_transform {} {} {}", dm_lit(s.components()), dm_lit(&m2), e),
                json!({"entry": "tsvd", "x": x, "k": k, "x2": x2}),
            );
        }
    }
}

// ------------------------------------------------------------------------------------------
// reference linear algebra for the oracle (independent of the implementation)
// ------------------------------------------------------------------------------------------
/// column means, refined once (mean of the residuals added back)
fn ref_means(x: &Rows) -> Vec<f64> {
    let n = x.len();
    let p = x[0].len();
    (0..p)
        .map(|j| {
            let m0 = x.iter().map(|r| r[j]).sum::<f64>() / n as f64;
            let d = x.iter().map(|r| r[j] - m0).sum::<f64>() / n as f64;
            m0 + d
        })
        .collect()
}
/// A^T A / denom for a list of rows
fn gram(a: &Rows, denom: f64) -> Rows {
    let p = a[0].len();
    let mut g = vec![vec![0.0; p]; p];
    for i in 0..p {
        for j in 0..=i {
            let s: f64 = a.iter().map(|r| r[i] * r[j]).sum();
            g[i][j] = s / denom;
            g[j][i] = s / denom;
        }
    }
    g
}
/// eigenvalues of a symmetric matrix, cyclic Jacobi, sorted non-increasing
fn jacobi_eigenvalues(a: &Rows) -> Vec<f64> {
    let n = a.len();
    let mut a = a.clone();
    for _sweep in 0..60 {
        let mut off = 0.0;
        for i in 0..n {
            for j in 0..i {
                off += a[i][j] * a[i][j];
            }
        }
        let diag: f64 = (0..n).map(|i| a[i][i] * a[i][i]).sum();
        if off <= 1e-40 * diag || off == 0.0 {
            break;
        }
        for p in 0..n {
            for q in p + 1..n {
                if a[p][q] == 0.0 {
                    continue;
                }
                let theta = (a[q][q] - a[p][p]) / (2.0 * a[p][q]);
                let t = theta.signum() / (theta.abs() + (theta * theta + 1.0).sqrt());
                let t = if theta == 0.0 { 1.0 } else { t };
                let c = 1.0 / (t * t + 1.0).sqrt();
                let s = t * c;
                for k in 0..n {
                    let akp = a[k][p];
                    let akq = a[k][q];
                    a[k][p] = c * akp - s * akq;
                    a[k][q] = s * akp + c * akq;
                }
                for k in 0..n {
                    let apk = a[p][k];
                    let aqk = a[q][k];
                    a[p][k] = c * apk - s * aqk;
                    a[q][k] = s * apk + c * aqk;
                }
            }
        }
    }
    let mut d: Vec<f64> = (0..n).map(|i| a[i][i]).collect();
    d.sort_by(|x, y| y.partial_cmp(x).unwrap());
    d
}
/// random p x k matrix with orthonormal columns (modified Gram-Schmidt, twice); None if degenerate
fn random_frame(rng: &mut Rng, p: usize, k: usize) -> Option<Rows> {
    let mut cols: Vec<Vec<f64>> = vec![];
    for _ in 0..k {
        let mut v: Vec<f64> = (0..p).map(|_| rng.normal()).collect();
        for _pass in 0..2 {
            for c in &cols {
                let d: f64 = v.iter().zip(c).map(|(a, b)| a * b).sum();
                for i in 0..p {
                    v[i] -= d * c[i];
                }
            }
        }
        let nrm = v.iter().map(|a| a * a).sum::<f64>().sqrt();
        if nrm < 1e-6 {
            return None;
        }
        for i in 0..p {
            v[i] /= nrm;
        }
        cols.push(v);
    }
    Some((0..p).map(|i| (0..k).map(|a| cols[a][i]).collect()).collect())
}
fn matmul_rows(a: &Rows, b: &Rows) -> Rows {
    let k = b.len();
    let q = if k > 0 { b[0].len() } else { 0 };
    a.iter().map(|r| (0..q).map(|c| (0..k).map(|i| r[i] * b[i][c]).sum()).collect()).collect()
}
fn max_abs(a: &Rows) -> f64 {
    a.iter().flatten().fold(0.0f64, |m, v| m.max(v.abs()))
}
/// max |A^T A - I|
fn ortho_defect(a: &Rows) -> f64 {
    let g = gram(a, 1.0);
    let mut d = 0.0f64;
    for i in 0..g.len() {
        for j in 0..g.len() {
            d = d.max((g[i][j] - if i == j { 1.0 } else { 0.0 }).abs());
        }
    }
    d
}

// ------------------------------------------------------------------------------------------
// search: PCA
// ------------------------------------------------------------------------------------------
struct Stat {
    worst: f64,
}

fn check_pca(out: &mut Out, x: &Rows, k: usize, use_corr: bool, aux_seed: u64, fam: &str, stat: &mut Stat) {
    let n = x.len();
    let p = x[0].len();
    let input = json!({"entry": "pca", "x": x, "k": k, "corr": use_corr, "aux_seed": aux_seed, "n": n, "p": p});
    let mut key: Vec<f64> = x.iter().flatten().cloned().collect();
    key.push(k as f64);
    key.push(if use_corr { 1.0 } else { 0.0 });
    out.count(&format!("search:pca:{}:{}", fam, if use_corr { "cor" } else if n > p { "cov_svd_path" } else { "cov_evd_path" }));
    out.count(&format!("search:pca:k={}", k));

    // rejection
    if k > p {
        out.eval(hash_f64s(&key), false);
        match pca_fit(x, k, use_corr) {
            Ok(Err(_)) => {}
            Ok(Ok(_)) => out.fail("pca_rejects_k_gt_p", "fit accepted more components than columns", input),
            Err(msg) => out.fail("pca_rejects_k_gt_p", &format!("panic instead of Err: {}", msg), input),
        }
        return;
    }

    // reference quantities from the definition
    let mu = ref_means(x);
    let xc: Rows = x.iter().map(|r| (0..p).map(|j| r[j] - mu[j]).collect()).collect();
    let col_scale: Vec<f64> = if use_corr {
        (0..p).map(|j| (xc.iter().map(|r| r[j] * r[j]).sum::<f64>() / n as f64).sqrt()).collect()
    } else {
        vec![1.0; p]
    };
    let col_max: Vec<f64> = (0..p).map(|j| x.iter().fold(0.0f64, |m, r| m.max(r[j].abs()))).collect();
    if use_corr && (0..p).any(|j| col_scale[j] <= 1e-13 * col_max[j] || col_scale[j] == 0.0) {
        out.count("excluded:cor_constant_column");
        return;
    }
    let y: Rows = xc.iter().map(|r| (0..p).map(|j| r[j] / col_scale[j]).collect()).collect();
    let s = gram(&y, (n - 1) as f64); // sample covariance of the (standardised) data
    let lam = jacobi_eigenvalues(&s);
    let lam1 = lam[0].max(0.0);
    let err_y = (0..p).fold(0.0f64, |m, j| m.max(col_max[j] / col_scale[j]));
    if lam1.sqrt() <= 1e-9 * err_y {
        out.count("excluded:no_variance");
        return;
    }
    let cond = 1.0 + err_y / lam1.sqrt();
    if cond > 1e8 {
        out.count("excluded:cond>1e8");
        return;
    }
    let tol = 32.0 * (n + p) as f64 * EPS * cond;
    let distinct_shape = n >= 3 && p >= 2 && k >= 1;
    out.eval(hash_f64s(&key), distinct_shape);

    let pca = match pca_fit(x, k, use_corr) {
        Err(msg) => {
            out.fail("pca_fit_total", &format!("panic: {}", msg), input);
            return;
        }
        Ok(Err(e)) => {
            out.fail("pca_fit_total", &format!("Err for 0 <= k <= p: {}", e), input);
            return;
        }
        Ok(Ok(m)) => m,
    };
    let proj = to_rows(pca.components());
    if proj.len() != p || (k > 0 && proj[0].len() != k) {
        out.fail("pca_shape", "components() is not p x k", input);
        return;
    }
    let t = match guard(|| pca.transform(&dense(x))) {
        Ok(Ok(t)) => to_rows(&t),
        _ => {
            out.fail("pca_transform_total", "transform of the training data failed", input);
            return;
        }
    };
    if k == 0 {
        return;
    }
    if !finite_rows(&t) || !finite_rows(&proj) {
        out.fail("pca_finite", "non-finite components or scores on finite data", input);
        return;
    }
    let mut note = |name: &str, v: f64, bound: f64, stat: &mut Stat| -> bool {
        if bound > 0.0 {
            stat.worst = stat.worst.max(v / bound);
        }
        let _ = name;
        v <= bound
    };
    // 1. orthonormal columns (of the projection acting on the standardised data in correlation mode)
    let w: Rows = (0..p).map(|i| (0..k).map(|a| proj[i][a] * col_scale[i]).collect()).collect();
    let od = ortho_defect(&w);
    if !note("orthonormal", od, 1e-11 + tol, stat) {
        out.fail("pca_orthonormal", &format!("max |W^T W - I| = {:e} (allowed {:e})", od, 1e-11 + tol), input.clone());
    }
    // 2. zero column means of the scores
    let sdev = lam1.sqrt();
    for a in 0..k {
        let m: f64 = t.iter().map(|r| r[a]).sum::<f64>() / n as f64;
        if !note("zero_mean", m.abs(), tol * sdev, stat) {
            out.fail("pca_zero_mean", &format!("column {} of the scores has mean {:e} (allowed {:e})", a, m, tol * sdev), input.clone());
            break;
        }
    }
    // 3./4./5. covariance of the scores = diag(lambda_1..k), non-increasing
    let tm = ref_means(&t);
    let tc: Rows = t.iter().map(|r| (0..k).map(|a| r[a] - tm[a]).collect()).collect();
    let ct = gram(&tc, (n - 1) as f64);
    'dec: for a in 0..k {
        for b in 0..a {
            if !note("decorrelated", ct[a][b].abs(), tol * lam1, stat) {
                out.fail("pca_decorrelated", &format!("cov(score {}, score {}) = {:e} (allowed {:e})", a, b, ct[a][b], tol * lam1), input.clone());
                break 'dec;
            }
        }
    }
    for a in 0..k.saturating_sub(1) {
        if !note("ordered", ct[a + 1][a + 1] - ct[a][a], tol * lam1, stat) {
            out.fail("pca_variance_ordered", &format!("var(score {}) = {:e} > var(score {}) = {:e}", a + 1, ct[a + 1][a + 1], a, ct[a][a]), input.clone());
            break;
        }
    }
    for a in 0..k {
        if !note("captured", (ct[a][a] - lam[a]).abs(), tol * lam1, stat) {
            out.fail(
                "pca_variance_captured",
                &format!("var(score {}) = {:e}, eigenvalue {} of the sample covariance = {:e} (allowed {:e})", a, ct[a][a], a, lam[a], tol * lam1),
                input.clone(),
            );
            break;
        }
    }
    let captured: f64 = (0..k).map(|a| ct[a][a]).sum();
    let top: f64 = (0..k).map(|a| lam[a]).sum();
    if !note("captured_sum", (captured - top).abs(), tol * lam1 * k as f64, stat) {
        out.fail("pca_variance_captured", &format!("captured variance {:e} != sum of the {} largest eigenvalues {:e}", captured, k, top), input.clone());
    }
    // 6. optimality against random orthonormal frames
    let mut aux = Rng::new(aux_seed);
    for _ in 0..3 {
        if let Some(q) = random_frame(&mut aux, p, k) {
            let yq = matmul_rows(&y, &q);
            let v: f64 = gram(&yq, (n - 1) as f64).iter().enumerate().map(|(i, r)| r[i]).sum();
            if !note("optimal", v - captured, tol * lam1 * k as f64, stat) {
                out.fail("pca_optimal", &format!("a random orthonormal frame captures {:e} > {:e}", v, captured), input.clone());
                break;
            }
        }
    }
    // 7. affine map: scores = (x - mu) P row by row, on training rows and on fresh rows; stacking
    let mut x2: Rows = vec![];
    for _ in 0..aux.usize_in(1, 5) {
        let r = aux.below(n);
        x2.push((0..p).map(|j| x[r][j] + aux.normal() * (col_scale[j] * if use_corr { 1.0 } else { lam1.sqrt() })).collect());
    }
    let t2 = match guard(|| pca.transform(&dense(&x2))) {
        Ok(Ok(t)) => to_rows(&t),
        _ => {
            out.fail("pca_transform_total", "transform of fresh rows failed", input);
            return;
        }
    };
    for (xs, ts) in [(x, &t), (&x2, &t2)] {
        for (r, row) in xs.iter().enumerate() {
            for a in 0..k {
                let e: f64 = (0..p).map(|j| (row[j] - mu[j]) * proj[j][a]).sum();
                let mag: f64 = (0..p).map(|j| ((row[j] - mu[j]) * proj[j][a]).abs()).sum::<f64>() + sdev;
                if !note("affine", (ts[r][a] - e).abs(), tol * mag, stat) {
                    out.fail("pca_transform_affine", &format!("score [{}][{}] = {:e}, (x - mu) P = {:e}", r, a, ts[r][a], e), input.clone());
                    return;
                }
            }
        }
    }
    let mut stacked = x.clone();
    stacked.extend(x2.iter().cloned());
    match guard(|| pca.transform(&dense(&stacked))) {
        Ok(Ok(ts)) => {
            let ts = to_rows(&ts);
            let mut expect = t.clone();
            expect.extend(t2.iter().cloned());
            if ts != expect {
                out.fail("pca_transform_stack", "transform of stacked rows differs from the stacked transforms", input.clone());
            }
        }
        _ => out.fail("pca_transform_total", "transform of stacked rows failed", input.clone()),
    }
}

// ------------------------------------------------------------------------------------------
// search: truncated SVD
// ------------------------------------------------------------------------------------------
fn check_tsvd(out: &mut Out, x: &Rows, k: usize, aux_seed: u64, fam: &str, stat: &mut Stat) {
    let n = x.len();
    let p = x[0].len();
    let input = json!({"entry": "tsvd", "x": x, "k": k, "aux_seed": aux_seed, "n": n, "p": p});
    let mut key: Vec<f64> = x.iter().flatten().cloned().collect();
    key.push(k as f64);
    key.push(2.0);
    out.count(&format!("search:tsvd:{}:{}", fam, if n > p { "tall" } else { "wide_or_square" }));
    out.count(&format!("search:tsvd:k={}", k));
    if k >= p {
        out.eval(hash_f64s(&key), false);
        match tsvd_fit(x, k) {
            Ok(Err(_)) => {}
            Ok(Ok(_)) => out.fail("tsvd_rejects_k_ge_p", "fit accepted n_components >= p", input),
            Err(msg) => out.fail("tsvd_rejects_k_ge_p", &format!("panic instead of Err: {}", msg), input),
        }
        return;
    }
    let g = gram(x, 1.0);
    let lam = jacobi_eigenvalues(&g);
    let lam1 = lam[0].max(0.0);
    if lam1 == 0.0 {
        out.count("excluded:zero_matrix");
        return;
    }
    out.eval(hash_f64s(&key), n >= 2 && p >= 2 && k >= 1);
    let tol = 32.0 * (n + p) as f64 * EPS;
    let svd = match tsvd_fit(x, k) {
        Err(msg) => {
            out.fail("tsvd_fit_total", &format!("panic: {}", msg), input);
            return;
        }
        Ok(Err(e)) => {
            out.fail("tsvd_fit_total", &format!("Err for k < p: {}", e), input);
            return;
        }
        Ok(Ok(s)) => s,
    };
    let c = to_rows(svd.components());
    if c.len() != p || (k > 0 && c[0].len() != k) {
        out.fail("tsvd_shape", "components() is not p x k", input);
        return;
    }
    let t = match guard(|| svd.transform(&dense(x))) {
        Ok(Ok(t)) => to_rows(&t),
        _ => {
            out.fail("tsvd_transform_total", "transform of the training data failed", input);
            return;
        }
    };
    if k == 0 {
        return;
    }
    if !finite_rows(&t) || !finite_rows(&c) {
        out.fail("tsvd_finite", "non-finite components or scores on finite data", input);
        return;
    }
    let mut note = |v: f64, bound: f64, stat: &mut Stat| -> bool {
        if bound > 0.0 {
            stat.worst = stat.worst.max(v / bound);
        }
        v <= bound
    };
    let od = ortho_defect(&c);
    if !note(od, 1e-11 + tol, stat) {
        out.fail("tsvd_orthonormal", &format!("max |C^T C - I| = {:e}", od), input.clone());
    }
    // energy: |X c_a|^2 = a-th largest squared singular value; the total over the k columns
    let xc = matmul_rows(x, &c);
    let e = gram(&xc, 1.0);
    for a in 0..k {
        if !note((e[a][a] - lam[a]).abs(), tol * lam1, stat) {
            out.fail("tsvd_energy", &format!("|X c_{}|^2 = {:e}, squared singular value {} = {:e} (allowed {:e})", a, e[a][a], a, lam[a], tol * lam1), input.clone());
            break;
        }
    }
    let energy: f64 = (0..k).map(|a| e[a][a]).sum();
    let top: f64 = (0..k).map(|a| lam[a]).sum();
    if !note((energy - top).abs(), tol * lam1 * k as f64, stat) {
        out.fail("tsvd_energy", &format!("|X C|_F^2 = {:e} != sum of the {} largest squared singular values {:e}", energy, k, top), input.clone());
    }
    let mut aux = Rng::new(aux_seed);
    for _ in 0..3 {
        if let Some(q) = random_frame(&mut aux, p, k) {
            let xq = matmul_rows(x, &q);
            let v: f64 = xq.iter().flatten().map(|a| a * a).sum();
            if !note(v - energy, tol * lam1 * k as f64, stat) {
                out.fail("tsvd_optimal", &format!("a random orthonormal frame has |XQ|_F^2 = {:e} > {:e}", v, energy), input.clone());
                break;
            }
        }
    }
    // transform = x * C row by row; stacking
    let x2: Rows = (0..aux.usize_in(1, 5)).map(|_| (0..p).map(|j| x[aux.below(n)][j] + aux.normal() * lam1.sqrt()).collect()).collect();
    let t2 = match guard(|| svd.transform(&dense(&x2))) {
        Ok(Ok(t)) => to_rows(&t),
        _ => {
            out.fail("tsvd_transform_total", "transform of fresh rows failed", input);
            return;
        }
    };
    for (xs, ts) in [(x, &t), (&x2, &t2)] {
        for (r, row) in xs.iter().enumerate() {
            for a in 0..k {
                let ev: f64 = (0..p).map(|j| row[j] * c[j][a]).sum();
                let mag: f64 = (0..p).map(|j| (row[j] * c[j][a]).abs()).sum::<f64>() + lam1.sqrt();
                if !note((ts[r][a] - ev).abs(), tol * mag, stat) {
                    out.fail("tsvd_transform_linear", &format!("score [{}][{}] = {:e}, x C = {:e}", r, a, ts[r][a], ev), input.clone());
                    return;
                }
            }
        }
    }
    let mut stacked = x.clone();
    stacked.extend(x2.iter().cloned());
    match guard(|| svd.transform(&dense(&stacked))) {
        Ok(Ok(ts)) => {
            let mut expect = t.clone();
            expect.extend(t2.iter().cloned());
            if to_rows(&ts) != expect {
                out.fail("tsvd_transform_stack", "transform of stacked rows differs from the stacked transforms", input.clone());
            }
        }
        _ => out.fail("tsvd_transform_total", "transform of stacked rows failed", input.clone()),
    }
    // a wrong column count is an Err
    let bad: Rows = vec![vec![0.5; p + 1]];
    match guard(|| svd.transform(&dense(&bad)).is_err()) {
        Ok(true) => {}
        _ => out.fail("tsvd_transform_shape", "transform accepted a matrix with p+1 columns", input),
    }
}


// ------------------------------------------------------------------------------------------
// search: the same data in another unit (multiplied by 2^shift: exact in binary64)
// ------------------------------------------------------------------------------------------
fn scale_rows(x: &Rows, shift: i32) -> Rows {
    let f = 2f64.powi(shift);
    x.iter().map(|r| r.iter().map(|v| v * f).collect()).collect()
}
fn col_var(t: &Rows, a: usize) -> f64 {
    let n = t.len() as f64;
    let m = t.iter().map(|r| r[a]).sum::<f64>() / n;
    t.iter().map(|r| (r[a] - m) * (r[a] - m)).sum::<f64>() / (n - 1.0)
}
/// PCA / truncated SVD of x and of x * 2^shift: the property's quantities are those of the data,
/// so the explained variances (energies) scale by 4^shift (by 1 in correlation mode) and, where the
/// spectrum has clear gaps, the components agree up to sign.  `tsvd` selects truncated SVD.
fn check_unit(out: &mut Out, x: &Rows, k: usize, use_corr: bool, tsvd: bool, shift: i32, fam: &str) {
    let n = x.len();
    let p = x[0].len();
    let xs = scale_rows(x, shift);
    let entry = if tsvd { "tsvd_unit" } else { "pca_unit" };
    let input = json!({"entry": entry, "x": x, "k": k, "corr": use_corr, "shift": shift, "n": n, "p": p});
    let mut key: Vec<f64> = x.iter().flatten().cloned().collect();
    key.extend([k as f64, shift as f64, if use_corr { 1.0 } else { 0.0 }, if tsvd { 3.0 } else { 4.0 }]);
    out.count(&format!("search:{}:{}:{}", entry, fam, if tsvd { if n > p { "tall" } else { "wide_or_square" } } else if use_corr { "cor" } else if n > p { "cov_svd_path" } else { "cov_evd_path" }));
    out.count(&format!("search:unit_shift:{}", if shift < 0 { "2^-60..2^-20" } else { "2^20..2^60" }));
    if !finite_rows(&xs) || k == 0 || k > p || (tsvd && k >= p) {
        return;
    }
    if !tsvd && use_corr && (0..p).any(|j| x.iter().all(|r| r[j] == x[0][j])) {
        out.count("excluded:cor_constant_column");
        return;
    }
    out.eval(hash_f64s(&key), n >= 3 && p >= 2);
    // (components, scores) of both fits
    let run = |d: &Rows| -> Option<(Rows, Rows)> {
        if tsvd {
            match tsvd_fit(d, k) {
                Ok(Ok(s)) => match guard(|| s.transform(&dense(d))) {
                    Ok(Ok(t)) => Some((to_rows(s.components()), to_rows(&t))),
                    _ => None,
                },
                _ => None,
            }
        } else {
            match pca_fit(d, k, use_corr) {
                Ok(Ok(m)) => match guard(|| m.transform(&dense(d))) {
                    Ok(Ok(t)) => Some((to_rows(m.components()), to_rows(&t))),
                    _ => None,
                },
                _ => None,
            }
        }
    };
    let (cb, tb) = match run(x) {
        Some(r) => r,
        None => return, // reported by the plain oracles
    };
    let (cs, ts) = match run(&xs) {
        Some(r) => r,
        None => {
            out.fail("unit_invariance", "fit/transform fails on the rescaled data although it succeeds on the data", input);
            return;
        }
    };
    if !finite_rows(&tb) || !finite_rows(&ts) || !finite_rows(&cs) {
        if finite_rows(&tb) {
            out.fail("unit_invariance", "non-finite result on the rescaled data", input);
        }
        return;
    }
    // explained variance (PCA) / energy (truncated SVD) per component
    let f2 = if !tsvd && use_corr { 1.0 } else { 4f64.powi(shift) };
    let q = |t: &Rows, a: usize| -> f64 { if tsvd { t.iter().map(|r| r[a] * r[a]).sum() } else { col_var(t, a) } };
    let vb: Vec<f64> = (0..k).map(|a| q(&tb, a)).collect();
    let vs: Vec<f64> = (0..k).map(|a| q(&ts, a) / f2).collect();
    let top = vb.iter().fold(0.0f64, |m, v| m.max(*v));
    if top <= 0.0 || !top.is_finite() {
        out.count("excluded:no_variance");
        return;
    }
    for a in 0..k {
        if (vs[a] - vb[a]).abs() > 1e-9 * top {
            out.fail(
                "unit_invariance",
                &format!("component {}: explained variance / energy {:e} in the original unit, {:e} (rescaled back) after multiplying the data by 2^{}", a, vb[a], vs[a], shift),
                input,
            );
            return;
        }
    }
    // components up to sign where the spectrum separates them
    let cf = if !tsvd && use_corr { 2f64.powi(-shift) } else { 1.0 }; // correlation mode: P = D^-1 V scales with 1/unit
    for a in 0..k {
        let gap_ok = (a == 0 || vb[a - 1] - vb[a] > 1e-3 * top) && (a + 1 >= k || vb[a] - vb[a + 1] > 1e-3 * top) && (a + 1 < k || k == p || vb[a] > 1e-3 * top);
        if !gap_ok || a + 1 == k && k < p {
            out.count("unit_components:not_compared(no clear gap or last kept)");
            continue;
        }
        let cmax = (0..p).fold(0.0f64, |m, i| m.max(cb[i][a].abs()));
        for i in 0..p {
            if (cs[i][a].abs() / cf - cb[i][a].abs()).abs() > 1e-6 * cmax {
                out.fail(
                    "unit_invariance",
                    &format!("component {} differs (beyond sign) after multiplying the data by 2^{}: |{:e}| vs |{:e}| at row {}", a, shift, cs[i][a] / cf, cb[i][a], i),
                    input,
                );
                return;
            }
        }
    }
}

// ------------------------------------------------------------------------------------------
// generators
// ------------------------------------------------------------------------------------------
const FAMILIES: [&str; 8] = ["iid_scaled", "correlated", "rank_deficient", "lattice", "tied_rows", "big_mean", "const_column", "low_rank_noise"];

fn gen_data(rng: &mut Rng, n: usize, p: usize, fam: usize) -> Rows {
    let scales: Vec<f64> = (0..p).map(|_| 10f64.powi(rng.int(-3, 3) as i32)).collect();
    let means: Vec<f64> = (0..p)
        .map(|_| match rng.below(4) {
            0 => 0.0,
            1 => rng.uniform(-10.0, 10.0),
            2 => rng.uniform(-1e3, 1e3),
            _ => rng.uniform(-1e6, 1e6),
        })
        .collect();
    match fam {
        0 => (0..n).map(|_| (0..p).map(|j| means[j] * scales[j] + scales[j] * rng.normal()).collect()).collect(),
        1 => {
            // correlated columns with different scales
            let r = p;
            let mix: Rows = (0..r).map(|_| (0..p).map(|_| rng.normal()).collect()).collect();
            (0..n)
                .map(|_| {
                    let z: Vec<f64> = (0..r).map(|_| rng.normal()).collect();
                    (0..p).map(|j| means[j].min(1e3).max(-1e3) + scales[j] * (0..r).map(|i| z[i] * mix[i][j]).sum::<f64>()).collect()
                })
                .collect()
        }
        2 => {
            // exactly rank-deficient: small integer factors, integer mixing (all arithmetic exact)
            let r = rng.usize_in(1, p.max(2) - 1).min(p);
            let mix: Vec<Vec<i64>> = (0..r).map(|_| (0..p).map(|_| rng.int(-3, 3)).collect()).collect();
            let shift: Vec<i64> = (0..p).map(|_| rng.int(-5, 5)).collect();
            (0..n)
                .map(|_| {
                    let z: Vec<i64> = (0..r).map(|_| rng.int(-4, 4)).collect();
                    (0..p).map(|j| (shift[j] + (0..r).map(|i| z[i] * mix[i][j]).sum::<i64>()) as f64).collect()
                })
                .collect()
        }
        3 => (0..n).map(|_| (0..p).map(|_| rng.dyadic(4, 2)).collect()).collect(),
        4 => {
            // few distinct rows, many repeats
            let d = rng.usize_in(2, 3);
            let base: Rows = (0..d).map(|_| (0..p).map(|j| scales[j] * rng.normal()).collect()).collect();
            (0..n).map(|i| if i < d { base[i].clone() } else { base[rng.below(d)].clone() }).collect()
        }
        5 => (0..n).map(|_| (0..p).map(|j| 1e6 * (j as f64 + 1.0) + rng.normal() * (1.0 + j as f64)).collect()).collect(),
        6 => {
            let cc = rng.below(p);
            let cval = *rng.pick(&[0.0, 1.0, -2.5, 1e3]);
            (0..n).map(|_| (0..p).map(|j| if j == cc { cval } else { means[j].min(10.0).max(-10.0) + scales[j] * rng.normal() }).collect()).collect()
        }
        _ => {
            // low rank plus small noise: a wide spectrum
            let r = 1 + rng.below(p.min(3));
            let mix: Rows = (0..r).map(|_| (0..p).map(|_| rng.normal()).collect()).collect();
            let noise = 10f64.powi(rng.int(-6, -1) as i32);
            (0..n)
                .map(|_| {
                    let z: Vec<f64> = (0..r).map(|_| rng.normal()).collect();
                    (0..p).map(|j| (0..r).map(|i| z[i] * mix[i][j]).sum::<f64>() + noise * rng.normal()).collect()
                })
                .collect()
        }
    }
}

fn us_arrests() -> Rows {
    let v: [[f64; 4]; 50] = [
        [13.2, 236.0, 58.0, 21.2], [10.0, 263.0, 48.0, 44.5], [8.1, 294.0, 80.0, 31.0], [8.8, 190.0, 50.0, 19.5], [9.0, 276.0, 91.0, 40.6],
        [7.9, 204.0, 78.0, 38.7], [3.3, 110.0, 77.0, 11.1], [5.9, 238.0, 72.0, 15.8], [15.4, 335.0, 80.0, 31.9], [17.4, 211.0, 60.0, 25.8],
        [5.3, 46.0, 83.0, 20.2], [2.6, 120.0, 54.0, 14.2], [10.4, 249.0, 83.0, 24.0], [7.2, 113.0, 65.0, 21.0], [2.2, 56.0, 57.0, 11.3],
        [6.0, 115.0, 66.0, 18.0], [9.7, 109.0, 52.0, 16.3], [15.4, 249.0, 66.0, 22.2], [2.1, 83.0, 51.0, 7.8], [11.3, 300.0, 67.0, 27.8],
        [4.4, 149.0, 85.0, 16.3], [12.1, 255.0, 74.0, 35.1], [2.7, 72.0, 66.0, 14.9], [16.1, 259.0, 44.0, 17.1], [9.0, 178.0, 70.0, 28.2],
        [6.0, 109.0, 53.0, 16.4], [4.3, 102.0, 62.0, 16.5], [12.2, 252.0, 81.0, 46.0], [2.1, 57.0, 56.0, 9.5], [7.4, 159.0, 89.0, 18.8],
        [11.4, 285.0, 70.0, 32.1], [11.1, 254.0, 86.0, 26.1], [13.0, 337.0, 45.0, 16.1], [0.8, 45.0, 44.0, 7.3], [7.3, 120.0, 75.0, 21.4],
        [6.6, 151.0, 68.0, 20.0], [4.9, 159.0, 67.0, 29.3], [6.3, 106.0, 72.0, 14.9], [3.4, 174.0, 87.0, 8.3], [14.4, 279.0, 48.0, 22.5],
        [3.8, 86.0, 45.0, 12.8], [13.2, 188.0, 59.0, 26.9], [12.7, 201.0, 80.0, 25.5], [3.2, 120.0, 80.0, 22.9], [2.2, 48.0, 32.0, 11.2],
        [8.5, 156.0, 63.0, 20.7], [4.0, 145.0, 73.0, 26.2], [5.7, 81.0, 39.0, 9.3], [2.6, 53.0, 66.0, 10.8], [6.8, 161.0, 60.0, 15.6],
    ];
    v.iter().map(|r| r.to_vec()).collect()
}

// ------------------------------------------------------------------------------------------
// api_trait_twin: fit / transform through `smartcore::api::{UnsupervisedEstimator, Transformer}` give
// exactly what the inherent methods give (training matrix and fresh rows, model fitted either way)
// ------------------------------------------------------------------------------------------
/// mode: "pca" (covariance), "pca_cor" (correlation), "tsvd"
fn twin_dec(x: &Rows, fresh: &Rows, k: usize, mode: &str) -> Option<twin::Diff> {
    type DM = DenseMatrix<f64>;
    if x.is_empty() || x[0].is_empty() || fresh.is_empty() {
        return None;
    }
    let m = dense(x);
    let f = dense(fresh);
    let probes = [("the training matrix", &m), ("the fresh rows", &f)];
    if mode == "tsvd" {
        let p = SVDParameters::default().with_n_components(k);
        twin::check(
            "UnsupervisedEstimator",
            "Transformer",
            "transform",
            || twin::fit_unsup::<SVD<f64, DM>, _, _>(&m, p.clone()),
            || SVD::<f64, DM>::fit(&m, p.clone()),
            |e: &SVD<f64, DM>, z: &DM| twin::transform(e, z),
            |e: &SVD<f64, DM>, z: &DM| e.transform(z),
            &probes,
            |e: &SVD<f64, DM>| serde_json::to_string(e).unwrap_or_default(),
            true,
        )
    } else {
        let p = PCAParameters::default().with_n_components(k).with_use_correlation_matrix(mode == "pca_cor");
        twin::check(
            "UnsupervisedEstimator",
            "Transformer",
            "transform",
            || twin::fit_unsup::<PCA<f64, DM>, _, _>(&m, p.clone()),
            || PCA::<f64, DM>::fit(&m, p.clone()),
            |e: &PCA<f64, DM>, z: &DM| twin::transform(e, z),
            |e: &PCA<f64, DM>, z: &DM| e.transform(z),
            &probes,
            |e: &PCA<f64, DM>| serde_json::to_string(e).unwrap_or_default(),
            true,
        )
    }
}
fn check_twin(out: &mut Out, x: &Rows, fresh: &Rows, k: usize, mode: &str, fam: &str) {
    let mut key: Vec<f64> = x.iter().flatten().cloned().collect();
    key.extend(fresh.iter().flatten());
    key.extend(&[k as f64, mode.len() as f64, -7.0]);
    out.eval(hash_f64s(&key), x.len() >= 3 && x[0].len() >= 2 && k >= 1);
    out.count(&format!("twin:{}:{}", mode, fam));
    if twin_dec(x, fresh, k, mode).is_none() {
        return;
    }
    // shrink: fewer fresh rows, fewer training rows
    let (mut cx, mut cf) = (x.clone(), fresh.clone());
    let mut progress = true;
    while progress {
        progress = false;
        let mut i = 0;
        while cf.len() > 1 && i < cf.len() {
            let mut t = cf.clone();
            t.remove(i);
            if twin_dec(&cx, &t, k, mode).is_some() { cf = t; progress = true; } else { i += 1; }
        }
        let mut i = 0;
        while cx.len() > 2 && i < cx.len() {
            let mut t = cx.clone();
            t.remove(i);
            if twin_dec(&t, &cf, k, mode).is_some() { cx = t; progress = true; } else { i += 1; }
        }
    }
    if let Some(d) = twin_dec(&cx, &cf, k, mode) {
        out.count(&format!("twin:failing:{}", if mode == "tsvd" { "SVD" } else { "PCA" }));
        out.fail(
            twin::ORACLE,
            &format!("{}: {}: {}", if mode == "tsvd" { "SVD" } else { "PCA" }, d.call, d.what),
            json!({"entry": "twin", "oracle": twin::ORACLE, "estimator": if mode == "tsvd" { "decomposition::svd::SVD" } else { "PCA" }, "mode": mode,
                   "x": cx, "fresh": cf, "k": k, "corr": mode == "pca_cor", "differing_call": d.call}),
        );
    }
}

// ------------------------------------------------------------------------------------------
// replay / corpus
// ------------------------------------------------------------------------------------------
fn replay_into(out: &mut Out, inp: &Value, fam: &str, stat: &mut Stat) -> bool {
    let x = rows_from_json(&inp["x"]);
    if x.is_empty() || x[0].is_empty() {
        return false;
    }
    let k = inp["k"].as_u64().unwrap_or(1) as usize;
    let aux = inp["aux_seed"].as_u64().unwrap_or(1);
    match inp["entry"].as_str().unwrap_or("") {
        "pca" => check_pca(out, &x, k, inp["corr"].as_bool().unwrap_or(false), aux, fam, stat),
        "tsvd" => check_tsvd(out, &x, k, aux, fam, stat),
        "pca_unit" => check_unit(out, &x, k, inp["corr"].as_bool().unwrap_or(false), false, inp["shift"].as_i64().unwrap_or(0) as i32, fam),
        "tsvd_unit" => check_unit(out, &x, k, false, true, inp["shift"].as_i64().unwrap_or(0) as i32, fam),
        "twin" => {
            let fresh = rows_from_json(&inp["fresh"]);
            let mode = inp["mode"].as_str().unwrap_or("pca").to_string();
            if let Some(d) = twin_dec(&x, &fresh, k, &mode) {
                println!("  {}: {}: {}", twin::ORACLE, d.call, d.what);
                out.fail(twin::ORACLE, &d.what, json!({}));
            }
        }
        _ => return false,
    }
    true
}
fn replay(path: &str) -> i32 {
    let v = read_replay(path);
    let inp = if v.get("input").is_some() { v["input"].clone() } else { v.clone() };
    let mut out = Out::new("C14", "replay");
    let mut stat = Stat { worst: 0.0 };
    if !replay_into(&mut out, &inp, "replay", &mut stat) {
        eprintln!("unknown replay entry");
        return 2;
    }
    if out.n_fail() > 0 {
        println!("REPLAY: property=C14 still fails: {}", path);
        1
    } else {
        println!("REPLAY: property=C14 passes: {}", path);
        0
    }
}
fn run_corpus(out: &mut Out, stat: &mut Stat) {
    let dir = "/verif/corpus/C14";
    let mut files: Vec<std::path::PathBuf> = match std::fs::read_dir(dir) {
        Ok(rd) => rd.filter_map(|e| e.ok().map(|e| e.path())).filter(|p| p.extension().map(|e| e == "json").unwrap_or(false)).collect(),
        Err(_) => return,
    };
    files.sort();
    for f in files {
        if let Ok(txt) = std::fs::read_to_string(&f) {
            if let Ok(v) = serde_json::from_str::<Value>(&txt) {
                let inp = if v.get("input").is_some() { v["input"].clone() } else { v.clone() };
                replay_into(out, &inp, "corpus", stat);
            }
        }
    }
}

fn main() {
    quiet_panics();
    let a = args();
    if let Some(p) = &a.replay {
        std::process::exit(replay(p));
    }
    let mut rng = Rng::new(a.seed);
    let mut out = Out::new(
        "C14",
        "search case = (estimator PCA-cov / PCA-cor / truncated SVD, data matrix n x p, k); non-trivial: n >= 3, p >= 2, k >= 1 and the call is not a rejection; distinct by hash of (data, k, mode). api-trait twin case = a search case fitted and applied through smartcore::api::{UnsupervisedEstimator, Transformer} and through the inherent methods (training matrix and fresh rows); all results must coincide bit for bit",
    );
    let mut stat = Stat { worst: 0.0 };

    // ---- corpus, then the tables of the repository's own unit tests, every k, both modes ----
    run_corpus(&mut out, &mut stat);
    let usa = us_arrests();
    for k in 0..=5 {
        for c in [false, true] {
            check_pca(&mut out, &usa, k, c, 7 + k as u64, "usarrests", &mut stat);
        }
        check_tsvd(&mut out, &usa, k, 11 + k as u64, "usarrests", &mut stat);
    }
    let usa_small: Rows = usa.iter().take(6).cloned().collect();
    corr_pca(&mut out, &mut rng, &usa_small, 2, false, true);
    corr_pca(&mut out, &mut rng, &usa_small, 4, true, true);
    corr_tsvd(&mut out, &mut rng, &usa_small, 2, true);
    let usa_wide: Rows = usa.iter().take(3).cloned().collect();
    corr_pca(&mut out, &mut rng, &usa_wide, 3, false, true);

    // ---- correspondence ----
    let ncorr = if a.thorough { 240 } else { 80 };
    for i in 0..ncorr {
        let p = 1 + (i % 5) + if a.thorough && i % 7 == 0 { 2 } else { 0 };
        let n = match i % 4 {
            0 => p.max(2),                  // n = p: the boundary of the path choice
            1 => p + 1,
            2 => rng.usize_in(2, p.max(2)), // n <= p (or n = 2)
            _ => rng.usize_in(p + 1, p + 6),
        };
        let fam = match i % 6 {
            0 => 3,
            1 => 2,
            2 => 0,
            3 => 1,
            4 => 5,
            _ => 7,
        };
        let x = gen_data(&mut rng, n, p, fam);
        let k = match i % 5 {
            0 => p,
            1 => 1.min(p),
            2 => p + 1,
            _ => rng.usize_in(0, p),
        };
        let validate = a.thorough || i % 2 == 0;
        let constant_col = (0..p).any(|j| x.iter().all(|r| r[j] == x[0][j]));
        corr_pca(&mut out, &mut rng, &x, k, false, validate);
        if !constant_col {
            corr_pca(&mut out, &mut rng, &x, k, true, validate);
        } else {
            out.count("excluded:cor_constant_column");
        }
        corr_tsvd(&mut out, &mut rng, &x, k.min(p), validate && i % 2 == 0);
        if i % 2 == 0 || a.thorough {
            // the same data in a tiny / huge unit (exact rescaling): model vs serde state, and the
            // factorisation's post-condition at relative tolerance
            let shift = (if rng.bool() { -1 } else { 1 }) * rng.int(20, 60) as i32;
            let xs = scale_rows(&x, shift);
            if finite_rows(&xs) {
                out.count(&format!("corr:unit_shift:{}", if shift < 0 { "2^-60..2^-20" } else { "2^20..2^60" }));
                corr_pca(&mut out, &mut rng, &xs, k.min(p), false, true);
                if !constant_col && i % 4 == 0 {
                    corr_pca(&mut out, &mut rng, &xs, k.min(p), true, true);
                }
                if p >= 2 {
                    let k2 = rng.below(p);
                    corr_tsvd(&mut out, &mut rng, &xs, k2, i % 4 == 0);
                }
            }
        }
        if p >= 2 {
            let k2 = rng.below(p);
            corr_tsvd(&mut out, &mut rng, &x, k2, false);
        }
    }

    // ---- search ----
    let nsearch = if a.thorough { 8000 } else { 1500 };
    for i in 0..nsearch {
        let p = rng.usize_in(1, 8);
        let n = match i % 5 {
            0 => rng.usize_in(2, p.max(2)),
            1 => rng.usize_in(2, 12),
            2 => p + 1,
            _ => rng.usize_in(2, 80),
        };
        let fam = i % FAMILIES.len();
        let x = gen_data(&mut rng, n, p, fam);
        if !finite_rows(&x) {
            continue;
        }
        if i < 4 {
            out.sample(json!({"family": FAMILIES[fam], "n": n, "p": p, "first_row": x[0]}));
        }
        // all k for PCA in the mode drawn, a random k in the other; all k < p for truncated SVD
        let mode = rng.bool();
        for k in 0..=p {
            check_pca(&mut out, &x, k, mode, rng.next_u64() >> 12, FAMILIES[fam], &mut stat);
        }
        check_pca(&mut out, &x, rng.usize_in(1, p), !mode, rng.next_u64() >> 12, FAMILIES[fam], &mut stat);
        if i % 10 == 0 {
            check_pca(&mut out, &x, p + 1 + rng.below(3), mode, 1, FAMILIES[fam], &mut stat);
        }
        for k in 0..p {
            check_tsvd(&mut out, &x, k, rng.next_u64() >> 12, FAMILIES[fam], &mut stat);
        }
        if i % 5 == 0 {
            check_tsvd(&mut out, &x, p + rng.below(2), 1, FAMILIES[fam], &mut stat);
        }
    }
    // ---- search: the same data sets expressed in a tiny / huge unit ----
    let nunit = if a.thorough { 3000 } else { 500 };
    for i in 0..nunit {
        let p = rng.usize_in(1, 8);
        let n = match i % 4 {
            0 => rng.usize_in(2, p.max(2)), // EVD path in covariance mode
            1 => p.max(2),
            2 => p + 1 + rng.below(3),
            _ => rng.usize_in(2, 40),
        };
        let fam = [0usize, 1, 2, 3, 4, 6, 7][i % 7];
        let x = gen_data(&mut rng, n, p, fam);
        let shift = (if i % 2 == 0 { -1 } else { 1 }) * rng.int(20, 60) as i32;
        let xs = scale_rows(&x, shift);
        if !finite_rows(&xs) {
            continue;
        }
        let famname = format!("unit_scaled({})", FAMILIES[fam]);
        let mode = i % 3 == 2;
        for k in 1..=p {
            check_pca(&mut out, &xs, k, mode, rng.next_u64() >> 12, &famname, &mut stat);
        }
        check_pca(&mut out, &xs, rng.usize_in(1, p), !mode, rng.next_u64() >> 12, &famname, &mut stat);
        let kk = rng.usize_in(1, p);
        check_unit(&mut out, &x, kk, false, false, shift, FAMILIES[fam]);
        check_unit(&mut out, &x, kk, true, false, shift, FAMILIES[fam]);
        if p >= 2 {
            for k in 1..p {
                check_tsvd(&mut out, &xs, k, rng.next_u64() >> 12, &famname, &mut stat);
            }
            check_unit(&mut out, &x, rng.usize_in(1, p - 1), false, true, shift, FAMILIES[fam]);
        }
    }
    // ---- api-trait twins (last: the streams of the sections above are unchanged) ----
    for i in 0..(if a.thorough { 400 } else { 50 }) {
        let p = rng.usize_in(1, 6);
        let n = match i % 4 {
            0 => rng.usize_in(2, p.max(2)),
            1 => p + 1,
            _ => rng.usize_in(2, 30),
        };
        let fam = i % FAMILIES.len();
        let x = gen_data(&mut rng, n, p, fam);
        if !finite_rows(&x) {
            continue;
        }
        let fresh: Rows = (0..3).map(|_| { let r = rng.pick(&x).clone(); r.iter().map(|v| v * rng.uniform(0.5, 1.5) + 0.25 * rng.normal()).collect() }).collect();
        // any k, incl. 0 and p + 1 (rejections through both entry points)
        check_twin(&mut out, &x, &fresh, rng.usize_in(0, p + 1), "pca", FAMILIES[fam]);
        check_twin(&mut out, &x, &fresh, rng.usize_in(1, p), "pca_cor", FAMILIES[fam]);
        check_twin(&mut out, &x, &fresh, rng.usize_in(0, p), "tsvd", FAMILIES[fam]);
    }
    out.set("worst_error_over_allowance", json!(stat.worst));
    out.finish(&a.out);
}
