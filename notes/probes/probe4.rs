#![allow(non_snake_case)]
use smartcore::linalg::naive::dense_matrix::*;
use smartcore::tree::decision_tree_regressor::*;
use smartcore::tree::decision_tree_classifier::*;
use smartcore::ensemble::random_forest_classifier::*;
use smartcore::ensemble::random_forest_regressor::*;
use serde_json::Value;
fn lcg(s: &mut u64) -> f64 {
    *s = s.wrapping_mul(6364136223846793005).wrapping_add(1442695040888963407);
    ((*s >> 11) as f64) / ((1u64 << 53) as f64)
}
fn route(nodes: &Vec<Value>, row: &[f64]) -> (usize, usize) {
    let mut id = 0; let mut depth = 0;
    loop {
        let nd = &nodes[id];
        if nd["true_child"].is_null() && nd["false_child"].is_null() { return (id, depth); }
        let f = nd["split_feature"].as_u64().unwrap() as usize;
        let v = nd["split_value"].as_f64().unwrap();
        id = if row[f] <= v { nd["true_child"].as_u64().unwrap() as usize } else { nd["false_child"].as_u64().unwrap() as usize };
        depth += 1;
    }
}
fn main() {
    let mut s = 11u64;
    let mut bad = 0; let mut total = 0;
    for trial in 0..400 {
        let n = 2 + (lcg(&mut s) * 60.0) as usize;
        let p = 1 + (lcg(&mut s) * 4.0) as usize;
        let integer = trial % 2 == 0;
        let xv: Vec<f64> = (0..n*p).map(|_| if integer { (lcg(&mut s)*5.0).floor() } else { lcg(&mut s) }).collect();
        let x = DenseMatrix::from_array(n, p, &xv);
        let y: Vec<f64> = (0..n).map(|_| (lcg(&mut s)*10.0).floor()).collect();
        let msl = 1 + (lcg(&mut s)*4.0) as usize;
        let mss = (lcg(&mut s)*8.0) as usize;
        let md = if trial % 3 == 0 { None } else { Some(1 + (lcg(&mut s)*6.0) as u16) };
        let params = DecisionTreeRegressorParameters { max_depth: md, min_samples_leaf: msl, min_samples_split: mss };
        let t = DecisionTreeRegressor::fit(&x, &y, params).unwrap();
        let j: Value = serde_json::to_value(&t).unwrap();
        let nodes = j["nodes"].as_array().unwrap().clone();
        // leaf membership
        let mut members: std::collections::BTreeMap<usize, Vec<usize>> = Default::default();
        let mut maxdepth = 0;
        for i in 0..n { let row: Vec<f64> = (0..p).map(|c| x.get(i,c)).collect(); let (leaf, d) = route(&nodes, &row); members.entry(leaf).or_default().push(i); maxdepth = maxdepth.max(d); }
        let pred = t.predict(&x).unwrap();
        total += 1;
        let mut ok = true; let mut why = String::new();
        for (leaf, rows) in &members {
            let mean: f64 = rows.iter().map(|i| y[*i]).sum::<f64>() / rows.len() as f64;
            let out = nodes[*leaf]["output"].as_f64().unwrap();
            if (mean - out).abs() > 1e-9 { ok = false; why = format!("leaf {} mean {} out {}", leaf, mean, out); }
            if rows.len() < msl && nodes.len() > 1 { ok = false; why = format!("leaf {} size {} < msl {}", leaf, rows.len(), msl); }
            for i in rows { if (pred[*i] - out).abs() > 1e-12 { ok = false; why = "pred != leaf out".into(); } }
        }
        if let Some(md) = md { if maxdepth > md as usize { ok = false; why = format!("depth {} > {}", maxdepth, md); } }
        // completeness w/o depth limit: leaf with > mss rows must have no valid split
        if md.is_none() {
            for (leaf, rows) in &members {
                if rows.len() > mss {
                    // any feature threshold leaving msl both sides?
                    for f in 0..p {
                        let mut vals: Vec<f64> = rows.iter().map(|i| x.get(*i, f)).collect();
                        vals.sort_by(|a,b| a.partial_cmp(b).unwrap());
                        for c in 1..vals.len() { if vals[c] != vals[c-1] && c >= msl && vals.len()-c >= msl { ok = false; why = format!("leaf {} ({} rows, mss {}) splittable on f{} msl {}", leaf, rows.len(), mss, f, msl); } }
                    }
                }
            }
        }
        if !ok { bad += 1; if bad < 10 { println!("REG tree bad trial {} n {} p {} int {} msl {} mss {} md {:?}: {}", trial, n, p, integer, msl, mss, md, why); } }
    }
    println!("REG trees total {} bad {}", total, bad);

    // classifier basic: leaf majority & label values
    let mut bad = 0; let mut total = 0;
    for trial in 0..300 {
        let n = 4 + (lcg(&mut s) * 60.0) as usize;
        let p = 1 + (lcg(&mut s) * 4.0) as usize;
        let integer = trial % 2 == 0;
        let xv: Vec<f64> = (0..n*p).map(|_| if integer { (lcg(&mut s)*5.0).floor() } else { lcg(&mut s) }).collect();
        let x = DenseMatrix::from_array(n, p, &xv);
        let labels = [-3.0, 7.0, 10.0, 42.0];
        let k = 2 + (lcg(&mut s)*3.0) as usize;
        let mut y: Vec<f64> = (0..n).map(|_| labels[(lcg(&mut s)*k as f64) as usize]).collect();
        y[0] = labels[0]; y[1] = labels[1];
        let msl = 1 + (lcg(&mut s)*4.0) as usize;
        let mss = (lcg(&mut s)*8.0) as usize;
        let md = if trial % 3 == 0 { None } else { Some(1 + (lcg(&mut s)*6.0) as u16) };
        let crit = [SplitCriterion::Gini, SplitCriterion::Entropy, SplitCriterion::ClassificationError][trial % 3].clone();
        let params = DecisionTreeClassifierParameters { criterion: crit, max_depth: md, min_samples_leaf: msl, min_samples_split: mss };
        let t = DecisionTreeClassifier::fit(&x, &y, params).unwrap();
        let j: Value = serde_json::to_value(&t).unwrap();
        let nodes = j["nodes"].as_array().unwrap().clone();
        let classes: Vec<f64> = j["classes"].as_array().unwrap().iter().map(|v| v.as_f64().unwrap()).collect();
        let mut members: std::collections::BTreeMap<usize, Vec<usize>> = Default::default();
        let mut maxdepth = 0;
        for i in 0..n { let row: Vec<f64> = (0..p).map(|c| x.get(i,c)).collect(); let (leaf, d) = route(&nodes, &row); members.entry(leaf).or_default().push(i); maxdepth = maxdepth.max(d); }
        let pred = t.predict(&x).unwrap();
        total += 1;
        let mut ok = true; let mut why = String::new();
        for (leaf, rows) in &members {
            let out = classes[nodes[*leaf]["output"].as_u64().unwrap() as usize];
            let cnt = |l: f64| rows.iter().filter(|i| y[**i] == l).count();
            let maxc = labels.iter().map(|l| cnt(*l)).max().unwrap();
            if cnt(out) != maxc { ok = false; why = format!("leaf {} output {} count {} max {}", leaf, out, cnt(out), maxc); }
            if rows.len() < msl && nodes.len() > 1 { ok = false; why = format!("leaf {} size {} < msl {}", leaf, rows.len(), msl); }
            for i in rows { if pred[*i] != out { ok = false; why = "pred != leaf out".into(); } }
        }
        if let Some(md) = md { if maxdepth > md as usize { ok = false; why = format!("depth {} > {}", maxdepth, md); } }
        if !ok { bad += 1; if bad < 10 { println!("CLS tree bad trial {} n {} p {} int {} msl {} mss {} md {:?}: {}", trial, n, p, integer, msl, mss, md, why); } }
    }
    println!("CLS trees total {} bad {}", total, bad);

    // forests determinism + structure
    let n = 40; let p = 3;
    let xv: Vec<f64> = (0..n*p).map(|_| lcg(&mut s)).collect();
    let x = DenseMatrix::from_array(n, p, &xv);
    let y: Vec<f64> = (0..n).map(|i| if i % 3 == 0 { 5.0 } else { 9.0 }).collect();
    let prm = RandomForestClassifierParameters { criterion: SplitCriterion::Gini, max_depth: None, min_samples_leaf: 1, min_samples_split: 2, n_trees: 7, m: None, keep_samples: true, seed: 99 };
    let f1 = RandomForestClassifier::fit(&x, &y, prm.clone()).unwrap();
    let f2 = RandomForestClassifier::fit(&x, &y, prm.clone()).unwrap();
    println!("RFC same json: {}", serde_json::to_string(&f1).unwrap() == serde_json::to_string(&f2).unwrap());
    println!("RFC eq: {}", f1 == f2);
    println!("RFC oob: {:?}", f1.predict_oob(&x).map(|v| v.len()));
    let yr: Vec<f64> = (0..n).map(|_| lcg(&mut s)).collect();
    let prm = RandomForestRegressorParameters { max_depth: None, min_samples_leaf: 1, min_samples_split: 2, n_trees: 7, m: None, keep_samples: true, seed: 99 };
    let g1 = RandomForestRegressor::fit(&x, &yr, prm.clone()).unwrap();
    let g2 = RandomForestRegressor::fit(&x, &yr, prm.clone()).unwrap();
    println!("RFR same json: {}", serde_json::to_string(&g1).unwrap() == serde_json::to_string(&g2).unwrap());
    println!("RFR oob: {:?}", g1.predict_oob(&x).map(|v| v.iter().filter(|x| x.is_nan()).count()));
}
