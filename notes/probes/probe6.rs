#![allow(non_snake_case)]
use smartcore::linalg::naive::dense_matrix::*;
use smartcore::cluster::dbscan::*;
use smartcore::decomposition::pca::*;
use smartcore::naive_bayes::gaussian::*;
use smartcore::naive_bayes::categorical::*;
use smartcore::naive_bayes::bernoulli::*;
use smartcore::naive_bayes::multinomial::*;
use smartcore::neighbors::knn_classifier::*;
use smartcore::neighbors::knn_regressor::*;
use smartcore::algorithm::neighbour::cover_tree::CoverTree;
use smartcore::math::distance::*;
use smartcore::model_selection::*;
use smartcore::linear::linear_regression::*;
use smartcore::linear::ridge_regression::*;
use serde::{Serialize, de::DeserializeOwned};
fn lcg(s: &mut u64) -> f64 {
    *s = s.wrapping_mul(6364136223846793005).wrapping_add(1442695040888963407);
    ((*s >> 11) as f64) / ((1u64 << 53) as f64)
}
fn rt<T: Serialize + DeserializeOwned + PartialEq>(name: &str, v: &T) {
    let b = bincode::serialize(v).unwrap();
    let v2: T = bincode::deserialize(&b).unwrap();
    let j = serde_json::to_string(v);
    let jok = match j { Ok(js) => match serde_json::from_str::<T>(&js) { Ok(v3) => format!("json_eq={}", &v3 == v), Err(e) => format!("json de err {}", e) }, Err(e) => format!("json ser err {}", e) };
    println!("{}: self_eq={} bincode_eq={} {}", name, v == v, &v2 == v, jok);
}
fn main() {
    let mut s = 77u64;
    let n = 30; let p = 3;
    let xv: Vec<f64> = (0..n*p).map(|_| lcg(&mut s)*3.0).collect();
    let x = DenseMatrix::from_array(n, p, &xv);
    let y: Vec<f64> = (0..n).map(|i| (i % 3) as f64 * 2.0 + 1.0).collect();
    rt("DenseMatrix f64 30x3", &x);
    let xf = DenseMatrix::<f32>::from_array(2, 5, &[1.,2.,3.,4.,5.,6.,7.,8.,9.,10.]);
    rt("DenseMatrix f32 2x5", &xf);
    rt("DBSCAN", &DBSCAN::fit(&x, DBSCANParameters::default().with_eps(1.0).with_min_samples(3)).unwrap());
    rt("PCA", &PCA::fit(&x, PCAParameters::default()).unwrap());
    rt("GaussianNB", &GaussianNB::fit(&x, &y, Default::default()).unwrap());
    let xc = DenseMatrix::from_array(n, p, &xv.iter().map(|v| v.floor()).collect::<Vec<f64>>());
    let yc: Vec<f64> = (0..n).map(|i| (i % 3) as f64).collect();
    rt("CategoricalNB", &CategoricalNB::fit(&xc, &yc, Default::default()).unwrap());
    rt("BernoulliNB", &BernoulliNB::fit(&xc, &y, BernoulliNBParameters::default().with_binarize(1.0)).unwrap());
    rt("MultinomialNB", &MultinomialNB::fit(&xc, &y, Default::default()).unwrap());
    rt("KNNClassifier", &KNNClassifier::fit(&x, &y, Default::default()).unwrap());
    rt("KNNRegressor", &KNNRegressor::fit(&x, &y, Default::default()).unwrap());
    let data: Vec<Vec<f64>> = (0..n).map(|i| x.get_row_as_vec(i)).collect();
    rt("CoverTree", &CoverTree::new(data, Distances::euclidian()).unwrap());
    rt("LinearRegression", &LinearRegression::fit(&x, &y, Default::default()).unwrap());
    rt("Ridge", &RidgeRegression::fit(&x, &y, Default::default()).unwrap());
    // train_test_split sizes
    for (n, ts) in [(10usize, 0.3f32), (10, 0.7), (20, 0.15), (7, 1.0), (100, 0.29)] {
        let x = DenseMatrix::<f64>::from_array(n, 1, &(0..n).map(|i| i as f64).collect::<Vec<f64>>());
        let y: Vec<f64> = (0..n).map(|i| i as f64 * 10.0).collect();
        let (xtr, xte, ytr, yte) = train_test_split(&x, &y, ts, false);
        println!("split n={} ts={} -> test {} (want {}) first test {:?} ytest0 {:?} train0 {:?}", n, ts, xte.shape().0, ((n as f32)*ts) as usize, xte.get(0,0), yte[0], if ytr.is_empty() { -1.0 } else { ytr[0] }); let _ = xtr;
    }
    // linear regression residual orthogonality with big column means
    let n = 40; let p = 4;
    let xv: Vec<f64> = (0..n*p).map(|i| lcg(&mut s) * [0.01, 1.0, 1000.0, 10.0][i % p] + [5.0, -3.0, 2000.0, 0.0][i % p]).collect();
    let x = DenseMatrix::from_array(n, p, &xv);
    let y: Vec<f64> = (0..n).map(|_| lcg(&mut s)).collect();
    for solver in [LinearRegressionSolverName::QR, LinearRegressionSolverName::SVD] {
        let m = LinearRegression::fit(&x, &y, LinearRegressionParameters::default().with_solver(solver)).unwrap();
        let yh = m.predict(&x).unwrap();
        let r: Vec<f64> = (0..n).map(|i| y[i]-yh[i]).collect();
        let rn = r.iter().map(|v| v*v).sum::<f64>().sqrt();
        let worst = (0..p).map(|c| { let col: Vec<f64> = (0..n).map(|i| x.get(i,c)).collect(); let cn = col.iter().map(|v| v*v).sum::<f64>().sqrt(); (col.iter().zip(r.iter()).map(|(a,b)| a*b).sum::<f64>() / (cn*rn)).abs() }).fold(0f64, f64::max);
        println!("linreg orth worst {:e} sum r {:e}", worst, r.iter().sum::<f64>()/rn);
    }
    for (solver, norm) in [(RidgeRegressionSolverName::Cholesky, true), (RidgeRegressionSolverName::SVD, true), (RidgeRegressionSolverName::Cholesky, false), (RidgeRegressionSolverName::SVD, false)] {
        let alpha = 0.5;
        let m = RidgeRegression::fit(&x, &y, RidgeRegressionParameters::default().with_alpha(alpha).with_normalize(norm).with_solver(solver)).unwrap();
        // gradient in standardized space
        let w = m.coefficients(); let b = m.intercept();
        let yh = m.predict(&x).unwrap();
        let r: Vec<f64> = (0..n).map(|i| yh[i]-y[i]).collect();
        let mut worst = 0f64;
        for c in 0..p {
            let col: Vec<f64> = (0..n).map(|i| x.get(i,c)).collect();
            let mu = col.iter().sum::<f64>()/n as f64; let sd = (col.iter().map(|v| (v-mu)*(v-mu)).sum::<f64>()/n as f64).sqrt();
            let g = if norm { col.iter().zip(r.iter()).map(|(a,b)| (a-mu)/sd*b).sum::<f64>() + alpha * w.get(c,0)*sd } else { col.iter().zip(r.iter()).map(|(a,b)| a*b).sum::<f64>() + alpha * w.get(c,0) };
            let scale = if norm { (n as f64).sqrt() * r.iter().map(|v| v*v).sum::<f64>().sqrt() } else { col.iter().map(|v| v*v).sum::<f64>().sqrt() * r.iter().map(|v| v*v).sum::<f64>().sqrt() };
            worst = worst.max((g/scale).abs());
        }
        println!("ridge norm={} grad worst {:e} b {} sumr {:e}", norm, worst, b, r.iter().sum::<f64>());
    }
}
