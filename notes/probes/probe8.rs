#![allow(non_snake_case)]
use smartcore::linalg::naive::dense_matrix::*;
use smartcore::algorithm::neighbour::bbd_tree::BBDTree;
use smartcore::linear::logistic_regression::*;
use std::sync::mpsc;
use std::time::Duration;
fn lcg(s: &mut u64) -> f64 {
    *s = s.wrapping_mul(6364136223846793005).wrapping_add(1442695040888963407);
    ((*s >> 11) as f64) / ((1u64 << 53) as f64)
}
fn with_timeout<T: Send + 'static, F: FnOnce() -> T + Send + 'static>(f: F, secs: u64) -> Option<T> {
    let (tx, rx) = mpsc::channel();
    std::thread::spawn(move || { let r = std::panic::catch_unwind(std::panic::AssertUnwindSafe(f)); let _ = tx.send(r); });
    match rx.recv_timeout(Duration::from_secs(secs)) { Ok(Ok(v)) => Some(v), Ok(Err(_)) => { println!("   (panic)"); None }, Err(_) => { println!("   (TIMEOUT)"); None } }
}
fn main() {
    let mut s = 5u64;
    // ---- BBD clustering vs exhaustive
    let mut bad = 0; let mut total = 0;
    for trial in 0..0 {
        let n = 1 + (lcg(&mut s) * 60.0) as usize;
        let d = 1 + (lcg(&mut s) * 3.0) as usize;
        let lattice = trial % 2 == 0;
        let xv: Vec<f64> = (0..n*d).map(|_| if lattice { (lcg(&mut s)*4.0).floor() } else { lcg(&mut s) }).collect();
        let x = DenseMatrix::from_array(n, d, &xv);
        let k = 1 + (lcg(&mut s) * 6.0) as usize;
        let mode = trial % 4;
        let cents: Vec<Vec<f64>> = (0..k).map(|c| (0..d).map(|_| match mode { 0 => (lcg(&mut s)*4.0).floor(), 1 => lcg(&mut s), 2 => lcg(&mut s)*100.0 + 50.0, _ => if c % 2 == 0 { 1.0 } else { (lcg(&mut s)*4.0).floor() } }).collect()).collect();
        let xx = x.clone(); let cc = cents.clone();
        let r = with_timeout(move || { let t = BBDTree::new(&xx); let mut sums = vec![vec![0f64; d]; k]; let mut counts = vec![0usize; k]; let mut mem = vec![0usize; n]; let dist = t.clustering(&cc, &mut sums, &mut counts, &mut mem); (dist, sums, counts, mem) }, 10);
        total += 1;
        match r { Some((dist, sums, counts, mem)) => {
            let mut ok = true; let mut why = String::new();
            let mut tot = 0f64; let mut s2 = vec![vec![0f64; d]; k]; let mut c2 = vec![0usize; k];
            for i in 0..n { let dd = |c: usize| (0..d).map(|j| (x.get(i,j)-cents[c][j]).powi(2)).sum::<f64>(); let best = (0..k).map(dd).fold(f64::INFINITY, f64::min); if dd(mem[i]) > best * (1.0+1e-12) + 1e-300 { ok = false; why = format!("row {} assigned {} dist {} best {}", i, mem[i], dd(mem[i]), best); } tot += dd(mem[i]); c2[mem[i]] += 1; for j in 0..d { s2[mem[i]][j] += x.get(i,j); } }
            if c2 != counts { ok = false; why = format!("counts {:?} vs {:?}", counts, c2); }
            for c in 0..k { for j in 0..d { if (s2[c][j]-sums[c][j]).abs() > 1e-9*(1.0+s2[c][j].abs()) { ok = false; why = format!("sums differ c{} j{} {} vs {}", c, j, sums[c][j], s2[c][j]); } } }
            if (tot - dist).abs() > 1e-9 * (1.0 + tot) { ok = false; why = format!("distortion {} vs {}", dist, tot); }
            if !ok { bad += 1; if bad < 8 { println!("BBD bad trial {} n {} d {} k {} mode {} lattice {}: {}", trial, n, d, k, mode, lattice, why); } }
        }, None => { bad += 1; println!("BBD fail trial {} n {} d {} k {}", trial, n, d, k); } }
    }
    println!("BBD total {} bad {}", total, bad);

    // ---- logistic stationarity after softmax fix
    let mut bad = 0;
    let mut ratios: Vec<f64> = vec![]; for trial in 0..1200 {
        let n = 10 + (lcg(&mut s) * 60.0) as usize;
        let p = 1 + (lcg(&mut s) * 4.0) as usize;
        let k = 2 + trial % 3;
        let scale = [0.1, 1.0, 10.0, 100.0][trial % 4];
        let xv: Vec<f64> = (0..n*p).map(|_| (lcg(&mut s)*2.0-1.0)*scale + 3.0*scale).collect();
        let x = DenseMatrix::from_array(n, p, &xv);
        let labs = [-2.0, 5.0, 6.0, 11.0];
        let mut y: Vec<f64> = (0..n).map(|_| labs[(lcg(&mut s) * k as f64) as usize]).collect();
        for c in 0..k { y[c] = labs[c]; }
        let alpha = [0.01, 0.1, 1.0, 10.0][(trial/4) % 4];
        let xx = x.clone(); let yy = y.clone();
        let r = with_timeout(move || { let m = LogisticRegression::fit(&xx, &yy, LogisticRegressionParameters::default().with_alpha(alpha)).unwrap(); (m.coefficients().clone(), m.intercept().clone()) }, 60);
        match r { Some((w, b)) => {
            let mut g = vec![vec![0f64; p+1]; if k==2 {1} else {k}];
            let mut g0 = g.clone();
            for i in 0..n {
                let yi = labs.iter().position(|l| *l == y[i]).unwrap();
                if k == 2 {
                    let sc: f64 = (0..p).map(|jx| w.get(0,jx)*x.get(i,jx)).sum::<f64>() + b.get(0,0);
                    let pr = 1.0/(1.0+(-sc).exp());
                    for jx in 0..p { g[0][jx] += (pr - yi as f64) * x.get(i,jx); g0[0][jx] += (0.5 - yi as f64) * x.get(i,jx); }
                    g[0][p] += pr - yi as f64; g0[0][p] += 0.5 - yi as f64;
                } else {
                    let sc: Vec<f64> = (0..k).map(|c| (0..p).map(|jx| w.get(c,jx)*x.get(i,jx)).sum::<f64>() + b.get(c,0)).collect();
                    let mx = sc.iter().cloned().fold(f64::NEG_INFINITY, f64::max);
                    let z: f64 = sc.iter().map(|v| (v-mx).exp()).sum();
                    for c in 0..k { let pr = (sc[c]-mx).exp()/z; let t = if c == yi {1.0} else {0.0}; for jx in 0..p { g[c][jx] += (pr - t)*x.get(i,jx); g0[c][jx] += (1.0/k as f64 - t)*x.get(i,jx); } g[c][p] += pr - t; g0[c][p] += 1.0/k as f64 - t; }
                }
            }
            for c in 0..g.len() { for jx in 0..p { g[c][jx] += alpha * w.get(c,jx); } }
            let gn = g.iter().flatten().fold(0f64, |a,b| a.max(b.abs())); let g0n = g0.iter().flatten().fold(0f64, |a,b| a.max(b.abs()));
            ratios.push(gn/g0n); if gn > 1e-2 * g0n { bad += 1; if bad < 10 { println!("LOGREG bad trial {} n {} p {} k {} scale {} alpha {}: |g| {:e} |g0| {:e}", trial, n, p, k, scale, alpha, gn, g0n); } }
        }, None => { bad += 1; println!("LOGREG fail trial {}", trial); } }
    }
    ratios.sort_by(|a,b| a.partial_cmp(b).unwrap()); let q = |p: f64| ratios[((ratios.len()-1) as f64 * p) as usize]; println!("LOGREG bad(>1e-2) {} of {} quantiles 50% {:e} 90% {:e} 99% {:e} 99.9% {:e} max {:e}", bad, ratios.len(), q(0.5), q(0.9), q(0.99), q(0.999), q(1.0));
}
