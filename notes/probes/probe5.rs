#![allow(non_snake_case)]
use smartcore::linalg::naive::dense_matrix::*;
use smartcore::cluster::kmeans::*;
use smartcore::svm::svc::*;
use smartcore::svm::svr::*;
use smartcore::svm::*;
use smartcore::linear::logistic_regression::*;
use smartcore::linear::linear_regression::*;
use smartcore::linear::ridge_regression::*;
use smartcore::linear::lasso::*;
use serde_json::Value;
use std::sync::mpsc;
use std::time::Duration;
fn lcg(s: &mut u64) -> f64 {
    *s = s.wrapping_mul(6364136223846793005).wrapping_add(1442695040888963407);
    ((*s >> 11) as f64) / ((1u64 << 53) as f64)
}
fn with_timeout<T: Send + 'static, F: FnOnce() -> T + Send + 'static>(f: F, secs: u64) -> Option<T> {
    let (tx, rx) = mpsc::channel();
    std::thread::spawn(move || { let r = std::panic::catch_unwind(std::panic::AssertUnwindSafe(f)); let _ = tx.send(r); });
    match rx.recv_timeout(Duration::from_secs(secs)) { Ok(Ok(v)) => Some(v), Ok(Err(_)) => { println!("   (panic)"); None }, Err(_) => { println!("   (TIMEOUT)"); None } }
}
fn main() {
    let mut s = 21u64;
    // ---- kmeans
    let mut bad = 0;
    for trial in 0..200 {
        let n = 2 + (lcg(&mut s) * 80.0) as usize;
        let d = 1 + (lcg(&mut s) * 3.0) as usize;
        let lattice = trial % 2 == 0;
        let xv: Vec<f64> = (0..n*d).map(|_| if lattice { (lcg(&mut s)*4.0).floor() } else { lcg(&mut s) }).collect();
        let x = DenseMatrix::from_array(n, d, &xv);
        let mut rows: Vec<Vec<u64>> = (0..n).map(|i| (0..d).map(|c| x.get(i,c).to_bits()).collect()).collect();
        rows.sort(); rows.dedup();
        let k = 2 + (lcg(&mut s) * 5.0) as usize;
        if rows.len() < k { continue; }
        let xx = x.clone();
        let r = with_timeout(move || { let m = KMeans::fit(&xx, KMeansParameters::default().with_k(k).with_max_iter(1 + (trial % 20))).unwrap(); let j: Value = serde_json::to_value(&m).unwrap(); let pred = m.predict(&xx).unwrap(); (j, pred) }, 20);
        if let Some((j, pred)) = r {
            let cent: Vec<Vec<f64>> = j["centroids"].as_array().unwrap().iter().map(|c| c.as_array().unwrap().iter().map(|v| v.as_f64().unwrap_or(f64::NAN)).collect()).collect();
            let size: Vec<usize> = j["size"].as_array().unwrap().iter().map(|v| v.as_u64().unwrap() as usize).collect();
            let y: Vec<usize> = j["_y"].as_array().unwrap().iter().map(|v| v.as_u64().unwrap() as usize).collect();
            let mut ok = true; let mut why = String::new();
            if size.iter().sum::<usize>() != n { ok = false; why = format!("sizes sum {} != {}", size.iter().sum::<usize>(), n); }
            for c in 0..k {
                let mem: Vec<usize> = (0..n).filter(|i| y[*i] == c).collect();
                if mem.len() != size[c] { ok = false; why = format!("size[{}]={} but {} members", c, size[c], mem.len()); }
                if cent[c].iter().any(|v| !v.is_finite()) { ok = false; why = format!("centroid {} non-finite", c); }
                if !mem.is_empty() { for jx in 0..d { let mean: f64 = mem.iter().map(|i| x.get(*i, jx)).sum::<f64>() / mem.len() as f64; if (mean - cent[c][jx]).abs() > 1e-9 { ok = false; why = format!("centroid {} dim {} {} vs mean {}", c, jx, cent[c][jx], mean); } } }
            }
            for i in 0..n { let dist = |c: usize| (0..d).map(|jx| (x.get(i,jx)-cent[c][jx]).powi(2)).sum::<f64>(); let best = (0..k).map(dist).fold(f64::INFINITY, f64::min); if dist(pred[i] as usize) > best + 1e-12 { ok = false; why = "predict not nearest".into(); } }
            if !ok { bad += 1; if bad < 8 { println!("KMEANS bad trial {} n {} d {} k {} lattice {}: {}", trial, n, d, k, lattice, why); } }
        } else { bad += 1; println!("KMEANS fail trial {} n {} d {} k {}", trial, n, d, k); }
    }
    println!("KMEANS bad {}", bad);

    // ---- SVR termination
    let mut bad = 0;
    for trial in 0..60 {
        let n = 4 + (lcg(&mut s) * 40.0) as usize;
        let p = 1 + (lcg(&mut s) * 3.0) as usize;
        let xv: Vec<f64> = (0..n*p).map(|_| lcg(&mut s)*4.0-2.0).collect();
        let x = DenseMatrix::from_array(n, p, &xv);
        let y: Vec<f64> = (0..n).map(|i| x.get(i,0)*1.5 + 0.2*(lcg(&mut s)-0.5)).collect();
        let c = [0.1, 1.0, 10.0, 100.0][trial % 4]; let eps = [0.0, 0.1, 0.5][trial % 3]; let tol = [1e-2, 1e-3, 1e-4][trial % 3];
        let kind = trial % 3;
        let xx = x.clone(); let yy = y.clone();
        let r = with_timeout(move || {
            let j: Value = match kind {
                0 => serde_json::to_value(&SVR::fit(&xx, &yy, SVRParameters::default().with_c(c).with_eps(eps).with_tol(tol)).unwrap()).unwrap(),
                1 => serde_json::to_value(&SVR::fit(&xx, &yy, SVRParameters::default().with_c(c).with_eps(eps).with_tol(tol).with_kernel(Kernels::rbf(0.5))).unwrap()).unwrap(),
                _ => serde_json::to_value(&SVR::fit(&xx, &yy, SVRParameters::default().with_c(c).with_eps(eps).with_tol(tol).with_kernel(Kernels::polynomial(2.0, 0.5, 1.0))).unwrap()).unwrap(),
            };
            j }, 30);
        match r { Some(j) => { let w: Vec<f64> = j["w"].as_array().unwrap().iter().map(|v| v.as_f64().unwrap()).collect(); let sum: f64 = w.iter().sum(); let mx = w.iter().fold(0f64, |a,b| a.max(b.abs())); if sum.abs() > 1e-8 * c * n as f64 || mx > c * (1.0+1e-12) { bad += 1; println!("SVR bad trial {} sum {} max {} c {}", trial, sum, mx, c); } }, None => { bad += 1; println!("SVR fail trial {} n {} p {} kind {} c {} eps {} tol {}", trial, n, p, kind, c, eps, tol); } }
    }
    println!("SVR bad {}", bad);

    // ---- SVC invariants
    let mut bad = 0;
    for trial in 0..100 {
        let n = 4 + (lcg(&mut s) * 40.0) as usize;
        let p = 1 + (lcg(&mut s) * 3.0) as usize;
        let xv: Vec<f64> = (0..n*p).map(|_| lcg(&mut s)*4.0-2.0).collect();
        let x = DenseMatrix::from_array(n, p, &xv);
        let labs = if trial % 2 == 0 { (-1.0, 1.0) } else { (3.0, 8.0) };
        let mut y: Vec<f64> = (0..n).map(|i| if x.get(i,0) + 0.5*(lcg(&mut s)-0.5) > 0.0 { labs.1 } else { labs.0 }).collect();
        y[0] = labs.0; y[1] = labs.1;
        let c = [0.1, 1.0, 10.0, 100.0][trial % 4];
        let xx = x.clone(); let yy = y.clone();
        let kind = trial % 2;
        let r = with_timeout(move || {
            if kind == 0 { let m = SVC::fit(&xx, &yy, SVCParameters::default().with_c(c).with_epoch(1 + trial % 3)).unwrap(); (serde_json::to_value(&m).unwrap(), m.decision_function(&xx).unwrap(), m.predict(&xx).unwrap()) }
            else { let m = SVC::fit(&xx, &yy, SVCParameters::default().with_c(c).with_epoch(1 + trial % 3).with_kernel(Kernels::rbf(0.7))).unwrap(); (serde_json::to_value(&m).unwrap(), m.decision_function(&xx).unwrap(), m.predict(&xx).unwrap()) }
        }, 30);
        match r { Some((j, df, pr)) => {
            let w: Vec<f64> = j["w"].as_array().unwrap().iter().map(|v| v.as_f64().unwrap()).collect();
            let inst: Vec<Vec<f64>> = j["instances"].as_array().unwrap().iter().map(|c| c.as_array().unwrap().iter().map(|v| v.as_f64().unwrap()).collect()).collect();
            let sum: f64 = w.iter().sum();
            let mut ok = sum.abs() <= 1e-9 * c * n as f64; let mut why = format!("sum {}", sum);
            for (wi, xi) in w.iter().zip(inst.iter()) {
                let idx = (0..n).find(|i| (0..p).all(|jx| x.get(*i,jx) == xi[jx]));
                match idx { None => { ok = false; why = "sv not a training row".into(); }, Some(i) => { let yi = if y[i] == labs.1 { 1.0 } else { -1.0 }; if wi * yi < -1e-12 || wi * yi > c * (1.0 + 1e-12) { ok = false; why = format!("w {} y {} c {}", wi, yi, c); } } }
            }
            for i in 0..n { if (df[i] > 0.0) != (pr[i] == labs.1) { ok = false; why = "predict/decision mismatch".into(); } }
            if !ok { bad += 1; if bad < 8 { println!("SVC bad trial {}: {}", trial, why); } }
        }, None => { bad += 1; println!("SVC fail trial {}", trial); } }
    }
    println!("SVC bad {}", bad);

    // ---- logistic stationarity (binary + multi)
    let mut bad = 0;
    for trial in 0..60 {
        let n = 10 + (lcg(&mut s) * 60.0) as usize;
        let p = 1 + (lcg(&mut s) * 4.0) as usize;
        let k = 2 + trial % 3;
        let scale = [0.1, 1.0, 10.0, 100.0][trial % 4];
        let xv: Vec<f64> = (0..n*p).map(|_| (lcg(&mut s)*2.0-1.0)*scale + 3.0*scale).collect();
        let x = DenseMatrix::from_array(n, p, &xv);
        let labs = [-2.0, 5.0, 6.0, 11.0];
        let mut y: Vec<f64> = (0..n).map(|_| labs[(lcg(&mut s) * k as f64) as usize]).collect();
        for c in 0..k { y[c] = labs[c]; }
        let alpha = [0.01, 0.1, 1.0, 10.0][(trial/4) % 4];
        let xx = x.clone(); let yy = y.clone();
        let r = with_timeout(move || { let m = LogisticRegression::fit(&xx, &yy, LogisticRegressionParameters::default().with_alpha(alpha)).unwrap(); (m.coefficients().clone(), m.intercept().clone()) }, 60);
        match r { Some((w, b)) => {
            // gradient
            let mut g = vec![vec![0f64; p+1]; if k==2 {1} else {k}];
            let mut g0 = g.clone();
            for i in 0..n {
                let yi = labs.iter().position(|l| *l == y[i]).unwrap();
                if k == 2 {
                    let sc: f64 = (0..p).map(|jx| w.get(0,jx)*x.get(i,jx)).sum::<f64>() + b.get(0,0);
                    let pr = 1.0/(1.0+(-sc).exp());
                    for jx in 0..p { g[0][jx] += (pr - yi as f64) * x.get(i,jx); g0[0][jx] += (0.5 - yi as f64) * x.get(i,jx); }
                    g[0][p] += pr - yi as f64; g0[0][p] += 0.5 - yi as f64;
                } else {
                    let sc: Vec<f64> = (0..k).map(|c| (0..p).map(|jx| w.get(c,jx)*x.get(i,jx)).sum::<f64>() + b.get(c,0)).collect();
                    let mx = sc.iter().cloned().fold(f64::NEG_INFINITY, f64::max);
                    let z: f64 = sc.iter().map(|v| (v-mx).exp()).sum();
                    for c in 0..k { let pr = (sc[c]-mx).exp()/z; let t = if c == yi {1.0} else {0.0}; for jx in 0..p { g[c][jx] += (pr - t)*x.get(i,jx); g0[c][jx] += (1.0/k as f64 - t)*x.get(i,jx); } g[c][p] += pr - t; g0[c][p] += 1.0/k as f64 - t; }
                }
            }
            for c in 0..g.len() { for jx in 0..p { g[c][jx] += alpha * w.get(c,jx); } }
            let gn = g.iter().flatten().fold(0f64, |a,b| a.max(b.abs())); let g0n = g0.iter().flatten().fold(0f64, |a,b| a.max(b.abs()));
            if gn > 1e-4 * g0n { bad += 1; if bad < 10 { println!("LOGREG bad trial {} n {} p {} k {} scale {} alpha {}: |g| {:e} |g0| {:e}", trial, n, p, k, scale, alpha, gn, g0n); } }
        }, None => { bad += 1; println!("LOGREG fail trial {}", trial); } }
    }
    println!("LOGREG bad {}", bad);
}
