#![allow(non_snake_case)]
use smartcore::algorithm::neighbour::cover_tree::CoverTree;
use smartcore::algorithm::neighbour::linear_search::LinearKNNSearch;
use smartcore::cluster::dbscan::*;
use smartcore::linalg::cholesky::*;
use smartcore::linalg::naive::dense_matrix::*;
use smartcore::linalg::qr::*;
use smartcore::linalg::stats::*;
use smartcore::linalg::svd::*;
use smartcore::linear::elastic_net::*;
use smartcore::math::distance::*;
use smartcore::metrics::*;
use smartcore::preprocessing::categorical::*;
use std::panic::catch_unwind;

fn probe<F: FnOnce() + std::panic::UnwindSafe>(name: &str, f: F) {
    println!("=== {}", name);
    if let Err(e) = catch_unwind(f) {
        let msg = e
            .downcast_ref::<String>()
            .cloned()
            .or_else(|| e.downcast_ref::<&str>().map(|s| s.to_string()))
            .unwrap_or_default();
        println!("  PANIC: {}", msg);
    }
}

fn lcg(s: &mut u64) -> f64 {
    *s = s.wrapping_mul(6364136223846793005).wrapping_add(1442695040888963407);
    ((*s >> 11) as f64) / ((1u64 << 53) as f64)
}

fn main() {
    probe("QR f32 scale 1e-12", || {
        let mut s = 1u64;
        let m = 5;
        let n = 3;
        let mut v = vec![0f32; m * n];
        for x in v.iter_mut() {
            *x = ((lcg(&mut s) - 0.5) * 1e-12) as f32;
        }
        let a = DenseMatrix::from_array(m, n, &v);
        let qr = a.qr().unwrap();
        let q = qr.Q();
        let r = qr.R();
        let back = q.matmul(&r);
        println!("  A={} \n  QR={}", a.clone().mul_scalar(1e12), back.mul_scalar(1e12));
        let qtq = q.transpose().matmul(&q);
        println!("  QtQ={}", qtq);
    });
    probe("QR f64 graded scale 1e-12", || {
        // columns with norms 1e-12, 1e-15, 1e-18: cond 1e6
        let a = DenseMatrix::from_2d_array(&[
            &[1e-12, 2e-15, 1e-18],
            &[2e-12, -1e-15, 3e-18],
            &[-1e-12, 3e-15, -2e-18],
            &[3e-12, 1e-15, 5e-18],
        ]);
        let qr = a.qr().unwrap();
        let q = qr.Q();
        let r = qr.R();
        let back = q.matmul(&r);
        println!("  rel err = {:e}", back.sub(&a).norm2() / a.norm2());
        let qtq = q.transpose().matmul(&q);
        println!("  QtQ={}", qtq);
    });
    probe("SVD f32 scale 1e-12", || {
        let mut s = 3u64;
        let m = 5;
        let n = 3;
        let mut v = vec![0f32; m * n];
        for x in v.iter_mut() {
            *x = ((lcg(&mut s) - 0.5) * 1e-12) as f32;
        }
        let a = DenseMatrix::from_array(m, n, &v);
        let svd = a.svd().unwrap();
        let back = svd.U.matmul(&svd.S()).matmul(&svd.V.transpose());
        println!("  s={:?} rel err = {:e}", svd.s, back.sub(&a).norm2() / a.norm2());
    });
    probe("SVD f64 scale 1e-12 graded", || {
        let a = DenseMatrix::from_2d_array(&[
            &[1e-12, 2e-15, 1e-18],
            &[2e-12, -1e-15, 3e-18],
            &[-1e-12, 3e-15, -2e-18],
            &[3e-12, 1e-15, 5e-18],
        ]);
        let svd = a.svd().unwrap();
        let back = svd.U.matmul(&svd.S()).matmul(&svd.V.transpose());
        println!("  s={:?} rel err = {:e}", svd.s, back.sub(&a).norm2() / a.norm2());
        let utu = svd.U.transpose().matmul(&svd.U);
        println!("  UtU={}", utu);
    });
    probe("Cholesky [[0,0],[0,-1]]", || {
        let a = DenseMatrix::from_2d_array(&[&[0., 0.], &[0., -1.]]);
        match a.cholesky() {
            Ok(c) => println!("  OK L={:?}", c.L()),
            Err(e) => println!("  Err {}", e),
        }
        let a = DenseMatrix::from_2d_array(&[&[1., 2.], &[2., 1.]]);
        match a.cholesky() {
            Ok(c) => println!("  OK L={:?}", c.L()),
            Err(e) => println!("  Err {}", e),
        }
    });
    probe("softmax negatives", || {
        let mut a = DenseMatrix::from_2d_array(&[&[-1000., -1001., -1002.]]);
        a.softmax_mut();
        println!("  {:?}", a);
        let mut a = DenseMatrix::from_2d_array(&[&[-400., -401., 300.]]);
        a.softmax_mut();
        println!("  {:?}", a);
    });
    probe("var large offset", || {
        let a = DenseMatrix::from_2d_array(&[&[1e8], &[1e8 + 1.], &[1e8 + 2.], &[1e8 + 3.]]);
        println!("  var={:?} (true 1.25) std={:?}", a.var(0), a.std(0));
        let v = vec![1e8, 1e8 + 1., 1e8 + 2., 1e8 + 3.];
        println!("  vec var={:?}", BaseVector::var(&v));
    });
    probe("CoverTree single point", || {
        let t = CoverTree::new(vec![vec![1.0, 2.0]], Distances::euclidian()).unwrap();
        let r = t.find(&vec![1.0, 2.5], 1).unwrap();
        println!("  find -> {:?}", r);
    });
    probe("CoverTree identical points", || {
        let t = CoverTree::new(vec![vec![1.0, 2.0]; 4], Distances::euclidian()).unwrap();
        let r = t.find(&vec![1.0, 2.5], 2).unwrap();
        println!("  find -> {:?}", r);
        let r = t.find_radius(&vec![1.0, 2.5], 1.0).unwrap();
        println!("  radius -> {:?}", r);
    });
    probe("CoverTree two points k=2", || {
        let t = CoverTree::new(vec![vec![0.0], vec![1.0]], Distances::euclidian()).unwrap();
        println!("  find -> {:?}", t.find(&vec![0.2], 2).unwrap());
        println!("  find k=1 -> {:?}", t.find(&vec![0.2], 1).unwrap());
    });
    probe("LinearSearch single", || {
        let t = LinearKNNSearch::new(vec![vec![1.0, 2.0]], Distances::euclidian()).unwrap();
        println!("  find -> {:?}", t.find(&vec![1.0, 2.5], 1).unwrap());
    });
    probe("ElasticNet shift", || {
        let mut s = 7u64;
        let n = 30;
        let p = 3;
        let mut xv = vec![0f64; n * p];
        for x in xv.iter_mut() {
            *x = lcg(&mut s) * 4.0 - 2.0;
        }
        let x = DenseMatrix::from_array(n, p, &xv);
        let mut y = vec![0f64; n];
        for i in 0..n {
            y[i] = 1.5 * x.get(i, 0) - 2.0 * x.get(i, 1) + 0.3 * (lcg(&mut s) - 0.5);
        }
        for shift in [0.0, 10.0, 1000.0] {
            let ys: Vec<f64> = y.iter().map(|v| v + shift).collect();
            let m = ElasticNet::fit(
                &x,
                &ys,
                ElasticNetParameters {
                    alpha: 0.1,
                    l1_ratio: 0.5,
                    normalize: false,
                    tol: 1e-6,
                    max_iter: 1000,
                },
            )
            .unwrap();
            println!("  shift {} coef {:?} b {}", shift, m.coefficients(), m.intercept());
        }
    });
    probe("DBSCAN predict far", || {
        let x = DenseMatrix::from_2d_array(&[&[0.0, 0.0], &[0.1, 0.0], &[0.0, 0.1], &[5.0, 5.0], &[5.1, 5.0], &[5.0, 5.1]]);
        let m = DBSCAN::fit(&x, DBSCANParameters::default().with_eps(0.5).with_min_samples(2)).unwrap();
        let q = DenseMatrix::from_2d_array(&[&[100.0, 100.0], &[5.05, 5.0]]);
        println!("  train {:?} pred {:?}", m.predict(&x).unwrap(), m.predict(&q).unwrap());
    });
    probe("HCV single class", || {
        let a = vec![0.0, 0.0, 0.0, 0.0];
        let b = vec![0.0, 1.0, 1.0, 2.0];
        println!("  h(a,b)={} c(a,b)={} v={}", homogeneity_score(&a, &b), completeness_score(&a, &b), v_measure_score(&a, &b));
        println!("  h(b,a)={} c(b,a)={} v={}", homogeneity_score(&b, &a), completeness_score(&b, &a), v_measure_score(&b, &a));
        println!("  h(b,b)={} c={} v={}", homogeneity_score(&b, &b), completeness_score(&b, &b), v_measure_score(&b, &b));
    });
    probe("OneHot [0,1] of 4", || {
        let x = DenseMatrix::from_2d_array(&[&[0.0, 1.0, 7.5, 8.5], &[1.0, 0.0, 9.5, 10.5], &[1.0, 1.0, 11.5, 12.5]]);
        let enc = OneHotEncoder::fit(&x, OneHotEncoderParams::from_cat_idx(&[0, 1])).unwrap();
        match enc.transform(&x) {
            Ok(t) => println!("  {}", t),
            Err(e) => println!("  Err {}", e),
        }
    });
    probe("nalgebra max/min/to_row_vector", || {
        use nalgebra::DMatrix;
        use smartcore::linalg::BaseMatrix;
        let m = DMatrix::from_row_slice(2, 3, &[-1.0, -2.0, -3.0, -4.0, -5.0, -6.0]);
        println!("  max {} (want -1)", BaseMatrix::max(&m));
        let m2 = DMatrix::from_row_slice(2, 3, &[1.0, 2.0, 3.0, 4.0, 5.0, 6.0]);
        println!("  min {} (want 1)", BaseMatrix::min(&m2));
        println!("  to_row_vector {:?} (want 1..6)", BaseMatrix::to_row_vector(m2.clone()));
        println!("  reshape 3x2 {:?}", BaseMatrix::reshape(&m2, 3, 2));
    });
    probe("ndarray dot col / reshape after transpose", || {
        use ndarray::arr2;
        use smartcore::linalg::BaseMatrix;
        let a = arr2(&[[1.0], [2.0], [3.0]]);
        let b = arr2(&[[4.0], [5.0], [6.0]]);
        println!("  col dot {} (want 32)", BaseMatrix::dot(&a, &b));
        let m = arr2(&[[1.0, 2.0, 3.0], [4.0, 5.0, 6.0]]);
        let t = BaseMatrix::transpose(&m);
        println!("  t.to_row_vector {:?}", BaseMatrix::to_row_vector(t.clone()));
        println!("  t.reshape {:?}", BaseMatrix::reshape(&t, 2, 3));
    });
}
