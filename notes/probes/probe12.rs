#![allow(non_snake_case)]
use smartcore::linalg::naive::dense_matrix::*;
use smartcore::linalg::Matrix;
use smartcore::linear::lasso::*;
use smartcore::linear::elastic_net::*;
use smartcore::linear::ridge_regression::*;
use smartcore::linear::linear_regression::*;
use smartcore::linear::logistic_regression::*;
use smartcore::decomposition::pca::*;
use smartcore::naive_bayes::gaussian::*;
use smartcore::neighbors::knn_regressor::*;
use smartcore::tree::decision_tree_regressor::*;
use smartcore::svm::svr::*;
use smartcore::linalg::svd::*; use smartcore::linalg::evd::*; use smartcore::linalg::qr::*; use smartcore::linalg::lu::*; use smartcore::linalg::cholesky::*;
use smartcore::linalg::stats::*;
use std::sync::mpsc; use std::time::Duration;
fn lcg(s: &mut u64) -> f64 { *s = s.wrapping_mul(6364136223846793005).wrapping_add(1442695040888963407); ((*s >> 11) as f64) / ((1u64 << 53) as f64) }
fn with_timeout<T: Send + 'static, F: FnOnce() -> T + Send + 'static>(f: F, secs: u64) -> Result<T, String> {
    let (tx, rx) = mpsc::channel();
    std::thread::spawn(move || { let r = std::panic::catch_unwind(std::panic::AssertUnwindSafe(f)); let _ = tx.send(r); });
    match rx.recv_timeout(Duration::from_secs(secs)) { Ok(Ok(v)) => Ok(v), Ok(Err(e)) => Err(format!("panic: {}", e.downcast_ref::<String>().cloned().or_else(|| e.downcast_ref::<&str>().map(|s| s.to_string())).unwrap_or_default())), Err(_) => Err("TIMEOUT".into()) }
}
fn run_all<M: Matrix<f64> + Send + 'static>(name: &str, mk: fn(usize, usize, &[f64]) -> M, mkv: fn(&[f64]) -> M::RowVector, tv: fn(&M::RowVector) -> Vec<f64>, n: usize, p: usize, xv: Vec<f64>, y: Vec<f64>, yc: Vec<f64>) -> Vec<(String, Result<Vec<f64>, String>)> where M::RowVector: Send + 'static {
    let mut out = vec![];
    macro_rules! t { ($label:expr, $body:expr) => {{ let xv2 = xv.clone(); let y2 = y.clone(); let yc2 = yc.clone(); let r = with_timeout(move || { let x = mk(n, p, &xv2); let y = mkv(&y2); let yc = mkv(&yc2); let _ = (&x, &y, &yc); let f: Box<dyn Fn(&M, &M::RowVector, &M::RowVector) -> Vec<f64>> = Box::new($body); f(&x, &y, &yc) }, 20); out.push((format!("{}", $label), r)); }}; }
    t!("lasso", |x, y, _| tv(&Lasso::fit(x, y, LassoParameters::default().with_alpha(0.1)).unwrap().predict(x).unwrap()));
    t!("enet", |x, y, _| tv(&ElasticNet::fit(x, y, ElasticNetParameters::default().with_alpha(0.1)).unwrap().predict(x).unwrap()));
    t!("ridge", |x, y, _| tv(&RidgeRegression::fit(x, y, Default::default()).unwrap().predict(x).unwrap()));
    t!("linreg", |x, y, _| tv(&LinearRegression::fit(x, y, Default::default()).unwrap().predict(x).unwrap()));
    t!("logreg", |x, _, yc| tv(&LogisticRegression::fit(x, yc, Default::default()).unwrap().predict(x).unwrap()));
    t!("pca", |x, _, _| { let m = PCA::fit(x, PCAParameters::default().with_n_components(2)).unwrap(); let t = m.transform(x).unwrap(); let (a,b) = t.shape(); (0..a).flat_map(|i| (0..b).map(move |j| (i,j))).map(|(i,j)| t.get(i,j).abs()).collect() });
    t!("gnb", |x, _, yc| tv(&GaussianNB::fit(x, yc, Default::default()).unwrap().predict(x).unwrap()));
    t!("knnreg", |x, y, _| tv(&KNNRegressor::fit(x, y, Default::default()).unwrap().predict(x).unwrap()));
    t!("treereg", |x, y, _| tv(&DecisionTreeRegressor::fit(x, y, Default::default()).unwrap().predict(x).unwrap()));
    t!("svr", |x, y, _| tv(&SVR::fit(x, y, SVRParameters::default().with_eps(0.1).with_c(1.0)).unwrap().predict(x).unwrap()));
    t!("svd.s", |x, _, _| x.svd().unwrap().s);
    t!("qr.R", |x, _, _| { let r = x.qr().unwrap().R(); let (a,b) = r.shape(); (0..a).flat_map(|i| (0..b).map(move |j| (i,j))).map(|(i,j)| r.get(i,j)).collect() });
    t!("evd(cov)", |x, _, _| { let c = x.transpose().matmul(x); c.evd(true).unwrap().d });
    t!("lu inv", |x, _, _| { let c = x.transpose().matmul(x); let r = c.lu().unwrap().inverse().unwrap(); let (a,b) = r.shape(); (0..a).flat_map(|i| (0..b).map(move |j| (i,j))).map(|(i,j)| r.get(i,j)).collect() });
    t!("chol", |x, _, _| { let c = x.transpose().matmul(x); let r = c.cholesky().unwrap().L(); let (a,b) = r.shape(); (0..a).flat_map(|i| (0..b).map(move |j| (i,j))).map(|(i,j)| r.get(i,j)).collect() });
    t!("mean/var/std", |x, _, _| { let mut v = x.mean(0); v.extend(x.var(0)); v.extend(x.std(1)); v });
    t!("cov", |x, _, _| { let r = x.cov(); let (a,b) = r.shape(); (0..a).flat_map(|i| (0..b).map(move |j| (i,j))).map(|(i,j)| r.get(i,j)).collect() });
    t!("reshape/flatten of transpose", |x, _, _| { let t = x.transpose(); let mut v = tv(&t.clone().to_row_vector()); let r = t.reshape(1, n*p); v.extend((0..n*p).map(|j| r.get(0,j))); v });
    let _ = name;
    out
}
fn main() {
    std::panic::set_hook(Box::new(|_| {}));
    let mut s = 3u64; let n = 25; let p = 3;
    let xv: Vec<f64> = (0..n*p).map(|_| lcg(&mut s)*4.0-2.0).collect();
    let y: Vec<f64> = (0..n).map(|i| xv[i*p]*1.5 - xv[i*p+1] + 0.3*(lcg(&mut s)-0.5)).collect();
    let yc: Vec<f64> = (0..n).map(|i| if xv[i*p] + 0.3*(lcg(&mut s)-0.5) > 0.0 { 4.0 } else { -1.0 }).collect();
    let a = run_all::<DenseMatrix<f64>>("dense", |n,p,v| DenseMatrix::from_array(n,p,v), |v| v.to_vec(), |v| v.clone(), n, p, xv.clone(), y.clone(), yc.clone());
    let b = run_all::<ndarray::Array2<f64>>("ndarray", |n,p,v| ndarray::Array2::from_shape_vec((n,p), v.to_vec()).unwrap(), |v| ndarray::Array1::from_vec(v.to_vec()), |v| v.to_vec(), n, p, xv.clone(), y.clone(), yc.clone());
    let c = run_all::<nalgebra::DMatrix<f64>>("nalgebra", |n,p,v| nalgebra::DMatrix::from_row_slice(n,p,v), |v| nalgebra::RowDVector::from_vec(v.to_vec()), |v| v.iter().cloned().collect(), n, p, xv.clone(), y.clone(), yc.clone());
    for i in 0..a.len() {
        let cmp = |u: &Result<Vec<f64>, String>, v: &Result<Vec<f64>, String>| match (u, v) { (Ok(u), Ok(v)) => { if u.len() != v.len() { format!("LEN {} vs {}", u.len(), v.len()) } else { let sc = u.iter().fold(1e-300f64, |a,b| a.max(b.abs())); let d = u.iter().zip(v.iter()).fold(0f64, |a,(x,y)| a.max((x-y).abs())); if d <= 1e-6*sc { "same".into() } else { format!("DIFF {:e}", d/sc) } } }, (Ok(_), Err(e)) => format!("ERR {}", e), (Err(e), _) => format!("dense ERR {}", e) };
        println!("{:30} ndarray: {:40} nalgebra: {}", a[i].0, cmp(&a[i].1, &b[i].1), cmp(&a[i].1, &c[i].1));
    }
}
