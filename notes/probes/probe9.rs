#![allow(non_snake_case)]
use smartcore::linalg::naive::dense_matrix::*;
use smartcore::tree::decision_tree_regressor::*;
use smartcore::tree::decision_tree_classifier::*;
use smartcore::svm::svr::*;
use smartcore::svm::*;
use smartcore::decomposition::pca::*;
use smartcore::decomposition::svd::*;
use smartcore::math::distance::*;
use smartcore::naive_bayes::multinomial::*;
use smartcore::naive_bayes::categorical::*;
use smartcore::naive_bayes::gaussian::*;
use serde_json::Value;
fn lcg(s: &mut u64) -> f64 {
    *s = s.wrapping_mul(6364136223846793005).wrapping_add(1442695040888963407);
    ((*s >> 11) as f64) / ((1u64 << 53) as f64)
}
fn sse(v: &[f64]) -> f64 { if v.is_empty() { return 0.0; } let m = v.iter().sum::<f64>() / v.len() as f64; v.iter().map(|x| (x-m)*(x-m)).sum() }
fn main() {
    let mut s = 31u64;
    // ---- regression tree greedy optimality at every internal node
    let mut bad = 0; let mut checked = 0;
    for trial in 0..300 {
        let n = 2 + (lcg(&mut s) * 40.0) as usize;
        let p = 1 + (lcg(&mut s) * 3.0) as usize;
        let integer = trial % 2 == 0;
        let xv: Vec<f64> = (0..n*p).map(|_| if integer { (lcg(&mut s)*5.0).floor() } else { lcg(&mut s) }).collect();
        let x = DenseMatrix::from_array(n, p, &xv);
        let y: Vec<f64> = (0..n).map(|_| (lcg(&mut s)*10.0).floor()).collect();
        let msl = 1 + (lcg(&mut s)*3.0) as usize;
        let params = DecisionTreeRegressorParameters { max_depth: None, min_samples_leaf: msl, min_samples_split: 2 };
        let t = DecisionTreeRegressor::fit(&x, &y, params).unwrap();
        let j: Value = serde_json::to_value(&t).unwrap();
        let nodes = j["nodes"].as_array().unwrap().clone();
        // rows per node
        let mut rows_at: Vec<Vec<usize>> = vec![vec![]; nodes.len()];
        for i in 0..n { let mut id = 0; loop { rows_at[id].push(i); let nd = &nodes[id]; if nd["true_child"].is_null() { break; } let f = nd["split_feature"].as_u64().unwrap() as usize; let v = nd["split_value"].as_f64().unwrap(); id = if x.get(i,f) <= v { nd["true_child"].as_u64().unwrap() as usize } else { nd["false_child"].as_u64().unwrap() as usize }; } }
        for (id, nd) in nodes.iter().enumerate() {
            if nd["true_child"].is_null() { continue; }
            let rows = &rows_at[id];
            let ys: Vec<f64> = rows.iter().map(|i| y[*i]).collect();
            let parent = sse(&ys);
            let f = nd["split_feature"].as_u64().unwrap() as usize; let v = nd["split_value"].as_f64().unwrap();
            let l: Vec<f64> = rows.iter().filter(|i| x.get(**i,f) <= v).map(|i| y[*i]).collect();
            let r: Vec<f64> = rows.iter().filter(|i| x.get(**i,f) > v).map(|i| y[*i]).collect();
            let chosen = parent - sse(&l) - sse(&r);
            let mut best = f64::NEG_INFINITY;
            for ff in 0..p { let mut vals: Vec<f64> = rows.iter().map(|i| x.get(*i,ff)).collect(); vals.sort_by(|a,b| a.partial_cmp(b).unwrap()); vals.dedup(); for w in vals.windows(2) { let th = (w[0]+w[1])/2.0; let l: Vec<f64> = rows.iter().filter(|i| x.get(**i,ff) <= th).map(|i| y[*i]).collect(); let r: Vec<f64> = rows.iter().filter(|i| x.get(**i,ff) > th).map(|i| y[*i]).collect(); if l.len() >= msl && r.len() >= msl { best = best.max(parent - sse(&l) - sse(&r)); } } }
            checked += 1;
            if chosen < best - 1e-9 * (1.0 + parent) { bad += 1; if bad < 6 { println!("REG greedy bad trial {} node {} chosen {} best {} rows {}", trial, id, chosen, best, rows.len()); } }
        }
    }
    println!("REG greedy nodes {} bad {}", checked, bad);

    // ---- classifier exact reproduction with distinct values, msl=1
    let mut bad = 0;
    for trial in 0..200 {
        let n = 4 + (lcg(&mut s) * 40.0) as usize;
        let p = 1 + (lcg(&mut s) * 3.0) as usize;
        let xv: Vec<f64> = (0..n*p).map(|_| lcg(&mut s)).collect();
        let x = DenseMatrix::from_array(n, p, &xv);
        let k = 2 + trial % 4;
        let mut y: Vec<f64> = (0..n).map(|_| (lcg(&mut s)*k as f64).floor() * 3.0 - 4.0).collect(); y[0] = -4.0; y[1] = -1.0;
        let crit = [SplitCriterion::Gini, SplitCriterion::Entropy, SplitCriterion::ClassificationError][trial % 3].clone();
        let params = DecisionTreeClassifierParameters { criterion: crit, max_depth: None, min_samples_leaf: 1, min_samples_split: 1 };
        let t = DecisionTreeClassifier::fit(&x, &y, params).unwrap();
        let pr = t.predict(&x).unwrap();
        if pr != y { bad += 1; if bad < 5 { println!("CLS reproduce bad trial {} crit {} n {} p {} errors {}", trial, trial%3, n, p, pr.iter().zip(y.iter()).filter(|(a,b)| a!=b).count()); } }
    }
    println!("CLS reproduce bad {}", bad);

    // ---- SVR KKT
    let mut bad = 0;
    for trial in 0..60 {
        let n = 4 + (lcg(&mut s) * 30.0) as usize;
        let p = 1 + (lcg(&mut s) * 3.0) as usize;
        let xv: Vec<f64> = (0..n*p).map(|_| lcg(&mut s)*4.0-2.0).collect();
        let x = DenseMatrix::from_array(n, p, &xv);
        let y: Vec<f64> = (0..n).map(|i| x.get(i,0)*1.5 + (lcg(&mut s)-0.5)).collect();
        let c = [0.1, 1.0, 10.0, 100.0][trial % 4]; let eps = [0.0, 0.1, 0.5][trial % 3]; let tol = [1e-2, 1e-3, 1e-4][(trial/3) % 3];
        let m = if trial % 2 == 0 { serde_json::to_value(&SVR::fit(&x, &y, SVRParameters::default().with_c(c).with_eps(eps).with_tol(tol)).unwrap()).unwrap() } else { serde_json::to_value(&SVR::fit(&x, &y, SVRParameters::default().with_c(c).with_eps(eps).with_tol(tol).with_kernel(Kernels::rbf(0.5))).unwrap()).unwrap() };
        let w: Vec<f64> = m["w"].as_array().unwrap().iter().map(|v| v.as_f64().unwrap()).collect();
        let inst: Vec<Vec<f64>> = m["instances"].as_array().unwrap().iter().map(|c| c.as_array().unwrap().iter().map(|v| v.as_f64().unwrap()).collect()).collect();
        let b = m["b"].as_f64().unwrap();
        let kern = |a: &[f64], bb: &[f64]| if trial % 2 == 0 { a.iter().zip(bb).map(|(u,v)| u*v).sum::<f64>() } else { (-0.5 * a.iter().zip(bb).map(|(u,v)| (u-v)*(u-v)).sum::<f64>()).exp() };
        let mut worst = 0f64;
        for i in 0..n { let xi: Vec<f64> = (0..p).map(|j| x.get(i,j)).collect(); let f = b + w.iter().zip(inst.iter()).map(|(wi, sv)| wi * kern(&xi, sv)).sum::<f64>(); let r = y[i] - f; let wi = inst.iter().position(|sv| sv == &xi).map(|k| w[k]).unwrap_or(0.0);
            let viol = if wi == 0.0 { (r.abs() - eps).max(0.0) } else if wi.abs() < c * (1.0-1e-12) { (r.abs() - eps).abs() + if r * wi < 0.0 && r.abs() > tol { r.abs() } else { 0.0 } } else { (eps - r.abs()).max(0.0) + if r * wi < 0.0 && r.abs() > tol { r.abs() } else { 0.0 } };
            worst = worst.max(viol); }
        if worst > 2.0 * tol { bad += 1; if bad < 8 { println!("SVR KKT bad trial {} n {} c {} eps {} tol {} worst {}", trial, n, c, eps, tol, worst); } }
    }
    println!("SVR KKT bad {}", bad);

    // ---- PCA quick
    let mut bad = 0;
    for trial in 0..200 {
        let n = 2 + (lcg(&mut s) * 30.0) as usize; let p = 1 + (lcg(&mut s) * 6.0) as usize;
        let xv: Vec<f64> = (0..n*p).map(|i| lcg(&mut s) * [1.0, 10.0, 0.1][i % 3] + [100.0, -5.0, 0.0][i % 3]).collect();
        let x = DenseMatrix::from_array(n, p, &xv);
        let k = 1 + (lcg(&mut s) * p as f64) as usize; let k = k.min(p);
        let corr = trial % 2 == 1;
        let r = std::panic::catch_unwind(|| { let m = PCA::fit(&x, PCAParameters::default().with_n_components(k).with_use_correlation_matrix(corr)).unwrap(); let t = m.transform(&x).unwrap(); (m.components().clone(), t) });
        match r { Ok((c, t)) => {
            let mut ok = true; let mut why = String::new();
            let means = t.column_mean(); let sc = t.abs().max().max(1e-300);
            if means.iter().any(|m| m.abs() > 1e-8 * sc.max(1.0)) { ok = false; why = format!("means {:?}", means); }
            if !corr { let ctc = c.transpose().matmul(&c); if ctc.sub(&DenseMatrix::eye(k)).abs().max() > 1e-8 { ok = false; why = "components not orthonormal".into(); } }
            // decorrelated + ordered
            let mut cov = vec![vec![0f64; k]; k]; for a in 0..k { for b in 0..k { cov[a][b] = (0..n).map(|i| (t.get(i,a)-means[a])*(t.get(i,b)-means[b])).sum::<f64>() / n as f64; } }
            let mx = (0..k).map(|a| cov[a][a]).fold(0f64, f64::max).max(1e-300);
            for a in 0..k { for b in 0..k { if a != b && cov[a][b].abs() > 1e-7 * mx { ok = false; why = format!("cov[{}][{}]={}", a, b, cov[a][b]); } } }
            for a in 1..k { if cov[a][a] > cov[a-1][a-1] * (1.0+1e-9) + 1e-12*mx { ok = false; why = format!("variances not ordered {} {}", cov[a-1][a-1], cov[a][a]); } }
            if !ok { bad += 1; if bad < 8 { println!("PCA bad trial {} n {} p {} k {} corr {}: {}", trial, n, p, k, corr, why); } }
        }, Err(_) => { bad += 1; if bad < 8 { println!("PCA panic trial {} n {} p {} k {} corr {}", trial, n, p, k, corr); } } }
    }
    println!("PCA bad {}", bad);
    // ---- TSVD
    let mut bad = 0;
    for trial in 0..100 { let n = 2 + (lcg(&mut s) * 20.0) as usize; let p = 2 + (lcg(&mut s) * 6.0) as usize; let xv: Vec<f64> = (0..n*p).map(|_| lcg(&mut s)*2.0-1.0).collect(); let x = DenseMatrix::from_array(n, p, &xv); let k = 1 + (lcg(&mut s) * (p-1) as f64) as usize; let k = k.min(p-1);
        let r = std::panic::catch_unwind(|| { let m = SVD::fit(&x, SVDParameters::default().with_n_components(k)).unwrap(); m.components().clone() });
        match r { Ok(c) => { let ctc = c.transpose().matmul(&c); if ctc.sub(&DenseMatrix::eye(k)).abs().max() > 1e-8 { bad += 1; if bad < 5 { println!("TSVD bad trial {} n {} p {} k {}", trial, n, p, k); } } }, Err(_) => { bad += 1; if bad < 5 { println!("TSVD panic trial {} n {} p {} k {}", trial, n, p, k); } } } }
    println!("TSVD bad {}", bad);
    // ---- distances quick
    let a = vec![1.0, -2.0, 3.5]; let b = vec![0.5, 4.0, -1.0];
    println!("mink1 {} man {} mink2 {} euc {} ham {}", Distances::minkowski(1).distance(&a,&b), Distances::manhattan().distance(&a,&b), Distances::minkowski(2).distance(&a,&b), Distances::euclidian().distance(&a,&b), { let h: f64 = Distances::hamming().distance(&vec![1,2,3,4], &vec![1,0,3,0]); h });
    // ---- NB quick: multinomial feature_log_prob sums, labels non contiguous
    let x = DenseMatrix::from_2d_array(&[&[1., 2., 0.], &[0., 3., 1.], &[2., 0., 0.], &[1., 1., 4.], &[0., 0., 2.]]);
    let y = vec![7., -3., 7., 12., -3.];
    let m = MultinomialNB::fit(&x, &y, MultinomialNBParameters::default().with_alpha(0.5)).unwrap();
    println!("MNB classes {:?} count {:?} sums {:?}", m.classes(), m.class_count(), m.feature_log_prob().iter().map(|r| r.iter().map(|v: &f64| v.exp()).sum::<f64>()).collect::<Vec<_>>());
    let g = GaussianNB::fit(&x, &y, Default::default()).unwrap();
    println!("GNB classes {:?} priors {:?} theta {:?}", g.classes(), g.class_priors(), g.theta());
    let yc = vec![0., 2., 0., 3., 2.];
    let c = CategoricalNB::fit(&x, &yc, Default::default()).unwrap();
    println!("CNB classes {:?} count {:?} pred {:?}", c.classes(), c.class_count(), c.predict(&x).unwrap());
}
