#![allow(non_snake_case)]
use smartcore::linalg::naive::dense_matrix::*;
use smartcore::linalg::svd::*;
use smartcore::linalg::evd::*;
use std::panic::catch_unwind;
fn lcg(s: &mut u64) -> f64 {
    *s = s.wrapping_mul(6364136223846793005).wrapping_add(1442695040888963407);
    ((*s >> 11) as f64) / ((1u64 << 53) as f64)
}
fn randm(s: &mut u64, m: usize, n: usize) -> DenseMatrix<f64> {
    let v: Vec<f64> = (0..m * n).map(|_| lcg(s) * 2.0 - 1.0).collect();
    DenseMatrix::from_array(m, n, &v)
}
fn main() {
    let mut s = 5u64;
    let mut stats = std::collections::BTreeMap::new();
    for trial in 0..2000 {
        let m = 1 + (lcg(&mut s) * 12.0) as usize;
        let n = 1 + (lcg(&mut s) * 12.0) as usize;
        let mut a = randm(&mut s, m, n);
        let scale = [1.0, 1e-12, 1e12, 1e-3][trial % 4];
        a.mul_scalar_mut(scale);
        let aa = a.clone();
        let r = catch_unwind(move || {
            let svd = aa.svd().unwrap();
            let back = svd.U.matmul(&svd.S()).matmul(&svd.V.transpose());
            back.sub(&aa).norm2() / aa.norm2()
        });
        let shape = if m > n { "tall" } else if m == n { "square" } else { "wide" };
        let key = (shape, format!("{:e}", scale));
        let e = stats.entry(key).or_insert((0, 0, 0, 0f64));
        e.0 += 1;
        match r {
            Ok(err) => { if err > 1e-10 { e.1 += 1; } if err > e.3 { e.3 = err; } }
            Err(_) => e.2 += 1,
        }
    }
    for (k, v) in stats { println!("{:?}: total {} bad {} panics {} worst {:e}", k, v.0, v.1, v.2, v.3); }
    // EVD general panic location
    let a = randm(&mut s, 6, 6);
    std::env::set_var("RUST_BACKTRACE", "1");
    let _ = catch_unwind(move || { for _ in 0..1 { let _ = a.evd(false); } });
}
