use smartcore::linalg::naive::dense_matrix::*;
use smartcore::linalg::cholesky::*;
fn main() {
    let a = DenseMatrix::from_2d_array(&[&[0.9, 0.4, 0.7], &[0.4, 0.5, 0.3], &[0.7, 0.3, 0.8]]);
    let c = a.cholesky().unwrap();
    let l = c.L();
    for i in 0..3 { for j in 0..3 { let v: f64 = l.get(i,j); print!("{:?}/{:x} ", v, v.to_bits()); } println!(); }
    // mantissa/exponent like Prim2SF
    for i in 0..3 { for j in 0..=i { let v: f64 = l.get(i,j); let b = v.to_bits(); let e = ((b >> 52) & 0x7ff) as i64; let m = (b & ((1u64<<52)-1)) | (1u64<<52); print!("({}, {}, {}) ", b>>63, m, e - 1075); } println!(); }
}
