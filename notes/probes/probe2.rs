#![allow(non_snake_case)]
use smartcore::algorithm::neighbour::cover_tree::CoverTree;
use smartcore::algorithm::neighbour::linear_search::LinearKNNSearch;
use smartcore::linalg::evd::*;
use smartcore::linalg::lu::*;
use smartcore::linalg::naive::dense_matrix::*;
use smartcore::linalg::svd::*;
use smartcore::math::distance::*;
use smartcore::metrics::*;
use std::panic::catch_unwind;

fn lcg(s: &mut u64) -> f64 {
    *s = s.wrapping_mul(6364136223846793005).wrapping_add(1442695040888963407);
    ((*s >> 11) as f64) / ((1u64 << 53) as f64)
}
fn randm(s: &mut u64, m: usize, n: usize) -> DenseMatrix<f64> {
    let v: Vec<f64> = (0..m * n).map(|_| lcg(s) * 2.0 - 1.0).collect();
    DenseMatrix::from_array(m, n, &v)
}
fn pmsg(e: Box<dyn std::any::Any + Send>) -> String {
    e.downcast_ref::<String>().cloned().or_else(|| e.downcast_ref::<&str>().map(|s| s.to_string())).unwrap_or_default()
}

fn main() {
    std::panic::set_hook(Box::new(|_| {}));
    let mut s = 42u64;
    // ---- kNN exactness
    let mut bad = 0;
    let mut panics = 0;
    let mut total = 0;
    for trial in 0..400 {
        let n = 1 + (lcg(&mut s) * 40.0) as usize;
        let d = 1 + (lcg(&mut s) * 3.0) as usize;
        let lattice = trial % 2 == 0;
        let data: Vec<Vec<f64>> = (0..n)
            .map(|_| (0..d).map(|_| if lattice { (lcg(&mut s) * 4.0).floor() } else { lcg(&mut s) }).collect())
            .collect();
        let q: Vec<f64> = (0..d).map(|_| if lattice { (lcg(&mut s) * 4.0).floor() } else { lcg(&mut s) }).collect();
        let k = 1 + (lcg(&mut s) * n as f64) as usize;
        let k = k.min(n);
        let dd = data.clone();
        let qq = q.clone();
        let r = catch_unwind(move || {
            let t = CoverTree::new(dd.clone(), Distances::euclidian()).unwrap();
            let l = LinearKNNSearch::new(dd.clone(), Distances::euclidian()).unwrap();
            let mut a: Vec<f64> = t.find(&qq, k).unwrap().iter().map(|x| x.1).collect();
            let mut b: Vec<f64> = l.find(&qq, k).unwrap().iter().map(|x| x.1).collect();
            let mut c: Vec<f64> = dd.iter().map(|p| Distances::euclidian().distance(p, &qq)).collect();
            a.sort_by(|x, y| x.partial_cmp(y).unwrap());
            b.sort_by(|x, y| x.partial_cmp(y).unwrap());
            c.sort_by(|x, y| x.partial_cmp(y).unwrap());
            c.truncate(k);
            (a == c, b == c, a.len(), b.len())
        });
        total += 1;
        match r {
            Ok((ca, cb, la, lb)) => {
                if !ca || !cb {
                    bad += 1;
                    if bad < 6 {
                        println!("kNN mismatch n={} d={} k={} lattice={} cover_ok={} lin_ok={} lens {} {}", n, d, k, lattice, ca, cb, la, lb);
                    }
                }
            }
            Err(e) => {
                panics += 1;
                if panics < 4 {
                    println!("kNN panic n={} d={} k={} lattice={}: {}", n, d, k, lattice, pmsg(e));
                }
            }
        }
    }
    println!("kNN: total {} bad {} panics {}", total, bad, panics);

    // ---- symmetric EVD
    let mut worst = 0f64;
    let mut evd_pan = 0;
    for trial in 0..300 {
        let n = 1 + (lcg(&mut s) * 25.0) as usize;
        let b = randm(&mut s, n, n);
        let mut a = b.matmul(&b.transpose());
        if trial % 3 == 0 {
            a = b.add(&b.transpose());
        }
        let scale = [1.0, 1e-12, 1e12, 1e-6][trial % 4];
        a.mul_scalar_mut(scale);
        let aa = a.clone();
        let r = catch_unwind(move || {
            let e = aa.evd(true).unwrap();
            let mut dm = DenseMatrix::zeros(n, n);
            for i in 0..n {
                dm.set(i, i, e.d[i]);
            }
            let res = aa.matmul(&e.V).sub(&e.V.matmul(&dm)).norm2() / aa.norm2().max(1e-300);
            let orth = e.V.transpose().matmul(&e.V).sub(&DenseMatrix::eye(n)).norm2();
            let sorted = e.d.windows(2).all(|w| w[0] >= w[1]);
            let ezero = e.e.iter().all(|x| *x == 0.0);
            (res, orth, sorted, ezero)
        });
        match r {
            Ok((res, orth, sorted, ezero)) => {
                let w = res.max(orth);
                if w > worst {
                    worst = w;
                }
                if w > 1e-10 || !sorted || !ezero {
                    println!("EVD sym bad n={} scale={} res={:e} orth={:e} sorted={} ezero={}", n, scale, res, orth, sorted, ezero);
                }
            }
            Err(e) => {
                evd_pan += 1;
                if evd_pan < 5 {
                    println!("EVD sym panic n={} scale {}: {}", n, scale, pmsg(e));
                }
            }
        }
    }
    println!("EVD sym worst {:e} panics {}", worst, evd_pan);

    // ---- general EVD: trace checks + real eigvec
    let mut gbad = 0;
    let mut gpan = 0;
    for trial in 0..300 {
        let n = 1 + (lcg(&mut s) * 20.0) as usize;
        let mut a = randm(&mut s, n, n);
        if trial % 5 == 0 {
            // badly balanced
            for i in 0..n {
                let f = (2.0f64).powi(((lcg(&mut s) * 20.0) as i32) - 10);
                for j in 0..n {
                    a.set(i, j, a.get(i, j) * f);
                    a.set(j, i, a.get(j, i) / f);
                }
            }
        }
        let aa = a.clone();
        let r = catch_unwind(move || {
            let e = aa.evd(false).unwrap();
            let tr: f64 = (0..n).map(|i| aa.get(i, i)).sum();
            let a2 = aa.matmul(&aa);
            let tr2: f64 = (0..n).map(|i| a2.get(i, i)).sum();
            let sd: f64 = e.d.iter().sum();
            let sd2: f64 = e.d.iter().zip(e.e.iter()).map(|(d, e)| d * d - e * e).sum();
            let nrm = aa.norm2();
            let mut worst = ((tr - sd).abs() / nrm).max((tr2 - sd2).abs() / (nrm * nrm));
            let mut vzero = false;
            for j in 0..n {
                if e.e[j] == 0.0 {
                    let v = e.V.slice(0..n, j..j + 1);
                    let vn = v.norm2();
                    if vn == 0.0 || !vn.is_finite() {
                        vzero = true;
                        continue;
                    }
                    let r = aa.matmul(&v).sub(&v.mul_scalar(e.d[j])).norm2() / (nrm * vn);
                    worst = worst.max(r);
                }
            }
            (worst, vzero)
        });
        match r {
            Ok((w, vz)) => {
                if w > 1e-8 || vz || !w.is_finite() {
                    gbad += 1;
                    if gbad < 8 {
                        println!("EVD gen bad n={} trial={} worst={:e} vzero={}", n, trial, w, vz);
                    }
                }
            }
            Err(e) => {
                gpan += 1;
                if gpan < 5 {
                    println!("EVD gen panic n={}: {}", n, pmsg(e));
                }
            }
        }
    }
    println!("EVD gen bad {} panics {}", gbad, gpan);

    // ---- SVD shapes incl. wide, scaled; LU
    let mut sbad = 0;
    let mut span = 0;
    for trial in 0..400 {
        let m = 1 + (lcg(&mut s) * 12.0) as usize;
        let n = 1 + (lcg(&mut s) * 12.0) as usize;
        let mut a = randm(&mut s, m, n);
        let scale = [1.0, 1e-12, 1e12, 1e-3][trial % 4];
        a.mul_scalar_mut(scale);
        let aa = a.clone();
        let r = catch_unwind(move || {
            let svd = aa.svd().unwrap();
            let back = svd.U.matmul(&svd.S()).matmul(&svd.V.transpose());
            let err = back.sub(&aa).norm2() / aa.norm2();
            let vtv = svd.V.transpose().matmul(&svd.V).sub(&DenseMatrix::eye(n)).norm2();
            let sorted = svd.s.windows(2).all(|w| w[0] >= w[1]) && svd.s.iter().all(|x| *x >= 0.0);
            (err, vtv, sorted)
        });
        match r {
            Ok((err, vtv, sorted)) => {
                if err > 1e-10 || vtv > 1e-10 || !sorted {
                    sbad += 1;
                    if sbad < 8 {
                        println!("SVD bad {}x{} scale {} err={:e} vtv={:e} sorted={}", m, n, scale, err, vtv, sorted);
                    }
                }
            }
            Err(e) => {
                span += 1;
                if span < 5 {
                    println!("SVD panic {}x{}: {}", m, n, pmsg(e));
                }
            }
        }
    }
    println!("SVD bad {} panics {}", sbad, span);

    let mut lbad = 0;
    for trial in 0..300 {
        let n = 1 + (lcg(&mut s) * 15.0) as usize;
        let mut a = randm(&mut s, n, n);
        if trial % 3 == 0 {
            for i in 0..n.min(3) {
                a.set(i, i, 0.0);
            }
        }
        let lu = a.lu().unwrap();
        let err = lu.pivot().matmul(&a).sub(&lu.L().matmul(&lu.U())).norm2() / a.norm2();
        if err > 1e-12 {
            lbad += 1;
            if lbad < 5 {
                println!("LU bad n={} err={:e}", n, err);
            }
        }
    }
    println!("LU bad {}", lbad);

    // ---- AUC with ties
    let mut abad = 0;
    for _ in 0..300 {
        let n = 2 + (lcg(&mut s) * 40.0) as usize;
        let yt: Vec<f64> = (0..n).map(|_| if lcg(&mut s) < 0.5 { 1.0 } else { 0.0 }).collect();
        let yp: Vec<f64> = (0..n).map(|_| (lcg(&mut s) * 5.0).floor() / 5.0).collect();
        let pos = yt.iter().filter(|x| **x == 1.0).count();
        if pos == 0 || pos == n {
            continue;
        }
        let mut num = 0.0;
        for i in 0..n {
            for j in 0..n {
                if yt[i] == 1.0 && yt[j] == 0.0 {
                    if yp[i] > yp[j] {
                        num += 1.0;
                    } else if yp[i] == yp[j] {
                        num += 0.5;
                    }
                }
            }
        }
        let want = num / (pos * (n - pos)) as f64;
        let yt2 = yt.clone();
        let yp2 = yp.clone();
        let got = catch_unwind(move || roc_auc_score(&yt2, &yp2));
        match got {
            Ok(g) => {
                if (g - want).abs() > 1e-12 {
                    abad += 1;
                    if abad < 5 {
                        println!("AUC bad n={} got {} want {}", n, g, want);
                    }
                }
            }
            Err(e) => {
                abad += 1;
                if abad < 5 {
                    println!("AUC panic n={} {}", n, pmsg(e));
                }
            }
        }
    }
    println!("AUC bad {}", abad);
}
