use smartcore::linalg::naive::dense_matrix::*;
use smartcore::cluster::dbscan::*;
use smartcore::algorithm::neighbour::KNNAlgorithmName;
fn main() {
    for (xs, ms) in [(vec![0.,1.,2.,10.,11.,12.,30.], 2usize), (vec![0.,1.,2.,3.,10.,4.,20.,21.], 3), (vec![5.,0.,1.,2.,3.,4.], 3)] {
        let x = DenseMatrix::from_array(xs.len(), 1, &xs);
        for alg in [KNNAlgorithmName::LinearSearch, KNNAlgorithmName::CoverTree] {
            let m = DBSCAN::fit(&x, DBSCANParameters::default().with_eps(1.0).with_min_samples(ms).with_algorithm(alg.clone())).unwrap();
            let j = serde_json::to_value(&m).unwrap();
            println!("{:?} {:?} {}", alg, j["cluster_labels"], j["num_classes"]);
        }
    }
}
