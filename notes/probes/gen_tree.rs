use smartcore::linalg::naive::dense_matrix::*;
use smartcore::tree::decision_tree_regressor::*;
use serde_json::Value;
fn lcg(s: &mut u64) -> f64 { *s = s.wrapping_mul(6364136223846793005).wrapping_add(1442695040888963407); ((*s >> 11) as f64) / ((1u64 << 53) as f64) }
fn hexf(x: f64) -> String {
    if x == 0.0 { return if x.is_sign_negative() { "(-0)".into() } else { "0".into() }; }
    if x.is_nan() { return "nan".into(); }
    if x.is_infinite() { return if x > 0.0 { "infinity".into() } else { "neg_infinity".into() }; }
    let b = x.to_bits(); let sign = b >> 63; let e = ((b >> 52) & 0x7ff) as i64; let m = b & ((1u64 << 52) - 1);
    let s = if e == 0 { format!("0x0.{:013x}p-1022", m) } else { format!("0x1.{:013x}p{}", m, e - 1023) };
    if sign == 1 { format!("(-{})", s) } else { s }
}
fn main() {
    let ncases: usize = std::env::args().nth(1).map(|s| s.parse().unwrap()).unwrap_or(50);
    let mut s = 2024u64;
    let mut coq = String::new();
    coq.push_str("Require Import TreeReg.\nFrom Coq Require Import List ZArith Floats.\nImport ListNotations.\nOpen Scope float_scope.\n");
    let mut expect = vec![];
    for c in 0..ncases {
        let n = 2 + (lcg(&mut s) * 30.0) as usize; let p = 1 + (lcg(&mut s) * 3.0) as usize;
        let kind = c % 3; // 0 lattice x (ties), 1 continuous, 2 dyadic quarter steps
        let xv: Vec<f64> = (0..n*p).map(|_| match kind { 0 => (lcg(&mut s)*5.0).floor(), 1 => lcg(&mut s), _ => (lcg(&mut s)*40.0).floor()/4.0 - 3.0 }).collect();
        let x = DenseMatrix::from_array(n, p, &xv);
        let y: Vec<f64> = (0..n).map(|_| if kind == 1 { lcg(&mut s) * 10.0 } else { (lcg(&mut s)*10.0).floor() }).collect();
        let msl = 1 + (lcg(&mut s)*3.0) as usize; let mss = (lcg(&mut s)*6.0) as usize;
        let md: Option<u16> = if c % 4 == 0 { Some(1 + (lcg(&mut s)*5.0) as u16) } else { None };
        let t = DecisionTreeRegressor::fit(&x, &y, DecisionTreeRegressorParameters { max_depth: md, min_samples_leaf: msl, min_samples_split: mss }).unwrap();
        let j: Value = serde_json::to_value(&t).unwrap();
        let nodes: Vec<String> = j["nodes"].as_array().unwrap().iter().map(|nd| format!("{} {} {} {} {}", hexf(nd["output"].as_f64().unwrap()), nd["split_feature"], nd["split_value"].as_f64().map(hexf).unwrap_or("nan".into()), nd["true_child"].as_i64().unwrap_or(-1), nd["false_child"].as_i64().unwrap_or(-1))).collect();
        expect.push(nodes.join(" ; "));
        let rows: Vec<String> = (0..n).map(|i| format!("[{}]", (0..p).map(|jx| hexf(x.get(i,jx))).collect::<Vec<_>>().join(";"))).collect();
        coq.push_str(&format!("Definition c{} := show (fit [{}] [{}] {} {} {} {}).\n", c, rows.join(";"), y.iter().map(|v| hexf(*v)).collect::<Vec<_>>().join(";"), p, md.map(|d| d as usize).unwrap_or(65535), msl, mss));
    }
    coq.push_str(&format!("Eval vm_compute in [{}].\n", (0..ncases).map(|c| format!("c{}", c)).collect::<Vec<_>>().join(";")));
    std::fs::write("/tmp/scratch/coq/tree_cases.v", coq).unwrap();
    std::fs::write("/tmp/scratch/coq/tree_expect.txt", expect.join("\n")).unwrap();
}
