From Coq Require Import ZArith List.
From Flocq Require Import Core IEEE754.BinarySingleNaN IEEE754.Binary IEEE754.Bits.
Import ListNotations.
Definition f32_of_bits (z:Z) : binary32 := b32_of_bits z.
Definition bits (x:binary32) : Z := bits_of_b32 x.
Definition add32 := b32_plus mode_NE.
Definition mul32 := b32_mult mode_NE.
Definition div32 := b32_div mode_NE.
Definition sqrt32 := b32_sqrt mode_NE.
(* 1.5f32 = 0x3fc00000, 0.1f32 = 0x3dcccccd *)
Eval vm_compute in bits (mul32 (f32_of_bits 0x3fc00000) (f32_of_bits 0x3dcccccd)).
Eval vm_compute in bits (sqrt32 (f32_of_bits 0x3dcccccd)).
Fixpoint iter (n:nat) (x:binary32) := match n with 0 => x | S k => iter k (add32 (mul32 x (f32_of_bits 0x3f7fffff)) (f32_of_bits 0x3dcccccd)) end.
Time Eval vm_compute in bits (iter 20000 (f32_of_bits 0x3fc00000)).
(* n as f32 * test_size -> usize *)
