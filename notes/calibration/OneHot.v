From Coq Require Import List Arith Lia.
Import ListNotations.

(* transliteration of find_new_idxs (after the fix: a := v + 1) *)
Fixpoint scan_repeats (a : nat) (l : list nat) : list nat :=
  match l with [] => [] | v :: t => (v + 1 - a) :: scan_repeats (v + 1) t end.
Fixpoint scan_offsets (a : nat) (l : list nat) : list nat :=
  match l with [] => [] | v :: t => (a + v - 1) :: scan_offsets (a + v - 1) t end.
Fixpoint zip {A B} (l1 : list A) (l2 : list B) : list (A * B) :=
  match l1, l2 with a :: t1, b :: t2 => (a, b) :: zip t1 t2 | _, _ => [] end.
Definition find_new_idxs (num_params : nat) (cat_sizes cat_idxs : list nat) : list nat :=
  let cat_idx := cat_idxs ++ [num_params] in
  let repeats := scan_repeats 0 cat_idx in
  let offset := 0 :: scan_offsets 0 cat_sizes in
  let flat := flat_map (fun ro => repeat (snd ro) (fst ro)) (zip repeats offset) in
  map (fun io => fst io + snd io) (zip (seq 0 num_params) flat).

(* the buggy original, for the refuted form *)
Fixpoint scan_repeats_bug (a : nat) (l : list nat) : list nat :=
  match l with [] => [] | v :: t => (v + 1 - a) :: scan_repeats_bug v t end.
Definition find_new_idxs_bug (num_params : nat) (cat_sizes cat_idxs : list nat) : list nat :=
  let cat_idx := cat_idxs ++ [num_params] in
  let repeats := scan_repeats_bug 0 cat_idx in
  let offset := 0 :: scan_offsets 0 cat_sizes in
  let flat := flat_map (fun ro => repeat (snd ro) (fst ro)) (zip repeats offset) in
  map (fun io => fst io + snd io) (zip (seq 0 num_params) flat).

Eval vm_compute in find_new_idxs 4 [2;2] [0;1].
Eval vm_compute in find_new_idxs_bug 4 [2;2] [0;1].
Eval vm_compute in find_new_idxs 6 [3;2] [1;4].

(* spec: column j moves right by the extra width of the categorical columns before it *)
Fixpoint extra_before (j : nat) (cats : list (nat * nat)) : nat :=   (* (index, size) *)
  match cats with
  | [] => 0
  | (c, k) :: t => (if c <? j then k - 1 else 0) + extra_before j t
  end.

Fixpoint sorted_lt (lo : nat) (l : list nat) : Prop :=
  match l with [] => True | v :: t => lo <= v /\ sorted_lt (S v) t end.

Lemma nth_repeat_lt {A} (x d : A) : forall n j, j < n -> nth j (repeat x n) d = x.
Proof. induction n as [|n IH]; intros j Hj; [lia|]. destruct j; cbn; [reflexivity|apply IH; lia]. Qed.

(* generalised flat list: starting at column `a` with accumulated offset `o` *)
Definition flat_from (a o : nat) (idxs sizes : list nat) (p : nat) : list nat :=
  flat_map (fun ro => repeat (snd ro) (fst ro))
           (zip (scan_repeats a (idxs ++ [p])) (o :: scan_offsets o sizes)).

Lemma flat_from_nth : forall idxs sizes a o p j,
  length idxs = length sizes ->
  sorted_lt a idxs -> (forall c, In c idxs -> c < p) -> Forall (fun k => 1 <= k) sizes ->
  a <= p -> j < p + 1 - a ->
  nth j (flat_from a o idxs sizes p) 0 = o + extra_before (a + j) (zip idxs sizes).
Proof.
  induction idxs as [|v idxs IH]; intros sizes a o p j Hlen Hs Hlt Hk Hap Hj.
  - destruct sizes; [|discriminate]. unfold flat_from. cbn [app scan_repeats scan_offsets zip flat_map fst snd].
    rewrite app_nil_r. rewrite nth_repeat_lt by lia. cbn. lia.
  - destruct sizes as [|k sizes]; [discriminate|]. cbn [length] in Hlen.
    destruct Hs as [Hav Hs]. inversion Hk as [|? ? Hk1 Hk']; subst.
    assert (Hvp : v < p) by (apply Hlt; left; reflexivity).
    unfold flat_from. cbn [app scan_repeats scan_offsets zip flat_map fst snd].
    fold (flat_from (v + 1) (o + k - 1) idxs sizes p).
    destruct (Nat.lt_ge_cases j (v + 1 - a)) as [Hjl|Hjg].
    + rewrite app_nth1 by (rewrite repeat_length; lia).
      rewrite nth_repeat_lt by lia.
      cbn [extra_before zip].
      assert (E : extra_before (a + j) (zip idxs sizes) = 0).
      { clear - Hs Hjl Hav. revert sizes Hs. generalize dependent v. 
        induction idxs as [|w idxs IH2]; intros v Hjl Hav sizes Hs; [reflexivity|].
        destruct sizes; [reflexivity|]. cbn [zip extra_before]. destruct Hs as [Hw Hs].
        destruct (Nat.ltb_spec w (a + j)); [lia|].
        rewrite (IH2 w); try lia; try assumption. }
      rewrite E. destruct (Nat.ltb_spec v (a + j)); lia.
    + rewrite app_nth2 by (rewrite repeat_length; lia). rewrite repeat_length.
      replace (S v) with (v + 1) in Hs by lia.
      rewrite (IH sizes (v + 1) (o + k - 1) p (j - (v + 1 - a))); try lia; try assumption.
      * cbn [extra_before zip]. destruct (Nat.ltb_spec v (a + j)); [|lia].
        replace (v + 1 + (j - (v + 1 - a))) with (a + j) by lia. lia.
      * intros c Hc. apply Hlt. right; assumption.
Qed.
