From Coq Require Import Reals Lra.
From Coquelicot Require Import Coquelicot.
Open Scope R_scope.

(* d/dw ln(1+exp(w*x+b)) = x * sigmoid(w*x+b), with sigmoid t = 1/(1+exp(-t)) *)
Definition sigmoid (t : R) := 1 / (1 + exp (- t)).

Lemma d_softplus (x b w : R) :
  is_derive (fun w => ln (1 + exp (w * x + b))) w (x * sigmoid (w * x + b)).
Proof.
  auto_derive.
  - generalize (exp_pos (w * x + b)). lra.
  - unfold sigmoid. rewrite exp_Ropp.
    generalize (exp_pos (w * x + b)). intros H. field. split; lra.
Qed.
Print Assumptions d_softplus.
