From Coq Require Import List ZArith Reals Floats Lra Lia.
Import ListNotations.

(* scalar operations the models are generic in *)
Record Ops (T : Type) := {
  o0 : T; o1 : T;
  oadd : T -> T -> T; osub : T -> T -> T; omul : T -> T -> T; odiv : T -> T -> T;
  osqrt : T -> T; oabs : T -> T;
  oltb : T -> T -> bool; oeqb : T -> T -> bool
}.
Arguments o0 {T}. Arguments o1 {T}. Arguments oadd {T}. Arguments osub {T}. Arguments omul {T}.
Arguments odiv {T}. Arguments osqrt {T}. Arguments oabs {T}. Arguments oltb {T}. Arguments oeqb {T}.

Definition FOps : Ops float := {|
  o0 := 0%float; o1 := 1%float;
  oadd := PrimFloat.add; osub := PrimFloat.sub; omul := PrimFloat.mul; odiv := PrimFloat.div;
  osqrt := PrimFloat.sqrt; oabs := PrimFloat.abs;
  oltb := PrimFloat.ltb; oeqb := PrimFloat.eqb |}.

Definition Rltb (a b : R) : bool := if Rlt_dec a b then true else false.
Definition Reqb (a b : R) : bool := if Req_EM_T a b then true else false.
Definition ROps : Ops R := {|
  o0 := 0%R; o1 := 1%R;
  oadd := Rplus; osub := Rminus; omul := Rmult; odiv := Rdiv;
  osqrt := R_sqrt.sqrt; oabs := Rabs;
  oltb := Rltb; oeqb := Reqb |}.

Section Chol.
  Context {T : Type} (O : Ops T).
  Definition M := nat -> nat -> T.
  Definition upd (A : M) (i j : nat) (v : T) : M :=
    fun i' j' => if (Nat.eqb i i' && Nat.eqb j j')%bool then v else A i' j'.
  Fixpoint sumn (n : nat) (f : nat -> T) : T :=
    match n with 0 => O.(o0) | S k => O.(oadd) (sumn k f) (f k) end.

  (* inner k loop of cholesky_mut for row j: processes k = 0..cnt-1 *)
  Fixpoint chol_row (A : M) (j cnt : nat) (d : T) : M * T :=
    match cnt with
    | 0 => (A, d)
    | S c =>
      let '(A1, d1) := chol_row A j c d in
      let k := c in
      let s := sumn k (fun i => O.(omul) (A1 k i) (A1 j i)) in
      let s' := O.(odiv) (O.(osub) (A1 j k) s) (A1 k k) in
      (upd A1 j k s', O.(oadd) d1 (O.(omul) s' s'))
    end.
  Fixpoint chol_cols (A : M) (n cnt : nat) : option M :=
    match cnt with
    | 0 => Some A
    | S c =>
      match chol_cols A n c with
      | None => None
      | Some A1 =>
        let j := c in
        let '(A2, d) := chol_row A1 j j O.(o0) in
        let d' := O.(osub) (A2 j j) d in
        if O.(oltb) d' O.(o0) then None else Some (upd A2 j j (O.(osqrt) d'))
      end
    end.
  Definition cholesky (n : nat) (A : M) := chol_cols A n n.
  Definition to_list (n m : nat) (A : M) : list (list T) :=
    map (fun i => map (fun j => A i j) (seq 0 m)) (seq 0 n).
  Definition of_list (d : T) (l : list (list T)) : M := fun i j => nth j (nth i l []) d.
End Chol.

Open Scope float_scope.
Definition A3 := of_list 0 [[4;12;-16];[12;37;-43];[-16;-43;98]].
Eval vm_compute in option_map (to_list 3 3) (cholesky FOps 3 A3).
Definition A3b := of_list 0 [[0x1.cccccccccccccp-1;0x1.999999999999ap-2;0x1.6666666666666p-1];[0x1.999999999999ap-2;0.5;0x1.3333333333333p-2];[0x1.6666666666666p-1;0x1.3333333333333p-2;0x1.999999999999ap-1]].
Eval vm_compute in option_map (to_list 3 3) (cholesky FOps 3 A3b).
Eval vm_compute in option_map (fun A => map (map Prim2SF) (to_list 3 3 A)) (cholesky FOps 3 A3b).
