From Coq Require Import List Arith ZArith Floats Bool Lia.
Import ListNotations.
Open Scope float_scope.

(* prototype: DecisionTreeRegressor::fit with mtry = all features, on primitive floats *)
Record node := mkNode {
  output : float; split_feature : nat; split_value : option float; split_score : option float;
  true_child : option nat; false_child : option nat }.
Definition new_node (o : float) := mkNode o 0 None None None None.

Record visitor := mkVis { v_node : nat; v_samples : list nat; v_tco : float; v_fco : float; v_level : nat }.

Definition getf (l : list float) (i : nat) := nth i l 0.
Definition getx (x : list (list float)) (i j : nat) := nth j (nth i x []) 0.
Definition of_nat (n : nat) : float := of_uint63 (Uint63.of_Z (Z.of_nat n)).
Definition set_nth {A} (l : list A) (i : nat) (v : A) := firstn i l ++ v :: skipn (S i) l.

(* stable insertion argsort (placeholder for NR quick_argsort in this sketch) *)
Fixpoint insert_by (key : nat -> float) (i : nat) (l : list nat) : list nat :=
  match l with [] => [i] | h :: t => if PrimFloat.ltb (key i) (key h) then i :: l else h :: insert_by key i t end.
Definition argsort (col : list float) : list nat :=
  fold_left (fun acc i => insert_by (getf col) i acc) (seq 0 (length col)) [].

Section Fit.
  Variable x : list (list float).
  Variable y : list float.
  Variable p : nat.
  Variable order : list (list nat).
  Variable msl mss : nat.

  (* sweep state of find_best_split *)
  Record sweep := mkSweep { s_sum : float; s_cnt : nat; s_prev : option float;
                            s_nd : node; s_tco : float; s_fco : float }.

  Definition find_best_split (samples : list nat) (n : nat) (sum parent_gain : float) (j : nat)
             (nd : node) (tco fco : float) : node * float * float :=
    let step (st : sweep) (i : nat) : sweep :=
      let w := nth i samples 0%nat in
      if (0 <? w)%nat then
        let xi := getx x i j in
        let acc := mkSweep (st.(s_sum) + of_nat w * getf y i) (st.(s_cnt) + w) (Some xi)
                           st.(s_nd) st.(s_tco) st.(s_fco) in
        match st.(s_prev) with
        | None => acc
        | Some px =>
          if PrimFloat.eqb xi px then acc
          else
            let tc := st.(s_cnt) in let fc := (n - tc)%nat in
            if ((tc <? msl) || (fc <? msl))%nat then acc
            else
              let tm := st.(s_sum) / of_nat tc in
              let fm := (sum - st.(s_sum)) / of_nat fc in
              let gain := (of_nat tc * tm * tm + of_nat fc * fm * fm) - parent_gain in
              let better := match st.(s_nd).(split_score) with None => true | Some sc => PrimFloat.ltb sc gain end in
              if better then
                let nd' := mkNode st.(s_nd).(output) j (Some ((xi + px) / 2)) (Some gain)
                                  st.(s_nd).(true_child) st.(s_nd).(false_child) in
                mkSweep acc.(s_sum) acc.(s_cnt) acc.(s_prev) nd' tm fm
              else acc
        end
      else st in
    let r := fold_left step (nth j order []) (mkSweep 0 0 None nd tco fco) in
    (r.(s_nd), r.(s_tco), r.(s_fco)).

  Definition find_best_cutoff (nodes : list node) (v : visitor) : list node * visitor * bool :=
    let n := fold_left Nat.add v.(v_samples) 0%nat in
    if (n <? mss)%nat then (nodes, v, false)
    else
      let nd := nth v.(v_node) nodes (new_node 0) in
      let sum := nd.(output) * of_nat n in
      let pg := of_nat n * nd.(output) * nd.(output) in
      let '(nd', tco, fco) :=
        fold_left (fun '(nd, tco, fco) j => find_best_split v.(v_samples) n sum pg j nd tco fco)
                  (seq 0 p) (nd, v.(v_tco), v.(v_fco)) in
      (set_nth nodes v.(v_node) nd', mkVis v.(v_node) v.(v_samples) tco fco v.(v_level),
       match nd'.(split_score) with None => false | Some _ => true end).

  Definition split (nodes : list node) (depth : nat) (v : visitor) (queue : list visitor)
    : list node * nat * list visitor :=
    let nd := nth v.(v_node) nodes (new_node 0) in
    let thr := match nd.(split_value) with Some t => t | None => nan end in
    let goes_true i := (0 <? nth i v.(v_samples) 0)%nat && PrimFloat.leb (getx x i nd.(split_feature)) thr in
    let rows := seq 0 (length v.(v_samples)) in
    let true_samples := map (fun i => if goes_true i then nth i v.(v_samples) 0%nat else 0%nat) rows in
    let false_samples := map (fun i => if goes_true i then 0%nat else nth i v.(v_samples) 0%nat) rows in
    let tc := fold_left Nat.add true_samples 0%nat in
    let fc := fold_left Nat.add false_samples 0%nat in
    if ((tc <? msl) || (fc <? msl))%nat then
      (set_nth nodes v.(v_node) (mkNode nd.(output) 0 None None nd.(true_child) nd.(false_child)), depth, queue)
    else
      let ti := length nodes in let fi := S ti in
      let nodes1 := nodes ++ [new_node v.(v_tco); new_node v.(v_fco)] in
      let nodes2 := set_nth nodes1 v.(v_node)
                     (mkNode nd.(output) nd.(split_feature) nd.(split_value) nd.(split_score) (Some ti) (Some fi)) in
      let depth' := Nat.max depth (S v.(v_level)) in
      let '(nodes3, tv, tb) := find_best_cutoff nodes2 (mkVis ti true_samples 0 0 (S v.(v_level))) in
      let queue1 := if tb then queue ++ [tv] else queue in
      let '(nodes4, fv, fb) := find_best_cutoff nodes3 (mkVis fi false_samples 0 0 (S v.(v_level))) in
      let queue2 := if fb then queue1 ++ [fv] else queue1 in
      (nodes4, depth', queue2).

  Fixpoint grow (fuel : nat) (max_depth : nat) (nodes : list node) (depth : nat) (queue : list visitor)
    : option (list node) :=
    if (depth <? max_depth)%nat then
      match queue with
      | [] => Some nodes
      | v :: rest =>
        match fuel with
        | O => None
        | S f => let '(nodes', depth', queue') := split nodes depth v rest in grow f max_depth nodes' depth' queue'
        end
      end
    else Some nodes.
End Fit.

Definition fit (x : list (list float)) (y : list float) (p : nat) (max_depth msl mss : nat) : option (list node) :=
  let nrows := length x in
  let samples := repeat 1%nat nrows in
  let sum := fold_left (fun s i => s + of_nat 1 * getf y i) (seq 0 nrows) 0 in
  let root := new_node (sum / of_nat nrows) in
  let order := map (fun j => argsort (map (fun r => nth j r 0) x)) (seq 0 p) in
  let '(nodes, v, b) := find_best_cutoff x y p order msl mss [root] (mkVis 0 samples 0 0 1) in
  grow x y p order msl mss (2 * nrows + 2) max_depth nodes 0 (if b then [v] else []).

(* flatten for printing: output, feature, value (nan if none), true child, false child (-1 if none) *)
Definition show (ns : option (list node)) :=
  option_map (map (fun n => (n.(output), n.(split_feature),
      match n.(split_value) with Some v => v | None => nan end,
      match n.(true_child) with Some c => Z.of_nat c | None => (-1)%Z end,
      match n.(false_child) with Some c => Z.of_nat c | None => (-1)%Z end))) ns.

Eval vm_compute in show (fit [[1;5];[2;4];[3;9];[4;1];[5;7];[6;2]] [1;1.5;3;3.5;10;11] 2 65535 1 2).
