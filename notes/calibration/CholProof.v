From Coq Require Import List ZArith Reals Lra Lia Bool.
Require Import Num.
Import ListNotations.
Open Scope R_scope.

Notation Mx := (nat -> nat -> R).
Definition rsum := sumn ROps.

Lemma rsum_S n f : rsum (S n) f = rsum n f + f n.
Proof. reflexivity. Qed.

Lemma rsum_ext n f g : (forall i, (i < n)%nat -> f i = g i) -> rsum n f = rsum n g.
Proof.
  induction n as [|n IH]; intros H; [reflexivity|].
  rewrite !rsum_S. rewrite IH by (intros; apply H; lia). rewrite H by lia. reflexivity.
Qed.

Lemma upd_same (A : Mx) i j v : upd A i j v i j = v.
Proof. unfold upd. rewrite !Nat.eqb_refl. reflexivity. Qed.
Lemma upd_other (A : Mx) i j v i' j' : (i <> i' \/ j <> j') -> upd A i j v i' j' = A i' j'.
Proof.
  unfold upd. intros H. destruct (Nat.eqb_spec i i'), (Nat.eqb_spec j j'); simpl; try reflexivity.
  exfalso; destruct H; congruence.
Qed.

(* spec of a finished row j up to column c (exclusive) *)
Definition row_ok (A L : Mx) (j c : nat) : Prop :=
  forall k, (k < c)%nat -> rsum (S k) (fun i => L j i * L k i) = A j k.

(* entries outside of row j, columns < c, are untouched *)
Definition frame_row (L0 L : Mx) (j c : nat) : Prop :=
  forall i k, (i <> j \/ (c <= k)%nat) -> L i k = L0 i k.

Lemma chol_row_spec (A L0 : Mx) (j : nat) :
  (* rows k<j already finished, with nonzero diagonal *)
  (forall k, (k < j)%nat -> L0 k k <> 0) ->
  (forall k, (k < j)%nat -> row_ok A L0 k (S k)) ->
  (forall k, (k <= j)%nat -> L0 j k = A j k) ->
  forall c, (c <= j)%nat ->
  let '(L, d) := chol_row ROps L0 j c 0 in
  frame_row L0 L j c /\ row_ok A L j c /\ d = rsum c (fun i => L j i * L j i).
Proof.
  intros Hnz Hrows Hrowj c. induction c as [|c IH]; intros Hc.
  - simpl. repeat split.
    + intros k Hk. lia.
  - cbn [chol_row]. specialize (IH ltac:(lia)).
    destruct (chol_row ROps L0 j c 0) as [L1 d1]. destruct IH as (Hfr & Hok & Hd).
    cbn [o0 oadd osub omul odiv ROps].
    set (s := sumn ROps c (fun i => L1 c i * L1 j i)).
    set (v := (L1 j c - s) / L1 c c).
    assert (Hcc : L1 c c = L0 c c) by (apply Hfr; left; lia).
    assert (Hjc : L1 j c = A j c) by (rewrite Hfr by (right; lia); apply Hrowj; lia).
    repeat split.
    + intros i k Hik. rewrite upd_other by lia. apply Hfr. destruct Hik; [left; assumption | right; lia].
    + intros k Hk. destruct (Nat.eq_dec k c) as [->|Hne].
      * rewrite rsum_S. rewrite upd_same.
        rewrite (rsum_ext c _ (fun i => L1 j i * L1 c i)).
        2:{ intros i Hi. rewrite !upd_other by lia. reflexivity. }
        rewrite (upd_other _ _ _ _ c c) by lia.
        unfold v. rewrite Hjc.
        assert (Hs : s = rsum c (fun i => L1 j i * L1 c i)).
        { unfold s. apply rsum_ext. intros; lra. }
        rewrite <- Hs. field. rewrite Hcc. apply Hnz. lia.
      * assert (Hk' : (k < c)%nat) by lia.
        rewrite <- (Hok k Hk'). apply rsum_ext. intros i Hi.
        rewrite !upd_other by lia. reflexivity.
    + rewrite rsum_S. rewrite upd_same. rewrite Hd.
      f_equal. apply rsum_ext. intros i Hi. rewrite upd_other by lia. reflexivity.
Qed.
