From Coq Require Import List Arith ZArith Lia Bool.
Import ListNotations.
Open Scope Z_scope.

(* labels: -3 undefined, -2 queued, -1 outlier, k >= 0 cluster *)
Definition undefined := -3. Definition queued := -2. Definition outlier := -1.

Definition upd (y : list Z) (i : nat) (v : Z) : list Z :=
  firstn i y ++ v :: skipn (S i) y.
Definition get (y : list Z) (i : nat) : Z := nth i y undefined.

Section Dbscan.
  Variable nb : nat -> list nat.      (* eps-neighbourhood incl. the point itself, in the backend's order *)
  Variable minpts : nat.

  (* mark undefined neighbours as queued *)
  Definition mark_queued (y : list Z) (ns : list nat) : list Z :=
    fold_left (fun y j => if get y j =? undefined then upd y j queued else y) ns y.

  (* secondary-neighbour loop: label is read before the write, as in the code *)
  Definition scan_secondary (y : list Z) (stack : list nat) (ns : list nat) : list Z * list nat :=
    fold_left (fun '(y, st) j =>
                 let label := get y j in
                 let y' := if label =? undefined then upd y j queued else y in
                 let st' := if (label =? undefined) || (label =? outlier) then st ++ [j] else st in
                 (y', st')) ns (y, stack).

  (* while !neighbors.is_empty(): pop from the END of the vector *)
  Fixpoint expand (fuel : nat) (k : Z) (y : list Z) (stack : list nat) : option (list Z) :=
    match fuel with
    | O => match stack with [] => Some y | _ => None end
    | S f =>
      match rev stack with
      | [] => Some y
      | idx :: rest_rev =>
        let stack' := rev rest_rev in
        let y1 := if get y idx =? outlier then upd y idx k else y in
        if (get y1 idx =? undefined) || (get y1 idx =? queued) then
          let y2 := upd y1 idx k in
          let ns := nb idx in
          if (minpts <=? length ns)%nat then
            let '(y3, st3) := scan_secondary y2 stack' ns in expand f k y3 st3
          else expand f k y2 stack'
        else expand f k y1 stack'
      end
    end.

  Fixpoint outer (fuel : nat) (pts : list nat) (k : Z) (y : list Z) : option (list Z * Z) :=
    match pts with
    | [] => Some (y, k)
    | i :: rest =>
      if get y i =? undefined then
        let ns := nb i in
        if (length ns <? minpts)%nat then outer fuel rest k (upd y i outlier)
        else
          let y1 := upd y i k in
          let y2 := mark_queued y1 ns in
          match expand fuel k y2 ns with
          | None => None
          | Some y3 => outer fuel rest (k + 1) y3
          end
      else outer fuel rest k y
    end.

  Definition dbscan (n : nat) : option (list Z * Z) :=
    outer (n * n + n) (seq 0 n) 0 (repeat undefined n).
End Dbscan.

(* 1-D integer points, |x_i - x_j| <= eps, linear-scan order *)
Definition nb1d (xs : list Z) (eps : Z) (i : nat) : list nat :=
  filter (fun j => Z.abs (nth i xs 0 - nth j xs 0) <=? eps) (seq 0 (length xs)).

Eval vm_compute in dbscan (nb1d [0;1;2;10;11;12;30] 1) 2 7.
Eval vm_compute in dbscan (nb1d [0;1;2;3;10;4;20;21] 1) 3 8.
Eval vm_compute in dbscan (nb1d [5;0;1;2;3;4] 1) 3 6.
