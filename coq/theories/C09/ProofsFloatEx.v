(* C09 — instances for C09/ProofsFloat.v: the hypotheses of the rounding theorems of predict are
   satisfiable on inexact binary64 data (every operation rounds), and the margin / sigmoid hypotheses are
   needed (inputs on which the binary64 and the exact-arithmetic predict return DIFFERENT classes).
   Real values of the float literals by computation (fr_literals), inequalities by interval arithmetic. *)
From Coq Require Import List Arith ZArith Bool Reals Floats Lra Lia Psatz.
From Interval Require Import Tactic.
From SC Require Import Base.FloatUtil Base.Num Base.FloatError C09.Model C09.ProofsSearch C09.ProofsPredict C09.ProofsFloat C09.ProofsFloatSig.
Import ListNotations.
Local Open Scope R_scope.

Ltac unfold_all :=
  unfold class_margin, fscores, score_bounds, score_bound, score_err, rscore, Eu, FA, vdot;
  cbn [map2 map combine fold_left length Nat.min Nat.add INR nth fst snd ROps oadd omul o0
       lr_coef lr_intercept lr_classes lr_k];
  fr_literals; rewrite ?u64_eq, ?eta64_eq.

(* ---- two classes: weights (0.3, -0.1), intercept 0.1, labels 3 and 7, query row (0.1, 0.2) ---- *)
Definition ex2_M : lr_model (T := PrimFloat.float) :=
  mkLr [[0x1.3333333333333p-2; -0x1.999999999999ap-4]%float] [0x1.999999999999ap-4%float] [3; 7]%float 2.
Definition ex2_row : list PrimFloat.float := [0x1.999999999999ap-4; 0x1.999999999999ap-3]%float.

Lemma ex_binary_robust :
  let c := nth 0 (lr_coef ex2_M) [] in
  let b := nth 0 (lr_intercept ex2_M) 0%float in
  lr_k ex2_M = 2%nat /\
  ffin (fscore ex2_row c b) /\
  sigmoid_sign_ok (fscore ex2_row c b) /\
  score_bound ex2_row c b < Rabs (rscore ex2_row c b) /\
  score_bound ex2_row c b <= / 2 ^ 50 /\
  0 < rscore ex2_row c b /\
  nth (predict_index FOps ex2_M ex2_row) (lr_classes ex2_M) 0%float = 7%float.
Proof.
  cbv zeta. split; [reflexivity|]. split; [vm_compute; reflexivity|]. split; [vm_compute; reflexivity|].
  split; [|split; [|split; [|vm_compute; reflexivity]]];
    unfold ex2_M, ex2_row; unfold_all; interval with (i_prec 100).
Qed.

(* ---- THE SCORE MARGIN ALONE DOES NOT SUFFICE FOR TWO CLASSES.  weight 1, intercept 0, row (2^-70):
   every operation is exact, the computed score IS the exact score 2^-70 > 0, far above its error bound;
   but exp(-2^-70) rounds to 1, the binary64 sigmoid is exactly 0.5, `0.5 > 0.5` is false and the
   code answers class 0, the exact-arithmetic model class 1 ---- *)
Definition tiny_M : lr_model (T := PrimFloat.float) := mkLr [[1%float]] [0%float] [0; 1]%float 2.
Definition tiny_row : list PrimFloat.float := [0x1p-70%float].

Lemma ex_binary_tiny_score :
  let c := nth 0 (lr_coef tiny_M) [] in
  let b := nth 0 (lr_intercept tiny_M) 0%float in
  lr_k tiny_M = 2%nat /\
  ffin (fscore tiny_row c b) /\
  FR (fscore tiny_row c b) = rscore tiny_row c b /\
  rscore tiny_row c b = / 2 ^ 70 /\
  score_bound tiny_row c b < Rabs (rscore tiny_row c b) /\
  sigmoid FOps (fscore tiny_row c b) = 0x1p-1%float /\
  predict_index FOps tiny_M tiny_row = 0%nat /\
  predict_index ROps (MR tiny_M) (map FR tiny_row) = 1%nat.
Proof.
  cbv zeta.
  assert (E1 : rscore tiny_row (nth 0 (lr_coef tiny_M) []) (nth 0 (lr_intercept tiny_M) 0%float) = / 2 ^ 70).
  { unfold tiny_M, tiny_row. unfold_all. field. }
  split; [reflexivity|]. split; [vm_compute; reflexivity|].
  split. { rewrite E1. replace (fscore tiny_row (nth 0 (lr_coef tiny_M) []) (nth 0 (lr_intercept tiny_M) 0%float))
             with 0x1p-70%float by (vm_compute; reflexivity). fr_literals. field. }
  split; [exact E1|].
  split. { rewrite E1. unfold tiny_M, tiny_row. unfold_all. interval with (i_prec 100). }
  split; [vm_compute; reflexivity|]. split; [vm_compute; reflexivity|].
  rewrite (predict_index_R_binary tiny_M tiny_row eq_refl).
  rewrite E1. rewrite (proj2 (Rltb_true _ _)); [reflexivity|]. interval.
Qed.

(* ---- three classes (labels 3, 5, 8), two features, query row (0.1, 0.2):
   exact scores 0.11, -0.04, 0.33 ---- *)
Definition ex3_M : lr_model (T := PrimFloat.float) :=
  mkLr [[0x1.3333333333333p-2; -0x1.999999999999ap-4]; [0x1.999999999999ap-3; 0x1.6666666666666p-1];
        [-0x1p-1; 0x1.999999999999ap-2]]%float
       [0x1.999999999999ap-4; -0x1.999999999999ap-3; 0x1.3333333333333p-2]%float [3; 5; 8]%float 3.
Definition ex3_row : list PrimFloat.float := [0x1.999999999999ap-4; 0x1.999999999999ap-3]%float.

Lemma ex_multiclass_robust :
  lr_k ex3_M <> 2%nat /\
  Forall ffin (fscores ex3_M ex3_row) /\
  class_margin ex3_M ex3_row 2 /\
  (forall j, (j < 3)%nat -> nth j (score_bounds ex3_M ex3_row) 0 <= / 2 ^ 50) /\
  Forall (row_margin ex3_M) [ex3_row] /\
  lr_predict FOps ex3_M [ex3_row] = [8%float].
Proof.
  assert (HF : Forall ffin (fscores ex3_M ex3_row)) by (repeat constructor).
  assert (HM : class_margin ex3_M ex3_row 2).
  { split; [cbn; lia|]. intros j Hj Hji. rewrite lr_scores_MR.
    assert (Hj' : (j < 3)%nat) by exact Hj. clear Hj.
    destruct j as [|[|[|j]]]; try lia; unfold ex3_M, ex3_row; unfold_all; interval with (i_prec 100). }
  split; [cbn; lia|]. split; [exact HF|]. split; [exact HM|]. split.
  { intros j Hj. destruct j as [|[|[|j]]]; try lia; unfold ex3_M, ex3_row; unfold_all; interval with (i_prec 100). }
  split; [|vm_compute; reflexivity].
  constructor; [|constructor]. split; [exact HF|]. exists 2%nat. exact HM.
Qed.

(* ---- THE MARGIN IS NEEDED FOR k >= 3.  row (1,1,1); class 0 has weights 2^53, 1, -2^53 and intercept 0,
   class 1 weights 0 and intercept 0.5, class 2 all zero.  Everything is finite, every product exact; the
   exact scores are 1, 0.5, 0 (class 0 wins), the computed ones ((0+2^53)+1)-2^53 = 0, 0.5, 0 (2^53 + 1 is
   a tie and rounds to even), so the binary64 arg-max is class 1 ---- *)
Definition bad3_M : lr_model (T := PrimFloat.float) :=
  mkLr [[0x1p+53; 1; -0x1p+53]; [0; 0; 0]; [0; 0; 0]]%float [0; 0x1p-1; 0]%float [0; 1; 2]%float 3.
Definition bad3_row : list PrimFloat.float := [1; 1; 1]%float.

Lemma ex_multiclass_margin_needed :
  lr_k bad3_M <> 2%nat /\
  Forall ffin (fscores bad3_M bad3_row) /\
  lr_scores (MR bad3_M) (map FR bad3_row) = [1; / 2; 0] /\
  map FR (fscores bad3_M bad3_row) = [0; / 2; 0] /\
  predict_index FOps bad3_M bad3_row = 1%nat /\
  predict_index ROps (MR bad3_M) (map FR bad3_row) = 0%nat.
Proof.
  assert (E : lr_scores (MR bad3_M) (map FR bad3_row) = [1; / 2; 0]).
  { rewrite lr_scores_MR. unfold bad3_M, bad3_row. unfold_all. repeat f_equal; field. }
  split; [cbn; lia|]. split; [repeat constructor|]. split; [exact E|].
  split. { replace (fscores bad3_M bad3_row) with [0; 0x1p-1; 0]%float by (vm_compute; reflexivity).
           cbn [map]. fr_literals. repeat f_equal; field. }
  split; [vm_compute; reflexivity|].
  unfold predict_index. cbn [MR bad3_M lr_k Nat.eqb].
  change (argmax ROps (lr_scores (MR bad3_M) (map FR bad3_row)) = 0%nat). rewrite E.
  apply argmax_dominant; [cbn; lia|]. intros j Hj Hji. cbn [length] in Hj.
  destruct j as [|[|[|j]]]; try lia; cbn [nth]; lra.
Qed.

(* ---- the condition on exp of ProofsFloatSig.sigmoid_sign_ok_of_exp holds for the binary64 instance's exp at
   the score of the two-class example (about 0.11: exp(-s) is about 0.896 <= 1 - 2^-52) and at the opposite
   score (exp(s) is about 1.116 >= 1) ---- *)
Lemma ex_exp_side_ok :
  let s := fscore ex2_row (nth 0 (lr_coef ex2_M) []) (nth 0 (lr_intercept ex2_M) 0%float) in
  ffin s /\ exp_side_ok s (oexp FOps (PrimFloat.opp s)) /\
  ffin (PrimFloat.opp s) /\ exp_side_ok (PrimFloat.opp s) (oexp FOps (PrimFloat.opp (PrimFloat.opp s))).
Proof.
  cbv zeta.
  match goal with |- ffin ?s /\ _ =>
    let sv := eval vm_compute in s in replace s with sv by (vm_compute; reflexivity) end.
  match goal with |- _ /\ exp_side_ok ?s ?e /\ _ /\ exp_side_ok ?s' ?e' =>
    let ev := eval vm_compute in e in replace e with ev by (vm_compute; reflexivity);
    let sv' := eval vm_compute in s' in replace s' with sv' by (vm_compute; reflexivity);
    let ev' := eval vm_compute in e' in replace e' with ev' by (vm_compute; reflexivity) end.
  unfold exp_side_ok.
  split; [reflexivity|]. split; [|split; [reflexivity|]].
  - split; [reflexivity|]. split.
    + intros _. fr_literals. split; interval.
    + intros H. exfalso. revert H. fr_literals. intros H.
      match type of H with ?a <= 0 => assert (0 < a) by interval end. lra.
  - split; [reflexivity|]. split.
    + intros H. exfalso. revert H. fr_literals. intros H.
      match type of H with 0 < ?a => assert (a < 0) by interval end. lra.
    + intros _. fr_literals. split; interval.
Qed.
