(* C09 — what a small gradient buys (alpha > 0): if wopt is a stationary point of the penalised objective (its
   gradient is orthogonal to every direction) then for EVERY point w, with d = wopt - w and g = the coded gradient
   at w:    f(wopt) <= f(w),    f(w) - f(wopt) <= - <g, d>,    alpha * |weight part of d|^2 <= - <g, d>.
   So a point with a negligible gradient is, in objective value and in its weights, close to the optimum: this is
   the quantitative form of 'unique in the weights' and the reason the property can speak of the gradient.
   (Cauchy-Schwarz on the right-hand sides is left to the reader; nothing is claimed about the intercepts.)
   Multinomial: for the coded names (coded = exact).  Two-class: for the exact forms. *)
From Coq Require Import List ZArith Bool Reals Lra Lia Arith.
From SC Require Import Base.Num C09.Model C09.ProofsSearch C09.ProofsGrad C09.ProofsStable C09.ProofsGradMulti
     C09.ProofsConvex C09.ProofsConvexMulti C09.ProofsStrict C09.ProofsCoded.
Import ListNotations.
Local Open Scope R_scope.

Lemma psum_vsub_sym p k (u v : list R) : length u = length v ->
  psum p k (vsub ROps u v) (vsub ROps u v) = psum p k (vsub ROps v u) (vsub ROps v u).
Proof.
  intros Hl. unfold psum. apply lsum_ext. intros i _. apply lsum_ext. intros j _.
  rewrite !(nth_vsub u v), !(nth_vsub v u) by lia. ring.
Qed.
Lemma psum_self_nonneg p k (d : list R) : 0 <= psum p k d d.
Proof. unfold psum. apply lsum_nonneg. intros; apply lsum_nonneg. intros; nra. Qed.

Lemma multi_near_optimum p k (x : list (list R)) (y : list nat) alpha :
  Forall (fun r => length r = p) x -> Forall (fun c => (c < k)%nat) y -> 0 < alpha ->
  forall w wopt, length w = (k * S p)%nat -> length wopt = (k * S p)%nat ->
  (forall s, vdot ROps (multi_df ROps p k x y alpha wopt) s = 0) ->
  let d := vsub ROps wopt w in
  let g := multi_df ROps p k x y alpha w in
  multi_f ROps p k x y alpha wopt <= multi_f ROps p k x y alpha w /\
  multi_f ROps p k x y alpha w - multi_f ROps p k x y alpha wopt <= - vdot ROps g d /\
  alpha * psum p k d d <= - vdot ROps g d.
Proof.
  rewrite multi_f_coded_fun, multi_df_coded_fun. intros Hx Hy Ha w wopt Hw Hwo Hst. cbv zeta.
  pose proof (multi_tangent_strong p k x y alpha Hx Hy Ha w (vsub ROps wopt w) 1 Hw ltac:(rewrite vsub_length; lia)) as H1.
  pose proof (multi_tangent_strong p k x y alpha Hx Hy Ha wopt (vsub ROps w wopt) 1 Hwo ltac:(rewrite vsub_length; lia)) as H2.
  rewrite vadd_vsub in H1 by lia. rewrite vadd_vsub, Hst in H2 by lia.
  rewrite (psum_vsub_sym p k w wopt) in H2 by lia.
  pose proof (psum_self_nonneg p k (vsub ROps wopt w)) as Hq.
  set (D := psum p k (vsub ROps wopt w) (vsub ROps wopt w)) in *.
  assert (0 <= alpha * D) by nra.
  repeat split; lra.
Qed.

Lemma sumsq_vsub_sym p (u v : list R) : length u = length v -> (p <= length u)%nat ->
  sumsq (firstn p (vsub ROps u v)) = sumsq (firstn p (vsub ROps v u)).
Proof.
  intros Hl Hp. rewrite !sumsq_as_lsum by (rewrite vsub_length; lia). apply lsum_ext. intros j _.
  rewrite (nth_vsub u v), (nth_vsub v u) by lia. ring.
Qed.
Lemma sumsq_nonneg (l : list R) : 0 <= sumsq l.
Proof. induction l as [|h l IH]; [unfold sumsq; cbn; lra|]. rewrite sumsq_cons. nra. Qed.

Lemma binary_near_optimum p (x : list (list R)) (y : list nat) alpha :
  Forall (fun r => length r = p) x -> 0 < alpha ->
  forall w wopt, length w = S p -> length wopt = S p ->
  (forall s, vdot ROps (binary_df_gen ROps sig_exact p x y alpha wopt) s = 0) ->
  let d := vsub ROps wopt w in
  let g := binary_df_gen ROps sig_exact p x y alpha w in
  binary_f_gen ROps lse_exact p x y alpha wopt <= binary_f_gen ROps lse_exact p x y alpha w /\
  binary_f_gen ROps lse_exact p x y alpha w - binary_f_gen ROps lse_exact p x y alpha wopt <= - vdot ROps g d /\
  alpha * sumsq (firstn p d) <= - vdot ROps g d.
Proof.
  intros Hx Ha w wopt Hw Hwo Hst. cbv zeta.
  pose proof (binary_tangent_strong p x y alpha Hx Ha w (vsub ROps wopt w) 1 Hw ltac:(rewrite vsub_length; lia)) as H1.
  pose proof (binary_tangent_strong p x y alpha Hx Ha wopt (vsub ROps w wopt) 1 Hwo ltac:(rewrite vsub_length; lia)) as H2.
  rewrite vadd_vsub in H1 by lia. rewrite vadd_vsub, Hst in H2 by lia.
  rewrite (sumsq_vsub_sym p w wopt) in H2 by lia.
  pose proof (sumsq_nonneg (firstn p (vsub ROps wopt w))) as Hq.
  set (D := sumsq (firstn p (vsub ROps wopt w))) in *.
  assert (0 <= alpha * D) by nra.
  repeat split; lra.
Qed.
