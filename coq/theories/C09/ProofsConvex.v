(* C09 — convexity: the coded objectives (exact-arithmetic forms) lie above their tangents, with the coded
   gradient as the slope:  f w + a <df w, s> <= f (w + a s)  for all w, s of the right dimension and all a.
   Consequence (ProofsFit): the model of LogisticRegression::fit never ends above its starting objective. *)
From Coq Require Import List ZArith Bool Reals Lra Lia Arith.
From SC Require Import Base.Num C09.Model C09.ProofsSearch C09.ProofsGrad C09.ProofsStable.
Import ListNotations.
Local Open Scope R_scope.

(* ---------------------------------------------------------------- finite sums over lists *)
Definition lsum {A} (g : A -> R) (l : list A) : R := fold_right (fun r acc => g r + acc) 0 l.

Lemma fold_left_lsum {A} (step : R -> A -> R) (g : A -> R) (l : list A) :
  (forall acc r, step acc r = acc + g r) -> forall a, fold_left step l a = a + lsum g l.
Proof.
  intros H. induction l as [|h l IH]; intros a; cbn [fold_left lsum fold_right]; [lra|].
  rewrite IH, H. fold (lsum g l). lra.
Qed.
Lemma lsum_le {A} (g h : A -> R) (l : list A) : (forall r, In r l -> g r <= h r) -> lsum g l <= lsum h l.
Proof.
  induction l as [|x l IH]; intros H; cbn [lsum fold_right]; [lra|].
  fold (lsum g l) (lsum h l). pose proof (H x (or_introl eq_refl)). pose proof (IH (fun r Hr => H r (or_intror Hr))). lra.
Qed.
Lemma lsum_plus {A} (g h : A -> R) (l : list A) : lsum (fun r => g r + h r) l = lsum g l + lsum h l.
Proof. induction l as [|x l IH]; cbn [lsum fold_right]; [lra|]. fold (lsum (fun r => g r + h r) l) (lsum g l) (lsum h l). lra. Qed.
Lemma lsum_scal {A} c (g : A -> R) (l : list A) : lsum (fun r => c * g r) l = c * lsum g l.
Proof. induction l as [|x l IH]; cbn [lsum fold_right]; [lra|]. fold (lsum (fun r => c * g r) l) (lsum g l). lra. Qed.
Lemma lsum_ext {A} (g h : A -> R) (l : list A) : (forall r, In r l -> g r = h r) -> lsum g l = lsum h l.
Proof.
  induction l as [|x l IH]; intros H; cbn [lsum fold_right]; [reflexivity|].
  fold (lsum g l) (lsum h l). rewrite (H x (or_introl eq_refl)), (IH (fun r Hr => H r (or_intror Hr))). reflexivity.
Qed.

(* ---------------------------------------------------------------- Jensen for exp, and the two tangent inequalities *)
(* sum p_j e^{d_j} >= e^m (sum p_j + sum p_j d_j - m sum p_j) for every m: e^{d} >= e^m (1 + d - m) termwise *)
Lemma exp_tangent m d : exp m * (1 + d - m) <= exp d.
Proof.
  pose proof (exp_ineq1_le (d - m)) as H. pose proof (exp_pos m) as Hm.
  replace (exp d) with (exp m * exp (d - m)) by (rewrite <- exp_plus; f_equal; lra). nra.
Qed.
Lemma jensen_exp_aux (l : list (R * R)) m : (forall pd, In pd l -> 0 <= fst pd) ->
  exp m * (lsum fst l + lsum (fun pd => fst pd * snd pd) l - m * lsum fst l) <= lsum (fun pd => fst pd * exp (snd pd)) l.
Proof.
  induction l as [|[p d] l IH]; intros Hp; cbn [lsum fold_right fst snd]; [lra|].
  fold (lsum fst l) (lsum (fun pd => fst pd * snd pd) l) (lsum (fun pd => fst pd * exp (snd pd)) l).
  pose proof (IH (fun pd H => Hp pd (or_intror H))) as IH'. pose proof (Hp (p, d) (or_introl eq_refl)) as Hp0. cbn in Hp0.
  pose proof (exp_tangent m d). nra.
Qed.
Lemma jensen_exp (l : list (R * R)) : (forall pd, In pd l -> 0 <= fst pd) -> lsum fst l = 1 ->
  exp (lsum (fun pd => fst pd * snd pd) l) <= lsum (fun pd => fst pd * exp (snd pd)) l.
Proof.
  intros Hp H1. pose proof (jensen_exp_aux l (lsum (fun pd => fst pd * snd pd) l) Hp) as H. rewrite H1 in H.
  replace (1 + lsum (fun pd => fst pd * snd pd) l - lsum (fun pd => fst pd * snd pd) l * 1) with 1 in H by lra. lra.
Qed.

Lemma ln_le_compat x y : 0 < x -> x <= y -> ln x <= ln y.
Proof. intros Hx [H | ->]; [left; apply ln_increasing; assumption | lra]. Qed.

(* softplus lies above its tangents, the slope being the logistic function *)
Lemma softplus_tangent u d : lse_exact u + d * sig_exact u <= lse_exact (u + d).
Proof.
  unfold lse_exact, sig_exact. pose proof (exp_pos u) as Hu. pose proof (exp_pos (- u)) as Hnu.
  set (sg := 1 / (1 + exp (- u))).
  assert (Hsg : sg = exp u / (1 + exp u)).
  { unfold sg. rewrite exp_Ropp. field. split; lra. }
  assert (Hb : 0 <= sg <= 1).
  { rewrite Hsg. split; [apply Rmult_le_pos; [lra | left; apply Rinv_0_lt_compat; lra]|].
    apply Rmult_le_reg_r with (1 + exp u); [lra|]. unfold Rdiv. rewrite Rmult_assoc, Rinv_l by lra. lra. }
  pose proof (jensen_exp [(1 - sg, 0); (sg, d)]) as HJ. cbn [lsum fold_right fst snd In] in HJ.
  assert (HJ' : exp (d * sg) <= (1 - sg) + sg * exp d).
  { rewrite exp_0 in HJ. replace (d * sg) with ((1 - sg) * 0 + (sg * d + 0)) by lra.
    eapply Rle_trans; [apply HJ|]; [intros pd [<-|[<-|[]]]; cbn; lra | lra | lra]. }
  assert (Hr : (1 + exp (u + d)) = (1 + exp u) * ((1 - sg) + sg * exp d)).
  { rewrite Hsg, exp_plus. field. lra. }
  rewrite Hr. pose proof (exp_pos (d * sg)).
  rewrite ln_mult by lra.
  assert (d * sg <= ln (1 - sg + sg * exp d)).
  { rewrite <- (ln_exp (d * sg)). apply ln_le_compat; [apply exp_pos | exact HJ']. }
  lra.
Qed.

(* ---------------------------------------------------------------- vectors *)
Lemma vdot_nil_l (s : list R) : vdot ROps [] s = 0. Proof. reflexivity. Qed.
Lemma vdot_nil_r (l : list R) : vdot ROps l [] = 0.
Proof. unfold vdot. rewrite combine_nil. reflexivity. Qed.

Lemma vdot_map_plus {A} (u v : A -> R) (J : list A) : forall s,
  vdot ROps (map (fun j => u j + v j) J) s = vdot ROps (map u J) s + vdot ROps (map v J) s.
Proof.
  induction J as [|j J IH]; intros [|h s]; cbn [map]; rewrite ?vdot_nil_l, ?vdot_nil_r; try lra.
  rewrite !vdot_cons_R, IH. lra.
Qed.
Lemma vdot_map_zero {A} (J : list A) : forall s, vdot ROps (map (fun _ => 0) J) s = 0.
Proof.
  induction J as [|j J IH]; intros [|h s]; cbn [map]; rewrite ?vdot_nil_l, ?vdot_nil_r; try lra.
  rewrite vdot_cons_R, IH. lra.
Qed.
Lemma vdot_map_scal {A} c (e : A -> R) (J : list A) : forall s,
  vdot ROps (map (fun j => c * e j) J) s = c * vdot ROps (map e J) s.
Proof.
  induction J as [|j J IH]; intros [|h s]; cbn [map]; rewrite ?vdot_nil_l, ?vdot_nil_r; try lra.
  rewrite !vdot_cons_R, IH. ring.
Qed.
Lemma vdot_map_lsum {A B} (h : B -> A -> R) (rows : list B) (J : list A) s :
  vdot ROps (map (fun j => lsum (fun r => h r j) rows) J) s = lsum (fun r => vdot ROps (map (h r) J) s) rows.
Proof.
  induction rows as [|r rows IH]; cbn [lsum fold_right].
  - apply vdot_map_zero.
  - fold (lsum (fun r0 => vdot ROps (map (h r0) J) s) rows). rewrite <- IH.
    rewrite <- (vdot_map_plus (h r) (fun j => lsum (fun r0 => h r0 j) rows)). reflexivity.
Qed.
Lemma vdot_app_zero (l : list R) : forall s, length s = S (length l) -> vdot ROps (l ++ [0]) s = vdot ROps l s.
Proof.
  induction l as [|x l IH]; intros [|h s] Hs; cbn in Hs; try lia.
  - destruct s; [|cbn in Hs; lia]. cbn [app]. rewrite vdot_cons_R, !vdot_nil_l. lra.
  - cbn [app]. rewrite !vdot_cons_R, IH by lia. reflexivity.
Qed.
Lemma vdot_scal_l c (l : list R) : forall s, vdot ROps (map (fun v => c * v) l) s = c * vdot ROps l s.
Proof.
  induction l as [|x l IH]; intros [|h s]; cbn [map]; rewrite ?vdot_nil_l, ?vdot_nil_r; try lra.
  rewrite !vdot_cons_R, IH. ring.
Qed.

Lemma map_nth_seq (l : list R) : map (fun j => nth j l 0) (seq 0 (length l)) = l.
Proof.
  induction l as [|h l IH]; [reflexivity|]. cbn [length seq map nth]. f_equal.
  rewrite <- seq_shift, map_map. exact IH.
Qed.
Lemma map_nth_firstn (w : list R) : forall p, (p <= length w)%nat -> map (fun j => nth j w 0) (seq 0 p) = firstn p w.
Proof.
  induction w as [|h w IH]; intros [|p] Hp; cbn in Hp; try lia; try reflexivity.
  cbn [seq map nth firstn]. f_equal. rewrite <- seq_shift, map_map. apply IH. lia.
Qed.

Lemma nth_vadd_vscale (w : list R) : forall s a i, length s = length w ->
  nth i (vadd ROps w (vscale ROps s a)) 0 = nth i w 0 + a * nth i s 0.
Proof.
  induction w as [|h w IH]; intros [|k s] a i Hl; cbn in Hl; try lia.
  - destruct i; cbn; lra.
  - destruct i; cbn [vscale map vadd map2 nth]; [cbn; lra|]. apply IH. lia.
Qed.

(* ---------------------------------------------------------------- partial_dot is linear in the weights *)
Lemma pdot_loop_acc (xs c : list R) : forall a b, pdot_loop ROps a xs c b = a + pdot_loop ROps 0 xs c b.
Proof.
  induction xs as [|y ys IHy]; intros a b; cbn [pdot_loop]; [cbn; lra|].
  rewrite IHy. rewrite (IHy (oadd ROps 0 _)). cbn. lra.
Qed.
Lemma pdot_loop_linear (w s : list R) a (row : list R) : length s = length w -> forall acc1 acc2 pos,
  pdot_loop ROps (acc1 + a * acc2) row (vadd ROps w (vscale ROps s a)) pos =
  pdot_loop ROps acc1 row w pos + a * pdot_loop ROps acc2 row s pos.
Proof.
  intros Hl. induction row as [|x row IH]; intros acc1 acc2 pos; cbn [pdot_loop]; [lra|].
  cbn [ROps oadd omul o0]. rewrite nth_vadd_vscale by exact Hl.
  replace (acc1 + a * acc2 + x * (nth pos w 0 + a * nth pos s 0))
    with ((acc1 + x * nth pos w 0) + a * (acc2 + x * nth pos s 0)) by lra.
  apply IH.
Qed.
Lemma partial_dot_linear (w s : list R) a (row : list R) v : length s = length w ->
  partial_dot ROps (vadd ROps w (vscale ROps s a)) row v = partial_dot ROps w row v + a * partial_dot ROps s row v.
Proof.
  intros Hl. unfold partial_dot. cbn [ROps oadd o0]. rewrite nth_vadd_vscale by exact Hl.
  replace 0 with (0 + a * 0) at 1 by lra. rewrite (pdot_loop_linear w s a row Hl 0 0 v). lra.
Qed.

(* <row ++ [1], s> = partial_dot s row 0 *)
Lemma pdot_loop_shift (xs t : list R) h : forall acc pos,
  pdot_loop ROps acc xs (h :: t) (S pos) = pdot_loop ROps acc xs t pos.
Proof. induction xs as [|x xs IH]; intros acc pos; cbn [pdot_loop nth]; [reflexivity|]. apply IH. Qed.
Lemma vdot_row_one (row : list R) : forall s, length s = S (length row) ->
  vdot ROps (row ++ [1]) s = partial_dot ROps s row 0.
Proof.
  unfold partial_dot. induction row as [|x row IH]; intros [|h s] Hs; cbn in Hs; try lia.
  - destruct s; [|cbn in Hs; lia]. cbn. unfold vdot; cbn. lra.
  - cbn [app length pdot_loop Nat.add]. rewrite vdot_cons_R, IH by lia.
    rewrite pdot_loop_shift. cbn [ROps oadd omul o0 nth]. rewrite (pdot_loop_acc row s (0 + x * h)).
    rewrite Nat.add_0_r. replace (length row + 0)%nat with (length row) by lia. lra.
Qed.
Lemma map_e_row p (row : list R) : length row = p ->
  map (fun j => if (j <? p)%nat then nth j row 0 else 1) (seq 0 (S p)) = row ++ [1].
Proof.
  intros Hrow. rewrite seq_S, map_app. cbn [map Nat.add]. rewrite Nat.ltb_irrefl. f_equal.
  transitivity (map (fun j => nth j row 0) (seq 0 p)); [|rewrite <- Hrow; apply map_nth_seq].
  apply map_ext_in. intros j Hj. apply in_seq in Hj.
  replace (j <? p)%nat with true by (symmetry; apply Nat.ltb_lt; lia). reflexivity.
Qed.

(* the penalty: sum of squares of the first p entries lies above its tangent *)
Lemma sumsq_tangent (w : list R) : forall p s a, length s = length w ->
  sumsq (firstn p w) + 2 * a * vdot ROps (firstn p w) s <= sumsq (firstn p (vadd ROps w (vscale ROps s a))).
Proof.
  induction w as [|h w IH]; intros p [|k s] a Hl; cbn in Hl; try lia.
  - destruct p; cbn; unfold sumsq, vdot; cbn; lra.
  - destruct p as [|p]; [cbn; unfold sumsq, vdot; cbn; lra|].
    cbn [vscale map vadd map2 firstn]. rewrite !sumsq_cons, vdot_cons_R.
    specialize (IH p s a ltac:(lia)). cbn [ROps oadd omul].
    change (map2 (fun x y => x + y) w (map (fun x => x * a) s)) with (vadd ROps w (vscale ROps s a)). nra.
Qed.

(* ---------------------------------------------------------------- the two-class objective *)
Section Binary.
  Variables (p : nat) (x : list (list R)) (y : list nat) (alpha : R).
  Hypothesis Hx : Forall (fun r => length r = p) x.
  Let rows := combine x y.
  Let z (w : list R) (ry : list R * nat) : R := partial_dot ROps w (fst ry) 0.
  Let yv (ry : list R * nat) : R := ofnat ROps (snd ry).

  Lemma binary_f_lsum lse w :
    binary_f_gen ROps lse p x y alpha w =
    lsum (fun ry => lse (z w ry) - yv ry * z w ry) rows + (if Rltb 0 alpha then half ROps * alpha * sumsq (firstn p w) else 0).
  Proof.
    unfold binary_f_gen. cbv zeta.
    rewrite (fold_left_lsum _ (fun ry => lse (z w ry) - yv ry * z w ry)) by (intros; reflexivity).
    change (oltb ROps (o0 ROps) alpha) with (Rltb 0 alpha). cbn [ROps o0 oadd].
    destruct (Rltb 0 alpha); [|fold rows; lra]. fold rows.
    change (penalty ROps alpha (firstn p w)) with (half ROps * alpha * sumsq (firstn p w)). lra.
  Qed.

  Lemma binary_df_entry_lsum sg w j :
    binary_df_entry ROps sg p x y alpha w j =
    lsum (fun ry => (sg (z w ry) - yv ry) * (if (j <? p)%nat then nth j (fst ry) 0 else 1)) rows +
    (if Rltb 0 alpha && (j <? p)%nat then alpha * nth j w 0 else 0).
  Proof.
    unfold binary_df_entry. cbv zeta.
    rewrite (fold_left_lsum _ (fun ry => (sg (z w ry) - yv ry) * (if (j <? p)%nat then nth j (fst ry) 0 else 1))).
    - change (oltb ROps (o0 ROps) alpha) with (Rltb 0 alpha). cbn [ROps o0 oadd omul]. fold rows.
      destruct (Rltb 0 alpha && (j <? p)%nat); lra.
    - intros acc ry. unfold z, yv. cbn [ROps osub omul oadd o0]. destruct (j <? p)%nat; ring.
  Qed.

  Lemma binary_df_vdot sg w s : length w = S p -> length s = S p ->
    vdot ROps (binary_df_gen ROps sg p x y alpha w) s =
    lsum (fun ry => (sg (z w ry) - yv ry) * z s ry) rows + (if Rltb 0 alpha then alpha * vdot ROps (firstn p w) s else 0).
  Proof.
    intros Hw Hs. unfold binary_df_gen.
    rewrite (map_ext _ _ (binary_df_entry_lsum sg w)).
    rewrite (vdot_map_plus (fun j => lsum (fun ry => (sg (z w ry) - yv ry) * (if (j <? p)%nat then nth j (fst ry) 0 else 1)) rows)
                           (fun j => if Rltb 0 alpha && (j <? p)%nat then alpha * nth j w 0 else 0)).
    f_equal.
    - rewrite (vdot_map_lsum (fun ry j => (sg (z w ry) - yv ry) * (if (j <? p)%nat then nth j (fst ry) 0 else 1))).
      apply lsum_ext. intros [row yi] Hin. cbn [fst].
      assert (Hrow : length row = p).
      { apply in_combine_l in Hin. rewrite Forall_forall in Hx. apply Hx, Hin. }
      rewrite (vdot_map_scal (sg (z w (row, yi)) - yv (row, yi)) (fun j => if (j <? p)%nat then nth j row 0 else 1)).
      rewrite (map_e_row p row Hrow), vdot_row_one by (rewrite Hrow; exact Hs). reflexivity.
    - destruct (Rltb 0 alpha); cbn [andb].
      + rewrite seq_S, map_app. cbn [map Nat.add]. rewrite Nat.ltb_irrefl.
        rewrite (map_ext_in _ (fun j => alpha * nth j w 0)).
        * rewrite <- (map_map (fun j => nth j w 0) (fun v => alpha * v)), map_nth_firstn by lia.
          rewrite vdot_app_zero by (rewrite map_length, firstn_length_le by lia; exact Hs).
          apply vdot_scal_l.
        * intros j Hj. apply in_seq in Hj. replace (j <? p)%nat with true by (symmetry; apply Nat.ltb_lt; lia). reflexivity.
      + apply vdot_map_zero.
  Qed.

  (* the coded two-class objective lies above its tangents, the coded gradient being the slope *)
  Lemma binary_tangent w s a : length w = S p -> length s = S p ->
    binary_f_gen ROps lse_exact p x y alpha w + a * vdot ROps (binary_df_gen ROps sig_exact p x y alpha w) s
    <= binary_f_gen ROps lse_exact p x y alpha (vadd ROps w (vscale ROps s a)).
  Proof.
    intros Hw Hs. assert (Hl : length s = length w) by lia.
    rewrite !binary_f_lsum, (binary_df_vdot sig_exact w s Hw Hs).
    assert (Hdata : lsum (fun ry => lse_exact (z w ry) - yv ry * z w ry) rows
                    + a * lsum (fun ry => (sig_exact (z w ry) - yv ry) * z s ry) rows
                    <= lsum (fun ry => lse_exact (z (vadd ROps w (vscale ROps s a)) ry) - yv ry * z (vadd ROps w (vscale ROps s a)) ry) rows).
    { rewrite <- lsum_scal, <- lsum_plus. apply lsum_le. intros ry _. unfold z.
      rewrite (partial_dot_linear w s a (fst ry) 0 Hl).
      pose proof (softplus_tangent (partial_dot ROps w (fst ry) 0) (a * partial_dot ROps s (fst ry) 0)). lra. }
    destruct (Rltb 0 alpha) eqn:Ea; [|lra].
    apply Rltb_true in Ea. pose proof (sumsq_tangent w p s a Hl) as Hp.
    unfold half, two, cst. cbn [ROps o1 odiv oofZ].
    assert (1 / IZR 2 * alpha * (sumsq (firstn p w) + 2 * a * vdot ROps (firstn p w) s)
            <= 1 / IZR 2 * alpha * sumsq (firstn p (vadd ROps w (vscale ROps s a)))).
    { apply Rmult_le_compat_l; [|exact Hp]. assert (0 < 1 / IZR 2) by lra. nra. }
    lra.
  Qed.

  Lemma binary_df_length sg w : length (binary_df_gen ROps sg p x y alpha w) = S p.
  Proof. unfold binary_df_gen. rewrite map_length, seq_length. reflexivity. Qed.
End Binary.
