(* C09 — the CODED objective functions by name.  `binary_f`, `binary_df`, `multi_f`, `multi_df` (Model.v) are the
   `_gen` forms instantiated with the overflow-safe scalar functions `ln_1pe`, `sigmoid`, `softmax` of the code;
   the convexity / derivative / never-increases theorems are about the `_gen` forms instantiated with the exact
   functions ln(1+e^x), 1/(1+e^-x), exp(x_i)/sum_j exp(x_j).  This file makes the connection a theorem (over R):
     * multinomial: the two instantiations are THE SAME FUNCTIONS (the shift by the row maximum cancels), so every
       theorem about the exact form is a theorem about `multi_f ROps` / `multi_df ROps`;
     * two-class: they coincide at every point whose linear scores lie in [-40, 15] (the cut-offs of `sigmoid`
       and `ln_1pe`); everywhere else the objective differs by at most (number of rows) * e^-15 (the coded one
       being the smaller) and gradient entry j by at most e^-40 * sum_rows |x_ij| (|1| for the bias entry);
     * consequences stated with the coded names: coded df = derivative of coded f (multinomial: everywhere;
       two-class: at every point with scores in [-40, 15) -- beyond 15 the coded objective has slope exactly 1 in
       the score while the coded gradient keeps 1/(1+e^-x), so there the statement is FALSE by up to e^-15 per
       row and is not claimed), tangent inequalities. *)
From Coq Require Import List ZArith Bool Reals Lra Lia Arith FunctionalExtensionality.
From Coquelicot Require Import Coquelicot.
From SC Require Import Base.Num C09.Model C09.ProofsSearch C09.ProofsGrad C09.ProofsStable C09.ProofsGradMulti
     C09.ProofsConvex C09.ProofsConvexMulti.
Import ListNotations.
Local Open Scope R_scope.

(* the two names used for the exact scalar forms are the same functions *)
Lemma lse_exact_is_def : lse_exact = lse_def. Proof. reflexivity. Qed.
Lemma sig_exact_is_def : sig_exact = sig_def. Proof. reflexivity. Qed.

(* ---------------------------------------------------------------- multinomial: identical *)
Lemma softmax_coded (l : list R) : softmax ROps l = softmax_def l.
Proof. destruct l as [|h t]; [reflexivity|]. apply softmax_stable. discriminate. Qed.
Lemma softmax_coded_fun : softmax ROps = softmax_def.
Proof. apply functional_extensionality. exact softmax_coded. Qed.

Lemma multi_f_coded_fun : multi_f ROps = multi_f_gen ROps softmax_def.
Proof. unfold multi_f. rewrite softmax_coded_fun. reflexivity. Qed.
Lemma multi_df_coded_fun : multi_df ROps = multi_df_gen ROps softmax_def.
Proof. unfold multi_df. rewrite softmax_coded_fun. reflexivity. Qed.

Lemma multi_objective_coded_is_exact p k (x : list (list R)) (y : list nat) alpha (w : list R) :
  multi_f ROps p k x y alpha w = multi_f_gen ROps softmax_def p k x y alpha w /\
  multi_df ROps p k x y alpha w = multi_df_gen ROps softmax_def p k x y alpha w /\
  (forall q, (q < k * S p)%nat ->
     nth q (multi_df ROps p k x y alpha w) 0 = multi_df_entry ROps softmax_def p k x y alpha w q).
Proof.
  rewrite multi_f_coded_fun, multi_df_coded_fun. split; [reflexivity|]. split; [reflexivity|].
  intros q Hq. unfold multi_df_gen. rewrite (nth_map_lt _ _ 0 0%nat) by (rewrite seq_length; exact Hq).
  rewrite seq_nth by exact Hq. reflexivity.
Qed.

Lemma multi_coded_df_is_gradient p k (x : list (list R)) (y : list nat) alpha (w : list R) q :
  length w = (k * S p)%nat -> List.Forall (fun r => length r = p) x -> List.Forall (fun c => (c < k)%nat) y ->
  (q < k * S p)%nat ->
  is_derive (fun t => multi_f ROps p k x y alpha (upd w q t)) (nth q w 0) (nth q (multi_df ROps p k x y alpha w) 0).
Proof.
  intros Hw Hx Hy Hq. destruct (multi_objective_coded_is_exact p k x y alpha w) as [_ [_ He]]. rewrite (He q Hq).
  rewrite multi_f_coded_fun. apply multiclass_df_is_gradient; assumption.
Qed.

Lemma multi_coded_tangent p k (x : list (list R)) (y : list nat) alpha :
  List.Forall (fun r => length r = p) x -> List.Forall (fun c => (c < k)%nat) y ->
  forall w s a, length w = (k * S p)%nat -> length s = (k * S p)%nat ->
  multi_f ROps p k x y alpha w + a * vdot ROps (multi_df ROps p k x y alpha w) s
  <= multi_f ROps p k x y alpha (vadd ROps w (vscale ROps s a)).
Proof. rewrite multi_f_coded_fun, multi_df_coded_fun. intros Hx Hy. apply multi_tangent; assumption. Qed.

(* ---------------------------------------------------------------- two-class: the data term as a sum *)
Lemma fold_left_ext_in {A} (f g : R -> A -> R) (l : list A) :
  (forall a r, In r l -> f a r = g a r) -> forall a0, fold_left f l a0 = fold_left g l a0.
Proof.
  induction l as [|h l IH]; intros H a0; cbn [fold_left]; [reflexivity|].
  rewrite (H a0 h (or_introl eq_refl)). apply IH. intros a r Hr. apply H. right. exact Hr.
Qed.
Lemma lsum_const {A} c (l : list A) : lsum (fun _ => c) l = INR (length l) * c.
Proof.
  induction l as [|h l IH]; [cbn; lra|]. change (lsum (fun _ : A => c) (h :: l)) with (c + lsum (fun _ : A => c) l).
  rewrite IH. change (length (h :: l)) with (S (length l)). rewrite S_INR. lra.
Qed.
Lemma lsum_minus {A} (g h : A -> R) (l : list A) : lsum (fun r => g r - h r) l = lsum g l - lsum h l.
Proof.
  induction l as [|z l IH]; cbn [lsum fold_right]; [lra|].
  fold (lsum (fun r => g r - h r) l) (lsum g l) (lsum h l). lra.
Qed.
Lemma lsum_ge0 {A} (g : A -> R) (l : list A) : (forall r, In r l -> 0 <= g r) -> 0 <= lsum g l.
Proof. intros H. rewrite <- (lsum_zero l). apply lsum_le. exact H. Qed.
Lemma lsum_abs {A} (g : A -> R) (l : list A) : Rabs (lsum g l) <= lsum (fun r => Rabs (g r)) l.
Proof.
  induction l as [|z l IH]; cbn [lsum fold_right]; [rewrite Rabs_R0; lra|].
  fold (lsum g l) (lsum (fun r => Rabs (g r)) l). pose proof (Rabs_triang (g z) (lsum g l)). lra.
Qed.

Section Binary.
  Variables (p : nat) (x : list (list R)) (y : list nat) (alpha : R).

  Definition score (w row : list R) : R := partial_dot ROps w row 0.

  Lemma binary_f_gen_sum lse w :
    binary_f_gen ROps lse p x y alpha w =
    lsum (fun ry => lse (score w (fst ry)) - ofnat ROps (snd ry) * score w (fst ry)) (combine x y)
    + (if Rltb 0 alpha then penalty ROps alpha (firstn p w) else 0).
  Proof.
    unfold binary_f_gen. cbv zeta.
    rewrite (fold_left_lsum _ (fun ry => lse (score w (fst ry)) - ofnat ROps (snd ry) * score w (fst ry)))
      by (intros; reflexivity).
    change (oltb ROps (o0 ROps) alpha) with (Rltb 0 alpha). cbn [ROps o0 oadd].
    destruct (Rltb 0 alpha); lra.
  Qed.

  Definition ecoef (j : nat) (row : list R) : R := if (j <? p)%nat then nth j row 0 else 1.

  Lemma binary_df_entry_sum sg w j :
    binary_df_entry ROps sg p x y alpha w j =
    lsum (fun ry => - ((ofnat ROps (snd ry) - sg (score w (fst ry))) * ecoef j (fst ry))) (combine x y)
    + (if Rltb 0 alpha && (j <? p)%nat then alpha * nth j w 0 else 0).
  Proof.
    unfold binary_df_entry. cbv zeta.
    rewrite (fold_left_lsum _ (fun ry => - ((ofnat ROps (snd ry) - sg (score w (fst ry))) * ecoef j (fst ry)))).
    - change (oltb ROps (o0 ROps) alpha) with (Rltb 0 alpha). cbn [ROps o0 oadd omul].
      destruct (Rltb 0 alpha && (j <? p)%nat); lra.
    - intros acc ry. unfold ecoef, score. cbn [ROps osub omul o0]. destruct (j <? p)%nat; lra.
  Qed.

  (* exact agreement where the scores are inside the cut-offs *)
  Lemma binary_f_coded_in_range w :
    List.Forall (fun row => score w row <= 15) x ->
    binary_f ROps p x y alpha w = binary_f_gen ROps lse_exact p x y alpha w.
  Proof.
    intros H. unfold binary_f. rewrite !binary_f_gen_sum. f_equal. apply lsum_ext. intros [row yi] Hin. cbn [fst snd].
    rewrite Forall_forall in H. specialize (H row (in_combine_l _ _ _ _ Hin)).
    rewrite (proj1 (ln_1pe_stable (score w row)) H). reflexivity.
  Qed.

  Lemma binary_df_entry_coded_in_range w j :
    List.Forall (fun row => - 40 <= score w row <= 40) x ->
    binary_df_entry ROps (sigmoid ROps) p x y alpha w j = binary_df_entry ROps sig_exact p x y alpha w j.
  Proof.
    intros H. rewrite !binary_df_entry_sum. f_equal. apply lsum_ext. intros [row yi] Hin. cbn [fst snd].
    rewrite Forall_forall in H. specialize (H row (in_combine_l _ _ _ _ Hin)).
    rewrite (proj1 (sigmoid_stable (score w row)) H). reflexivity.
  Qed.

  Lemma binary_df_coded_in_range w :
    List.Forall (fun row => - 40 <= score w row <= 40) x ->
    binary_df ROps p x y alpha w = binary_df_gen ROps sig_exact p x y alpha w.
  Proof.
    intros H. unfold binary_df, binary_df_gen. apply map_ext. intros j. apply binary_df_entry_coded_in_range. exact H.
  Qed.

  Lemma nth_binary_df sg w j : (j <= p)%nat ->
    nth j (binary_df_gen ROps sg p x y alpha w) 0 = binary_df_entry ROps sg p x y alpha w j.
  Proof.
    intros Hj. unfold binary_df_gen. rewrite (nth_map_lt _ _ 0 0%nat) by (rewrite seq_length; lia).
    rewrite seq_nth by lia. reflexivity.
  Qed.

  (* everywhere: the coded objective is below the exact one by at most (rows) * e^-15 *)
  Lemma binary_f_coded_close w :
    0 <= binary_f_gen ROps lse_exact p x y alpha w - binary_f ROps p x y alpha w
      <= INR (length (combine x y)) * exp (- 15).
  Proof.
    unfold binary_f. rewrite !binary_f_gen_sum.
    match goal with |- 0 <= ?a + ?c - (?b + ?c) <= _ => replace (a + c - (b + c)) with (a - b) by lra end.
    rewrite <- lsum_minus. rewrite <- (lsum_const (exp (- 15)) (combine x y)). split.
    - apply lsum_ge0. intros ry _. pose proof (proj2 (ln_1pe_stable (score w (fst ry)))) as H.
      change lse_def with lse_exact in H. lra.
    - apply lsum_le. intros ry _. pose proof (proj2 (ln_1pe_stable (score w (fst ry)))) as H.
      change lse_def with lse_exact in H. lra.
  Qed.

  (* everywhere: gradient entry j differs by at most e^-40 * sum over rows of |x_ij| (of 1 for the bias) *)
  Lemma binary_df_entry_coded_close w j :
    Rabs (binary_df_entry ROps (sigmoid ROps) p x y alpha w j - binary_df_entry ROps sig_exact p x y alpha w j)
    <= exp (- 40) * lsum (fun ry => Rabs (ecoef j (fst ry))) (combine x y).
  Proof.
    rewrite !binary_df_entry_sum.
    match goal with |- Rabs (?a + ?c - (?b + ?c)) <= _ => replace (a + c - (b + c)) with (a - b) by lra end.
    rewrite <- lsum_minus, <- lsum_scal. eapply Rle_trans; [apply lsum_abs|]. apply lsum_le. intros ry _.
    pose proof (proj2 (sigmoid_stable (score w (fst ry)))) as H. change sig_def with sig_exact in H.
    match goal with |- Rabs ?e <= _ =>
      replace e with ((sigmoid ROps (score w (fst ry)) - sig_exact (score w (fst ry))) * ecoef j (fst ry)) by lra end.
    rewrite Rabs_mult. pose proof (Rabs_pos (ecoef j (fst ry))). nra.
  Qed.
End Binary.

(* ---------------------------------------------------------------- two-class: coded df = derivative of coded f *)
(* all scores stay below 15 in a neighbourhood of t0 when one coordinate moves *)
Lemma scores_locally_below (x : list (list R)) (w : list R) j : (j < length w)%nat ->
  List.Forall (fun row => score w row < 15) x ->
  locally (nth j w 0) (fun t => List.Forall (fun row => score (upd w j t) row <= 15) x).
Proof.
  intros Hj H. induction H as [|row x Hrow Hx IH].
  - apply filter_forall. intros t. constructor.
  - apply (filter_imp (fun t => score (upd w j t) row <= 15 /\ List.Forall (fun row => score (upd w j t) row <= 15) x)).
    { intros t [A B]. constructor; assumption. }
    apply filter_and; [|exact IH].
    set (a := partial_dot ROps (upd w j 0) row 0). set (c := pd_coef row 0 j).
    assert (Hcont : continuous (fun t => a + t * c) (nth j w 0)).
    { apply (ex_derive_continuous (fun t => a + t * c)). auto_derive. exact I. }
    assert (Hopen : locally (a + nth j w 0 * c) (fun z => z < 15)).
    { apply (open_lt 15). unfold score in Hrow. rewrite <- (upd_same w j) in Hrow.
      rewrite (partial_dot_affine w j (nth j w 0) row 0 Hj) in Hrow. exact Hrow. }
    specialize (Hcont _ Hopen). apply (filter_imp (fun t => a + t * c < 15)); [|exact Hcont].
    intros t Ht. unfold score. rewrite (partial_dot_affine w j t row 0 Hj). fold a c. lra.
Qed.

Lemma binary_coded_df_is_gradient p (x : list (list R)) (y : list nat) alpha (w : list R) j :
  length w = S p -> List.Forall (fun r => length r = p) x -> (j <= p)%nat ->
  List.Forall (fun row => - 40 <= score w row < 15) x ->
  is_derive (fun t => binary_f ROps p x y alpha (upd w j t)) (nth j w 0) (nth j (binary_df ROps p x y alpha w) 0).
Proof.
  intros Hw Hx Hj Hr.
  assert (Hr1 : List.Forall (fun row => score w row < 15) x) by (eapply Forall_impl; [|exact Hr]; cbv beta; intros; lra).
  assert (Hr2 : List.Forall (fun row => - 40 <= score w row <= 40) x) by (eapply Forall_impl; [|exact Hr]; cbv beta; intros; lra).
  rewrite (binary_df_coded_in_range p x y alpha w Hr2), nth_binary_df by exact Hj.
  apply (is_derive_ext_loc (fun t => binary_f_gen ROps lse_exact p x y alpha (upd w j t))).
  - assert (Hjw : (j < length w)%nat) by lia.
    generalize (scores_locally_below x w j Hjw Hr1). apply filter_imp. intros t Ht. symmetry.
    apply binary_f_coded_in_range. exact Ht.
  - apply binary_df_is_gradient; assumption.
Qed.

(* tangent inequality with the coded names, between two points whose scores are inside the cut-offs *)
Lemma binary_coded_tangent_in_range p (x : list (list R)) (y : list nat) alpha :
  List.Forall (fun r => length r = p) x ->
  forall w s a, length w = S p -> length s = S p ->
  List.Forall (fun row => - 40 <= score w row <= 15) x ->
  List.Forall (fun row => score (vadd ROps w (vscale ROps s a)) row <= 15) x ->
  binary_f ROps p x y alpha w + a * vdot ROps (binary_df ROps p x y alpha w) s
  <= binary_f ROps p x y alpha (vadd ROps w (vscale ROps s a)).
Proof.
  intros Hx w s a Hw Hs Hr Hr'.
  rewrite (binary_f_coded_in_range p x y alpha w), (binary_f_coded_in_range p x y alpha _ Hr'), binary_df_coded_in_range.
  - apply binary_tangent; assumption.
  - eapply Forall_impl; [|exact Hr]; cbv beta; intros; lra.
  - eapply Forall_impl; [|exact Hr]; cbv beta; intros; lra.
Qed.

(* ... and for ALL points, up to the shortcut of ln_1pe: with the exact gradient as slope the coded objective
   violates the tangent inequality by at most (rows) * e^-15 *)
Lemma binary_coded_tangent_approx p (x : list (list R)) (y : list nat) alpha :
  List.Forall (fun r => length r = p) x ->
  forall w s a, length w = S p -> length s = S p ->
  binary_f ROps p x y alpha w + a * vdot ROps (binary_df_gen ROps sig_exact p x y alpha w) s
  <= binary_f ROps p x y alpha (vadd ROps w (vscale ROps s a)) + INR (length (combine x y)) * exp (- 15).
Proof.
  intros Hx w s a Hw Hs. pose proof (binary_tangent p x y alpha Hx w s a Hw Hs) as Ht.
  pose proof (binary_f_coded_close p x y alpha w). pose proof (binary_f_coded_close p x y alpha (vadd ROps w (vscale ROps s a))).
  lra.
Qed.
