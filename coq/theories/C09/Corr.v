(* C09 — correspondence interface: the model instantiated at binary64 (`FOps`) and compared with what
   the implementation returned / recorded.  Used by harness/src/bin/c09.rs through `Eval vm_compute`.
   exp / ln are the software versions of Base/Elem.v (about an ulp), x^2 / x^3 are products, hence
   tolerance comparisons (1e-9 of the natural scale) wherever those occur; everything that only
   uses + - * / is compared exactly. *)
From Coq Require Import List ZArith NArith Bool Floats.
From SC Require Import Base.FloatUtil Base.Elem Base.Num C09.Model.
Import ListNotations.

Definition F := FOps.
Definition nats := map N.to_nat.
Definition tol9 : float := 0x1.12e0be826d695p-30%float.   (* 1e-9 *)
Definition tol7 : float := 0x1.ad7f29abcaf48p-24%float.   (* 1e-7 *)
Definition tol12 : float := 0x1.19799812dea11p-40%float.  (* 1e-12 *)
Definition feps : float := 0x1p-52%float.
Definition fsum (l : list float) : float := fold_left PrimFloat.add l 0%float.
Definition fninf (l : list float) : float := norm_inf F l.

(* ---- scalars ---- *)
Definition corr_scalars (xs ln1pe_exp sig_exp : list float) : bool :=
  flist_eq_tol tol12 (map (ln_1pe F) xs) ln1pe_exp && flist_eq_tol tol12 (map (sigmoid F) xs) sig_exp.
Definition corr_softmax (v expected : list float) : bool := flist_eq_tol tol12 (softmax F v) expected.

(* ---- objectives: value relative to max(1,|f|), gradient relative to the size of its summands ---- *)
Definition gscale (x : list (list float)) (alpha : float) (w : list float) : float :=
  PrimFloat.add (PrimFloat.add 1 (fsum (map (fun r => fmax 1 (fninf r)) x))) (PrimFloat.mul alpha (fninf w)).
Definition corr_binary (p : N) (x : list (list float)) (y : list N) (alpha : float) (w : list float)
           (f_exp : float) (g_exp : list float) : bool :=
  let p := N.to_nat p in let y := nats y in
  feq_tol tol9 (binary_f F p x y alpha w) f_exp &&
  list_eqb (feq_abs tol9 (gscale x alpha w)) (binary_df F p x y alpha w) g_exp.
Definition corr_multi (p k : N) (x : list (list float)) (y : list N) (alpha : float) (w : list float)
           (f_exp : float) (g_exp : list float) : bool :=
  let p := N.to_nat p in let k := N.to_nat k in let y := nats y in
  feq_tol tol9 (multi_f F p k x y alpha w) f_exp &&
  list_eqb (feq_abs tol9 (gscale x alpha w)) (multi_df F p k x y alpha w) g_exp.

(* ---- line search on phi(a) = horner cs a (+infinity beyond thr) ---- *)
Definition bt_default (third : bool) (max_iter : nat) : bt_params (T := float) :=
  mkBt 0x1.a36e2eb1c432dp-14%float max_iter 52 0.5%float 0x1.999999999999ap-4%float third feps.
Definition corr_linesearch (cs : list float) (thr alpha0 : float) (third : bool) (max_iter : N) (df0 : float)
           (expected : option (float * float)) : bool :=
  let phi := fun a => if PrimFloat.ltb thr a then infinity else horner cs a in
  let f0 := nth 0 cs 0%float in
  let scale := fmax 1 (fsum (map fabs cs)) in
  option_eqb (fun r e => feq_tol tol9 (fst r) (fst e) && feq_abs tol9 scale (snd r) (snd e))
             (bt_search F (bt_default third (N.to_nat max_iter)) phi alpha0 f0 df0) expected.

(* ---- recorded L-BFGS traces ---- *)
Definition rec_step : Type := (list float * list float * list float * (float * float * float * float))%type.
Definition lb_default (m max_iter : nat) : lb_params (T := float) :=
  mkLb max_iter 0x1.5798ee2308c3ap-27%float 0%float 0%float 0%float 0%float 1 m.
Definition c1 : float := 0x1.a36e2eb1c432dp-14%float.

(* the numbers of one recorded iteration: a positive step that passes exactly the test of the line-search loop
   in binary64 (sufficient decrease), and therefore no increase whenever the direction was a descent direction.
   (df0 < 0 itself is not required: the implementation produces directions with df0 >= 0 once its curvature
   pairs are rounding noise; the harness counts those steps.) *)
Definition step_numbers_ok (f df0 alpha fnew : float) : bool :=
  (PrimFloat.ltb 0 alpha &&
   negb (PrimFloat.ltb (PrimFloat.add f (PrimFloat.mul (PrimFloat.mul c1 alpha) df0)) fnew) &&
   (PrimFloat.leb fnew f || PrimFloat.ltb 0 df0))
  || (* the line search gave up (repair 78b374f): zero step, same point, same objective value *)
  (PrimFloat.eqb alpha 0 && PrimFloat.eqb fnew f).

Record replay_state := mkRs { rs_rho : list float; rs_dxh : list (list float); rs_dgh : list (list float);
                              rs_tla : list float; rs_iter : nat; rs_ok : bool }.

(* one step replayed on the implementation's own state: the direction is what the two-loop model gives for
   the recorded gradient and the history built from the earlier recorded steps; df0 = g.s; the next iterate is
   x + alpha*s; then the history is updated as update_hessian does *)
Definition replay_step (m : nat) (rs : replay_state) (st : rec_step) (x_next g_next : list float) : replay_state :=
  let '(x, g, s, (f, df0, alpha, fnew)) := st in
  let '(s_model, tla') := two_loops F m (rs_iter rs) g (rs_rho rs) (rs_dxh rs) (rs_dgh rs) (rs_tla rs) in
  let dx := vscale F s alpha in
  let ok :=
    Nat.eqb (length s_model) (length s) &&
    list_eqb (feq_abs tol7 (fninf s)) s_model s &&
    feq (vdot F g s) df0 &&
    flist_eq (vadd F x dx) x_next &&
    step_numbers_ok f df0 alpha fnew in
  let st0 := mkSt x_next x fnew f g_next g (rs_rho rs) (rs_dxh rs) (rs_dgh rs) dx tla' (rs_iter rs) 0 dx alpha in
  let st1 := update_hessian F (lb_default m 1000) st0 in
  mkRs (st_rho st1) (st_dxh st1) (st_dgh st1) tla' (S (rs_iter rs)) (rs_ok rs && ok).

Fixpoint replay_steps (m : nat) (rs : replay_state) (steps : list rec_step) (x_last g_last : list float) : replay_state :=
  match steps with
  | [] => rs
  | st :: rest =>
      let '(x_next, g_next) := match rest with
                               | (x', g', _, _) :: _ => (x', g')
                               | [] => (x_last, g_last)
                               end in
      replay_steps m (replay_step m rs st x_next g_next) rest x_last g_last
  end.

Definition replay_init (m : nat) (x0 : list float) : replay_state :=
  mkRs (repeat 0%float m) (repeat x0 m) (repeat x0 m) (repeat 0%float m) 0 true.

(* steps of a logistic-regression fit (a prefix of the run); x_last / g_last: iterate and gradient after it *)
Definition corr_trace (m : N) (steps : list rec_step) (x_last g_last : list float) : bool :=
  match steps with
  | [] => true
  | (x0, _, _, _) :: _ => rs_ok (replay_steps (N.to_nat m) (replay_init (N.to_nat m) x0) steps x_last g_last)
  end.

(* ---- L-BFGS on f(x) = 1/2 x'Ax - b'x: the recorded trace against the model with this objective ---- *)
Definition quad_f (A : list (list float)) (b x : list float) : float :=
  PrimFloat.sub (PrimFloat.mul 0.5 (vdot F x (map (fun row => vdot F row x) A))) (vdot F b x).
Definition quad_df (A : list (list float)) (b x : list float) : list float :=
  map2 (fun row bi => PrimFloat.sub (vdot F row x) bi) A b.

(* per step: objective and gradient values are those of the model objective; the step length equals the model
   line search on phi(a) = f(x + a s) whenever that needs at most one interpolation (the model is run with a
   budget of one and answers with the zero step when it needs more; with two or more the
   cubic fit of an exactly quadratic function divides rounding noise by rounding noise, so only the Armijo
   test is checked there); the convergence test of the model says "continue" after every step but the last
   and agrees with the recorded exit reason after the last *)
Fixpoint quad_steps (A : list (list float)) (b : list float) (L : lb_params (T := float)) (third : bool)
         (counter : nat) (steps : list rec_step) (x_last g_last : list float) (exit : N) (max_iter : nat) (k : nat) : bool :=
  match steps with
  | [] => true
  | (x, g, s, (f, df0, alpha, fnew)) :: rest =>
      let '(x_next, g_next) := match rest with
                               | (x', g', _, _) :: _ => (x', g')
                               | [] => (x_last, g_last)
                               end in
      let vals := feq (quad_f A b x) f && flist_eq (quad_df A b x) g && feq (quad_f A b x_next) fnew
                  && flist_eq (quad_df A b x_next) g_next in
      let phi := fun a => quad_f A b (vadd F (vscale F s a) x) in
      let ls := match bt_search F (bt_default third 0) phi 1%float f df0 with
                | Some (a, _) => PrimFloat.eqb a 0 || feq_tol tol9 a alpha   (* a = 0: more than one interpolation *)
                | None => true
                end in
      let st := mkSt x_next x fnew f g_next g [] [] [] [] [] k counter [] alpha in
      let '(conv, st') := assess_convergence F L st in
      let last := match rest with [] => true | _ => false end in
      let exit_ok :=
        if last then
          if conv then (N.eqb exit 1 || N.eqb exit 2 || N.eqb exit 3)
          else N.eqb exit 4 && Nat.eqb (S k) max_iter
        else negb conv in
      vals && ls && exit_ok &&
      quad_steps A b L third (st_counter st') rest x_last g_last exit max_iter (S k)
  end.

Definition corr_quad_trace (A : list (list float)) (b x0 : list float) (third : bool) (m max_iter : N)
           (steps : list rec_step) (x_last g_last : list float) (exit : N) : bool :=
  let m := N.to_nat m in let max_iter := N.to_nat max_iter in
  let L := lb_default m max_iter in
  match steps with
  | [] => (* no iteration: the starting gradient is below g_atol *)
      N.eqb exit 0 && PrimFloat.ltb (fninf (quad_df A b x0)) (lb_g_atol L) && flist_eq x_last x0
  | (x, _, _, _) :: _ =>
      flist_eq x x0 &&
      negb (PrimFloat.ltb (fninf (quad_df A b x0)) (lb_g_atol L)) &&
      rs_ok (replay_steps m (replay_init m x0) steps x_last g_last) &&
      quad_steps A b L third 0 steps x_last g_last exit max_iter 0
  end.

(* ---- predict on the fitted coefficients ---- *)
Definition corr_predict (coef : list (list float)) (icpt classes : list float) (queries : list (list float))
           (expected : list float) : bool :=
  flist_eq (lr_predict F (mkLr coef icpt classes (length classes)) queries) expected.

(* ---- the whole fit inside Coq (small, strongly penalised problems): same classes, coefficients within
   1e-5 of the scale of the solution ---- *)
Definition corr_fit (p : N) (x : list (list float)) (y : list float) (alpha : float)
           (coef_exp : list (list float)) (icpt_exp classes_exp : list float) : bool :=
  match lr_fit F (lb_default 10 1000) (bt_default true 1000) (N.to_nat p) x y alpha with
  | None => false
  | Some M =>
      let scale := fmax 1 (fmax (fninf (concat coef_exp)) (fninf icpt_exp)) in
      let t5 := 0x1.4f8b588e368f1p-17%float in
      list_eqb (list_eqb (feq_abs t5 scale)) (lr_coef M) coef_exp &&
      list_eqb (feq_abs t5 scale) (lr_intercept M) icpt_exp &&
      flist_eq (lr_classes M) classes_exp
  end.
