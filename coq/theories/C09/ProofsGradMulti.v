(* C09 — the coded gradient of the multinomial objective is the derivative of the coded objective (over R, with the
   shift-free softmax of ProofsStable). *)
From Coq Require Import List ZArith Bool Reals Lra Lia Arith.
From Coquelicot Require Import Coquelicot.
From SC Require Import Base.Num C09.Model C09.ProofsSearch C09.ProofsGrad C09.ProofsStable.
Import ListNotations.
Local Open Scope R_scope.

(* ---------------------------------------------------------------- index arithmetic *)
Lemma block_unique p q j : (j * S p <= q)%nat -> (q <= j * S p + p)%nat -> j = (q / S p)%nat /\ (q - j * S p)%nat = (q mod S p)%nat.
Proof.
  intros H1 H2. assert (Hq : q = (S p * j + (q - j * S p))%nat) by lia.
  assert (Hr : (q - j * S p < S p)%nat) by lia.
  split.
  - apply (Nat.div_unique q (S p) j (q - j * S p)); assumption.
  - apply (Nat.mod_unique q (S p) j (q - j * S p)); assumption.
Qed.

(* coefficient of w_q in the score of class j (row of length p): only the class q / (p+1) sees w_q *)
Lemma pd_coef_block p (row : list R) q j : length row = p ->
  pd_coef row (j * S p) q =
  if Nat.eqb j (q / S p) then (if (q mod S p <? p)%nat then nth (q mod S p) row 0 else 1) else 0.
Proof.
  intros Hrow. unfold pd_coef. rewrite Hrow.
  assert (Hdm : q = (S p * (q / S p) + q mod S p)%nat) by (apply Nat.div_mod; lia).
  assert (Hml : (q mod S p < S p)%nat) by (apply Nat.mod_upper_bound; lia).
  destruct (Nat.eqb j (q / S p)) eqn:Ej.
  - apply Nat.eqb_eq in Ej. subst j. set (d := (q / S p)%nat) in *. set (l := (q mod S p)%nat) in *.
    assert (Hle : (d * S p <= q)%nat) by lia.
    replace (d * S p <=? q)%nat with true by (symmetry; apply Nat.leb_le; exact Hle).
    replace (q - d * S p)%nat with l by lia. cbn [andb].
    destruct (l <? p)%nat eqn:El.
    + apply Nat.ltb_lt in El.
      replace (q <? d * S p + p)%nat with true by (symmetry; apply Nat.ltb_lt; lia).
      replace (Nat.eqb q (p + d * S p)) with false by (symmetry; apply Nat.eqb_neq; lia). lra.
    + apply Nat.ltb_ge in El.
      replace (q <? d * S p + p)%nat with false by (symmetry; apply Nat.ltb_ge; lia).
      replace (Nat.eqb q (p + d * S p)) with true by (symmetry; apply Nat.eqb_eq; lia). lra.
  - apply Nat.eqb_neq in Ej.
    destruct ((j * S p <=? q)%nat && (q <? j * S p + p)%nat) eqn:E1.
    + apply andb_prop in E1. destruct E1 as [A B]. apply Nat.leb_le in A. apply Nat.ltb_lt in B.
      destruct (block_unique p q j A ltac:(lia)) as [Hj _]. contradiction.
    + destruct (Nat.eqb q (p + j * S p)) eqn:E2; [|lra].
      apply Nat.eqb_eq in E2. destruct (block_unique p q j ltac:(lia) ltac:(lia)) as [Hj _]. contradiction.
Qed.

(* ---------------------------------------------------------------- sums *)
Lemma vsum_map_fold {A} (g : A -> R) (l : list A) : forall a,
  fold_left (fun acc x => oadd ROps acc x) (map g l) a = fold_left (fun acc j => acc + g j) l a.
Proof. induction l as [|h l IH]; intros a; cbn [map fold_left]; [reflexivity|]. apply IH. Qed.

Lemma sum_single (d : nat -> R) j0 (l : list nat) : NoDup l -> In j0 l ->
  (forall j, In j l -> j <> j0 -> d j = 0) -> forall a, fold_left (fun acc j => acc + d j) l a = a + d j0.
Proof.
  induction l as [|h l IH]; intros Hnd Hin Hz a; [destruct Hin|].
  inversion Hnd as [|? ? Hnh Hnd']; subst. cbn [fold_left]. destruct Hin as [->|Hin].
  - assert (forall b, fold_left (fun acc j => acc + d j) l b = b) as Hrest.
    { assert (Hz' : forall j, In j l -> d j = 0).
      { intros j Hj. apply Hz; [right; exact Hj|]. intro; subst. contradiction. }
      clear -Hz'. induction l as [|k l IHl]; intros b; cbn [fold_left]; [reflexivity|].
      rewrite IHl; [|intros j Hj; apply Hz'; right; exact Hj]. rewrite (Hz' k (or_introl eq_refl)). lra. }
    apply Hrest.
  - rewrite IH; try assumption; [|intros j Hj; apply Hz; right; exact Hj].
    rewrite (Hz h (or_introl eq_refl)); [lra|]. intro; subst. contradiction.
Qed.
Lemma sum_none (d : nat -> R) (l : list nat) : (forall j, In j l -> d j = 0) -> forall a, fold_left (fun acc j => acc + d j) l a = a.
Proof.
  induction l as [|k l IHl]; intros Hz b; cbn [fold_left]; [reflexivity|].
  rewrite IHl; [|intros j Hj; apply Hz; right; exact Hj]. rewrite (Hz k (or_introl eq_refl)). lra.
Qed.

Lemma nth_map_lt {A B} (g : A -> B) (l : list A) d d' : forall j, (j < length l)%nat -> nth j (map g l) d = g (nth j l d').
Proof. induction l as [|h l IH]; intros [|j] Hj; cbn in *; try lia; [reflexivity | apply IH; lia]. Qed.
Lemma nth_scores p k (w row : list R) j : (j < k)%nat -> nth j (scores ROps p k w row) 0 = partial_dot ROps w row (j * S p).
Proof.
  intros Hj. unfold scores. rewrite (nth_map_lt _ _ 0 0%nat) by (rewrite seq_length; exact Hj).
  rewrite seq_nth by exact Hj. reflexivity.
Qed.
Lemma nth_softmax_def (l : list R) j : (j < length l)%nat -> nth j (softmax_def l) 0 = exp (nth j l 0) / vsum ROps (map exp l).
Proof. intros Hj. unfold softmax_def. rewrite (nth_map_lt _ _ 0 0) by exact Hj. reflexivity. Qed.
Lemma scores_length p k (w row : list R) : length (scores ROps p k w row) = k.
Proof. unfold scores. rewrite map_length, seq_length. reflexivity. Qed.

Lemma fold_left_ext_R {A} (f g : R -> A -> R) (l : list A) : (forall a j, f a j = g a j) -> forall a0, fold_left f l a0 = fold_left g l a0.
Proof. intros H. induction l as [|h l IH]; intros a0; cbn [fold_left]; [reflexivity|]. rewrite H. apply IH. Qed.

Lemma ln_exp_div u z : 0 < z -> ln (exp u / z) = u - ln z.
Proof. intros Hz. unfold Rdiv. rewrite ln_mult by (try apply exp_pos; apply Rinv_0_lt_compat; exact Hz). rewrite ln_exp, ln_Rinv by exact Hz. lra. Qed.

(* ---------------------------------------------------------------- one row of the data term *)
Lemma multi_row_derive p k (w : list R) q (row : list R) y :
  length w = (k * S p)%nat -> (q < k * S p)%nat -> length row = p -> (y < k)%nat ->
  is_derive (fun t => - ln (nth y (softmax_def (scores ROps p k (upd w q t) row)) 0)) (nth q w 0)
    (- (((if Nat.eqb y (q / S p) then 1 else 0) - nth (q / S p) (softmax_def (scores ROps p k w row)) 0)
        * (if (q mod S p <? p)%nat then nth (q mod S p) row 0 else 1))).
Proof.
  intros Hw Hq Hrow Hy.
  assert (Hqw : (q < length w)%nat) by lia.
  set (t0 := nth q w 0). set (j0 := (q / S p)%nat). set (l := (q mod S p)%nat).
  set (c := if (l <? p)%nat then nth l row 0 else 1).
  assert (Hj0 : (j0 < k)%nat) by (apply Nat.div_lt_upper_bound; lia).
  set (a := fun j => partial_dot ROps (upd w q 0) row (j * S p)).
  set (cj := fun j => if Nat.eqb j j0 then c else 0).
  assert (Hpd : forall t j, partial_dot ROps (upd w q t) row (j * S p) = a j + t * cj j).
  { intros t j. rewrite (partial_dot_affine w q t row (j * S p) Hqw). rewrite (pd_coef_block p row q j Hrow). reflexivity. }
  assert (Hs : forall t j, (j < k)%nat -> nth j (scores ROps p k (upd w q t) row) 0 = a j + t * cj j).
  { intros t j Hj. rewrite nth_scores by exact Hj. apply Hpd. }
  set (Z := fun t => vsum ROps (map exp (scores ROps p k (upd w q t) row))).
  assert (HZeq : forall t, Z t = fold_left (fun acc j => acc + exp (a j + t * cj j)) (seq 0 k) 0).
  { intros t. unfold Z, scores, vsum. rewrite map_map, vsum_map_fold. apply fold_left_ext_R.
    intros acc j. rewrite Hpd. reflexivity. }
  assert (HZpos : forall t, 0 < Z t).
  { intros t. apply vsum_exp_pos. intro H0. apply (f_equal (@length R)) in H0. rewrite scores_length in H0. cbn in H0. lia. }
  assert (HZd : is_derive Z t0 (c * exp (a j0 + t0 * c))).
  { apply (is_derive_ext (fun t => fold_left (fun acc j => acc + exp (a j + t * cj j)) (seq 0 k) ((fun _ => 0) t))).
    { intros t. symmetry. apply HZeq. }
    assert (Hd : is_derive (fun t => fold_left (fun acc j => acc + exp (a j + t * cj j)) (seq 0 k) ((fun _ => 0) t)) t0
                   (fold_left (fun acc j => acc + cj j * exp (a j + t0 * cj j)) (seq 0 k) 0)).
    { apply (fold_sum_derive (seq 0 k) (fun j t => exp (a j + t * cj j)) (fun j => cj j * exp (a j + t0 * cj j))).
      - intros; reflexivity.
      - intros j _. auto_derive; [exact I|]. ring.
      - apply @is_derive_const. }
    rewrite (sum_single (fun j => cj j * exp (a j + t0 * cj j)) j0) in Hd.
    - assert (Hcj0 : cj j0 = c) by (unfold cj; rewrite Nat.eqb_refl; reflexivity).
      rewrite !Hcj0, Rplus_0_l in Hd. exact Hd.
    - apply seq_NoDup.
    - apply in_seq. lia.
    - intros j _ Hne. unfold cj. apply Nat.eqb_neq in Hne. rewrite Hne. ring. }
  apply (is_derive_ext (fun t => - ((a y + t * cj y) - ln (Z t)))).
  { intros t. rewrite nth_softmax_def by (rewrite scores_length; exact Hy). rewrite Hs by exact Hy.
    fold (Z t). rewrite ln_exp_div by apply HZpos. reflexivity. }
  assert (Hprob : nth j0 (softmax_def (scores ROps p k w row)) 0 = exp (a j0 + t0 * c) / Z t0).
  { rewrite <- (upd_same w q) at 1. fold t0. rewrite nth_softmax_def by (rewrite scores_length; exact Hj0).
    rewrite Hs by exact Hj0. fold (Z t0). unfold cj. rewrite Nat.eqb_refl. reflexivity. }
  rewrite Hprob.
  auto_derive.
  - split; [exists (c * exp (a j0 + t0 * c)); exact HZd|]. split; [apply HZpos | exact I].
  - replace (Derive (fun x : R => Z x) t0) with (c * exp (a j0 + t0 * c)) by (symmetry; apply is_derive_unique; exact HZd).
    pose proof (HZpos t0) as Hp. unfold cj.
    destruct (Nat.eqb y j0); field; lra.
Qed.

(* ---------------------------------------------------------------- the penalty *)
Lemma fold_acc_R {A} (g : A -> R) (l : list A) : forall a, fold_left (fun acc j => acc + g j) l a = a + fold_left (fun acc j => acc + g j) l 0.
Proof. induction l as [|h l IH]; intros a; cbn [fold_left]; [lra|]. rewrite IH, (IH (0 + g h)). lra. Qed.

Definition dsum (p k : nat) (w : list R) : R :=
  fold_left (fun acc i => fold_left (fun acc2 j => let wi := nth (i * S p + j)%nat w 0 in acc2 + wi * wi) (seq 0 p) acc) (seq 0 k) 0.

Lemma dsum_derive p k (w : list R) q : (q < length w)%nat -> (q < k * S p)%nat ->
  is_derive (fun t => dsum p k (upd w q t)) (nth q w 0) (if (q mod S p <? p)%nat then 2 * nth q w 0 else 0).
Proof.
  intros Hqw Hq. set (t0 := nth q w 0). set (j0 := (q / S p)%nat). set (l := (q mod S p)%nat).
  assert (Hj0 : (j0 < k)%nat) by (apply Nat.div_lt_upper_bound; lia).
  assert (Hdm : q = (S p * j0 + l)%nat) by (apply Nat.div_mod; lia).
  assert (Hml : (l < S p)%nat) by (apply Nat.mod_upper_bound; lia).
  set (v := fun i j t => (if Nat.eqb (i * S p + j) q then t else nth (i * S p + j) w 0) * (if Nat.eqb (i * S p + j) q then t else nth (i * S p + j) w 0)).
  set (d := fun i j => if Nat.eqb (i * S p + j) q then 2 * t0 else 0).
  assert (Hv : forall i j, is_derive (v i j) t0 (d i j)).
  { intros i j. unfold v, d. destruct (Nat.eqb (i * S p + j) q); auto_derive; try exact I; ring. }
  set (inner := fun i t => fold_left (fun acc2 j => acc2 + v i j t) (seq 0 p) 0).
  set (D := fun i => fold_left (fun acc j => acc + d i j) (seq 0 p) 0).
  assert (Hinner : forall i, is_derive (inner i) t0 (D i)).
  { intros i. unfold inner, D.
    apply (fold_sum_derive (seq 0 p) (fun j t => v i j t) (fun j => d i j) (fun acc j => acc + d i j) t0
             (fun _ _ => eq_refl) (fun j _ => Hv i j) (fun _ => 0) 0). apply @is_derive_const. }
  apply (is_derive_ext (fun t => fold_left (fun acc i => acc + inner i t) (seq 0 k) ((fun _ => 0) t))).
  { intros t. unfold dsum. apply fold_left_ext_R. intros acc i. unfold inner.
    symmetry. transitivity (fold_left (fun acc2 j => acc2 + v i j t) (seq 0 p) acc).
    - apply fold_left_ext_R. intros acc2 j. cbv zeta. rewrite (nth_upd w q t (i * S p + j) Hqw). reflexivity.
    - apply fold_acc_R. }
  assert (Hd : is_derive (fun t => fold_left (fun acc i => acc + inner i t) (seq 0 k) ((fun _ => 0) t)) t0
                 (fold_left (fun acc i => acc + D i) (seq 0 k) 0)).
  { apply (fold_sum_derive (seq 0 k) inner D (fun acc i => acc + D i) t0 (fun _ _ => eq_refl) (fun i _ => Hinner i) (fun _ => 0) 0).
    apply @is_derive_const. }
  assert (HD : fold_left (fun acc i => acc + D i) (seq 0 k) 0 = if (l <? p)%nat then 2 * t0 else 0).
  { rewrite (sum_single D j0); [| apply seq_NoDup | apply in_seq; lia |].
    - rewrite Rplus_0_l. unfold D. destruct (l <? p)%nat eqn:El.
      + apply Nat.ltb_lt in El. rewrite (sum_single (d j0) l); [| apply seq_NoDup | apply in_seq; lia |].
        * unfold d. replace (Nat.eqb (j0 * S p + l) q) with true by (symmetry; apply Nat.eqb_eq; lia). lra.
        * intros j _ Hne. unfold d. replace (Nat.eqb (j0 * S p + j) q) with false; [reflexivity|].
          symmetry. apply Nat.eqb_neq. lia.
      + apply Nat.ltb_ge in El. apply sum_none. intros j Hj. apply in_seq in Hj. unfold d.
        replace (Nat.eqb (j0 * S p + j) q) with false; [reflexivity|]. symmetry. apply Nat.eqb_neq. lia.
    - intros i _ Hne. unfold D. apply sum_none. intros j Hj. apply in_seq in Hj. unfold d.
      replace (Nat.eqb (i * S p + j) q) with false; [reflexivity|]. symmetry. apply Nat.eqb_neq. intro Heq.
      destruct (block_unique p q i ltac:(lia) ltac:(lia)) as [Hi _]. fold j0 in Hi. contradiction. }
  rewrite HD in Hd. exact Hd.
Qed.

(* ---------------------------------------------------------------- the multinomial objective *)
Lemma is_derive_eq (f : R -> R) x l l' : is_derive f x l -> l = l' -> is_derive f x l'.
Proof. intros H <-. exact H. Qed.

Lemma multiclass_df_is_gradient p k (x : list (list R)) (y : list nat) alpha (w : list R) q :
  length w = (k * S p)%nat -> List.Forall (fun r => length r = p) x -> List.Forall (fun c => (c < k)%nat) y ->
  (q < k * S p)%nat ->
  is_derive (fun t => multi_f_gen ROps softmax_def p k x y alpha (upd w q t)) (nth q w 0)
            (multi_df_entry ROps softmax_def p k x y alpha w q).
Proof.
  intros Hw Hx Hy Hq. assert (Hqw : (q < length w)%nat) by lia.
  set (t0 := nth q w 0).
  assert (Hdata : forall F G, is_derive F t0 G ->
    is_derive (fun t => fold_left (fun acc ry => acc - ln (nth (snd ry) (softmax_def (scores ROps p k (upd w q t) (fst ry))) 0))
                                  (combine x y) (F t)) t0
              (fold_left (fun acc ry =>
                            let prob := softmax_def (scores ROps p k w (fst ry)) in
                            let yi := (if Nat.eqb (snd ry) (q / S p) then 1 else 0) - nth (q / S p) prob 0 in
                            if (q mod S p <? p)%nat then acc - yi * nth (q mod S p) (fst ry) 0 else acc - yi) (combine x y) G)).
  { intros F G HF.
    apply (is_derive_ext (fun t => fold_left (fun acc ry => acc + - ln (nth (snd ry) (softmax_def (scores ROps p k (upd w q t) (fst ry))) 0))
                                  (combine x y) (F t))).
    { intros t. apply fold_left_ext_R. intros; lra. }
    apply (fold_sum_derive (combine x y)
             (fun ry t => - ln (nth (snd ry) (softmax_def (scores ROps p k (upd w q t) (fst ry))) 0))
             (fun ry => - (((if Nat.eqb (snd ry) (q / S p) then 1 else 0) - nth (q / S p) (softmax_def (scores ROps p k w (fst ry))) 0)
                           * (if (q mod S p <? p)%nat then nth (q mod S p) (fst ry) 0 else 1)))); [| |exact HF].
    - intros acc ry. cbv zeta. destruct (q mod S p <? p)%nat; lra.
    - intros [row yi] Hin. cbn [fst snd].
      apply multi_row_derive; try assumption.
      + apply in_combine_l in Hin. rewrite List.Forall_forall in Hx. apply Hx, Hin.
      + apply in_combine_r in Hin. rewrite List.Forall_forall in Hy. apply Hy, Hin. }
  unfold multi_f_gen, multi_df_entry. cbv zeta. rewrite !Rltb_ROps. cbn [ROps o0 o1 oadd omul osub oln].
  destruct (Rltb 0 alpha) eqn:Ea; cbn [andb].
  - pose proof (Hdata (fun _ => 0) 0 (@is_derive_const R_AbsRing R_NormedModule 0 t0)) as H1.
    pose proof (is_derive_scal (fun t => dsum p k (upd w q t)) t0 (half ROps * alpha) _
                  (dsum_derive p k w q Hqw Hq)) as H2.
    pose proof (is_derive_plus (K := R_AbsRing) _ _ _ _ _ H1 H2) as H3.
    match type of H1 with is_derive _ _ ?g => set (gd := g) in * end. clearbody gd.
    refine (is_derive_eq _ _ _ _ H3 _).
    fold t0. generalize t0. intros u. clear. unfold half, two, cst.
    destruct (q mod S p <? p)%nat; unfold plus, scal, mult; cbn; field.
  - apply (Hdata (fun _ => 0) 0). apply @is_derive_const.
Qed.
