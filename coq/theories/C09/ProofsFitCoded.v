(* C09 — `lr_fit` (the model of LogisticRegression::fit with the code's own overflow-safe scalar functions) as a
   composition, by name:  class mapping (sorted distinct label values, every label replaced by its index)  ->
   coded objective `binary_f`/`multi_f` and gradient `binary_df`/`multi_df` on the indices  ->  the L-BFGS driver
   `optimize` from the all-zero start  ->  reshaping of the returned point into coefficient rows and intercepts.
   And what the optimiser theorems give for this composition:
     * both variants: the recorded trace is an Armijo chain for the CODED objective and gradient from the value at
       zero to the value at the returned weights (so no increase along a run whose moving steps are non-ascent);
     * multinomial (k <> 2): coded = exact, hence no increase on EVERY returned run, no hypothesis on the directions;
       and `lr_fit` IS `lr_fit_gen` with the exact forms (the function C09_logistic_fit_never_increases is about).
     * two-class: the unconditional statement is for `lr_fit_gen` with the exact forms only; the coded `ln_1pe`
       jumps down by ln(1+e^-15) at 15, so the coded objective is not convex and the convex route does not apply
       (ProofsCoded bounds the defect by rows * e^-15). *)
From Coq Require Import List ZArith Bool Reals Lra Lia Arith Sorted.
From SC Require Import Base.Num C09.Model C09.ProofsSearch C09.ProofsGrad C09.ProofsStable C09.ProofsGradMulti
     C09.ProofsConvex C09.ProofsConvexMulti C09.ProofsFit C09.ProofsCoded.
Import ListNotations.
Local Open Scope R_scope.

(* ---------------------------------------------------------------- class mapping *)
Lemma ins_uniq_in v (l : list R) u : In u (ins_uniq ROps v l) <-> u = v \/ In u l.
Proof.
  induction l as [|h t IH]; cbn [ins_uniq].
  - cbn. intuition.
  - change (oltb ROps v h) with (Rltb v h). change (oeqb ROps v h) with (Reqb v h).
    destruct (Rltb v h); [cbn; intuition|]. destruct (Reqb v h) eqn:E.
    + apply Reqb_true in E. subst h. cbn. intuition.
    + cbn [In]. rewrite IH. intuition.
Qed.

Lemma ins_uniq_sorted v (l : list R) : StronglySorted Rlt l -> StronglySorted Rlt (ins_uniq ROps v l).
Proof.
  induction 1 as [|h t Ht IH Hh]; cbn [ins_uniq].
  - repeat constructor.
  - change (oltb ROps v h) with (Rltb v h). change (oeqb ROps v h) with (Reqb v h).
    destruct (Rltb v h) eqn:E1.
    + apply Rltb_true in E1. constructor; [constructor; assumption|]. constructor; [exact E1|].
      eapply Forall_impl; [|exact Hh]. cbv beta. intros; lra.
    + destruct (Reqb v h) eqn:E2; [constructor; assumption|]. apply Rltb_false in E1. apply Reqb_false in E2.
      constructor; [exact IH|]. apply Forall_forall. intros u Hu. apply ins_uniq_in in Hu.
      destruct Hu as [->|Hu]; [lra|]. rewrite Forall_forall in Hh. apply Hh, Hu.
Qed.

Lemma unique_acc_spec (y : list R) : forall acc, StronglySorted Rlt acc ->
  StronglySorted Rlt (fold_left (fun a v => ins_uniq ROps v a) y acc) /\
  forall u, In u (fold_left (fun a v => ins_uniq ROps v a) y acc) <-> In u acc \/ In u y.
Proof.
  induction y as [|v y IH]; intros acc Hs; cbn [fold_left].
  - split; [exact Hs|]. intros u. cbn. intuition.
  - destruct (IH (ins_uniq ROps v acc) (ins_uniq_sorted v acc Hs)) as [H1 H2]. split; [exact H1|].
    intros u. rewrite H2, ins_uniq_in. cbn [In]. intuition.
Qed.

Lemma unique_spec (y : list R) :
  StronglySorted Rlt (unique ROps y) /\ forall u, In u (unique ROps y) <-> In u y.
Proof.
  destruct (unique_acc_spec y [] (SSorted_nil _)) as [H1 H2]. split; [exact H1|].
  intros u. unfold unique. rewrite H2. cbn. intuition.
Qed.

Lemma position_nth v (l : list R) : forall i, position ROps v l = Some i -> nth i l 0 = v.
Proof.
  induction l as [|h l IH]; intros i H; cbn in H; [discriminate|].
  destruct (Reqb v h) eqn:E; [inversion H; cbn; symmetry; apply Reqb_true; exact E|].
  destruct (position ROps v l) as [j|]; cbn in H; [|discriminate]. inversion H. cbn. apply IH. reflexivity.
Qed.
Lemma position_some v (l : list R) : In v l -> exists i, position ROps v l = Some i.
Proof.
  induction l as [|h l IH]; intros Hin; [destruct Hin|]. cbn [position]. change (oeqb ROps v h) with (Reqb v h).
  destruct (Reqb v h) eqn:E; [exists 0%nat; reflexivity|].
  destruct Hin as [->|Hin]; [apply Reqb_false in E; congruence|].
  destruct (IH Hin) as [i ->]. exists (S i). reflexivity.
Qed.

(* the class mapping of fit: classes = the distinct label values in increasing order; every label is replaced by
   the index of its value in that list *)
Lemma class_mapping (y : list R) :
  let classes := unique ROps y in
  StronglySorted Rlt classes /\ (forall u, In u classes <-> In u y) /\
  length (lr_class_indices y) = length y /\
  forall i, (i < length y)%nat ->
    (nth i (lr_class_indices y) 0 < length classes)%nat /\ nth (nth i (lr_class_indices y) 0%nat) classes 0 = nth i y 0.
Proof.
  cbv zeta. destruct (unique_spec y) as [Hs Hin]. split; [exact Hs|]. split; [exact Hin|].
  split; [unfold lr_class_indices; apply map_length|]. intros i Hi.
  unfold lr_class_indices. rewrite (nth_map_lt _ _ 0%nat 0) by exact Hi.
  destruct (position_some (nth i y 0) (unique ROps y)) as [c Hc]; [apply Hin, nth_In, Hi|].
  rewrite Hc. split; [eapply position_lt; exact Hc | apply position_nth; exact Hc].
Qed.

(* ---------------------------------------------------------------- the composition *)
Definition lr_dim (p k : nat) : nat := if Nat.eqb k 2 then S p else (k * S p)%nat.
Definition lr_coded_f (p k : nat) (x : list (list R)) (yi : list nat) (alpha : R) : list R -> R :=
  if Nat.eqb k 2 then binary_f ROps p x yi alpha else multi_f ROps p k x yi alpha.
Definition lr_coded_df (p k : nat) (x : list (list R)) (yi : list nat) (alpha : R) : list R -> list R :=
  if Nat.eqb k 2 then binary_df ROps p x yi alpha else multi_df ROps p k x yi alpha.
Definition lr_reshape (p k : nat) (classes : list R) (w : list R) : lr_model (T := R) :=
  if Nat.eqb k 2 then mkLr [firstn p w] [nth p w 0] classes k
  else mkLr (map (firstn p) (split_rows p k w)) (map (fun r => nth p r 0) (split_rows p k w)) classes k.

Lemma lr_fit_is_composition (L : lb_params (T := R)) (B : bt_params (T := R)) p x y alpha M :
  lr_fit ROps L B p x y alpha = Some M ->
  let classes := unique ROps y in
  let k := length classes in
  let yi := lr_class_indices y in
  length x = length y /\ (2 <= k)%nat /\
  exists st tr conv,
    optimize ROps (lr_coded_f p k x yi alpha) (lr_coded_df p k x yi alpha) L B (zeros ROps (lr_dim p k)) = Some (st, tr, conv) /\
    M = lr_reshape p k classes (st_x st).
Proof.
  unfold lr_fit, lr_fit_gen. cbv zeta.
  destruct (Nat.eqb (length x) (length y)) eqn:El; cbn [negb]; [|discriminate]. apply Nat.eqb_eq in El.
  fold (lr_class_indices y). set (k := length (unique ROps y)). set (yi := lr_class_indices y).
  destruct (k <? 2)%nat eqn:Ek2; [discriminate|]. apply Nat.ltb_ge in Ek2.
  unfold lr_coded_f, lr_coded_df, lr_dim, lr_reshape. destruct (Nat.eqb k 2) eqn:Ek.
  - fold (binary_f ROps) (binary_df ROps).
    destruct (optimize ROps _ _ L B (zeros ROps (S p))) as [[[st tr] conv]|] eqn:E; [|discriminate].
    intros HM. injection HM as <-. split; [exact El|]. split; [exact Ek2|]. exists st, tr, conv. split; reflexivity.
  - fold (multi_f ROps) (multi_df ROps).
    destruct (optimize ROps _ _ L B (zeros ROps (k * S p))) as [[[st tr] conv]|] eqn:E; [|discriminate].
    intros HM. injection HM as <-. split; [exact El|]. split; [exact Ek2|]. exists st, tr, conv. split; reflexivity.
Qed.

(* reshaping loses nothing: the flat vector is recovered from the model *)
Lemma lr_weights_reshape p k classes (w : list R) : length w = lr_dim p k -> lr_weights (lr_reshape p k classes w) = w.
Proof.
  unfold lr_dim, lr_reshape, lr_weights. destruct (Nat.eqb k 2); intros Hw; cbn [lr_coef lr_intercept].
  - cbn [map2 concat]. rewrite app_nil_r. apply block_reassemble. exact Hw.
  - apply split_rows_concat. exact Hw.
Qed.

Lemma lr_coded_df_length p k x yi alpha w : length (lr_coded_df p k x yi alpha w) = lr_dim p k.
Proof.
  unfold lr_coded_df, lr_dim. destruct (Nat.eqb k 2).
  - unfold binary_df. apply binary_df_length.
  - rewrite multi_df_coded_fun. apply multi_df_length.
Qed.

(* multinomial: lr_fit is lr_fit_gen with the exact forms *)
Lemma lr_fit_multiclass_is_exact (L : lb_params (T := R)) (B : bt_params (T := R)) p x y alpha :
  length (unique ROps y) <> 2%nat ->
  lr_fit ROps L B p x y alpha = lr_fit_gen ROps lse_exact sig_exact softmax_def L B p x y alpha.
Proof.
  intros Hk. unfold lr_fit, lr_fit_gen. cbv zeta. apply Nat.eqb_neq in Hk. rewrite Hk.
  rewrite softmax_coded_fun. reflexivity.
Qed.

Lemma lr_fit_coded_chain (L : lb_params (T := R)) (B : bt_params (T := R)) p x y alpha M :
  0 <= bt_c1 B -> 0 < bt_plo B -> (0 < lb_m L)%nat ->
  lr_fit ROps L B p x y alpha = Some M ->
  let k := length (unique ROps y) in
  let yi := lr_class_indices y in
  let n := lr_dim p k in
  let f := lr_coded_f p k x yi alpha in
  let df := lr_coded_df p k x yi alpha in
  exists st tr conv,
    optimize ROps f df L B (zeros ROps n) = Some (st, tr, conv) /\
    lr_weights M = st_x st /\ length (lr_weights M) = n /\
    trace_mono f df B n (f (zeros ROps n)) tr (f (lr_weights M)) /\
    (descent_trace tr -> f (lr_weights M) <= f (zeros ROps n)) /\
    (k <> 2%nat -> bt_c1 B < 1 -> Forall (fun r => length r = p) x ->
       descent_trace tr /\
       multi_f ROps p k x yi alpha (lr_weights M) <= multi_f ROps p k x yi alpha (zeros ROps (k * S p))).
Proof.
  intros Hc0 Hplo Hm HM. cbv zeta.
  destruct (lr_fit_is_composition L B p x y alpha M HM) as [_ [Hk2 [st [tr [conv [E ->]]]]]].
  set (k := length (unique ROps y)) in *. set (yi := lr_class_indices y) in *.
  exists st, tr, conv. split; [exact E|].
  destruct (lbfgs_monotone (lr_coded_f p k x yi alpha) (lr_coded_df p k x yi alpha) L B Hc0 Hplo Hm (lr_dim p k)
              (fun w _ => lr_coded_df_length p k x yi alpha w)
              (zeros ROps (lr_dim p k)) st tr conv (repeat_length _ _) E) as [Hmo [Hlen Hle]].
  rewrite (lr_weights_reshape p k (unique ROps y) (st_x st) Hlen).
  split; [reflexivity|]. split; [exact Hlen|]. split; [exact Hmo|]. split; [exact Hle|].
  intros Hk Hc1 Hx.
  assert (Hyi : Forall (fun c => (c < k)%nat) yi) by (apply class_indices_lt; fold k; lia).
  revert E Hlen. unfold lr_coded_f, lr_coded_df, lr_dim. apply Nat.eqb_neq in Hk. rewrite Hk. intros E Hlen.
  destruct (lbfgs_monotone_convex (multi_f ROps p k x yi alpha) (multi_df ROps p k x yi alpha) L B Hc0 Hplo Hm (k * S p)%nat
              (fun w _ => eq_trans (f_equal (fun g => length (g p k x yi alpha w)) multi_df_coded_fun)
                                   (multi_df_length p k x yi alpha w)) Hc1
              (fun w s a Hw Hs => multi_coded_tangent p k x yi alpha Hx Hyi w s a Hw Hs)
              (zeros ROps (k * S p)) st tr conv (repeat_length _ _) E) as [Hd [_ Hfin]].
  split; assumption.
Qed.
