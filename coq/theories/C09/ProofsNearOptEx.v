(* C09 — closed instances for ProofsNearOpt: penalised objectives with an exactly stationary point. *)
From Coq Require Import List ZArith Bool Reals Lra Lia Arith.
From SC Require Import Base.Num C09.Model C09.ProofsSearch C09.ProofsGrad C09.ProofsStable C09.ProofsExamples
     C09.ProofsFitEx C09.ProofsCoded.
Import ListNotations.
Local Open Scope R_scope.

Lemma vdot_zeros2 (s : list R) : vdot ROps [0; 0] s = 0.
Proof. destruct s as [|a [|b s]]; unfold vdot; cbn; lra. Qed.

(* two classes, alpha = 1: rows [1], [1] with labels 0, 1 -- the all-zero vector is stationary *)
Lemma ex_grad0_pen : binary_df_gen ROps sig_exact 1 [[1]; [1]] [0%nat; 1%nat] 1 (zeros ROps 2) = [0; 0].
Proof.
  unfold binary_df_gen, binary_df_entry, zeros. cbn [seq map repeat combine fold_left fst snd Nat.ltb Nat.leb].
  assert (Hwx : partial_dot ROps [o0 ROps; o0 ROps] [1] 0 = 0) by (unfold partial_dot; cbn; lra).
  rewrite Hwx, ex_sig0. change (oltb ROps (o0 ROps) 1) with (Rltb 0 1). rewrite (Rltb_t 0 1) by lra.
  cbn [andb nth]. unfold ofnat, oofnat. cbn. f_equal; [lra | f_equal; lra].
Qed.
Lemma ex_binary_stationary : forall s, vdot ROps (binary_df_gen ROps sig_exact 1 [[1]; [1]] [0%nat; 1%nat] 1 (zeros ROps 2)) s = 0.
Proof. intros s. rewrite ex_grad0_pen. apply vdot_zeros2. Qed.

(* three classes, alpha = 1: rows [1], [1], [1] with labels 0, 1, 2 -- the all-zero vector is stationary *)
Lemma ex_softmax0 : softmax_def [0; 0; 0] = [1/3; 1/3; 1/3].
Proof. unfold softmax_def, vsum. cbn [map fold_left]. rewrite exp_0. cbn. repeat f_equal; field. Qed.
Lemma ex_scores0 (row : list R) : row = [1] -> scores ROps 1 3 (zeros ROps 6) row = [0; 0; 0].
Proof. intros ->. unfold scores, partial_dot, zeros. cbn. repeat f_equal; lra. Qed.
Lemma ex_grad0_multi :
  multi_df_gen ROps softmax_def 1 3 [[1]; [1]; [1]] [0%nat; 1%nat; 2%nat] 1 (zeros ROps 6) = [0; 0; 0; 0; 0; 0].
Proof.
  unfold multi_df_gen, multi_df_entry. cbn [seq map combine fold_left fst snd Nat.mul Nat.add].
  rewrite !(ex_scores0 [1] eq_refl), ex_softmax0.
  change (oltb ROps (o0 ROps) 1) with (Rltb 0 1). rewrite (Rltb_t 0 1) by lra.
  unfold zeros. cbn. repeat f_equal; lra.
Qed.
Lemma vdot_zeros6 (s : list R) : vdot ROps [0; 0; 0; 0; 0; 0] s = 0.
Proof. destruct s as [|a [|b [|c [|d [|e [|f s]]]]]]; unfold vdot; cbn; lra. Qed.
Lemma ex_multi_stationary :
  forall s, vdot ROps (multi_df ROps 1 3 [[1]; [1]; [1]] [0%nat; 1%nat; 2%nat] 1 (zeros ROps 6)) s = 0.
Proof. intros s. rewrite multi_df_coded_fun, ex_grad0_multi. apply vdot_zeros6. Qed.
