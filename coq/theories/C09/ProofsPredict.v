(* C09 — predict: the predicted label is the class value at the arg-max of the linear scores (first maximum),
   for two classes the sign of the single score. *)
From Coq Require Import List ZArith Bool Reals Lra Lia Arith.
From SC Require Import Base.Num C09.Model C09.ProofsSearch.
Import ListNotations.
Local Open Scope R_scope.

Lemma argmax_from_some (l : list R) : forall pos b bp,
  let r := argmax_from ROps l pos (Some b) bp in
  (r = bp /\ forall v, In v l -> v <= b) \/
  (exists i, r = (pos + i)%nat /\ (i < length l)%nat /\ b < nth i l 0 /\
             (forall j, (j < length l)%nat -> nth j l 0 <= nth i l 0) /\
             (forall j, (j < i)%nat -> nth j l 0 < nth i l 0)).
Proof.
  induction l as [|v t IH]; intros pos b bp; cbn [argmax_from].
  - left. split; [reflexivity|]. intros v [].
  - change (oltb ROps b v) with (Rltb b v). destruct (Rltb b v) eqn:E.
    + apply Rltb_true in E. destruct (IH (S pos) v pos) as [[Hr Hall]|[i [Hr [Hi [Hb [Hmax Hfirst]]]]]].
      * right. exists 0%nat. cbv zeta. rewrite Hr. cbn [length nth]. repeat split; try lia; try lra.
        -- intros [|j] Hj; [lra|]. cbn. apply Hall. apply nth_In. cbn in Hj. lia.
      * right. exists (S i). cbv zeta. rewrite Hr. cbn [length nth]. repeat split; try lia; try lra.
        -- intros [|j] Hj; [lra|]. apply Hmax. lia.
        -- intros [|j] Hj; [lra|]. apply Hfirst. lia.
    + apply Rltb_false in E. destruct (IH (S pos) b bp) as [[Hr Hall]|[i [Hr [Hi [Hb [Hmax Hfirst]]]]]].
      * left. cbv zeta. split; [exact Hr|]. intros u [<-|Hu]; [lra|]. apply Hall, Hu.
      * right. exists (S i). cbv zeta. rewrite Hr. cbn [length nth]. repeat split; try lia; try lra.
        -- intros [|j] Hj; [lra|]. apply Hmax. lia.
        -- intros [|j] Hj; [lra|]. apply Hfirst. lia.
Qed.

(* argmax of a non-empty row of reals: the first position holding the maximum *)
Lemma argmax_spec (l : list R) : l <> [] ->
  let i := argmax ROps l in
  (i < length l)%nat /\ (forall j, (j < length l)%nat -> nth j l 0 <= nth i l 0) /\
  (forall j, (j < i)%nat -> nth j l 0 < nth i l 0).
Proof.
  destruct l as [|v t]; [congruence|]. intros _. unfold argmax. cbn [argmax_from].
  rewrite is_finite_R. cbn [orb].
  destruct (argmax_from_some t 1%nat v 0%nat) as [[Hr Hall]|[i [Hr [Hi [Hb [Hmax Hfirst]]]]]]; cbv zeta in *; rewrite Hr.
  - cbn [length nth]. repeat split; try lia.
    + intros [|j] Hj; [lra|]. cbn. apply Hall. apply nth_In. cbn in Hj. lia.
  - cbn [length nth Nat.add]. repeat split; try lia.
    + intros [|j] Hj; [lra|]. apply Hmax. cbn in Hj. lia.
    + intros [|j] Hj; [lra|]. apply Hfirst. lia.
Qed.

(* the two-class rule: sigmoid(z) > 1/2 exactly when z > 0 (the cut-offs at +-40 included) *)
Lemma half_lt_sigmoid z : oltb ROps (half ROps) (sigmoid ROps z) = Rltb 0 z.
Proof.
  unfold sigmoid, half, two, cst. cbn [ROps oltb oneg o0 o1 odiv oadd oexp oofZ].
  destruct (Rltb z (- IZR 40)) eqn:E1.
  - apply Rltb_true in E1. transitivity false; [apply Rltb_false; lra | symmetry; apply Rltb_false; lra].
  - apply Rltb_false in E1. destruct (Rltb (IZR 40) z) eqn:E2.
    + apply Rltb_true in E2. transitivity true; [apply Rltb_true; lra | symmetry; apply Rltb_true; lra].
    + pose proof (exp_pos (- z)) as Hp.
      destruct (Rlt_dec 0 z) as [Hz|Hz].
      * transitivity true; [|symmetry; apply Rltb_true; exact Hz]. apply Rltb_true.
        assert (exp (- z) < 1) by (rewrite <- exp_0; apply exp_increasing; lra).
        apply Rmult_lt_reg_r with (1 + exp (- z)); [lra|]. field_simplify; lra.
      * transitivity false; [|symmetry; apply Rltb_false; lra]. apply Rltb_false.
        assert (1 <= exp (- z)).
        { destruct (Req_dec z 0) as [->|Hn]; [rewrite Ropp_0, exp_0; lra|].
          left. rewrite <- exp_0. apply exp_increasing. lra. }
        apply Rmult_le_reg_r with (1 + exp (- z)); [lra|]. field_simplify; lra.
Qed.

Definition lr_scores (M : lr_model (T := R)) (row : list R) : list R :=
  map2 (fun c b => vdot ROps row c + b) (lr_coef M) (lr_intercept M).

Lemma predict_is_argmax (M : lr_model (T := R)) (row : list R) :
  (lr_k M = 2%nat ->
     let z := vdot ROps row (nth 0 (lr_coef M) []) + nth 0 (lr_intercept M) 0 in
     (0 < z /\ predict_index ROps M row = 1%nat) \/ (z <= 0 /\ predict_index ROps M row = 0%nat)) /\
  (lr_k M <> 2%nat -> lr_scores M row <> [] ->
     let i := predict_index ROps M row in
     (i < length (lr_scores M row))%nat /\
     (forall j, (j < length (lr_scores M row))%nat -> nth j (lr_scores M row) 0 <= nth i (lr_scores M row) 0) /\
     (forall j, (j < i)%nat -> nth j (lr_scores M row) 0 < nth i (lr_scores M row) 0)).
Proof.
  split.
  - intros Hk. cbv zeta. unfold predict_index. rewrite Hk. cbn [Nat.eqb].
    rewrite half_lt_sigmoid. cbn [ROps oadd o0].
    destruct (Rltb 0 _) eqn:E; [left; apply Rltb_true in E | right; apply Rltb_false in E]; split; auto.
  - intros Hk Hne. unfold predict_index. apply Nat.eqb_neq in Hk. rewrite Hk.
    exact (argmax_spec (lr_scores M row) Hne).
Qed.

(* predicted labels are entries of the stored class list, taken at the predicted index *)
Lemma predict_labels (M : lr_model (T := R)) (x : list (list R)) :
  lr_predict ROps M x = map (fun row => nth (predict_index ROps M row) (lr_classes M) 0) x /\
  (forall row, (predict_index ROps M row < length (lr_classes M))%nat ->
               In (nth (predict_index ROps M row) (lr_classes M) 0) (lr_classes M)).
Proof. split; [reflexivity|]. intros row H. apply nth_In. exact H. Qed.
