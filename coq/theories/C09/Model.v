(* C09 — logistic regression and L-BFGS: executable model, generic in the scalar operations
   `Ops T` (Base/Num.v).  Transliteration of
     src/math/num.rs                       ln_1pe, sigmoid
     src/linalg/naive/dense_matrix.rs      softmax_mut, dot, norm(inf), max_diff, argmax, unique
     src/linear/logistic_regression.rs     partial_dot, Binary/MultiClassObjectiveFunction::{f,df}, fit, predict
     src/optimization/line_search.rs       Backtracking::search
     src/optimization/first_order/lbfgs.rs two_loops, update_state, assess_convergence, update_hessian, optimize
   Row vectors (1 x n DenseMatrix) are lists, matrices are lists of rows.  Panics are `None`.
   Deviations that are documented rather than modelled:
     * `x.powf(2)`, `x.powf(3)` are `x*x`, `(x*x)*x` (libm pow is within an ulp of these);
     * `ln_1p(e)` is `ln(1+e)` (equal over R; differs by < 1e-16 absolutely on binary64);
     * folds that start from -infinity (`norm(inf)`, the softmax shift) start from 0 resp. the first
       element (equal for non-empty, NaN-free vectors);
     * the in-place gradient loops are written coordinate-wise (every entry sees the same
       operations in the same order, so the values are identical). *)
From Coq Require Import List ZArith Bool.
From SC Require Import Base.Num.
Import ListNotations.

Fixpoint upd {A} (l : list A) (i : nat) (v : A) : list A :=
  match l, i with
  | [], _ => []
  | _ :: t, 0 => v :: t
  | h :: t, S j => h :: upd t j v
  end.

Fixpoint map2 {A B C} (f : A -> B -> C) (a : list A) (b : list B) : list C :=
  match a, b with
  | x :: a', y :: b' => f x y :: map2 f a' b'
  | _, _ => []
  end.

Section Model.
  Context {T : Type} (O : Ops T).
  Local Notation zero := (o0 O).
  Local Notation one := (o1 O).
  Local Infix "+" := (oadd O).
  Local Infix "-" := (osub O).
  Local Infix "*" := (omul O).
  Local Infix "/" := (odiv O).
  Local Notation "- x" := (oneg O x).
  Local Notation "a <? b" := (oltb O a b).
  Local Notation "a <=? b" := (oleb O a b).
  Local Notation "a =? b" := (oeqb O a b).
  Definition cst (z : Z) : T := oofZ O z.
  Definition two : T := cst 2.
  Definition three : T := cst 3.
  Definition half : T := one / two.

  (* f64::max / f64::min: the non-NaN operand if one is NaN *)
  Definition rmax (a b : T) : T := if a <? b then b else if b <=? a then a else if a =? a then a else b.
  Definition rmin (a b : T) : T := if b <? a then b else if a <=? b then a else if a =? a then a else b.
  Definition sq (a : T) : T := a * a.
  Definition cube (a : T) : T := (a * a) * a.
  Definition is_finite (a : T) : bool := (a - a) =? zero.
  Definition is_infinite (a : T) : bool := negb (is_finite a) && (a =? a).
  Definition nan : T := zero / zero.   (* NaN on binary64; never inspected by a theorem *)

  (* ---------------------------------------------------------------- vectors *)
  Definition vdot (a b : list T) : T := fold_left (fun acc xy => acc + fst xy * snd xy) (combine a b) zero.
  Definition vadd (a b : list T) : list T := map2 (fun x y => x + y) a b.
  Definition vsub (a b : list T) : list T := map2 (fun x y => x - y) a b.
  Definition vscale (a : list T) (c : T) : list T := map (fun x => x * c) a.
  Definition vsum (a : list T) : T := fold_left (fun acc x => acc + x) a zero.
  Definition norm_inf (a : list T) : T := fold_left (fun acc x => rmax acc (oabs O x)) a zero.
  Definition max_diff (a b : list T) : T := fold_left (fun acc x => rmax acc (oabs O x)) (vsub a b) zero.
  Definition zeros (n : nat) : list T := repeat zero n.

  (* ---------------------------------------------------------------- math/num.rs *)
  Definition ln_1pe (x : T) : T := if cst 15 <? x then x else oln O (one + oexp O x).
  Definition sigmoid (x : T) : T :=
    if x <? - (cst 40) then zero else if cst 40 <? x then one else one / (one + oexp O (- x)).

  (* dense_matrix.rs softmax_mut (after fix D5: shift by max x) on one row *)
  Definition vmax (l : list T) : T := match l with [] => zero | h :: t => fold_left rmax t h end.
  Definition softmax (l : list T) : list T :=
    let m := vmax l in
    let ps := map (fun x => oexp O (x - m)) l in
    let z := vsum ps in
    map (fun p => p / z) ps.

  (* argmax of one row: first strict maximum, position 0 if nothing exceeds -infinity *)
  Fixpoint argmax_from (l : list T) (pos : nat) (best : option T) (best_pos : nat) : nat :=
    match l with
    | [] => best_pos
    | v :: t =>
        let better := match best with None => is_finite v || (zero <? v) | Some b => b <? v end in
        if better then argmax_from t (S pos) (Some v) pos else argmax_from t (S pos) best best_pos
    end.
  Definition argmax (l : list T) : nat := argmax_from l 0%nat None 0%nat.

  (* unique(): sort + dedup *)
  Fixpoint ins_uniq (v : T) (l : list T) : list T :=
    match l with
    | [] => [v]
    | h :: t => if v <? h then v :: l else if v =? h then l else h :: ins_uniq v t
    end.
  Definition unique (l : list T) : list T := fold_left (fun acc v => ins_uniq v acc) l [].
  Fixpoint position (v : T) (l : list T) : option nat :=
    match l with
    | [] => None
    | h :: t => if v =? h then Some 0%nat else option_map S (position v t)
    end.

  (* ---------------------------------------------------------------- objectives *)
  (* partial_dot(w, x, v_col, m_row): sum_{i<p} x[m_row][i] * w[i+v_col], then + w[p+v_col] *)
  Fixpoint pdot_loop (acc : T) (xs : list T) (w : list T) (pos : nat) : T :=
    match xs with
    | [] => acc
    | x :: xs' => pdot_loop (acc + x * nth pos w zero) xs' w (S pos)
    end.
  Definition partial_dot (w row : list T) (v_col : nat) : T :=
    pdot_loop zero row w v_col + nth (length row + v_col)%nat w zero.

  Definition ofnat (n : nat) : T := oofnat O n.

  (* The scalar functions are parameters of the `_gen` forms so that the theorems can speak about the
     code with the exact functions ln(1+e^x), 1/(1+e^-x) substituted for the overflow-safe ones. *)
  Definition penalty (alpha : T) (ws : list T) : T :=   (* 0.5 * alpha * sum w^2 *)
    (half * alpha) * fold_left (fun acc w => acc + w * w) ws zero.

  Definition binary_f_gen (lse : T -> T) (p : nat) (x : list (list T)) (y : list nat) (alpha : T) (w : list T) : T :=
    let f := fold_left (fun acc ry => let wx := partial_dot w (fst ry) 0%nat in
                                     acc + (lse wx - ofnat (snd ry) * wx)) (combine x y) zero in
    if zero <? alpha then f + penalty alpha (firstn p w) else f.

  (* one entry of the gradient: j < p a weight, j = p the bias *)
  Definition binary_df_entry (sg : T -> T) (p : nat) (x : list (list T)) (y : list nat) (alpha : T) (w : list T) (j : nat) : T :=
    let g := fold_left (fun acc ry =>
                          let wx := partial_dot w (fst ry) 0%nat in
                          let dyi := ofnat (snd ry) - sg wx in
                          if (j <? p)%nat then acc - dyi * nth j (fst ry) zero else acc - dyi) (combine x y) zero in
    if (zero <? alpha) && (j <? p)%nat then g + alpha * nth j w zero else g.
  Definition binary_df_gen (sg : T -> T) (p : nat) x y alpha w : list T :=
    map (binary_df_entry sg p x y alpha w) (seq 0 (S p)).

  Definition binary_f := binary_f_gen ln_1pe.
  Definition binary_df := binary_df_gen sigmoid.

  Definition scores (p k : nat) (w row : list T) : list T :=
    map (fun j => partial_dot w row (j * S p)%nat) (seq 0 k).

  Definition multi_penalty (p k : nat) (alpha : T) (w : list T) : T :=
    (half * alpha) *
    fold_left (fun acc i => fold_left (fun acc2 j => let wi := nth (i * S p + j)%nat w zero in acc2 + wi * wi) (seq 0 p) acc)
              (seq 0 k) zero.

  Definition multi_f_gen (sm : list T -> list T) (p k : nat) (x : list (list T)) (y : list nat) (alpha : T) (w : list T) : T :=
    let f := fold_left (fun acc ry => acc - oln O (nth (snd ry) (sm (scores p k w (fst ry))) zero)) (combine x y) zero in
    if zero <? alpha then f + multi_penalty p k alpha w else f.

  (* entry q = j*(p+1) + l of the gradient *)
  Definition multi_df_entry (sm : list T -> list T) (p k : nat) (x : list (list T)) (y : list nat) (alpha : T) (w : list T) (q : nat) : T :=
    let j := (q / S p)%nat in
    let l := (q mod S p)%nat in
    let g := fold_left (fun acc ry =>
                          let prob := sm (scores p k w (fst ry)) in
                          let yi := (if Nat.eqb (snd ry) j then one else zero) - nth j prob zero in
                          if (l <? p)%nat then acc - yi * nth l (fst ry) zero else acc - yi) (combine x y) zero in
    if (zero <? alpha) && (l <? p)%nat then g + alpha * nth q w zero else g.
  Definition multi_df_gen sm (p k : nat) x y alpha w : list T :=
    map (multi_df_entry sm p k x y alpha w) (seq 0 (k * S p)).

  Definition multi_f := multi_f_gen softmax.
  Definition multi_df := multi_df_gen softmax.

  (* ---------------------------------------------------------------- line search *)
  Record bt_params := mkBt {
    bt_c1 : T; bt_max_iter : nat; bt_max_inf : nat; bt_phi : T; bt_plo : T; bt_third : bool; bt_eps : T }.

  Fixpoint bt_finite (fuel : nat) (phi : T -> T) (a1 a2 fx1 : T) : T * T * T :=
    match fuel with
    | 0%nat => (a1, a2, fx1)
    | S k => if is_finite fx1 then (a1, a2, fx1)
             else let a1' := a2 in let a2' := a1' / two in bt_finite k phi a1' a2' (phi a2')
    end.

  Definition bt_quad (f0 df0 a2 fx1 : T) : T :=
    (- (df0 * sq a2)) / (two * ((fx1 - f0) - df0 * a2)).
  Definition bt_cubic (eps f0 df0 a1 a2 fx0 fx1 : T) : T :=
    let dv := one / ((sq a1 * sq a2) * (a2 - a1)) in
    let t1 := (fx1 - f0) - df0 * a2 in
    let t0 := (fx0 - f0) - df0 * a1 in
    let a := (sq a1 * t1 - sq a2 * t0) * dv in
    let b := ((- (cube a1)) * t1 + cube a2 * t0) * dv in
    if osqrt O (sq (a - zero)) <=? eps then df0 / (two * b)
    else let d := rmax (sq b - (three * a) * df0) zero in
         ((- b) + osqrt O d) / (three * a).

  (* fuel = max_iterations + 1 loop bodies are allowed; when the test still asks for another one the search
     gives up and stays at the current point: step 0, objective value f0 (repair 78b374f; it used to panic).
     The result type is kept an option (always `Some`) so that a panic elsewhere could still be `None`. *)
  Fixpoint bt_loop (P : bt_params) (phi : T -> T) (f0 df0 : T) (fuel : nat) (first : bool) (a1 a2 fx0 fx1 : T)
    : option (T * T) :=
    if (f0 + (bt_c1 P * a2) * df0) <? fx1 then
      match fuel with
      | 0%nat => Some (zero, f0)
      | S k =>
          let a_tmp := if negb (bt_third P) || first then bt_quad f0 df0 a2 fx1
                       else bt_cubic (bt_eps P) f0 df0 a1 a2 fx0 fx1 in
          let a2' := rmax (rmin a_tmp (a2 * bt_phi P)) (a2 * bt_plo P) in
          bt_loop P phi f0 df0 k false a2 a2' fx1 (phi a2')
      end
    else Some (a2, fx1).

  Definition bt_search (P : bt_params) (phi : T -> T) (alpha f0 df0 : T) : option (T * T) :=
    let '(a1, a2, fx1) := bt_finite (bt_max_inf P) phi alpha alpha (phi alpha) in
    bt_loop P phi f0 df0 (S (bt_max_iter P)) true a1 a2 f0 fx1.

  (* ---------------------------------------------------------------- L-BFGS *)
  Record lb_params := mkLb {
    lb_max_iter : nat; lb_g_atol : T; lb_x_atol : T; lb_x_rtol : T; lb_f_abstol : T; lb_f_reltol : T;
    lb_succ_f_tol : nat; lb_m : nat }.

  Record lb_state := mkSt {
    st_x : list T; st_x_prev : list T; st_f : T; st_f_prev : T; st_g : list T; st_g_prev : list T;
    st_rho : list T; st_dxh : list (list T); st_dgh : list (list T); st_dx : list T;
    st_tla : list T; st_iter : nat; st_counter : nat; st_s : list T; st_alpha : T }.

  Definition tl_indices (m iter : nat) : list nat :=
    let lower := (Nat.max iter m - m)%nat in
    map (fun idx => (idx mod m)%nat) (seq lower (iter - lower)).

  Definition tl_loop1 (rho : list T) (dxh dgh : list (list T)) (idxs : list nat) (q : list T) (al : list T)
    : list T * list T :=
    fold_left (fun qa i =>
                 let a := nth i rho zero * vdot (nth i dxh []) (fst qa) in
                 (vsub (fst qa) (vscale (nth i dgh []) a), upd (snd qa) i a))
              (rev idxs) (q, al).
  Definition tl_loop2 (rho : list T) (dxh dgh : list (list T)) (idxs : list nat) (al : list T) (s : list T) : list T :=
    fold_left (fun s i =>
                 let beta := nth i rho zero * vdot (nth i dgh []) s in
                 vadd s (vscale (nth i dxh []) (nth i al zero - beta)))
              idxs s.
  Definition tl_scaling (dxi dgi : list T) : T :=
    vdot dxi dgi / fold_left (fun acc v => acc + sq (oabs O v)) dgi zero.

  (* returns the direction and the updated twoloop_alpha array *)
  Definition two_loops (m iter : nat) (g : list T) (rho : list T) (dxh dgh : list (list T)) (al : list T)
    : list T * list T :=
    let idxs := tl_indices m iter in
    let '(q, al') := tl_loop1 rho dxh dgh idxs g al in
    let s0 := match iter with
              | 0%nat => q
              | S it => let i := (it mod m)%nat in vscale q (tl_scaling (nth i dxh []) (nth i dgh []))
              end in
    let s := tl_loop2 rho dxh dgh idxs al' s0 in
    (vscale s (- one), al').

  Definition init_state (m : nat) (x : list T) : lb_state :=
    mkSt x x nan nan x x (repeat zero m) (repeat x m) (repeat x m) x (repeat zero m) 0%nat 0%nat x one.

  Section Objective.
    Variable f : list T -> T.
    Variable df : list T -> list T.
    Variable L : lb_params.
    Variable B : bt_params.

    Definition update_state (st : lb_state) : option (lb_state * T) :=   (* also returns df0 *)
      let '(s, al) := two_loops (lb_m L) (st_iter st) (st_g st) (st_rho st) (st_dxh st) (st_dgh st) (st_tla st) in
      let x := st_x st in
      let g_prev := df x in
      let f_prev := f x in
      let df0 := vdot (st_g st) s in
      let phi := fun a => f (vadd (vscale s a) x) in
      match bt_search B phi one f_prev df0 with
      | None => None
      | Some (alpha, _) =>
          let dx := vscale s alpha in
          let x' := vadd x dx in
          Some (mkSt x' x (f x') f_prev (df x') g_prev (st_rho st) (st_dxh st) (st_dgh st) dx al
                     (st_iter st) (st_counter st) dx alpha, df0)
      end.

    Definition assess_convergence (st : lb_state) : bool * lb_state :=
      let md := max_diff (st_x st) (st_x_prev st) in
      let xc1 := md <=? lb_x_atol L in
      let xc2 := md <=? lb_x_rtol L * norm_inf (st_x st) in
      let dfv := oabs O (st_f st - st_f_prev st) in
      let c1 := if dfv <=? lb_f_abstol L then S (st_counter st) else st_counter st in
      let c2 := if dfv <=? lb_f_reltol L * oabs O (st_f st) then S c1 else c1 in
      let gc := norm_inf (st_g st) <=? lb_g_atol L in
      (gc || (xc1 || xc2) || (lb_succ_f_tol L <? c2)%nat,
       mkSt (st_x st) (st_x_prev st) (st_f st) (st_f_prev st) (st_g st) (st_g_prev st) (st_rho st) (st_dxh st)
            (st_dgh st) (st_dx st) (st_tla st) (st_iter st) c2 (st_s st) (st_alpha st)).

    Definition update_hessian (st : lb_state) : lb_state :=
      let dg := vsub (st_g st) (st_g_prev st) in
      let rho_it := one / vdot (st_dx st) dg in
      if is_infinite rho_it then st
      else
        let idx := (st_iter st mod lb_m L)%nat in
        mkSt (st_x st) (st_x_prev st) (st_f st) (st_f_prev st) (st_g st) (st_g_prev st)
             (upd (st_rho st) idx rho_it) (upd (st_dxh st) idx (st_dx st)) (upd (st_dgh st) idx dg)
             (st_dx st) (st_tla st) (st_iter st) (st_counter st) (st_s st) (st_alpha st).

    Definition bump_iter (st : lb_state) : lb_state :=
      mkSt (st_x st) (st_x_prev st) (st_f st) (st_f_prev st) (st_g st) (st_g_prev st) (st_rho st) (st_dxh st)
           (st_dgh st) (st_dx st) (st_tla st) (S (st_iter st)) (st_counter st) (st_s st) (st_alpha st).

    (* one recorded iteration: (f before, df0, alpha, f after) — what the cfg-guarded recorder keeps *)
    Definition step_rec : Type := (T * T * T * T)%type.

    (* the while loop; `fuel` = max_iter - iteration.  Result: final state, trace (oldest first),
       and whether the loop ended by convergence (false: max_iter exhausted) *)
    Fixpoint opt_loop (fuel : nat) (st : lb_state) (trace : list step_rec) : option (lb_state * list step_rec * bool) :=
      match fuel with
      | 0%nat => Some (st, rev trace, false)
      | S k =>
          match update_state st with
          | None => None
          | Some (st1, df0) =>
              let '(conv, st2) := assess_convergence st1 in
              let tr := (st_f_prev st1, df0, st_alpha st1, st_f st1) :: trace in
              if conv then Some (bump_iter st2, rev tr, true)
              else opt_loop k (bump_iter (update_hessian st2)) tr
          end
      end.

    Definition optimize (x0 : list T) : option (lb_state * list step_rec * bool) :=
      let st0 := init_state (lb_m L) x0 in
      let st := mkSt (st_x st0) (st_x_prev st0) (st_f st0) (st_f_prev st0) (df x0) (st_g_prev st0) (st_rho st0)
                     (st_dxh st0) (st_dgh st0) (st_dx st0) (st_tla st0) 0%nat 0%nat (st_s st0) (st_alpha st0) in
      if norm_inf (st_g st) <? lb_g_atol L then Some (st, [], true)
      else opt_loop (lb_max_iter L) st [].
  End Objective.

  (* ---------------------------------------------------------------- LogisticRegression *)
  Record lr_model := mkLr { lr_coef : list (list T); lr_intercept : list T; lr_classes : list T; lr_k : nat }.

  Fixpoint split_rows (p k : nat) (w : list T) : list (list T) :=   (* reshape(k, p+1) of a row vector *)
    match k with
    | 0%nat => []
    | S k' => firstn (S p) w :: split_rows p k' (skipn (S p) w)
    end.

  (* the scalar forms are parameters so that theorems can speak about fit with the exact ln(1+e^x), 1/(1+e^-x)
     and softmax substituted for the overflow-safe ones; `lr_fit` is the code *)
  Definition lr_fit_gen (lse sg : T -> T) (sm : list T -> list T)
             (L : lb_params) (B : bt_params) (p : nat) (x : list (list T)) (y : list T) (alpha : T)
    : option lr_model :=
    if negb (Nat.eqb (length x) (length y)) then None else
    let classes := unique y in
    let k := length classes in
    let yi := map (fun v => match position v classes with Some i => i | None => 0%nat end) y in
    if (k <? 2)%nat then None
    else if Nat.eqb k 2 then
      match optimize (binary_f_gen lse p x yi alpha) (binary_df_gen sg p x yi alpha) L B (zeros (S p)) with
      | None => None
      | Some (st, _, _) => Some (mkLr [firstn p (st_x st)] [nth p (st_x st) zero] classes k)
      end
    else
      match optimize (multi_f_gen sm p k x yi alpha) (multi_df_gen sm p k x yi alpha) L B (zeros (k * S p)) with
      | None => None
      | Some (st, _, _) =>
          let rows := split_rows p k (st_x st) in
          Some (mkLr (map (firstn p) rows) (map (fun r => nth p r zero) rows) classes k)
      end.
  Definition lr_fit := lr_fit_gen ln_1pe sigmoid softmax.

  (* class index chosen for one query row *)
  Definition predict_index (M : lr_model) (row : list T) : nat :=
    if Nat.eqb (lr_k M) 2 then
      if half <? sigmoid (vdot row (nth 0%nat (lr_coef M) []) + nth 0%nat (lr_intercept M) zero) then 1%nat else 0%nat
    else
      argmax (map2 (fun c b => vdot row c + b) (lr_coef M) (lr_intercept M)).
  Definition lr_predict (M : lr_model) (x : list (list T)) : list T :=
    map (fun row => nth (predict_index M row) (lr_classes M) zero) x.
End Model.
