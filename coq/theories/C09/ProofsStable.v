(* C09 — the overflow-safe forms equal their definitions over R: sigmoid and ln(1+e^x) up to the documented
   cut-offs (e^-40, e^-15), softmax-with-shift exactly. *)
From Coq Require Import List ZArith Bool Reals Lra Lia Arith.
From SC Require Import Base.Num C09.Model C09.ProofsSearch.
Import ListNotations.
Local Open Scope R_scope.

Definition lse_def (x : R) : R := ln (1 + exp x).
Definition sig_def (x : R) : R := 1 / (1 + exp (- x)).

Lemma sig_def_bounds x : 0 < sig_def x < 1.
Proof.
  unfold sig_def. pose proof (exp_pos (- x)). split.
  - apply Rdiv_lt_0_compat; lra.
  - apply Rmult_lt_reg_r with (1 + exp (- x)); [lra|]. field_simplify; lra.
Qed.

(* sigmoid: exact between the cut-offs, within e^-40 of the definition beyond them *)
Lemma sigmoid_stable x :
  (- 40 <= x <= 40 -> sigmoid ROps x = sig_def x) /\ Rabs (sigmoid ROps x - sig_def x) <= exp (- 40).
Proof.
  unfold sigmoid, cst. cbn [ROps oltb oneg o0 o1 odiv oadd oexp oofZ].
  pose proof (exp_pos (- 40)) as H40. pose proof (exp_pos (- x)) as Hx. pose proof (sig_def_bounds x) as Hb.
  destruct (Rltb x _) eqn:E1.
  - apply Rltb_true in E1. split; [lra|].
    (* sig_def x < e^x < e^-40 *)
    assert (sig_def x <= exp (- 40)).
    { unfold sig_def. apply Rle_trans with (exp x); [|left; apply exp_increasing; lra].
      apply Rmult_le_reg_r with (1 + exp (- x)); [lra|].
      replace (1 / (1 + exp (- x)) * (1 + exp (- x))) with 1 by (field; lra).
      rewrite Rmult_plus_distr_l, <- exp_plus. replace (x + - x) with 0 by lra. rewrite exp_0.
      pose proof (exp_pos x). lra. }
    rewrite Rabs_left1; lra.
  - apply Rltb_false in E1. destruct (Rltb 40 x) eqn:E2.
    + apply Rltb_true in E2. split; [lra|].
      assert (1 - sig_def x <= exp (- 40)).
      { unfold sig_def. apply Rle_trans with (exp (- x)); [|left; apply exp_increasing; lra].
        apply Rmult_le_reg_r with (1 + exp (- x)); [lra|].
        replace ((1 - 1 / (1 + exp (- x))) * (1 + exp (- x))) with (exp (- x)) by (field; lra).
        nra. }
      rewrite Rabs_right; lra.
    + split; [reflexivity|]. unfold sig_def. replace (1 / (1 + exp (- x)) - 1 / (1 + exp (- x))) with 0 by lra.
      rewrite Rabs_R0. lra.
Qed.

(* ln(1+e^x): exact up to 15, above 15 the shortcut x underestimates by at most e^-15 *)
Lemma ln_1pe_stable x :
  (x <= 15 -> ln_1pe ROps x = lse_def x) /\ 0 <= lse_def x - ln_1pe ROps x <= exp (- 15).
Proof.
  unfold ln_1pe, cst, lse_def. cbn [ROps oltb o1 oadd oexp oln oofZ].
  pose proof (exp_pos (- 15)) as H15.
  destruct (Rltb 15 x) eqn:E.
  - apply Rltb_true in E. split; [lra|].
    assert (Hsplit : ln (1 + exp x) = x + ln (1 + exp (- x))).
    { replace (1 + exp x) with (exp x * (1 + exp (- x))).
      - rewrite ln_mult; [rewrite ln_exp; reflexivity | apply exp_pos | pose proof (exp_pos (- x)); lra].
      - rewrite Rmult_plus_distr_l, <- exp_plus. replace (x + - x) with 0 by lra. rewrite exp_0. lra. }
    rewrite Hsplit. pose proof (exp_pos (- x)) as Hp.
    assert (0 < ln (1 + exp (- x))) by (rewrite <- ln_1; apply ln_increasing; lra).
    assert (ln (1 + exp (- x)) < exp (- x)).
    { apply exp_lt_inv. rewrite exp_ln by lra. apply exp_ineq1. lra. }
    assert (exp (- x) < exp (- 15)) by (apply exp_increasing; lra).
    lra.
  - split; [reflexivity|]. lra.
Qed.

(* softmax with the shift by the row maximum = exp(x_i) / sum_j exp(x_j), for every shift *)
Definition softmax_def (l : list R) : list R := map (fun x => exp x / vsum ROps (map exp l)) l.

Lemma vsum_acc (l : list R) : forall a, fold_left (fun acc x => oadd ROps acc x) l a = a + vsum ROps l.
Proof.
  unfold vsum. induction l as [|h l IH]; intros a; cbn [fold_left]; [cbn; lra|].
  rewrite IH, (IH (oadd ROps (o0 ROps) h)). cbn. lra.
Qed.
Lemma vsum_cons h (l : list R) : vsum ROps (h :: l) = h + vsum ROps l.
Proof. unfold vsum at 1. cbn [fold_left]. rewrite vsum_acc. cbn. lra. Qed.
Lemma vsum_exp_pos (l : list R) : l <> [] -> 0 < vsum ROps (map exp l).
Proof.
  induction l as [|h l IH]; [congruence|]. intros _. cbn [map]. rewrite vsum_cons.
  pose proof (exp_pos h). destruct l as [|h' l']; [unfold vsum; cbn; lra|].
  assert (0 < vsum ROps (map exp (h' :: l'))) by (apply IH; congruence). lra.
Qed.
Lemma vsum_shift (l : list R) m : vsum ROps (map (fun x => exp (x - m)) l) = vsum ROps (map exp l) / exp m.
Proof.
  pose proof (exp_pos m). induction l as [|h l IH]; cbn [map].
  - unfold vsum; cbn. field. lra.
  - rewrite !vsum_cons, IH. unfold Rminus. rewrite exp_plus, exp_Ropp. field. lra.
Qed.

Lemma softmax_stable (l : list R) : l <> [] -> softmax ROps l = softmax_def l.
Proof.
  intros Hl. unfold softmax, softmax_def. cbv zeta. set (m := vmax ROps l).
  rewrite map_map. cbn [ROps osub oexp odiv].
  change (map (fun x => exp (x - m)) l) with (map (fun x => exp (x - m)) l).
  rewrite (vsum_shift l m). apply map_ext. intros x.
  pose proof (exp_pos m). pose proof (vsum_exp_pos l Hl).
  unfold Rminus. rewrite exp_plus, exp_Ropp. field. lra.
Qed.
