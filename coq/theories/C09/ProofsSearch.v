(* C09 — proofs about the line search and the L-BFGS driver: sufficient decrease for EVERY objective,
   monotonicity of the objective along any run of descent directions, first step = steepest descent. *)
From Coq Require Import List ZArith Bool Reals Lra Lia Arith.
From SC Require Import Base.Num C09.Model.
Import ListNotations.
Local Open Scope R_scope.

(* ------------------------------------------------------------------ the real instance *)
Lemma is_finite_R x : is_finite ROps x = true.
Proof. unfold is_finite; cbn. apply Reqb_true. lra. Qed.

Lemma is_infinite_R x : is_infinite ROps x = false.
Proof. unfold is_infinite. rewrite is_finite_R. reflexivity. Qed.

Lemma rmax_R_ge_r a b : b <= rmax ROps a b.
Proof.
  unfold rmax; cbn.
  destruct (Rltb a b) eqn:E1; [lra|].
  destruct (Rleb b a) eqn:E2.
  - apply Rleb_true in E2. exact E2.
  - apply Rltb_false in E1. apply Rleb_false in E2. lra.
Qed.
Lemma rmax_R_ge_l a b : a <= rmax ROps a b.
Proof.
  unfold rmax; cbn.
  destruct (Rltb a b) eqn:E1; [apply Rltb_true in E1; lra|].
  destruct (Rleb b a) eqn:E2; [lra|].
  apply Rltb_false in E1. apply Rleb_false in E2. lra.
Qed.
Lemma rmax_R_cases a b : rmax ROps a b = a \/ rmax ROps a b = b.
Proof. unfold rmax; cbn. destruct (Rltb a b); [right|]; auto. destruct (Rleb b a); auto. destruct (Reqb a a); auto. Qed.

(* ------------------------------------------------------------------ line search, any scalar type *)
Section AnyOps.
  Context {T : Type} (O : Ops T).

  Lemma bt_finite_inv phi fuel a1 a2 fx1 a1' a2' fx1' :
    fx1 = phi a2 -> bt_finite O fuel phi a1 a2 fx1 = (a1', a2', fx1') -> fx1' = phi a2'.
  Proof.
    revert a1 a2 fx1. induction fuel as [|k IH]; intros a1 a2 fx1 H E; cbn in E.
    - inversion E; subst; reflexivity.
    - destruct (is_finite O fx1).
      + inversion E; subst; reflexivity.
      + eapply IH; [|exact E]. reflexivity.
  Qed.

  Lemma bt_loop_exit P phi f0 df0 fuel : forall first a1 a2 fx0 fx1 a fx,
    fx1 = phi a2 ->
    bt_loop O P phi f0 df0 fuel first a1 a2 fx0 fx1 = Some (a, fx) ->
    (oltb O (oadd O f0 (omul O (omul O (bt_c1 P) a) df0)) fx = false /\ fx = phi a) \/
    (a = o0 O /\ fx = f0).
  Proof.
    induction fuel as [|k IH]; intros first a1 a2 fx0 fx1 a fx Hphi E; cbn in E.
    - destruct (oltb O (oadd O f0 (omul O (omul O (bt_c1 P) a2) df0)) fx1) eqn:Et.
      + inversion E; subst. right. split; reflexivity.
      + inversion E; subst. left. split; [exact Et | reflexivity].
    - destruct (oltb O (oadd O f0 (omul O (omul O (bt_c1 P) a2) df0)) fx1) eqn:Et.
      + eapply IH; [|exact E]. reflexivity.
      + inversion E; subst. left. split; [exact Et | reflexivity].
  Qed.

  (* Backtracking::search never fails (after repair 78b374f) ... *)
  Lemma bt_loop_total P phi f0 df0 fuel : forall first a1 a2 fx0 fx1,
    exists a fx, bt_loop O P phi f0 df0 fuel first a1 a2 fx0 fx1 = Some (a, fx).
  Proof.
    induction fuel as [|k IH]; intros first a1 a2 fx0 fx1; cbn.
    - destruct (oltb O _ _); eauto.
    - destruct (oltb O _ _); [apply IH | eauto].
  Qed.
  Lemma bt_search_total P phi alpha f0 df0 : exists a fx, bt_search O P phi alpha f0 df0 = Some (a, fx).
  Proof.
    unfold bt_search. destruct (bt_finite O (bt_max_inf P) phi alpha alpha (phi alpha)) as [[a1 a2] fx1].
    apply bt_loop_total.
  Qed.

  (* ... and what it returns — on binary64 as well as on R, for every objective, every parameter setting, both
     interpolation orders — is either a step at which the loop test `f(a) > f0 + c1*a*df0` is false, together
     with the objective value at that step, or (iteration budget exhausted) the zero step with the value f0. *)
  Lemma bt_search_exit P phi alpha f0 df0 a fx :
    bt_search O P phi alpha f0 df0 = Some (a, fx) ->
    (oltb O (oadd O f0 (omul O (omul O (bt_c1 P) a) df0)) fx = false /\ fx = phi a) \/
    (a = o0 O /\ fx = f0).
  Proof.
    unfold bt_search.
    destruct (bt_finite O (bt_max_inf P) phi alpha alpha (phi alpha)) as [[a1 a2] fx1] eqn:Ef.
    intros E. eapply bt_loop_exit; [|exact E].
    eapply bt_finite_inv; [|exact Ef]. reflexivity.
  Qed.
End AnyOps.

(* ------------------------------------------------------------------ line search over R *)
Lemma bt_finite_R fuel phi a1 a2 fx1 : bt_finite ROps fuel phi a1 a2 fx1 = (a1, a2, fx1).
Proof. destruct fuel; [reflexivity|]. cbn [bt_finite]. rewrite is_finite_R. reflexivity. Qed.

Lemma bt_loop_pos P phi f0 df0 fuel : forall first a1 a2 fx0 fx1 a fx,
  0 < bt_plo P -> 0 < a2 ->
  bt_loop ROps P phi f0 df0 fuel first a1 a2 fx0 fx1 = Some (a, fx) -> 0 < a \/ (a = 0 /\ fx = f0).
Proof.
  induction fuel as [|k IH]; intros first a1 a2 fx0 fx1 a fx Hplo Ha E; cbn in E.
  - destruct (Rltb _ _); inversion E; subst; [right; split; reflexivity | left; lra].
  - destruct (Rltb (f0 + bt_c1 P * a2 * df0) fx1) eqn:Et.
    + set (a_tmp := if negb (bt_third P) || first then _ else _) in E.
      set (a2' := rmax ROps (rmin ROps a_tmp (a2 * bt_phi P)) (a2 * bt_plo P)) in E.
      assert (H1 : 0 < a2') by (pose proof (rmax_R_ge_r (rmin ROps a_tmp (a2 * bt_phi P)) (a2 * bt_plo P)); unfold a2'; nra).
      exact (IH false a2 a2' fx1 (phi a2') a fx Hplo H1 E).
    + inversion E; subst. left. exact Ha.
Qed.

(* backtracking_armijo: for EVERY objective phi, every c1, phi-factor, iteration limits and both orders the
   search returns, and what it returns is either a positive step satisfying the sufficient-decrease (Armijo)
   inequality, or the zero step with the value f0 it was given; in both cases the returned value does not
   exceed f0 whenever the directional derivative is <= 0 (and c1 >= 0). *)
Lemma backtracking_armijo P phi alpha f0 df0 a fx :
  0 < alpha -> 0 < bt_plo P ->
  bt_search ROps P phi alpha f0 df0 = Some (a, fx) ->
  ((0 < a /\ fx = phi a /\ fx <= f0 + bt_c1 P * a * df0) \/ (a = 0 /\ fx = f0)) /\
  (0 <= bt_c1 P -> df0 <= 0 -> fx <= f0).
Proof.
  intros Halpha Hplo E.
  assert (H : (0 < a /\ fx = phi a /\ fx <= f0 + bt_c1 P * a * df0) \/ (a = 0 /\ fx = f0)).
  { assert (Hpos : 0 < a \/ (a = 0 /\ fx = f0)).
    { unfold bt_search in E. rewrite bt_finite_R in E. eapply bt_loop_pos; [exact Hplo| |exact E]. exact Halpha. }
    destruct Hpos as [Hpos|Hz]; [|right; exact Hz].
    destruct (bt_search_exit ROps P phi alpha f0 df0 a fx E) as [[Ht Hfx]|[Ha0 Hf0]].
    - cbn in Ht. apply Rltb_false in Ht. left. repeat split; assumption.
    - cbn in Ha0. lra. }
  split; [exact H|]. intros Hc Hd. destruct H as [[Hpos [_ Hle]]|[_ ->]]; [|lra].
  assert (bt_c1 P * a * df0 <= 0) by (assert (0 <= bt_c1 P * a) by nra; nra). lra.
Qed.

(* ------------------------------------------------------------------ vectors over R *)
Lemma vadd_comm_R (a b : list R) : vadd ROps a b = vadd ROps b a.
Proof.
  unfold vadd. revert b. induction a as [|x a IH]; intros [|y b]; cbn; try reflexivity.
  rewrite IH. f_equal. lra.
Qed.

Lemma map2_length {A B C} (f : A -> B -> C) a : forall b, length (map2 f a b) = Nat.min (length a) (length b).
Proof. induction a as [|x a IH]; intros [|y b]; cbn; auto. Qed.
Lemma vadd_length (a b : list R) : length (vadd ROps a b) = Nat.min (length a) (length b).
Proof. apply map2_length. Qed.
Lemma vsub_length (a b : list R) : length (vsub ROps a b) = Nat.min (length a) (length b).
Proof. apply map2_length. Qed.
Lemma vscale_length (a : list R) c : length (vscale ROps a c) = length a.
Proof. apply map_length. Qed.
Lemma upd_length_gen {A} (w : list A) j t : length (upd w j t) = length w.
Proof. revert j. induction w as [|h w IH]; intros [|j]; cbn; auto. Qed.
Lemma vadd_zero_step (x s : list R) : length s = length x -> vadd ROps x (vscale ROps s 0) = x.
Proof.
  revert s. induction x as [|h x IH]; intros [|k s] H; cbn in *; try reflexivity; try discriminate.
  f_equal; [lra|]. apply IH. lia.
Qed.

(* a history of m vectors of length n *)
Definition hist (n m : nat) (h : list (list R)) : Prop := length h = m /\ Forall (fun v => length v = n) h.
Lemma hist_nth n m h i : hist n m h -> (i < m)%nat -> length (nth i h []) = n.
Proof.
  intros [Hl Hf] Hi. rewrite Forall_forall in Hf. apply Hf. apply nth_In. lia.
Qed.
Lemma hist_upd n m h i v : hist n m h -> length v = n -> hist n m (upd h i v).
Proof.
  intros [Hl Hf] Hv. split; [rewrite upd_length_gen; exact Hl|]. clear Hl.
  revert i. induction Hf as [|w h Hw Hf IH]; intros [|i]; cbn; constructor; auto.
Qed.
Lemma hist_repeat n m x : length x = n -> hist n m (repeat x m).
Proof.
  intros H. split; [apply repeat_length|]. apply Forall_forall. intros v Hv. apply repeat_spec in Hv. now subst.
Qed.

Lemma tl_indices_lt m iter i : (0 < m)%nat -> In i (tl_indices m iter) -> (i < m)%nat.
Proof.
  intros Hm Hin. unfold tl_indices in Hin. apply in_map_iff in Hin. destruct Hin as [j [<- _]].
  apply Nat.mod_upper_bound. lia.
Qed.

Lemma two_loops_length n m iter g rho dxh dgh al :
  (0 < m)%nat -> length g = n -> hist n m dxh -> hist n m dgh ->
  length (fst (two_loops ROps m iter g rho dxh dgh al)) = n.
Proof.
  intros Hm Hg Hx Hd. unfold two_loops.
  assert (Hidx : forall i, In i (tl_indices m iter) -> (i < m)%nat) by (intros i; apply tl_indices_lt; exact Hm).
  (* first loop *)
  assert (H1 : forall idxs q al0, (forall i, In i idxs -> (i < m)%nat) -> length q = n ->
               length (fst (fold_left (fun qa i =>
                 let a := nth i rho (o0 ROps) * vdot ROps (nth i dxh []) (fst qa) in
                 (vsub ROps (fst qa) (vscale ROps (nth i dgh []) a), upd (snd qa) i a)) idxs (q, al0))) = n).
  { induction idxs as [|i idxs IH]; intros q al0 Hi Hq; cbn [fold_left]; [exact Hq|].
    apply IH; [intros j Hj; apply Hi; right; exact Hj|]. cbn [fst].
    rewrite vsub_length, vscale_length, (hist_nth n m dgh i Hd (Hi i (or_introl eq_refl))), Hq. lia. }
  assert (H2 : forall idxs al0 s, (forall i, In i idxs -> (i < m)%nat) -> length s = n ->
               length (fold_left (fun s i =>
                 let beta := nth i rho (o0 ROps) * vdot ROps (nth i dgh []) s in
                 vadd ROps s (vscale ROps (nth i dxh []) (nth i al0 (o0 ROps) - beta))) idxs s) = n).
  { induction idxs as [|i idxs IH]; intros al0 s Hi Hs; cbn [fold_left]; [exact Hs|].
    apply IH; [intros j Hj; apply Hi; right; exact Hj|].
    rewrite vadd_length, vscale_length, (hist_nth n m dxh i Hx (Hi i (or_introl eq_refl))), Hs. lia. }
  unfold tl_loop1, tl_loop2.
  specialize (H1 (rev (tl_indices m iter)) g al (fun i Hi => Hidx i (proj2 (in_rev _ _) Hi)) Hg).
  destruct (fold_left _ (rev (tl_indices m iter)) (g, al)) as [q al'] eqn:Eq. cbn [fst] in H1 |- *.
  rewrite vscale_length. apply H2; [exact Hidx|].
  destruct iter; [exact H1 | rewrite vscale_length; exact H1].
Qed.

(* ------------------------------------------------------------------ L-BFGS driver *)
Section Driver.
  Variable f : list R -> R.
  Variable df : list R -> list R.
  Variable L : lb_params (T := R).
  Variable B : bt_params (T := R).
  Hypothesis Hc1 : 0 <= bt_c1 B.
  Hypothesis Hplo : 0 < bt_plo B.
  Hypothesis Hm : (0 < lb_m L)%nat.
  Variable n : nat.   (* the dimension of the problem *)
  Hypothesis Hdf : forall x, length x = n -> length (df x) = n.

  (* one recorded iteration (f before, df0, alpha, f after): it starts at some x, goes along some s of the same
     dimension with df0 = <df x, s>, and either takes a positive step that satisfies the Armijo inequality or
     stays where it is *)
  Definition link (fp d a fn : R) : Prop :=
    (exists x s, length x = n /\ length s = n /\ d = vdot ROps (df x) s /\ fp = f x /\ fn = f (vadd ROps x (vscale ROps s a))) /\
    ((0 < a /\ fn <= fp + bt_c1 B * a * d) \/ (a = 0 /\ fn = fp)).

  (* the chain of recorded objective values: each step starts at the value the previous one ended with *)
  Fixpoint trace_mono (fstart : R) (tr : list (R * R * R * R)) (fend : R) : Prop :=
    match tr with
    | [] => fstart = fend
    | (fp, d, a, fn) :: rest => fp = fstart /\ link fp d a fn /\ trace_mono fn rest fend
    end.
  (* every step that moved went along a non-ascent direction *)
  Definition descent_trace (tr : list (R * R * R * R)) : Prop :=
    Forall (fun s => 0 < snd (fst s) -> snd (fst (fst s)) <= 0) tr.

  Lemma trace_mono_le fstart tr fend : descent_trace tr -> trace_mono fstart tr fend -> fend <= fstart.
  Proof.
    revert fstart. induction tr as [|[[[fp d] a] fn] rest IH]; intros fstart Hd Hmo; cbn in Hmo.
    - lra.
    - destruct Hmo as [-> [[_ Hl] Hrest]]. inversion Hd as [|? ? Hd1 Hd2]; subst. cbn in Hd1.
      pose proof (IH fn Hd2 Hrest). destruct Hl as [[Ha Hle]|[_ ->]]; [|lra].
      specialize (Hd1 Ha).
      assert (bt_c1 B * a * d <= 0) by (assert (0 <= bt_c1 B * a) by nra; nra). lra.
  Qed.

  (* dimension discipline and "the stored gradient is the gradient at the stored point" *)
  Definition inv (st : lb_state) : Prop :=
    length (st_x st) = n /\ st_g st = df (st_x st) /\ length (st_g_prev st) = n /\ length (st_dx st) = n /\
    hist n (lb_m L) (st_dxh st) /\ hist n (lb_m L) (st_dgh st).

  Lemma update_state_spec st st1 d0 :
    inv st -> update_state ROps f df L B st = Some (st1, d0) ->
    inv st1 /\ st_f_prev st1 = f (st_x st) /\ st_f st1 = f (st_x st1) /\
    link (st_f_prev st1) d0 (st_alpha st1) (st_f st1).
  Proof.
    intros [Hx [Hg [Hgp [Hdx [Hhx Hhg]]]]]. unfold update_state.
    pose proof (two_loops_length n (lb_m L) (st_iter st) (st_g st) (st_rho st) (st_dxh st) (st_dgh st) (st_tla st)
                  Hm (eq_trans (f_equal (@length R) Hg) (Hdf _ Hx)) Hhx Hhg) as Hs.
    destruct (two_loops ROps (lb_m L) (st_iter st) (st_g st) (st_rho st) (st_dxh st) (st_dgh st) (st_tla st)) as [s al].
    cbn [fst] in Hs.
    set (phi := fun a => f (vadd ROps (vscale ROps s a) (st_x st))).
    destruct (bt_search ROps B phi (o1 ROps) (f (st_x st)) (vdot ROps (st_g st) s)) as [[alpha fx]|] eqn:E; [|discriminate].
    intros H; injection H as <- <-. cbn [st_f_prev st_f st_x st_alpha].
    destruct (backtracking_armijo B phi 1 (f (st_x st)) (vdot ROps (st_g st) s) alpha fx) as [Hcase _];
      [lra | exact Hplo | exact E |].
    assert (Hx' : length (vadd ROps (st_x st) (vscale ROps s alpha)) = length (st_x st))
      by (rewrite vadd_length, vscale_length, Hs; lia).
    split.
    { unfold inv. cbn [st_x st_g st_g_prev st_dx st_dxh st_dgh].
      split; [rewrite Hx'; exact Hx|]. split; [reflexivity|]. split; [apply Hdf; exact Hx|].
      split; [rewrite vscale_length; exact Hs|]. split; assumption. }
    split; [reflexivity|]. split; [reflexivity|]. split.
    - exists (st_x st), s. repeat split; try reflexivity; [exact Hx | exact Hs | rewrite Hg; reflexivity].
    - destruct Hcase as [[Hpos [Hfx Hle]]|[Ha0 Hf0]].
      + left. split; [exact Hpos|]. rewrite vadd_comm_R. fold (phi alpha). rewrite <- Hfx. exact Hle.
      + right. split; [exact Ha0|]. subst alpha. rewrite vadd_zero_step by lia. reflexivity.
  Qed.

  Lemma assess_keeps st : inv st -> inv (snd (assess_convergence ROps L st)) /\
                            st_x (snd (assess_convergence ROps L st)) = st_x st.
  Proof. intros H. split; [exact H | reflexivity]. Qed.
  Lemma hessian_keeps st : inv st -> inv (update_hessian ROps L st) /\ st_x (update_hessian ROps L st) = st_x st.
  Proof.
    intros [Hx [Hg [Hgp [Hdx [Hhx Hhg]]]]]. unfold update_hessian.
    destruct (is_infinite _ _); [split; [unfold inv; repeat (split; [assumption|]); assumption | reflexivity]|].
    split; [|reflexivity]. unfold inv. cbn [st_x st_g st_g_prev st_dx st_dxh st_dgh].
    repeat (split; [assumption|]). split.
    - apply hist_upd; [exact Hhx | exact Hdx].
    - apply hist_upd; [exact Hhg|]. rewrite vsub_length, Hg, (Hdf _ Hx), Hgp. lia.
  Qed.
  Lemma bump_keeps st : inv st -> inv (bump_iter st).
  Proof. intros H. exact H. Qed.

  Lemma opt_loop_mono fuel : forall st acc st' tr conv,
    inv st ->
    opt_loop ROps f df L B fuel st acc = Some (st', tr, conv) ->
    exists suffix, tr = rev acc ++ suffix /\ trace_mono (f (st_x st)) suffix (f (st_x st')) /\ length (st_x st') = n.
  Proof.
    induction fuel as [|k IH]; intros st acc st' tr conv Hinv E; cbn [opt_loop] in E.
    - inversion E; subst. exists []. rewrite app_nil_r. split; [reflexivity|]. split; [reflexivity | apply Hinv].
    - destruct (update_state ROps f df L B st) as [[st1 d0]|] eqn:Eu; [|discriminate].
      destruct (update_state_spec st st1 d0 Hinv Eu) as [Hinv1 [H1 [H2 Hl]]].
      destruct (assess_convergence ROps L st1) as [c st2] eqn:Ea.
      destruct (assess_keeps st1 Hinv1) as [Hinv2 Hx2]. rewrite Ea in Hinv2, Hx2. cbn [snd] in Hinv2, Hx2.
      destruct c.
      + inversion E; subst. exists [(st_f_prev st1, d0, st_alpha st1, st_f st1)]. cbn [rev]. split; [reflexivity|].
        split; [|cbn [bump_iter st_x]; apply Hinv2].
        cbn. repeat split; try assumption; try apply Hl. rewrite H2. cbn. rewrite Hx2. reflexivity.
      + destruct (hessian_keeps st2 Hinv2) as [Hinv3 Hx3].
        destruct (IH _ _ _ _ _ (bump_keeps _ Hinv3) E) as [suf [Htr [Hmo Hlen]]].
        exists ((st_f_prev st1, d0, st_alpha st1, st_f st1) :: suf). split.
        * rewrite Htr. cbn [rev]. rewrite <- app_assoc. reflexivity.
        * split; [|exact Hlen]. cbn. repeat split; try assumption; try apply Hl.
          replace (f (st_x (bump_iter (update_hessian ROps L st2)))) with (st_f st1) in Hmo; [exact Hmo|].
          rewrite H2. cbn [bump_iter st_x]. rewrite Hx3, Hx2. reflexivity.
  Qed.

  (* lbfgs_monotone: for every objective f (differentiable or not), every function df that maps vectors of the
     problem's dimension n to vectors of dimension n, every parameter setting with m > 0: if the optimiser returns, its recorded
     trace is a chain from f(x0) to f(returned x) in which every step either satisfies the Armijo inequality at
     a positive step length or stays where it is; so along any run in which every step that moved went along
     a non-ascent direction the objective never increases, and the returned point is no worse than the start. *)
  Lemma lbfgs_monotone x0 st tr conv :
    length x0 = n ->
    optimize ROps f df L B x0 = Some (st, tr, conv) ->
    trace_mono (f x0) tr (f (st_x st)) /\ length (st_x st) = n /\ (descent_trace tr -> f (st_x st) <= f x0).
  Proof.
    unfold optimize. cbn [init_state st_x st_x_prev st_f st_f_prev st_g_prev st_rho st_dxh st_dgh st_dx st_tla st_s st_alpha].
    intros Hx0 E.
    assert (Hmo : trace_mono (f x0) tr (f (st_x st)) /\ length (st_x st) = n).
    { destruct (oltb ROps _ _) in E.
      - inversion E; subst. split; [reflexivity | exact Hx0].
      - assert (Hinv : inv
                 (mkSt x0 x0 (nan ROps) (nan ROps) (df x0) x0 (repeat (o0 ROps) (lb_m L)) (repeat x0 (lb_m L))
                       (repeat x0 (lb_m L)) x0 (repeat (o0 ROps) (lb_m L)) 0%nat 0%nat x0 (o1 ROps))).
        { unfold inv. cbn [st_x st_g st_g_prev st_dx st_dxh st_dgh].
          split; [exact Hx0|]. split; [reflexivity|]. split; [exact Hx0|]. split; [exact Hx0|].
          split; apply hist_repeat; exact Hx0. }
        destruct (opt_loop_mono _ _ _ _ _ _ Hinv E) as [suf [Htr [Hmo Hlen]]]. cbn in Htr. subst. split; assumption. }
    destruct Hmo as [Hmo Hlen]. split; [exact Hmo|]. split; [exact Hlen|]. intros Hd. eapply trace_mono_le; eassumption.
  Qed.

  (* the convex route: if f lies above its tangents (with df as the slope) and c1 < 1, then a positive step that
     passes the Armijo test can only have been taken along a non-ascent direction — so the descent hypothesis
     holds on EVERY returned run and the objective never increases, whatever the two-loop recursion produced *)
  Hypothesis Hc1lt : bt_c1 B < 1.
  Hypothesis Hconv : forall x s a, length x = n -> length s = n ->
    f x + a * vdot ROps (df x) s <= f (vadd ROps x (vscale ROps s a)).

  Lemma trace_mono_descent fstart tr fend : trace_mono fstart tr fend -> descent_trace tr.
  Proof.
    revert fstart. induction tr as [|[[[fp d] a] fn] rest IH]; intros fstart Hmo; [constructor|].
    cbn in Hmo. destruct Hmo as [_ [[[x [s [Hlx [Hls [Hd [Hfp Hfn]]]]]] Hl] Hrest]].
    constructor; [|eapply IH; exact Hrest]. cbn. intros Ha.
    destruct Hl as [[_ Hle]|[Ha0 _]]; [|lra].
    pose proof (Hconv x s a Hlx Hls) as Hc. rewrite <- Hd, <- Hfp, <- Hfn in Hc.
    assert ((1 - bt_c1 B) * (a * d) <= 0) by lra.
    assert (a * d <= 0) by nra. nra.
  Qed.

  Lemma lbfgs_monotone_convex x0 st tr conv :
    length x0 = n ->
    optimize ROps f df L B x0 = Some (st, tr, conv) ->
    descent_trace tr /\ length (st_x st) = n /\ f (st_x st) <= f x0.
  Proof.
    intros Hx0 E. destruct (lbfgs_monotone x0 st tr conv Hx0 E) as [Hmo [Hlen Hle]].
    pose proof (trace_mono_descent _ _ _ Hmo) as Hd. split; [exact Hd|]. split; [exact Hlen | exact (Hle Hd)].
  Qed.
End Driver.

(* ------------------------------------------------------------------ first direction *)
Lemma two_loop_first_step m g rho dxh dgh al :
  fst (two_loops ROps m 0 g rho dxh dgh al) = map Ropp g.
Proof.
  unfold two_loops, tl_indices. rewrite Nat.sub_0_l. cbn.
  unfold vscale. apply map_ext. intros a. cbn. lra.
Qed.

Lemma vdot_acc_R (a b : list R) acc :
  fold_left (fun acc xy => acc + fst xy * snd xy) (combine a b) acc =
  acc + fold_left (fun acc xy => acc + fst xy * snd xy) (combine a b) 0.
Proof.
  revert b acc. induction a as [|x a IH]; intros [|y b] acc; cbn; try lra.
  rewrite IH. rewrite (IH b (0 + x * y)). lra.
Qed.

Lemma vdot_cons_R x a y b : vdot ROps (x :: a) (y :: b) = x * y + vdot ROps a b.
Proof. unfold vdot. cbn. rewrite vdot_acc_R. lra. Qed.

Lemma vdot_neg_self g : vdot ROps g (map Ropp g) = - vdot ROps g g.
Proof.
  induction g as [|x g IH]; [unfold vdot; cbn; lra|].
  cbn [map]. rewrite !vdot_cons_R, IH. lra.
Qed.
Lemma vdot_self_nonneg g : 0 <= vdot ROps g g.
Proof. induction g as [|x g IH]; [unfold vdot; cbn; lra|]. rewrite vdot_cons_R. nra. Qed.
Lemma vdot_self_pos g : (exists x, In x g /\ x <> 0) -> 0 < vdot ROps g g.
Proof.
  intros [x [Hin Hx]]. induction g as [|y g IH]; [contradiction|].
  rewrite vdot_cons_R. pose proof (vdot_self_nonneg g). destruct Hin as [->|Hin].
  - assert (0 < x * x) by nra. lra.
  - specialize (IH Hin). nra.
Qed.

(* the first L-BFGS direction is the steepest-descent direction -g, a strict descent direction unless g = 0 *)
Lemma first_step_descent m g rho dxh dgh al :
  let s := fst (two_loops ROps m 0 g rho dxh dgh al) in
  s = map Ropp g /\ vdot ROps g s = - vdot ROps g g /\ vdot ROps g s <= 0 /\
  ((exists x, In x g /\ x <> 0) -> vdot ROps g s < 0).
Proof.
  cbv zeta. rewrite two_loop_first_step, vdot_neg_self. pose proof (vdot_self_nonneg g).
  repeat split; try lra. intros H1. pose proof (vdot_self_pos g H1). lra.
Qed.
