(* C09 — proofs about the line search and the L-BFGS driver: sufficient decrease for EVERY objective,
   monotonicity of the objective along any run of descent directions, first step = steepest descent. *)
From Coq Require Import List ZArith Bool Reals Lra Lia.
From SC Require Import Base.Num C09.Model.
Import ListNotations.
Local Open Scope R_scope.

(* ------------------------------------------------------------------ the real instance *)
Lemma is_finite_R x : is_finite ROps x = true.
Proof. unfold is_finite; cbn. apply Reqb_true. lra. Qed.

Lemma is_infinite_R x : is_infinite ROps x = false.
Proof. unfold is_infinite. rewrite is_finite_R. reflexivity. Qed.

Lemma rmax_R_ge_r a b : b <= rmax ROps a b.
Proof.
  unfold rmax; cbn.
  destruct (Rltb a b) eqn:E1; [lra|].
  destruct (Rleb b a) eqn:E2.
  - apply Rleb_true in E2. exact E2.
  - apply Rltb_false in E1. apply Rleb_false in E2. lra.
Qed.
Lemma rmax_R_ge_l a b : a <= rmax ROps a b.
Proof.
  unfold rmax; cbn.
  destruct (Rltb a b) eqn:E1; [apply Rltb_true in E1; lra|].
  destruct (Rleb b a) eqn:E2; [lra|].
  apply Rltb_false in E1. apply Rleb_false in E2. lra.
Qed.
Lemma rmax_R_cases a b : rmax ROps a b = a \/ rmax ROps a b = b.
Proof. unfold rmax; cbn. destruct (Rltb a b); [right|]; auto. destruct (Rleb b a); auto. destruct (Reqb a a); auto. Qed.

(* ------------------------------------------------------------------ line search, any scalar type *)
Section AnyOps.
  Context {T : Type} (O : Ops T).

  Lemma bt_finite_inv phi fuel a1 a2 fx1 a1' a2' fx1' :
    fx1 = phi a2 -> bt_finite O fuel phi a1 a2 fx1 = (a1', a2', fx1') -> fx1' = phi a2'.
  Proof.
    revert a1 a2 fx1. induction fuel as [|k IH]; intros a1 a2 fx1 H E; cbn in E.
    - inversion E; subst; reflexivity.
    - destruct (is_finite O fx1).
      + inversion E; subst; reflexivity.
      + eapply IH; [|exact E]. reflexivity.
  Qed.

  Lemma bt_loop_exit P phi f0 df0 fuel : forall first a1 a2 fx0 fx1 a fx,
    fx1 = phi a2 ->
    bt_loop O P phi f0 df0 fuel first a1 a2 fx0 fx1 = Some (a, fx) ->
    oltb O (oadd O f0 (omul O (omul O (bt_c1 P) a) df0)) fx = false /\ fx = phi a.
  Proof.
    induction fuel as [|k IH]; intros first a1 a2 fx0 fx1 a fx Hphi E; cbn in E.
    - destruct (oltb O (oadd O f0 (omul O (omul O (bt_c1 P) a2) df0)) fx1) eqn:Et; [discriminate|].
      inversion E; subst. split; [exact Et | reflexivity].
    - destruct (oltb O (oadd O f0 (omul O (omul O (bt_c1 P) a2) df0)) fx1) eqn:Et.
      + eapply IH; [|exact E]. reflexivity.
      + inversion E; subst. split; [exact Et | reflexivity].
  Qed.

  (* A normal return of Backtracking::search — on binary64 as well as on R, for every objective, every
     parameter setting, both interpolation orders — hands back a step at which the loop test
     `f(a) > f0 + c1*a*df0` is false, together with the objective value at that step. *)
  Lemma bt_search_exit P phi alpha f0 df0 a fx :
    bt_search O P phi alpha f0 df0 = Some (a, fx) ->
    oltb O (oadd O f0 (omul O (omul O (bt_c1 P) a) df0)) fx = false /\ fx = phi a.
  Proof.
    unfold bt_search.
    destruct (bt_finite O (bt_max_inf P) phi alpha alpha (phi alpha)) as [[a1 a2] fx1] eqn:Ef.
    intros E. eapply bt_loop_exit; [|exact E].
    eapply bt_finite_inv; [|exact Ef]. reflexivity.
  Qed.
End AnyOps.

(* ------------------------------------------------------------------ line search over R *)
Lemma bt_finite_R fuel phi a1 a2 fx1 : bt_finite ROps fuel phi a1 a2 fx1 = (a1, a2, fx1).
Proof. destruct fuel; [reflexivity|]. cbn [bt_finite]. rewrite is_finite_R. reflexivity. Qed.

Lemma bt_loop_pos P phi f0 df0 fuel : forall first a1 a2 fx0 fx1 a fx,
  0 < bt_plo P -> 0 < a2 ->
  bt_loop ROps P phi f0 df0 fuel first a1 a2 fx0 fx1 = Some (a, fx) -> 0 < a.
Proof.
  induction fuel as [|k IH]; intros first a1 a2 fx0 fx1 a fx Hplo Ha E; cbn in E.
  - destruct (Rltb _ _); [discriminate|]. inversion E; subst. lra.
  - destruct (Rltb (f0 + bt_c1 P * a2 * df0) fx1) eqn:Et.
    + set (a_tmp := if negb (bt_third P) || first then _ else _) in E.
      set (a2' := rmax ROps (rmin ROps a_tmp (a2 * bt_phi P)) (a2 * bt_plo P)) in E.
      assert (H1 : 0 < a2') by (pose proof (rmax_R_ge_r (rmin ROps a_tmp (a2 * bt_phi P)) (a2 * bt_plo P)); unfold a2'; nra).
      exact (IH false a2 a2' fx1 (phi a2') a fx Hplo H1 E).
    + inversion E; subst. exact Ha.
Qed.

(* backtracking_armijo: for EVERY objective phi, every c1, phi-factor, iteration limits and both orders:
   a normal return satisfies the sufficient-decrease (Armijo) inequality at a positive step, hence does not
   increase the objective whenever the directional derivative is <= 0 (and c1 >= 0). *)
Lemma backtracking_armijo P phi alpha f0 df0 a fx :
  0 < alpha -> 0 < bt_plo P ->
  bt_search ROps P phi alpha f0 df0 = Some (a, fx) ->
  fx = phi a /\ 0 < a /\ fx <= f0 + bt_c1 P * a * df0 /\ (0 <= bt_c1 P -> df0 <= 0 -> fx <= f0).
Proof.
  intros Halpha Hplo E.
  destruct (bt_search_exit ROps P phi alpha f0 df0 a fx E) as [Ht Hfx]. cbn in Ht.
  apply Rltb_false in Ht.
  assert (Hpos : 0 < a).
  { unfold bt_search in E. rewrite bt_finite_R in E. eapply bt_loop_pos; [exact Hplo| |exact E]. exact Halpha. }
  repeat split; try assumption.
  intros Hc Hd. assert (bt_c1 P * a * df0 <= 0) by (assert (0 <= bt_c1 P * a) by nra; nra). lra.
Qed.

(* ------------------------------------------------------------------ vectors over R *)
Lemma vadd_comm_R (a b : list R) : vadd ROps a b = vadd ROps b a.
Proof.
  unfold vadd. revert b. induction a as [|x a IH]; intros [|y b]; cbn; try reflexivity.
  rewrite IH. f_equal. lra.
Qed.

(* ------------------------------------------------------------------ L-BFGS driver *)
Section Driver.
  Variable f : list R -> R.
  Variable df : list R -> list R.
  Variable L : lb_params (T := R).
  Variable B : bt_params (T := R).
  Hypothesis Hc1 : 0 <= bt_c1 B.
  Hypothesis Hplo : 0 < bt_plo B.

  (* the chain of recorded objective values: each step starts at the value the previous one ended with
     and does not increase it *)
  Fixpoint trace_mono (fstart : R) (tr : list (R * R * R * R)) (fend : R) : Prop :=
    match tr with
    | [] => fstart = fend
    | (fp, d, a, fn) :: rest => fp = fstart /\ 0 < a /\ fn <= fp + bt_c1 B * a * d /\ trace_mono fn rest fend
    end.
  Definition descent_trace (tr : list (R * R * R * R)) : Prop :=
    Forall (fun s => snd (fst (fst s)) <= 0) tr.

  Lemma trace_mono_le fstart tr fend : descent_trace tr -> trace_mono fstart tr fend -> fend <= fstart.
  Proof.
    revert fstart. induction tr as [|[[[fp d] a] fn] rest IH]; intros fstart Hd Hm; cbn in Hm.
    - lra.
    - destruct Hm as [-> [Ha [Hle Hrest]]]. inversion Hd as [|? ? Hd1 Hd2]; subst. cbn in Hd1.
      pose proof (IH fn Hd2 Hrest).
      assert (bt_c1 B * a * d <= 0) by (assert (0 <= bt_c1 B * a) by nra; nra). lra.
  Qed.

  Lemma update_state_spec st st1 d0 :
    update_state ROps f df L B st = Some (st1, d0) ->
    st_f_prev st1 = f (st_x st) /\ st_f st1 = f (st_x st1) /\ 0 < st_alpha st1 /\
    st_f st1 <= st_f_prev st1 + bt_c1 B * st_alpha st1 * d0.
  Proof.
    unfold update_state.
    destruct (two_loops ROps (lb_m L) (st_iter st) (st_g st) (st_rho st) (st_dxh st) (st_dgh st) (st_tla st)) as [s al].
    set (phi := fun a => f (vadd ROps (vscale ROps s a) (st_x st))).
    destruct (bt_search ROps B phi (o1 ROps) (f (st_x st)) (vdot ROps (st_g st) s)) as [[alpha fx]|] eqn:E; [|discriminate].
    intros H; inversion H; subst; clear H. cbn [st_f_prev st_f st_x st_alpha].
    destruct (backtracking_armijo B phi 1 (f (st_x st)) (vdot ROps (st_g st) s) alpha fx) as [Hfx [Hpos [Hle _]]];
      [lra | exact Hplo | exact E |].
    repeat split; try assumption.
    rewrite vadd_comm_R. fold (phi alpha). rewrite <- Hfx. exact Hle.
  Qed.

  Lemma assess_keeps st : st_x (snd (assess_convergence ROps L st)) = st_x st.
  Proof. reflexivity. Qed.
  Lemma hessian_keeps st : st_x (update_hessian ROps L st) = st_x st.
  Proof. unfold update_hessian. destruct (is_infinite _ _); reflexivity. Qed.

  Lemma opt_loop_mono fuel : forall st acc st' tr conv,
    opt_loop ROps f df L B fuel st acc = Some (st', tr, conv) ->
    exists suffix, tr = rev acc ++ suffix /\ trace_mono (f (st_x st)) suffix (f (st_x st')).
  Proof.
    induction fuel as [|k IH]; intros st acc st' tr conv E; cbn [opt_loop] in E.
    - inversion E; subst. exists []. rewrite app_nil_r. split; reflexivity.
    - destruct (update_state ROps f df L B st) as [[st1 d0]|] eqn:Eu; [|discriminate].
      destruct (update_state_spec st st1 d0 Eu) as [H1 [H2 [H3 H4]]].
      destruct (assess_convergence ROps L st1) as [c st2] eqn:Ea.
      assert (Hx2 : st_x st2 = st_x st1) by (change st2 with (snd (c, st2)); rewrite <- Ea; apply assess_keeps).
      destruct c.
      + inversion E; subst. exists [(st_f_prev st1, d0, st_alpha st1, st_f st1)]. cbn [rev]. split; [reflexivity|].
        cbn. repeat split; try assumption. rewrite H2. cbn. rewrite Hx2. reflexivity.
      + destruct (IH _ _ _ _ _ E) as [suf [Htr Hm]].
        exists ((st_f_prev st1, d0, st_alpha st1, st_f st1) :: suf). split.
        * rewrite Htr. cbn [rev]. rewrite <- app_assoc. reflexivity.
        * cbn. repeat split; try assumption.
          replace (f (st_x (bump_iter (update_hessian ROps L st2)))) with (st_f st1) in Hm; [exact Hm|].
          rewrite H2. cbn [bump_iter st_x]. rewrite hessian_keeps, Hx2. reflexivity.
  Qed.

  (* lbfgs_monotone: for every objective f (differentiable or not), every "gradient" function df, every
     parameter setting: if the optimiser returns (the line search never hit its iteration limit), its
     recorded trace is a chain from f(x0) to f(returned x) in which every step satisfies the Armijo
     inequality at a positive step length; so along any run in which every direction was a descent
     direction (df0 <= 0 in each recorded step) the objective never increases, and the returned point is
     no worse than the start. *)
  Lemma lbfgs_monotone x0 st tr conv :
    optimize ROps f df L B x0 = Some (st, tr, conv) ->
    trace_mono (f x0) tr (f (st_x st)) /\ (descent_trace tr -> f (st_x st) <= f x0).
  Proof.
    unfold optimize. cbn [init_state st_x st_x_prev st_f st_f_prev st_g_prev st_rho st_dxh st_dgh st_dx st_tla st_s st_alpha].
    intros E.
    assert (Hm : trace_mono (f x0) tr (f (st_x st))).
    { destruct (oltb ROps _ _) in E.
      - inversion E; subst. reflexivity.
      - destruct (opt_loop_mono _ _ _ _ _ _ E) as [suf [Htr Hm]]. cbn in Htr. subst. exact Hm. }
    split; [exact Hm|]. intros Hd. eapply trace_mono_le; eassumption.
  Qed.
End Driver.

(* ------------------------------------------------------------------ first direction *)
Lemma two_loop_first_step m g rho dxh dgh al :
  fst (two_loops ROps m 0 g rho dxh dgh al) = map Ropp g.
Proof.
  unfold two_loops, tl_indices. rewrite Nat.sub_0_l. cbn.
  unfold vscale. apply map_ext. intros a. cbn. lra.
Qed.

Lemma vdot_acc_R (a b : list R) acc :
  fold_left (fun acc xy => acc + fst xy * snd xy) (combine a b) acc =
  acc + fold_left (fun acc xy => acc + fst xy * snd xy) (combine a b) 0.
Proof.
  revert b acc. induction a as [|x a IH]; intros [|y b] acc; cbn; try lra.
  rewrite IH. rewrite (IH b (0 + x * y)). lra.
Qed.

Lemma vdot_cons_R x a y b : vdot ROps (x :: a) (y :: b) = x * y + vdot ROps a b.
Proof. unfold vdot. cbn. rewrite vdot_acc_R. lra. Qed.

Lemma vdot_neg_self g : vdot ROps g (map Ropp g) = - vdot ROps g g.
Proof.
  induction g as [|x g IH]; [unfold vdot; cbn; lra|].
  cbn [map]. rewrite !vdot_cons_R, IH. lra.
Qed.
Lemma vdot_self_nonneg g : 0 <= vdot ROps g g.
Proof. induction g as [|x g IH]; [unfold vdot; cbn; lra|]. rewrite vdot_cons_R. nra. Qed.
Lemma vdot_self_pos g : (exists x, In x g /\ x <> 0) -> 0 < vdot ROps g g.
Proof.
  intros [x [Hin Hx]]. induction g as [|y g IH]; [contradiction|].
  rewrite vdot_cons_R. pose proof (vdot_self_nonneg g). destruct Hin as [->|Hin].
  - assert (0 < x * x) by nra. lra.
  - specialize (IH Hin). nra.
Qed.

(* the first L-BFGS direction is the steepest-descent direction -g, a strict descent direction unless g = 0 *)
Lemma first_step_descent m g rho dxh dgh al :
  let s := fst (two_loops ROps m 0 g rho dxh dgh al) in
  s = map Ropp g /\ vdot ROps g s = - vdot ROps g g /\ vdot ROps g s <= 0 /\
  ((exists x, In x g /\ x <> 0) -> vdot ROps g s < 0).
Proof.
  cbv zeta. rewrite two_loop_first_step, vdot_neg_self. pose proof (vdot_self_nonneg g).
  repeat split; try lra. intros H1. pose proof (vdot_self_pos g H1). lra.
Qed.
