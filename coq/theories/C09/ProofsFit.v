(* C09 — the monotonicity clause of the property as an exact-arithmetic theorem: the model of
   LogisticRegression::fit (both variants), with ln(1+e^x), 1/(1+e^-x) and softmax in their exact forms
   (C09_stable_* bound the difference to the overflow-safe ones), never ends above its starting objective --
   whatever directions the two-loop recursion produced. *)
From Coq Require Import List ZArith Bool Reals Lra Lia Arith.
From SC Require Import Base.Num C09.Model C09.ProofsSearch C09.ProofsGrad C09.ProofsStable C09.ProofsGradMulti
     C09.ProofsConvex C09.ProofsConvexMulti.
Import ListNotations.
Local Open Scope R_scope.

(* the flat weight vector the optimiser worked on, reassembled from a fitted model: per class the p weights, then
   the bias *)
Definition lr_weights (M : lr_model (T := R)) : list R :=
  concat (map2 (fun c b => c ++ [b]) (lr_coef M) (lr_intercept M)).

(* the objective fit minimises: class indices yi in the sorted list of distinct labels, k classes *)
Definition lr_objective (p k : nat) (x : list (list R)) (yi : list nat) (alpha : R) (w : list R) : R :=
  if Nat.eqb k 2 then binary_f_gen ROps lse_exact p x yi alpha w else multi_f_gen ROps softmax_def p k x yi alpha w.
Definition lr_class_indices (y : list R) : list nat :=
  map (fun v => match position ROps v (unique ROps y) with Some i => i | None => 0%nat end) y.

Lemma block_reassemble (b : list R) : forall p, length b = S p -> firstn p b ++ [nth p b 0] = b.
Proof.
  induction b as [|h b IH]; intros p Hb; cbn in Hb; [lia|].
  destruct p as [|p]; [destruct b; [reflexivity | cbn in Hb; lia]|].
  cbn [firstn nth app]. f_equal. apply IH. lia.
Qed.
Lemma split_rows_concat p : forall k (w : list R), length w = (k * S p)%nat ->
  concat (map2 (fun c b => c ++ [b]) (map (firstn p) (split_rows p k w)) (map (fun r => nth p r 0) (split_rows p k w))) = w.
Proof.
  induction k as [|k IH]; intros w Hw.
  - destruct w; [reflexivity | cbn in Hw; lia].
  - cbn [split_rows map map2 concat].
    rewrite block_reassemble by (rewrite firstn_length_le; lia).
    rewrite IH by (rewrite skipn_length; lia). apply firstn_skipn.
Qed.
Lemma position_lt (v : R) (l : list R) i : position ROps v l = Some i -> (i < length l)%nat.
Proof.
  revert i. induction l as [|h l IH]; intros i H; cbn in H; [discriminate|].
  destruct (Reqb v h); [inversion H; cbn; lia|].
  destruct (position ROps v l) as [j|]; cbn in H; [|discriminate]. inversion H. specialize (IH j eq_refl). cbn. lia.
Qed.
Lemma class_indices_lt (y : list R) : (0 < length (unique ROps y))%nat ->
  Forall (fun c => (c < length (unique ROps y))%nat) (lr_class_indices y).
Proof.
  intros Hk. unfold lr_class_indices. apply Forall_forall. intros c Hc. apply in_map_iff in Hc.
  destruct Hc as [v [<- _]]. destruct (position ROps v (unique ROps y)) as [i|] eqn:E; [eapply position_lt; exact E | exact Hk].
Qed.

Lemma logistic_fit_never_increases (L : lb_params (T := R)) (B : bt_params (T := R)) p x y alpha M :
  0 <= bt_c1 B < 1 -> 0 < bt_plo B -> (0 < lb_m L)%nat -> Forall (fun r => length r = p) x ->
  lr_fit_gen ROps lse_exact sig_exact softmax_def L B p x y alpha = Some M ->
  let k := length (unique ROps y) in
  let yi := lr_class_indices y in
  lr_k M = k /\ (2 <= k)%nat /\
  lr_objective p k x yi alpha (lr_weights M)
  <= lr_objective p k x yi alpha (zeros ROps (if Nat.eqb k 2 then S p else k * S p)%nat).
Proof.
  intros [Hc0 Hc1] Hplo Hm Hx. unfold lr_fit_gen. cbv zeta.
  destruct (negb (Nat.eqb (length x) (length y))); [discriminate|].
  fold (lr_class_indices y). set (k := length (unique ROps y)). set (yi := lr_class_indices y).
  destruct (k <? 2)%nat eqn:Ek2; [discriminate|]. apply Nat.ltb_ge in Ek2.
  unfold lr_objective. destruct (Nat.eqb k 2) eqn:Ek.
  - destruct (optimize ROps _ _ L B (zeros ROps (S p))) as [[[st tr] conv]|] eqn:E; [|discriminate].
    intros HM. injection HM as <-. cbn [lr_k]. split; [reflexivity|]. split; [exact Ek2|].
    destruct (lbfgs_monotone_convex (binary_f_gen ROps lse_exact p x yi alpha) (binary_df_gen ROps sig_exact p x yi alpha)
                L B Hc0 Hplo Hm (S p)
                (fun w _ => binary_df_length p x yi alpha sig_exact w) Hc1
                (fun w s a Hw Hs => binary_tangent p x yi alpha Hx w s a Hw Hs)
                (zeros ROps (S p)) st tr conv (repeat_length _ _) E) as [_ [Hlen Hle]].
    unfold lr_weights. cbn [lr_coef lr_intercept map2 concat]. rewrite app_nil_r.
    change (o0 ROps) with 0. rewrite block_reassemble by exact Hlen. exact Hle.
  - destruct (optimize ROps _ _ L B (zeros ROps (k * S p))) as [[[st tr] conv]|] eqn:E; [|discriminate].
    intros HM. injection HM as <-. cbn [lr_k]. split; [reflexivity|]. split; [exact Ek2|].
    assert (Hyi : Forall (fun c => (c < k)%nat) yi) by (apply class_indices_lt; fold k; lia).
    destruct (lbfgs_monotone_convex (multi_f_gen ROps softmax_def p k x yi alpha) (multi_df_gen ROps softmax_def p k x yi alpha)
                L B Hc0 Hplo Hm (k * S p)%nat
                (fun w _ => multi_df_length p k x yi alpha w) Hc1
                (fun w s a Hw Hs => multi_tangent p k x yi alpha Hx Hyi w s a Hw Hs)
                (zeros ROps (k * S p)) st tr conv (repeat_length _ _) E) as [_ [Hlen Hle]].
    unfold lr_weights. cbn [lr_coef lr_intercept]. change (o0 ROps) with 0.
    rewrite split_rows_concat by exact Hlen. exact Hle.
Qed.
