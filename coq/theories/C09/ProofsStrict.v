(* C09 — strong convexity in the weights for alpha > 0: the tangent inequalities gain alpha/2 * a^2 * |s_weights|^2,
   hence two stationary points of the penalised objective have the same weights (they may differ in the
   unpenalised intercepts: for k >= 3 adding a constant to all intercepts does not change the objective). *)
From Coq Require Import List ZArith Bool Reals Lra Lia Arith.
From SC Require Import Base.Num C09.Model C09.ProofsSearch C09.ProofsGrad C09.ProofsStable C09.ProofsGradMulti
     C09.ProofsConvex C09.ProofsConvexMulti.
Import ListNotations.
Local Open Scope R_scope.

Lemma Rltb_0_0 : Rltb 0 0 = false. Proof. apply Rltb_false. lra. Qed.
Lemma Rltb_pos a : 0 < a -> Rltb 0 a = true. Proof. intros; apply Rltb_true; assumption. Qed.

Lemma vadd_vsub (w : list R) : forall w', length w' = length w -> vadd ROps w (vscale ROps (vsub ROps w' w) 1) = w'.
Proof.
  induction w as [|h w IH]; intros [|h' w'] Hl; cbn in Hl; try lia; [reflexivity|].
  cbn [vsub vscale vadd map2 map]. f_equal; [cbn; lra|]. apply IH. lia.
Qed.
Lemma nth_vsub (w' : list R) : forall w i, length w' = length w -> nth i (vsub ROps w' w) 0 = nth i w' 0 - nth i w 0.
Proof.
  induction w' as [|h' w' IH]; intros [|h w] i Hl; cbn in Hl; try lia; [destruct i; cbn; lra|].
  destruct i; cbn [vsub map2 nth]; [cbn; lra|]. apply IH. lia.
Qed.
Lemma lsum_nonneg {A} (g : A -> R) (l : list A) : (forall r, In r l -> 0 <= g r) -> 0 <= lsum g l.
Proof.
  intros H. rewrite <- (lsum_zero l). apply lsum_le. exact H.
Qed.
Lemma lsum_nonneg_zero {A} (g : A -> R) (l : list A) : (forall r, In r l -> 0 <= g r) -> lsum g l = 0 ->
  forall r, In r l -> g r = 0.
Proof.
  induction l as [|x l IH]; intros Hp Hz r Hr; [destruct Hr|].
  change (lsum g (x :: l)) with (g x + lsum g l) in Hz.
  pose proof (Hp x (or_introl eq_refl)). pose proof (lsum_nonneg g l (fun r Hr => Hp r (or_intror Hr))).
  destruct Hr as [<-|Hr]; [lra|]. apply IH; try assumption; [intros; apply Hp; right; assumption | lra].
Qed.

(* ---------------------------------------------------------------- multinomial *)
Section MultiStrict.
  Variables (p k : nat) (x : list (list R)) (y : list nat) (alpha : R).
  Hypothesis Hx : Forall (fun r => length r = p) x.
  Hypothesis Hy : Forall (fun c => (c < k)%nat) y.
  Hypothesis Ha : 0 < alpha.
  Let n := (k * S p)%nat.
  Let f := multi_f_gen ROps softmax_def p k x y alpha.
  Let df := multi_df_gen ROps softmax_def p k x y alpha.

  Lemma psum_expand w s a : length s = length w ->
    psum p k (vadd ROps w (vscale ROps s a)) (vadd ROps w (vscale ROps s a)) = psum p k w w + 2 * a * psum p k w s + a * a * psum p k s s.
  Proof.
    intros Hl. unfold psum. rewrite <- !lsum_scal, <- !lsum_plus. apply lsum_ext. intros i _.
    rewrite <- !lsum_scal, <- !lsum_plus. apply lsum_ext. intros j _.
    rewrite (nth_vadd_vscale w s a (i * S p + j) Hl). ring.
  Qed.

  Lemma multi_tangent_strong w s a : length w = n -> length s = n ->
    f w + a * vdot ROps (df w) s + alpha / 2 * (a * a) * psum p k s s <= f (vadd ROps w (vscale ROps s a)).
  Proof.
    intros Hw Hs. assert (Hl : length s = length w) by (unfold n in *; lia).
    pose proof (multi_tangent p k x y 0 Hx Hy w s a Hw Hs) as H0.
    rewrite !multi_f_lsum, (multi_df_vdot p k x y 0 Hx w s Hs) in H0 by assumption. rewrite Rltb_0_0 in H0.
    unfold f, df. rewrite !multi_f_lsum, (multi_df_vdot p k x y alpha Hx w s Hs) by assumption.
    rewrite (Rltb_pos alpha Ha), (psum_expand w s a Hl).
    unfold half, two, cst. cbn [ROps o1 odiv oofZ]. lra.
  Qed.

  (* two stationary points (gradient orthogonal to everything, e.g. the zero vector) have the same weights *)
  Lemma multi_stationary_same_weights w w' : length w = n -> length w' = n ->
    (forall s, vdot ROps (df w) s = 0) -> (forall s, vdot ROps (df w') s = 0) ->
    forall i j, (i < k)%nat -> (j < p)%nat -> nth (i * S p + j) w' 0 = nth (i * S p + j) w 0.
  Proof.
    intros Hw Hw' Hs Hs' i j Hi Hj.
    pose proof (multi_tangent_strong w (vsub ROps w' w) 1 Hw ltac:(rewrite vsub_length; lia)) as H1.
    pose proof (multi_tangent_strong w' (vsub ROps w w') 1 Hw' ltac:(rewrite vsub_length; lia)) as H2.
    rewrite vadd_vsub, Hs in H1 by lia. rewrite vadd_vsub, Hs' in H2 by lia.
    assert (Hq : forall u v, 0 <= psum p k (vsub ROps u v) (vsub ROps u v)).
    { intros u v. unfold psum. apply lsum_nonneg. intros; apply lsum_nonneg. intros; nra. }
    pose proof (Hq w' w) as Q1. pose proof (Hq w w') as Q2.
    assert (Hz : psum p k (vsub ROps w' w) (vsub ROps w' w) = 0) by nra.
    unfold psum in Hz.
    pose proof (lsum_nonneg_zero _ _ (fun i' _ => lsum_nonneg _ _ (fun j' _ => Rle_0_sqr _)) Hz i ltac:(apply in_seq; lia)) as Hzi.
    cbv beta in Hzi.
    pose proof (lsum_nonneg_zero _ _ (fun j' _ => Rle_0_sqr _) Hzi j ltac:(apply in_seq; lia)) as Hzj.
    cbv beta in Hzj. rewrite nth_vsub in Hzj by (rewrite Hw, Hw'; reflexivity). apply Rmult_integral in Hzj. destruct Hzj; lra.
  Qed.
End MultiStrict.

(* ---------------------------------------------------------------- two classes *)
Section BinaryStrict.
  Variables (p : nat) (x : list (list R)) (y : list nat) (alpha : R).
  Hypothesis Hx : Forall (fun r => length r = p) x.
  Hypothesis Ha : 0 < alpha.
  Let f := binary_f_gen ROps lse_exact p x y alpha.
  Let df := binary_df_gen ROps sig_exact p x y alpha.

  Lemma sumsq_expand (w : list R) : forall q s a, length s = length w ->
    sumsq (firstn q (vadd ROps w (vscale ROps s a))) =
    sumsq (firstn q w) + 2 * a * vdot ROps (firstn q w) s + a * a * sumsq (firstn q s).
  Proof.
    induction w as [|h w IH]; intros q [|k s] a Hl; cbn in Hl; try lia.
    - destruct q; cbn; unfold sumsq, vdot; cbn; lra.
    - destruct q as [|q]; [cbn; unfold sumsq, vdot; cbn; lra|].
      cbn [vscale map vadd map2 firstn]. rewrite !sumsq_cons, vdot_cons_R.
      change (map2 (fun u v => oadd ROps u v) w (map (fun u => omul ROps u a) s)) with (vadd ROps w (vscale ROps s a)).
      rewrite (IH q s a ltac:(lia)). cbn [ROps oadd omul]. ring.
  Qed.

  Lemma binary_tangent_strong w s a : length w = S p -> length s = S p ->
    f w + a * vdot ROps (df w) s + alpha / 2 * (a * a) * sumsq (firstn p s) <= f (vadd ROps w (vscale ROps s a)).
  Proof.
    intros Hw Hs. assert (Hl : length s = length w) by lia.
    pose proof (binary_tangent p x y 0 Hx w s a Hw Hs) as H0.
    rewrite !binary_f_lsum, (binary_df_vdot p x y 0 Hx sig_exact w s Hw Hs) in H0. rewrite Rltb_0_0 in H0.
    unfold f, df. rewrite !binary_f_lsum, (binary_df_vdot p x y alpha Hx sig_exact w s Hw Hs).
    rewrite (Rltb_pos alpha Ha), (sumsq_expand w p s a Hl).
    unfold half, two, cst. cbn [ROps o1 odiv oofZ]. lra.
  Qed.

  Lemma sumsq_as_lsum (d : list R) : (p <= length d)%nat -> sumsq (firstn p d) = lsum (fun j => nth j d 0 * nth j d 0) (seq 0 p).
  Proof.
    intros Hp. rewrite <- (map_nth_firstn d p Hp). unfold sumsq.
    rewrite (fold_left_lsum _ (fun v => v * v)) by (intros; reflexivity). rewrite lsum_map. lra.
  Qed.

  Lemma binary_stationary_same_weights w w' : length w = S p -> length w' = S p ->
    (forall s, vdot ROps (df w) s = 0) -> (forall s, vdot ROps (df w') s = 0) ->
    forall j, (j < p)%nat -> nth j w' 0 = nth j w 0.
  Proof.
    intros Hw Hw' Hs Hs' j Hj.
    pose proof (binary_tangent_strong w (vsub ROps w' w) 1 Hw ltac:(rewrite vsub_length; lia)) as H1.
    pose proof (binary_tangent_strong w' (vsub ROps w w') 1 Hw' ltac:(rewrite vsub_length; lia)) as H2.
    rewrite vadd_vsub, Hs in H1 by lia. rewrite vadd_vsub, Hs' in H2 by lia.
    rewrite !sumsq_as_lsum in H1, H2 by (rewrite vsub_length; lia).
    assert (Hq : forall d, 0 <= lsum (fun j => nth j d 0 * nth j d 0) (seq 0 p)).
    { intros d. apply lsum_nonneg. intros; apply Rle_0_sqr. }
    pose proof (Hq (vsub ROps w' w)) as Q1. pose proof (Hq (vsub ROps w w')) as Q2.
    assert (Hz : lsum (fun j => nth j (vsub ROps w' w) 0 * nth j (vsub ROps w' w) 0) (seq 0 p) = 0) by nra.
    pose proof (lsum_nonneg_zero _ _ (fun j' _ => Rle_0_sqr _) Hz j ltac:(apply in_seq; lia)) as Hzj.
    cbv beta in Hzj. rewrite nth_vsub in Hzj by lia. apply Rmult_integral in Hzj. destruct Hzj; lra.
  Qed.
End BinaryStrict.
