(* C09 — rounding-error theorems for the binary64 instance (FOps, Coq primitive floats — the very
   definitions the correspondence check runs against src/linear/logistic_regression.rs) of PREDICT, the
   straight-line part of logistic regression.  Fitting (L-BFGS) is iterative and has no rounding theorem.

     score_float_error                the score of one class, vdot row c + b: p products, p additions from 0
                                      (the first one exact), THEN the intercept (one more rounding):
                                      |computed - exact| <= Eu (p+1) * (sum_j |x_j c_j| + |b| + p eta) + p eta
     predict_binary_float_robust      two classes: |exact score| > that bound ==> the binary64 score has the
                                      sign of the exact one; the predicted index is the exact-arithmetic one
                                      PROVIDED the binary64 sigmoid maps the computed score to the correct side
                                      of 1/2 (sigmoid_sign_ok: a closed boolean fact about the float exp
                                      routine at that one score; proved here only for |score| > 40, where
                                      sigmoid does not call exp).  The proviso is needed: for 0 < s <= 2^-54 the
                                      binary64 sigmoid(s) is exactly 0.5 and the code answers class 0.
     predict_multiclass_float_robust  k <> 2: exact best score exceeds every other exact score by more than
                                      the sum of the two bounds ==> the binary64 first-arg-max is that class
     predict_multiclass_rows_float_robust   the same for every row of a query matrix

   Vocabulary (Base/FloatError.v): FR x = real value of a float, ffin x = finite, u64 = 2^-53,
   eta64 = 2^-1075, Eu k = (1+u64)^k - 1.  The only no-overflow hypothesis is that the computed scores are
   finite (non-finite values are absorbing for + and * ). *)
From Coq Require Import List Arith ZArith Bool Reals Floats Lra Lia Psatz.
From Flocq Require Import Core BinarySingleNaN PrimFloat.
From SC Require Import Base.FloatUtil Base.Num Base.FloatError C09.Model C09.ProofsSearch C09.ProofsPredict.
Import ListNotations.
Local Open Scope R_scope.
Local Existing Instance Hprec.
Local Existing Instance Hmax.

Local Notation float := PrimFloat.float.

(* ---------------- small helpers (local copies) ---------------- *)
Lemma fold_left_map_r {A B C} (f : A -> C -> A) (g : B -> C) l a :
  fold_left (fun s b => f s (g b)) l a = fold_left f (map g l) a.
Proof. revert a. induction l as [|h t IH]; intros a; cbn [fold_left map]; [reflexivity | apply IH]. Qed.

Lemma Forall2_map_in {A B C} (P : B -> C -> Prop) (g : A -> B) (h : A -> C) l :
  (forall a, In a l -> P (g a) (h a)) -> Forall2 P (map g l) (map h l).
Proof.
  induction l as [|a l IH]; intros H; cbn [map]; constructor.
  - apply H. left. reflexivity.
  - apply IH. intros b Hb. apply H. right. exact Hb.
Qed.

Lemma fltb_finite a b : ffin a -> ffin b -> PrimFloat.ltb a b = Rlt_bool (FR a) (FR b).
Proof.
  intros Ha Hb. rewrite ltb_equiv. apply (Bltb_correct prec emax); apply ffin_B; assumption.
Qed.

Lemma feqb_finite a b : ffin a -> ffin b -> PrimFloat.eqb a b = Req_bool (FR a) (FR b).
Proof.
  intros Ha Hb. rewrite eqb_equiv. apply (Beqb_correct prec emax); apply ffin_B; assumption.
Qed.

Lemma fopp_finite x : ffin (PrimFloat.opp x) <-> ffin x.
Proof. rewrite !ffin_B, opp_equiv, is_finite_Bopp. tauto. Qed.
Lemma fopp_exact x : FR (PrimFloat.opp x) = - FR x.
Proof. unfold FR. rewrite opp_equiv. apply B2R_Bopp. Qed.

Lemma Rlt_bool_Rltb a b : Rlt_bool a b = Rltb a b.
Proof.
  unfold Rltb. destruct (Rlt_dec a b) as [H|H]; [apply Rlt_bool_true; exact H|].
  apply Rlt_bool_false. apply Rnot_lt_le. exact H.
Qed.

(* v - v is the finite zero for a finite v: the model's is_finite test succeeds on finite floats *)
Lemma fsub_self v : ffin v -> ffin (PrimFloat.sub v v) /\ FR (PrimFloat.sub v v) = 0.
Proof.
  rewrite !ffin_B. unfold FR. rewrite sub_equiv. intros H.
  generalize (Bminus_correct prec emax Hprec Hmax mode_NE _ _ H H).
  rewrite Rminus_diag_eq by reflexivity. rewrite round_0 by apply valid_rnd_round_mode.
  rewrite Rabs_R0, Rlt_bool_true by apply bpow_gt_0. intros (E & F & _). split; assumption.
Qed.

Lemma is_finite_F v : ffin v -> C09.Model.is_finite FOps v = true.
Proof.
  intros H. unfold C09.Model.is_finite. cbn [FOps osub oeqb o0].
  destruct (fsub_self v H) as [F E].
  rewrite (feqb_finite _ _ F ffin_zero), E, FR_zero. apply Req_bool_true. reflexivity.
Qed.

Fixpoint map2_length {A B C} (f : A -> B -> C) (a : list A) (b : list B) :
  length (map2 f a b) = Nat.min (length a) (length b).
Proof.
  destruct a as [|x a], b as [|y b]; cbn [map2 length Nat.min]; try reflexivity.
  f_equal. apply map2_length.
Qed.

(* ---------------- the dot product of the model ---------------- *)
Definition prod_term (ab : float * float) : float := PrimFloat.mul (fst ab) (snd ab).
Definition FA (a : float) : R := Rabs (FR a).

Lemma vdot_F x w : vdot FOps x w = fsum (map prod_term (combine x w)).
Proof.
  unfold vdot, fsum. cbn [FOps oadd omul o0].
  apply (fold_left_map_r PrimFloat.add prod_term).
Qed.

Lemma fold_left_Rplus_acc {A} (g : A -> R) l : forall acc,
  fold_left (fun s a => s + g a) l acc = acc + Rsuml (map g l).
Proof.
  induction l as [|h t IH]; intros acc; cbn [fold_left map Rsuml fold_right]; [lra|].
  rewrite IH. fold (Rsuml (map g t)). lra.
Qed.

Lemma vdot_R_FR (x w : list float) :
  vdot ROps (map FR x) (map FR w) = Rsuml (map (fun ab => FR (fst ab) * FR (snd ab)) (combine x w)).
Proof.
  unfold vdot. cbn [ROps oadd omul o0].
  assert (G : forall acc, fold_left (fun acc xy => acc + fst xy * snd xy) (combine (map FR x) (map FR w)) acc =
                          acc + Rsuml (map (fun ab => FR (fst ab) * FR (snd ab)) (combine x w))).
  { revert w. induction x as [|a x IH]; intros [|b w] acc; cbn [map combine fold_left Rsuml fold_right fst snd]; try lra.
    rewrite IH. fold (Rsuml (map (fun ab => FR (fst ab) * FR (snd ab)) (combine x w))). lra. }
  rewrite G. lra.
Qed.

Lemma vdot_R_FA (x w : list float) :
  vdot ROps (map FA x) (map FA w) = Rsumabs (map (fun ab => FR (fst ab) * FR (snd ab)) (combine x w)).
Proof.
  unfold vdot. cbn [ROps oadd omul o0].
  assert (G : forall acc, fold_left (fun acc xy => acc + fst xy * snd xy) (combine (map FA x) (map FA w)) acc =
                          acc + Rsumabs (map (fun ab => FR (fst ab) * FR (snd ab)) (combine x w))).
  { revert w. induction x as [|a x IH]; intros [|b w] acc; cbn [map combine fold_left Rsumabs fold_right fst snd]; try lra.
    rewrite IH. fold (Rsumabs (map (fun ab => FR (fst ab) * FR (snd ab)) (combine x w))).
    unfold FA. rewrite Rabs_mult. lra. }
  rewrite G. lra.
Qed.

Lemma vdot_FA_nonneg x w : 0 <= vdot ROps (map FA x) (map FA w).
Proof. rewrite vdot_R_FA. apply Rsumabs_nonneg. Qed.

Definition dot_err (p : nat) (A : R) : R := Eu p * (A + INR p * eta64) + INR p * eta64.

Lemma dot_err_nonneg p A : 0 <= A -> 0 <= dot_err p A.
Proof.
  intros HA. unfold dot_err. pose proof (Eu_nonneg p) as H1. pose proof (pos_INR p) as H2. pose proof eta64_pos as H3.
  assert (H4 : 0 <= INR p * eta64) by (apply Rmult_le_pos; lra).
  assert (H5 : 0 <= Eu p * (A + INR p * eta64)) by (apply Rmult_le_pos; lra). lra.
Qed.

Lemma combine_finite_firstn (x y : list float) :
  (forall ab, In ab (combine x y) -> ffin (fst ab) /\ ffin (snd ab)) ->
  Forall ffin (firstn (Nat.min (length x) (length y)) x) /\
  Forall ffin (firstn (Nat.min (length x) (length y)) y).
Proof.
  revert y. induction x as [|a x IH]; intros [|b y] H; cbn [length Nat.min firstn];
    [split; constructor | split; constructor | split; constructor | ].
  destruct (H (a, b) (or_introl eq_refl)) as [Ha Hb]. cbn [fst snd] in *.
  destruct (IH y) as [I1 I2]; [intros ab Hin; apply H; right; exact Hin|].
  split; constructor; assumption.
Qed.

Theorem vdot_float_error (x w : list float) : ffin (vdot FOps x w) ->
  let p := Nat.min (length x) (length w) in
  Forall ffin (firstn p x) /\ Forall ffin (firstn p w) /\
  Rabs (FR (vdot FOps x w) - vdot ROps (map FR x) (map FR w)) <= dot_err p (vdot ROps (map FA x) (map FA w)).
Proof.
  intros Hfin p. rewrite vdot_F in *.
  destruct (fold_fadd_finite_acc _ _ Hfin) as [_ Hall].
  assert (Hab : forall ab, In ab (combine x w) -> ffin (fst ab) /\ ffin (snd ab)).
  { intros ab Hin. rewrite Forall_forall in Hall. specialize (Hall _ (in_map prod_term _ _ Hin)).
    unfold prod_term in Hall. destruct (fmul_finite _ _ Hall) as (H1 & H2 & _). split; assumption. }
  destruct (combine_finite_firstn x w Hab) as [F1 F2]. split; [exact F1|]. split; [exact F2|].
  pose proof (fsum_error_signed 1 eta64 (Rlt_le _ _ eta64_pos)
                (map prod_term (combine x w)) (map (fun ab => FR (fst ab) * FR (snd ab)) (combine x w))) as G.
  rewrite !map_length, combine_length in G. fold p in G. replace (1 + p - 1)%nat with p in G by lia.
  rewrite vdot_R_FR, vdot_R_FA. unfold dot_err. apply G; [|exact Hfin].
  apply Forall2_map_in. intros ab _ Hf. unfold prod_term in *. rewrite Eu_1. apply fmul_error, Hf.
Qed.

(* ---------------- one score: vdot row c + b, the intercept LAST ---------------- *)
Definition fscore (row c : list float) (b : float) : float := PrimFloat.add (vdot FOps row c) b.
Definition rscore (row c : list float) (b : float) : R := vdot ROps (map FR row) (map FR c) + FR b.
(* p coordinates, A = sum |x_j c_j|, B = |b| *)
Definition score_err (p : nat) (A B : R) : R := Eu (p + 1) * (A + B + INR p * eta64) + INR p * eta64.
Definition score_bound (row c : list float) (b : float) : R :=
  score_err (Nat.min (length row) (length c)) (vdot ROps (map FA row) (map FA c)) (FA b).

Lemma score_err_nonneg p A B : 0 <= A -> 0 <= B -> 0 <= score_err p A B.
Proof.
  intros HA HB. unfold score_err. pose proof (Eu_nonneg (p + 1)) as H1. pose proof (pos_INR p) as H2.
  pose proof eta64_pos as H3.
  assert (H4 : 0 <= INR p * eta64) by (apply Rmult_le_pos; lra).
  assert (H5 : 0 <= Eu (p + 1) * (A + B + INR p * eta64)) by (apply Rmult_le_pos; lra). lra.
Qed.

Lemma score_bound_nonneg row c b : 0 <= score_bound row c b.
Proof. apply score_err_nonneg; [apply vdot_FA_nonneg | apply Rabs_pos]. Qed.

Theorem score_float_error (row c : list float) (b : float) : ffin (fscore row c b) ->
  let p := Nat.min (length row) (length c) in
  Forall ffin (firstn p row) /\ Forall ffin (firstn p c) /\ ffin b /\
  Rabs (FR (fscore row c b) - rscore row c b) <= score_bound row c b.
Proof.
  intros Hfin p. unfold fscore in *.
  destruct (fadd_finite _ _ Hfin) as (Hd & Hb & _).
  destruct (vdot_float_error row c Hd) as (F1 & F2 & B). fold p in F1, F2, B.
  split; [exact F1|]. split; [exact F2|]. split; [exact Hb|].
  pose proof (fadd_error _ _ Hfin) as Ea.
  unfold rscore, score_bound, score_err. fold p.
  set (s := FR (PrimFloat.add (vdot FOps row c) b)) in *.
  set (d := FR (vdot FOps row c)) in *. set (D := vdot ROps (map FR row) (map FR c)) in *.
  set (A := vdot ROps (map FA row) (map FA c)) in *. set (bb := FR b) in *.
  assert (HDA : Rabs D <= A).
  { unfold D, A. rewrite vdot_R_FR, vdot_R_FA. apply Rsuml_le_Rsumabs. }
  unfold dot_err in B. unfold FA. fold bb.
  set (X := A + INR p * eta64) in *. set (pe := INR p * eta64) in *.
  assert (HA : 0 <= A) by (pose proof (Rabs_pos D); lra).
  assert (Hpe : 0 <= pe) by (unfold pe; apply Rmult_le_pos; [apply pos_INR | apply Rlt_le, eta64_pos]).
  assert (HX : 0 <= X) by (unfold X; lra).
  pose proof (Eu_nonneg p) as HE. pose proof u64_pos as Hu. pose proof (Rabs_pos bb) as HB.
  replace (p + 1)%nat with (S p) by lia. rewrite Eu_S.
  set (EX := Eu p * X) in *.
  assert (HEX : 0 <= EX) by (unfold EX; apply Rmult_le_pos; assumption).
  assert (HEB : 0 <= Eu p * Rabs bb) by (apply Rmult_le_pos; assumption).
  assert (Hdb : Rabs (d + bb) <= A + (EX + pe) + Rabs bb).
  { replace (d + bb) with ((d - D) + D + bb) by ring.
    eapply Rle_trans; [apply Rabs_triang|]. eapply Rle_trans; [apply Rplus_le_compat_r, Rabs_triang|]. lra. }
  replace (s - (D + bb)) with ((s - (d + bb)) + (d - D)) by ring.
  eapply Rle_trans; [apply Rabs_triang|].
  assert (Hu1 : u64 * Rabs (d + bb) <= u64 * (A + (EX + pe) + Rabs bb)) by (apply Rmult_le_compat_l; lra).
  assert (HuEB : 0 <= u64 * (Eu p * Rabs bb)) by (apply Rmult_le_pos; lra).
  replace ((Eu p + u64 * (1 + Eu p)) * (A + Rabs bb + pe) + pe)
    with (EX + Eu p * Rabs bb + u64 * (A + (EX + pe) + Rabs bb) + u64 * (Eu p * Rabs bb) + pe)
    by (unfold EX, X; ring).
  lra.
Qed.

(* ---------------- the real image of a float model ---------------- *)
Definition MR (M : lr_model (T := float)) : lr_model (T := R) :=
  mkLr (map (map FR) (lr_coef M)) (map FR (lr_intercept M)) (map FR (lr_classes M)) (lr_k M).

Lemma nth_map_FR (l : list float) j : nth j (map FR l) 0 = FR (nth j l 0%float).
Proof. rewrite <- (map_nth FR), FR_zero. reflexivity. Qed.

Lemma MR_coef0 M : nth 0 (lr_coef (MR M)) [] = map FR (nth 0 (lr_coef M) []).
Proof. cbn [MR lr_coef]. exact (map_nth (map FR) (lr_coef M) [] 0). Qed.
Lemma MR_icpt0 M : nth 0 (lr_intercept (MR M)) 0 = FR (nth 0 (lr_intercept M) 0%float).
Proof. cbn [MR lr_intercept]. apply nth_map_FR. Qed.

(* ---------------- two classes ---------------- *)
(* the binary64 sigmoid puts the computed score s on the correct side of 1/2 *)
Definition sigmoid_sign_ok (s : float) : Prop :=
  PrimFloat.ltb (half FOps) (sigmoid FOps s) = PrimFloat.ltb 0%float s.

Lemma sigmoid_sign_ok_large s : ffin s -> 40 < Rabs (FR s) -> sigmoid_sign_ok s.
Proof.
  intros Hs H40. unfold sigmoid_sign_ok, sigmoid, cst.
  cbn [FOps oltb oneg o0 o1 odiv oadd oexp oofZ].
  assert (Hz : (0 <= 40 < 2 ^ 53)%Z) by (split; [lia | reflexivity]).
  destruct (float_of_Z_exact 40 Hz) as [F40 E40].
  rewrite (fltb_finite s (PrimFloat.opp (float_of_Z 40)) Hs (proj2 (fopp_finite _) F40)).
  rewrite (fltb_finite (float_of_Z 40) s F40 Hs), (fltb_finite 0%float s ffin_zero Hs).
  rewrite fopp_exact, E40, FR_zero.
  destruct (Rlt_le_dec (FR s) 0) as [Hn|Hp].
  - rewrite Rabs_left in H40 by exact Hn.
    rewrite (Rlt_bool_true (FR s) (Ropp 40)) by lra. rewrite (Rlt_bool_false 0 (FR s)) by lra.
    vm_compute. reflexivity.
  - rewrite Rabs_pos_eq in H40 by exact Hp.
    rewrite (Rlt_bool_false (FR s) (Ropp 40)) by lra. rewrite (Rlt_bool_true 40 (FR s)) by lra.
    rewrite (Rlt_bool_true 0 (FR s)) by lra. vm_compute. reflexivity.
Qed.

Theorem score_sign_float_robust (row c : list float) (b : float) : ffin (fscore row c b) ->
  score_bound row c b < Rabs (rscore row c b) ->
  PrimFloat.ltb 0%float (fscore row c b) = Rltb 0 (rscore row c b) /\
  (0 < rscore row c b -> 0 < FR (fscore row c b)) /\ (rscore row c b < 0 -> FR (fscore row c b) < 0).
Proof.
  intros Hfin Hm. destruct (score_float_error row c b Hfin) as (_ & _ & _ & B). apply Rabs_le_inv in B.
  rewrite (fltb_finite _ _ ffin_zero Hfin), FR_zero, Rlt_bool_Rltb.
  destruct (Rlt_le_dec 0 (rscore row c b)) as [H|H].
  - rewrite Rabs_pos_eq in Hm by lra. split; [|split; intros; lra].
    rewrite (proj2 (Rltb_true _ _)) by lra. symmetry. apply Rltb_true. exact H.
  - assert (H' : rscore row c b < 0).
    { destruct H as [H|H]; [exact H|]. rewrite H, Rabs_R0 in Hm. pose proof (score_bound_nonneg row c b). lra. }
    rewrite Rabs_left in Hm by exact H'. split; [|split; intros; lra].
    rewrite (proj2 (Rltb_false _ _)) by lra. symmetry. apply Rltb_false. lra.
Qed.

Lemma predict_index_R_binary (M : lr_model (T := float)) (row : list float) : lr_k M = 2%nat ->
  predict_index ROps (MR M) (map FR row) =
  if Rltb 0 (rscore row (nth 0 (lr_coef M) []) (nth 0 (lr_intercept M) 0%float)) then 1%nat else 0%nat.
Proof.
  intros Hk. unfold predict_index. cbn [MR lr_k]. rewrite Hk. cbn [Nat.eqb]. rewrite half_lt_sigmoid.
  change (lr_coef (MR M)) with (map (map FR) (lr_coef M)).
  change (lr_intercept (MR M)) with (map FR (lr_intercept M)).
  cbn [ROps oadd o0].
  rewrite (MR_coef0 M : nth 0 (map (map FR) (lr_coef M)) [] = _).
  rewrite (MR_icpt0 M : nth 0 (map FR (lr_intercept M)) 0 = _). reflexivity.
Qed.

Theorem predict_binary_float_robust (M : lr_model (T := float)) (row : list float) :
  lr_k M = 2%nat ->
  let c := nth 0 (lr_coef M) [] in
  let b := nth 0 (lr_intercept M) 0%float in
  ffin (fscore row c b) ->
  sigmoid_sign_ok (fscore row c b) ->
  score_bound row c b < Rabs (rscore row c b) ->
  predict_index FOps M row = predict_index ROps (MR M) (map FR row) /\
  predict_index FOps M row = (if Rlt_dec 0 (rscore row c b) then 1%nat else 0%nat) /\
  FR (nth (predict_index FOps M row) (lr_classes M) 0%float) =
    nth (predict_index ROps (MR M) (map FR row)) (lr_classes (MR M)) 0.
Proof.
  intros Hk c b Hfin Hsig Hm.
  destruct (score_sign_float_robust row c b Hfin Hm) as (Hs & _ & _).
  assert (EF : predict_index FOps M row = if PrimFloat.ltb 0%float (fscore row c b) then 1%nat else 0%nat).
  { unfold predict_index. rewrite Hk. cbn [Nat.eqb]. cbn [FOps oltb oadd o0]. fold c b.
    change (PrimFloat.add (vdot FOps row c) b) with (fscore row c b).
    unfold sigmoid_sign_ok in Hsig. cbn [FOps oltb] in Hsig |- *. rewrite Hsig. reflexivity. }
  pose proof (predict_index_R_binary M row Hk) as ER. fold c b in ER.
  assert (E : predict_index FOps M row = predict_index ROps (MR M) (map FR row)).
  { rewrite EF, ER, Hs. reflexivity. }
  split; [exact E|]. split.
  - rewrite EF, Hs. unfold Rltb. destruct (Rlt_dec 0 (rscore row c b)); reflexivity.
  - rewrite <- E. cbn [MR lr_classes]. symmetry. apply nth_map_FR.
Qed.

(* ---------------- k <> 2 classes: the first arg-max ---------------- *)
Lemma argmax_from_FR (l : list float) : Forall ffin l -> forall pos b bp, ffin b ->
  argmax_from FOps l pos (Some b) bp = argmax_from ROps (map FR l) pos (Some (FR b)) bp.
Proof.
  induction 1 as [|v t Hv Ht IH]; intros pos b bp Hb; cbn [argmax_from map]; [reflexivity|].
  cbn [FOps ROps oltb]. rewrite (fltb_finite b v Hb Hv), Rlt_bool_Rltb.
  destruct (Rltb (FR b) (FR v)); apply IH; assumption.
Qed.

Lemma argmax_FR (l : list float) : Forall ffin l -> argmax FOps l = argmax ROps (map FR l).
Proof.
  intros H. unfold argmax. destruct H as [|v t Hv Ht]; [reflexivity|]. cbn [argmax_from map].
  rewrite (is_finite_F v Hv), is_finite_R. cbn [orb]. apply argmax_from_FR; assumption.
Qed.

Lemma argmax_dominant (r : list R) i : (i < length r)%nat ->
  (forall j, (j < length r)%nat -> j <> i -> nth j r 0 < nth i r 0) -> argmax ROps r = i.
Proof.
  intros Hi Hdom. assert (Hne : r <> []) by (destruct r; [cbn in Hi; lia | discriminate]).
  destruct (argmax_spec r Hne) as (H1 & H2 & _). cbv zeta in *.
  destruct (Nat.eq_dec (argmax ROps r) i) as [E|N]; [exact E|].
  pose proof (Hdom _ H1 N). pose proof (H2 i Hi). lra.
Qed.

Definition fscores (M : lr_model (T := float)) (row : list float) : list float :=
  map2 (fun c b => fscore row c b) (lr_coef M) (lr_intercept M).
Definition score_bounds (M : lr_model (T := float)) (row : list float) : list R :=
  map2 (fun c b => score_bound row c b) (lr_coef M) (lr_intercept M).

Lemma lr_scores_MR M row :
  lr_scores (MR M) (map FR row) = map2 (fun c b => rscore row c b) (lr_coef M) (lr_intercept M).
Proof.
  unfold lr_scores. cbn [MR lr_coef lr_intercept ROps oadd].
  generalize (lr_coef M) (lr_intercept M). induction l as [|c cs IH]; intros [|b bs]; cbn [map map2]; try reflexivity.
  rewrite IH. reflexivity.
Qed.

Lemma scores_close row : forall (cs : list (list float)) (bs : list float),
  Forall ffin (map2 (fun c b => fscore row c b) cs bs) ->
  forall j, (j < length (map2 (fun c b => fscore row c b) cs bs))%nat ->
  Rabs (FR (nth j (map2 (fun c b => fscore row c b) cs bs) 0%float) -
        nth j (map2 (fun c b => rscore row c b) cs bs) 0) <=
    nth j (map2 (fun c b => score_bound row c b) cs bs) 0.
Proof.
  induction cs as [|c cs IH]; intros [|b bs] HF j Hj; cbn [map2 length] in *; try lia.
  inversion HF as [|? ? H1 H2]; subst. destruct j as [|j]; cbn [nth].
  - apply (score_float_error row c b H1).
  - apply IH; [exact H2 | lia].
Qed.

Theorem scores_float_error (M : lr_model (T := float)) (row : list float) :
  Forall ffin (fscores M row) ->
  length (lr_scores (MR M) (map FR row)) = length (fscores M row) /\
  length (score_bounds M row) = length (fscores M row) /\
  forall j, (j < length (fscores M row))%nat ->
    0 <= nth j (score_bounds M row) 0 /\
    Rabs (FR (nth j (fscores M row) 0%float) - nth j (lr_scores (MR M) (map FR row)) 0) <= nth j (score_bounds M row) 0.
Proof.
  intros HF. rewrite lr_scores_MR. unfold fscores, score_bounds in *. rewrite !map2_length.
  split; [reflexivity|]. split; [reflexivity|]. intros j Hj.
  pose proof (scores_close row _ _ HF j) as G. rewrite map2_length in G. specialize (G Hj).
  split; [|exact G]. pose proof (Rabs_pos (FR (nth j (map2 (fun c b => fscore row c b) (lr_coef M) (lr_intercept M)) 0%float) -
        nth j (map2 (fun c b => rscore row c b) (lr_coef M) (lr_intercept M)) 0)). lra.
Qed.

(* class i wins the exact scores by more than the two error bounds *)
Definition class_margin (M : lr_model (T := float)) (row : list float) (i : nat) : Prop :=
  (i < length (fscores M row))%nat /\
  forall j, (j < length (fscores M row))%nat -> j <> i ->
    nth j (lr_scores (MR M) (map FR row)) 0 + nth j (score_bounds M row) 0 + nth i (score_bounds M row) 0
      < nth i (lr_scores (MR M) (map FR row)) 0.

Theorem predict_multiclass_float_robust (M : lr_model (T := float)) (row : list float) (i : nat) :
  lr_k M <> 2%nat ->
  Forall ffin (fscores M row) ->
  class_margin M row i ->
  predict_index FOps M row = i /\
  predict_index ROps (MR M) (map FR row) = i /\
  FR (nth (predict_index FOps M row) (lr_classes M) 0%float) =
    nth (predict_index ROps (MR M) (map FR row)) (lr_classes (MR M)) 0.
Proof.
  intros Hk HF (Hi & Hm).
  destruct (scores_float_error M row HF) as (L1 & L2 & Hc).
  assert (EF : predict_index FOps M row = i).
  { unfold predict_index. apply Nat.eqb_neq in Hk. rewrite Hk.
    change (map2 (fun c b => oadd FOps (vdot FOps row c) b) (lr_coef M) (lr_intercept M)) with (fscores M row).
    rewrite (argmax_FR _ HF). apply argmax_dominant; [rewrite map_length; exact Hi|].
    rewrite map_length. intros j Hj Hji. rewrite !nth_map_FR.
    destruct (Hc j Hj) as [_ Bj]. destruct (Hc i Hi) as [_ Bi]. specialize (Hm j Hj Hji).
    apply Rabs_le_inv in Bj. apply Rabs_le_inv in Bi. lra. }
  assert (ER : predict_index ROps (MR M) (map FR row) = i).
  { unfold predict_index. cbn [MR lr_k]. apply Nat.eqb_neq in Hk. rewrite Hk.
    change (argmax ROps (lr_scores (MR M) (map FR row)) = i).
    apply argmax_dominant; [rewrite L1; exact Hi|]. rewrite L1. intros j Hj Hji.
    destruct (Hc j Hj) as [Pj _]. destruct (Hc i Hi) as [Pi _]. specialize (Hm j Hj Hji). lra. }
  split; [exact EF|]. split; [exact ER|]. rewrite EF, ER. cbn [MR lr_classes]. symmetry. apply nth_map_FR.
Qed.

Definition row_margin (M : lr_model (T := float)) (row : list float) : Prop :=
  Forall ffin (fscores M row) /\ exists i, class_margin M row i.

Theorem predict_multiclass_rows_float_robust (M : lr_model (T := float)) (X : list (list float)) :
  lr_k M <> 2%nat -> Forall (row_margin M) X ->
  map FR (lr_predict FOps M X) = lr_predict ROps (MR M) (map (map FR) X).
Proof.
  intros Hk HX. unfold lr_predict. rewrite !map_map.
  induction HX as [|row X (HF & i & Hm) HX IH]; cbn [map]; [reflexivity|]. f_equal; [|exact IH].
  destruct (predict_multiclass_float_robust M row i Hk HF Hm) as (_ & _ & E).
  cbn [FOps o0 ROps]. exact E.
Qed.

(* two classes, every row *)
Definition row_margin2 (M : lr_model (T := float)) (row : list float) : Prop :=
  let c := nth 0 (lr_coef M) [] in
  let b := nth 0 (lr_intercept M) 0%float in
  ffin (fscore row c b) /\ sigmoid_sign_ok (fscore row c b) /\ score_bound row c b < Rabs (rscore row c b).

Theorem predict_binary_rows_float_robust (M : lr_model (T := float)) (X : list (list float)) :
  lr_k M = 2%nat -> Forall (row_margin2 M) X ->
  map FR (lr_predict FOps M X) = lr_predict ROps (MR M) (map (map FR) X).
Proof.
  intros Hk HX. unfold lr_predict. rewrite !map_map.
  induction HX as [|row X (HF & Hs & Hm) HX IH]; cbn [map]; [reflexivity|]. f_equal; [|exact IH].
  destruct (predict_binary_float_robust M row Hk HF Hs Hm) as (_ & _ & E).
  cbn [FOps o0 ROps]. exact E.
Qed.

(* ---------------- real values of float literals (for the instances) ---------------- *)
Lemma FR_SF x : FR x = SF2R radix2 (FloatOps.Prim2SF x).
Proof. unfold FR, Prim2B. apply B2R_SF2B. Qed.

Definition fq (x : float) : Z * Z :=
  match FloatOps.Prim2SF x with
  | S754_finite s m e =>
      let n := if s then Z.neg m else Z.pos m in
      if (0 <=? e)%Z then (n * 2 ^ e, 1)%Z else (n, 2 ^ (- e))%Z
  | _ => (0, 1)%Z
  end.

Lemma FR_fq x n d : fq x = (n, d) -> FR x = IZR n / IZR d.
Proof.
  rewrite FR_SF. unfold fq. destruct (FloatOps.Prim2SF x) as [s|s| |s m e]; cbn [SF2R].
  1-3: intros [= <- <-]; lra.
  unfold F2R. cbn [Fnum Fexp cond_Zopp].
  destruct (Z.leb_spec 0 e) as [He|He]; intros [= <- <-].
  - rewrite mult_IZR. rewrite <- (IZR_Zpower radix2 e He). change (radix_val radix2) with 2%Z.
    unfold Rdiv. rewrite Rinv_1, Rmult_1_r. destruct s; reflexivity.
  - replace e with (- (- e))%Z at 1 by lia. rewrite bpow_opp.
    rewrite <- (IZR_Zpower radix2 (- e)) by lia. change (radix_val radix2) with 2%Z.
    destruct s; cbn [Z.opp]; unfold Rdiv; reflexivity.
Qed.

Ltac fr_literals :=
  repeat match goal with
  | |- context [FR ?x] =>
      let v := eval vm_compute in (fq x) in
      match v with
      | (?n, ?d) =>
          let E := fresh "E" in
          assert (E : fq x = (n, d)) by (vm_compute; reflexivity);
          rewrite (FR_fq x n d E); clear E
      end
  end.
