(* C09 — the coded gradient of the two-class objective is the derivative of the coded objective (over R, with
   the exact ln(1+e^x) and 1/(1+e^-x) substituted for the overflow-safe forms; ProofsStable relates the two). *)
From Coq Require Import List ZArith Bool Reals Lra Lia Arith.
From Coquelicot Require Import Coquelicot.
From SC Require Import Base.Num C09.Model.
Import ListNotations.
Local Open Scope R_scope.

Definition lse_exact (x : R) : R := ln (1 + exp x).
Definition sig_exact (x : R) : R := 1 / (1 + exp (- x)).

Lemma lse_derive x : is_derive lse_exact x (sig_exact x).
Proof.
  unfold lse_exact, sig_exact. auto_derive.
  - pose proof (exp_pos x). lra.
  - pose proof (exp_pos x). rewrite exp_Ropp. field. split; [|lra].
    intro H0. lra.
Qed.

(* ---------------------------------------------------------------- lists *)
Lemma nth_upd (w : list R) j t i : (j < length w)%nat ->
  nth i (upd w j t) 0 = if Nat.eqb i j then t else nth i w 0.
Proof.
  revert j i. induction w as [|h w IH]; intros j i Hj; cbn in Hj; [lia|].
  destruct j as [|j]; destruct i as [|i]; cbn; try reflexivity.
  apply IH. lia.
Qed.
Lemma upd_same (w : list R) j : upd w j (nth j w 0) = w.
Proof.
  revert j. induction w as [|h w IH]; intros [|j]; cbn; try reflexivity. now rewrite IH.
Qed.
Lemma upd_length {A} (w : list A) j t : length (upd w j t) = length w.
Proof. revert j. induction w as [|h w IH]; intros [|j]; cbn; auto. Qed.

(* coefficient of w_j in partial_dot w row v *)
Definition pd_coef (row : list R) (v j : nat) : R :=
  (if (v <=? j)%nat && (j <? v + length row)%nat then nth (j - v) row 0 else 0) +
  (if Nat.eqb j (length row + v) then 1 else 0).

Lemma pdot_loop_affine (w : list R) j t xs : (j < length w)%nat -> forall acc pos,
  pdot_loop ROps acc xs (upd w j t) pos =
  pdot_loop ROps acc xs (upd w j 0) pos +
  t * (if (pos <=? j)%nat && (j <? pos + length xs)%nat then nth (j - pos) xs 0 else 0).
Proof.
  intros Hj. induction xs as [|x xs IH]; intros acc pos; cbn [pdot_loop length].
  - replace (pos + 0)%nat with pos by lia.
    destruct (pos <=? j)%nat eqn:A; destruct (j <? pos)%nat eqn:B; cbn; try lra.
    apply Nat.leb_le in A. apply Nat.ltb_lt in B. lia.
  - rewrite IH. cbn [ROps oadd omul o0].
    rewrite !nth_upd by assumption.
    destruct (Nat.eqb pos j) eqn:E.
    + apply Nat.eqb_eq in E. subst pos.
      replace (S j <=? j)%nat with false by (symmetry; apply Nat.leb_gt; lia).
      replace (j <=? j)%nat with true by (symmetry; apply Nat.leb_le; lia).
      replace (j <? j + S (length xs))%nat with true by (symmetry; apply Nat.ltb_lt; lia).
      replace (j - j)%nat with 0%nat by lia. cbn [andb nth].
      assert (forall a b c, pdot_loop ROps a xs c b = a + pdot_loop ROps 0 xs c b) as Hacc.
      { clear. induction xs as [|y ys IHy]; intros a b c; cbn [pdot_loop]; [cbn; lra|].
        rewrite IHy. rewrite (IHy (oadd ROps 0 _)). cbn. lra. }
      rewrite (Hacc (acc + x * t)), (Hacc (acc + x * 0)). lra.
    + apply Nat.eqb_neq in E.
      destruct (pos <=? j)%nat eqn:A.
      * apply Nat.leb_le in A.
        replace (S pos <=? j)%nat with true by (symmetry; apply Nat.leb_le; lia).
        replace (j <? pos + S (length xs))%nat with (j <? S pos + length xs)%nat by (f_equal; lia).
        destruct (j <? S pos + length xs)%nat; cbn [andb]; [|lra].
        replace (j - pos)%nat with (S (j - S pos)) by lia. cbn [nth]. lra.
      * apply Nat.leb_gt in A.
        replace (S pos <=? j)%nat with false by (symmetry; apply Nat.leb_gt; lia).
        cbn [andb]. lra.
Qed.

Lemma partial_dot_affine (w : list R) j t row v : (j < length w)%nat ->
  partial_dot ROps (upd w j t) row v = partial_dot ROps (upd w j 0) row v + t * pd_coef row v j.
Proof.
  intros Hj. unfold partial_dot, pd_coef. rewrite pdot_loop_affine by assumption.
  rewrite !nth_upd by assumption. cbn [ROps oadd o0].
  destruct (Nat.eqb (length row + v) j) eqn:E.
  - apply Nat.eqb_eq in E. rewrite <- E. rewrite Nat.eqb_refl. lra.
  - rewrite Nat.eqb_sym in E. rewrite E. lra.
Qed.

(* ---------------------------------------------------------------- sums under a derivative *)
Lemma fold_sum_derive {A} (rows : list A) (term : A -> R -> R) (dterm : A -> R)
      (dstep : R -> A -> R) t0 :
  (forall acc r, dstep acc r = acc + dterm r) ->
  (forall r, In r rows -> is_derive (term r) t0 (dterm r)) ->
  forall F G, is_derive F t0 G ->
  is_derive (fun t => fold_left (fun acc r => acc + term r t) rows (F t)) t0 (fold_left dstep rows G).
Proof.
  intros Hstep. induction rows as [|r rows IH]; intros Hd F G HF; cbn [fold_left]; [exact HF|].
  apply (IH (fun r' Hr' => Hd r' (or_intror Hr')) (fun t => F t + term r t)).
  rewrite Hstep. apply (is_derive_plus (K := R_AbsRing) F (term r) t0 G (dterm r)); [exact HF|].
  apply Hd. left. reflexivity.
Qed.

Definition sumsq (l : list R) : R := fold_left (fun acc w => acc + w * w) l 0.
Lemma sumsq_acc l : forall a, fold_left (fun acc w => acc + w * w) l a = a + sumsq l.
Proof.
  unfold sumsq. induction l as [|h l IH]; intros a; cbn [fold_left]; [lra|].
  rewrite IH, (IH (0 + h * h)). lra.
Qed.
Lemma sumsq_cons h l : sumsq (h :: l) = h * h + sumsq l.
Proof. unfold sumsq at 1. cbn [fold_left]. rewrite sumsq_acc. lra. Qed.

Lemma sumsq_firstn_upd_lt (w : list R) : forall p j t, (j < p)%nat -> (j < length w)%nat ->
  sumsq (firstn p (upd w j t)) = sumsq (firstn p (upd w j 0)) + t * t.
Proof.
  induction w as [|h w IH]; intros p j t Hp Hj; cbn in Hj; [lia|].
  destruct p as [|p]; [lia|]. destruct j as [|j]; cbn [upd firstn]; rewrite !sumsq_cons.
  - lra.
  - rewrite (IH p j t) by lia. lra.
Qed.
Lemma firstn_upd_ge {A} (w : list A) : forall p j t, (p <= j)%nat -> firstn p (upd w j t) = firstn p w.
Proof.
  induction w as [|h w IH]; intros p j t Hp; destruct j as [|j]; destruct p as [|p]; cbn; try reflexivity; try lia.
  f_equal. apply IH. lia.
Qed.

(* ---------------------------------------------------------------- the binary objective *)
Lemma Rltb_ROps a b : oltb ROps a b = Rltb a b. Proof. reflexivity. Qed.

Lemma binary_df_is_gradient p (x : list (list R)) (y : list nat) alpha (w : list R) j :
  length w = S p -> List.Forall (fun r => length r = p) x -> (j <= p)%nat ->
  is_derive (fun t => binary_f_gen ROps lse_exact p x y alpha (upd w j t)) (nth j w 0)
            (binary_df_entry ROps sig_exact p x y alpha w j).
Proof.
  intros Hw Hx Hj.
  assert (Hjw : (j < length w)%nat) by lia.
  set (t0 := nth j w 0).
  (* the data term *)
  assert (Hdata : forall F G, is_derive F t0 G ->
    is_derive (fun t => fold_left (fun acc ry => acc + (lse_exact (partial_dot ROps (upd w j t) (fst ry) 0)
                                           - ofnat ROps (snd ry) * partial_dot ROps (upd w j t) (fst ry) 0))
                                  (combine x y) (F t)) t0
              (fold_left (fun acc ry =>
                            let wx := partial_dot ROps w (fst ry) 0 in
                            let dyi := ofnat ROps (snd ry) - sig_exact wx in
                            if (j <? p)%nat then acc - dyi * nth j (fst ry) 0 else acc - dyi) (combine x y) G)).
  { intros F G HF.
    apply (fold_sum_derive (combine x y)
             (fun ry t => lse_exact (partial_dot ROps (upd w j t) (fst ry) 0)
                          - ofnat ROps (snd ry) * partial_dot ROps (upd w j t) (fst ry) 0)
             (fun ry => - ((ofnat ROps (snd ry) - sig_exact (partial_dot ROps w (fst ry) 0))
                           * (if (j <? p)%nat then nth j (fst ry) 0 else 1)))); [| |exact HF].
    - intros acc ry. cbv zeta. destruct (j <? p)%nat; lra.
    - intros [row yi] Hin. cbn [fst snd].
      assert (Hrow : length row = p).
      { apply in_combine_l in Hin. rewrite List.Forall_forall in Hx. apply Hx. exact Hin. }
      assert (Hc : pd_coef row 0 j = if (j <? p)%nat then nth j row 0 else 1).
      { unfold pd_coef. rewrite Hrow. cbn [Nat.leb andb]. rewrite Nat.add_0_l, Nat.sub_0_r, Nat.add_0_r.
        destruct (j <? p)%nat eqn:E.
        - apply Nat.ltb_lt in E. replace (Nat.eqb j p) with false by (symmetry; apply Nat.eqb_neq; lia). lra.
        - apply Nat.ltb_ge in E. replace (Nat.eqb j p) with true by (symmetry; apply Nat.eqb_eq; lia). lra. }
      rewrite <- Hc.
      set (a := partial_dot ROps (upd w j 0) row 0). set (c := pd_coef row 0 j).
      assert (Hw0 : partial_dot ROps w row 0 = a + t0 * c).
      { rewrite <- (upd_same w j) at 1. fold t0. apply partial_dot_affine. exact Hjw. }
      rewrite Hw0.
      apply (is_derive_ext (fun t => lse_exact (a + t * c) - ofnat ROps yi * (a + t * c))).
      { intros t. rewrite (partial_dot_affine w j t row 0 Hjw). reflexivity. }
      unfold lse_exact, sig_exact. auto_derive.
      + pose proof (exp_pos (a + t0 * c)). lra.
      + pose proof (exp_pos (a + t0 * c)). rewrite exp_Ropp. unfold ofnat, oofnat. cbn [ROps oofZ].
        generalize dependent (exp (a + t0 * c)). intros e He. field. split; lra. }
  unfold binary_f_gen, binary_df_entry. cbv zeta. rewrite !Rltb_ROps. cbn [ROps o0 oadd omul].
  destruct (Rltb 0 alpha) eqn:Ea; cbn [andb].
  - destruct (j <? p)%nat eqn:Ej.
    + apply Nat.ltb_lt in Ej.
      apply (is_derive_plus (K := R_AbsRing)
               (fun t => fold_left _ (combine x y) 0) (fun t => penalty ROps alpha (firstn p (upd w j t)))).
      * apply (Hdata (fun _ => 0) 0). apply @is_derive_const.
      * apply (is_derive_ext (fun t => (half ROps * alpha) * (sumsq (firstn p (upd w j 0)) + t * t))).
        { intros t. change (penalty ROps alpha (firstn p (upd w j t))) with (half ROps * alpha * sumsq (firstn p (upd w j t))).
          rewrite (sumsq_firstn_upd_lt w p j t Ej Hjw). reflexivity. }
        auto_derive; [exact I|]. fold t0. unfold half, two, cst. cbn. field.
    + apply Nat.ltb_ge in Ej.
      apply (is_derive_ext (fun t => fold_left (fun acc ry => acc + (lse_exact (partial_dot ROps (upd w j t) (fst ry) 0)
                                           - ofnat ROps (snd ry) * partial_dot ROps (upd w j t) (fst ry) 0))
                                  (combine x y) (0 + penalty ROps alpha (firstn p w)))).
      { intros t. rewrite (firstn_upd_ge w p j t Ej).
        generalize (penalty ROps alpha (firstn p w)). intros c.
        assert (forall l a b, fold_left (fun acc ry => acc + (lse_exact (partial_dot ROps (upd w j t) (fst ry) 0)
                                           - ofnat ROps (snd ry) * partial_dot ROps (upd w j t) (fst ry) 0)) l (a + b)
                         = fold_left (fun acc (ry : list R * nat) => acc + (lse_exact (partial_dot ROps (upd w j t) (fst ry) 0)
                                           - ofnat ROps (snd ry) * partial_dot ROps (upd w j t) (fst ry) 0)) l a + b) as H.
        { induction l as [|r l IH]; intros a b; cbn [fold_left]; [reflexivity|].
          rewrite <- IH. f_equal. lra. }
        apply H. }
      apply (Hdata (fun _ => 0 + penalty ROps alpha (firstn p w)) 0). apply @is_derive_const.
  - apply (Hdata (fun _ => 0) 0). apply @is_derive_const.
Qed.
