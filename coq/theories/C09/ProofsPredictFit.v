(* C09 — predict on a FITTED model (`lr_fit` returned it): every predicted label is one of the original label
   values of the training vector y, namely the class value (classes = distinct labels in increasing order) at
   the sign (two classes: index 1, the larger label, exactly when the linear score is positive) / at the FIRST
   arg-max of the k linear scores (k >= 3).  The hypotheses `index < number of classes` and `score row
   non-empty` of the model-level statements (ProofsPredict) are discharged from the shape fit produces. *)
From Coq Require Import List ZArith Bool Reals Lra Lia Arith Sorted.
From SC Require Import Base.Num C09.Model C09.ProofsSearch C09.ProofsFit C09.ProofsPredict C09.ProofsFitCoded.
Import ListNotations.
Local Open Scope R_scope.

Lemma split_rows_length p : forall k (w : list R), length (split_rows p k w) = k.
Proof. induction k as [|k IH]; intros w; cbn [split_rows length]; [reflexivity|]. rewrite IH. reflexivity. Qed.

Lemma reshape_shape p k classes (w : list R) :
  let M := lr_reshape p k classes w in
  lr_k M = k /\ lr_classes M = classes /\
  length (lr_coef M) = (if Nat.eqb k 2 then 1 else k)%nat /\ length (lr_intercept M) = (if Nat.eqb k 2 then 1 else k)%nat.
Proof.
  cbv zeta. unfold lr_reshape. destruct (Nat.eqb k 2); cbn [lr_k lr_classes lr_coef lr_intercept length];
    rewrite ?map_length, ?split_rows_length; repeat split; reflexivity.
Qed.

Lemma fit_predict_spec (L : lb_params (T := R)) (B : bt_params (T := R)) p x y alpha M :
  lr_fit ROps L B p x y alpha = Some M ->
  let classes := unique ROps y in
  let k := length classes in
  lr_classes M = classes /\ lr_k M = k /\ (2 <= k)%nat /\
  StronglySorted Rlt classes /\ (forall u, In u classes <-> In u y) /\
  (forall row,
     let i := predict_index ROps M row in
     (i < k)%nat /\ In (nth i classes 0) y /\
     (k = 2%nat ->
        let z := vdot ROps row (nth 0 (lr_coef M) []) + nth 0 (lr_intercept M) 0 in
        (0 < z /\ i = 1%nat) \/ (z <= 0 /\ i = 0%nat)) /\
     (k <> 2%nat ->
        length (lr_scores M row) = k /\
        (forall j, (j < k)%nat -> nth j (lr_scores M row) 0 <= nth i (lr_scores M row) 0) /\
        (forall j, (j < i)%nat -> nth j (lr_scores M row) 0 < nth i (lr_scores M row) 0))) /\
  (forall X, lr_predict ROps M X = map (fun row => nth (predict_index ROps M row) classes 0) X /\
             Forall (fun v => In v y) (lr_predict ROps M X)).
Proof.
  intros HM. cbv zeta.
  destruct (lr_fit_is_composition L B p x y alpha M HM) as [_ [Hk2 [st [tr [conv [_ HMe]]]]]].
  destruct (class_mapping y) as [Hs [Hin _]].
  set (classes := unique ROps y) in *. set (k := length classes) in *.
  destruct (reshape_shape p k classes (st_x st)) as [Hk [Hcl [Hco Hic]]]. rewrite <- HMe in Hk, Hcl, Hco, Hic.
  assert (Hrow : forall row,
     (predict_index ROps M row < k)%nat /\
     (k = 2%nat ->
        let z := vdot ROps row (nth 0 (lr_coef M) []) + nth 0 (lr_intercept M) 0 in
        (0 < z /\ predict_index ROps M row = 1%nat) \/ (z <= 0 /\ predict_index ROps M row = 0%nat)) /\
     (k <> 2%nat ->
        length (lr_scores M row) = k /\
        (forall j, (j < k)%nat -> nth j (lr_scores M row) 0 <= nth (predict_index ROps M row) (lr_scores M row) 0) /\
        (forall j, (j < predict_index ROps M row)%nat ->
                   nth j (lr_scores M row) 0 < nth (predict_index ROps M row) (lr_scores M row) 0))).
  { intros row. destruct (predict_is_argmax M row) as [H2 Hm]. rewrite Hk in H2, Hm.
    destruct (Nat.eq_dec k 2) as [E|E].
    - specialize (H2 E). cbv zeta in H2. split; [destruct H2 as [[_ ->]|[_ ->]]; lia|].
      split; [intros _; exact H2 | intros C; contradiction].
    - assert (Hlen : length (lr_scores M row) = k).
      { unfold lr_scores. rewrite map2_length, Hco, Hic. apply Nat.eqb_neq in E. rewrite E. lia. }
      assert (Hne : lr_scores M row <> []) by (intros C; rewrite C in Hlen; cbn in Hlen; lia).
      specialize (Hm E Hne). cbv zeta in Hm. rewrite Hlen in Hm. destruct Hm as [A [B' C]].
      split; [exact A|]. split; [intros C'; contradiction|]. intros _. split; [exact Hlen|]. split; assumption. }
  assert (Hlab : forall row, In (nth (predict_index ROps M row) classes 0) y).
  { intros row. apply Hin. apply nth_In. fold k. apply (Hrow row). }
  split; [exact Hcl|]. split; [exact Hk|]. split; [exact Hk2|]. split; [exact Hs|]. split; [exact Hin|]. split.
  - intros row. destruct (Hrow row) as [A [B' C]]. split; [exact A|]. split; [apply Hlab|]. split; assumption.
  - intros X. unfold lr_predict. rewrite Hcl. split; [reflexivity|].
    apply Forall_forall. intros v Hv. apply in_map_iff in Hv. destruct Hv as [row [<- _]]. apply Hlab.
Qed.
