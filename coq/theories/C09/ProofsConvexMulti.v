(* C09 — convexity of the multinomial objective: it lies above its tangents with the coded gradient as slope. *)
From Coq Require Import List ZArith Bool Reals Lra Lia Arith.
From SC Require Import Base.Num C09.Model C09.ProofsSearch C09.ProofsGrad C09.ProofsStable C09.ProofsGradMulti C09.ProofsConvex.
Import ListNotations.
Local Open Scope R_scope.

(* ---------------------------------------------------------------- more finite sums *)
Lemma lsum_app {A} (g : A -> R) (l1 l2 : list A) : lsum g (l1 ++ l2) = lsum g l1 + lsum g l2.
Proof.
  induction l1 as [|x l1 IH]; cbn [app]; [unfold lsum at 2; cbn [fold_right]; lra|].
  change (lsum g (x :: l1 ++ l2)) with (g x + lsum g (l1 ++ l2)). change (lsum g (x :: l1)) with (g x + lsum g l1). lra.
Qed.
Lemma lsum_map {A B} (g : B -> R) (m : A -> B) (l : list A) : lsum g (map m l) = lsum (fun x => g (m x)) l.
Proof. induction l as [|x l IH]; cbn [map lsum fold_right]; [reflexivity|]. fold (lsum g (map m l)) (lsum (fun x => g (m x)) l). lra. Qed.
Lemma lsum_zero {A} (l : list A) : lsum (fun _ => 0) l = 0.
Proof. induction l as [|x l IH]; cbn [lsum fold_right]; [reflexivity|]. fold (lsum (fun _ : A => 0) l). lra. Qed.
Lemma lsum_swap {A B} (h : A -> B -> R) (la : list A) (lb : list B) :
  lsum (fun a => lsum (fun b => h a b) lb) la = lsum (fun b => lsum (fun a => h a b) la) lb.
Proof.
  induction la as [|a la IH]; cbn [lsum fold_right].
  - symmetry. apply lsum_zero.
  - fold (lsum (fun a0 => lsum (fun b => h a0 b) lb) la). rewrite IH, <- lsum_plus. reflexivity.
Qed.
Lemma lsum_seq_S (F : nat -> R) n : lsum F (seq 0 (S n)) = lsum F (seq 0 n) + F n.
Proof. rewrite seq_S, lsum_app. cbn. lra. Qed.
Lemma seq_plus_map a m : seq a m = map (fun q => (a + q)%nat) (seq 0 m).
Proof.
  revert a. induction m as [|m IH]; intros a; [reflexivity|]. cbn [seq map]. rewrite Nat.add_0_r. f_equal.
  rewrite (IH (S a)), (IH 1%nat), map_map. apply map_ext. intros; lia.
Qed.
Lemma lsum_seq_blocks (F : nat -> R) n k :
  lsum F (seq 0 (k * n)) = lsum (fun i => lsum (fun l => F (i * n + l)%nat) (seq 0 n)) (seq 0 k).
Proof.
  revert F. induction k as [|k IH]; intros F; [reflexivity|].
  change (S k * n)%nat with (n + k * n)%nat. rewrite seq_app, lsum_app. cbn [Nat.add].
  rewrite (seq_plus_map n (k * n)), lsum_map, IH.
  change (seq 0 (S k)) with (0%nat :: seq 1 k).
  change (lsum (fun i => lsum (fun l => F (i * n + l)%nat) (seq 0 n)) (0%nat :: seq 1 k))
    with (lsum (fun l => F (0 * n + l)%nat) (seq 0 n) + lsum (fun i => lsum (fun l => F (i * n + l)%nat) (seq 0 n)) (seq 1 k)).
  rewrite (seq_plus_map 1 k), lsum_map. f_equal.
  apply lsum_ext. intros i _. apply lsum_ext. intros l _. f_equal. lia.
Qed.
Lemma vdot_seq_lsum (E : nat -> R) (s : list R) : forall b,
  vdot ROps (map E (seq b (length s))) s = lsum (fun q => E q * nth (q - b) s 0) (seq b (length s)).
Proof.
  induction s as [|h s IH]; intros b; [reflexivity|].
  cbn [length seq map lsum fold_right]. rewrite vdot_cons_R, IH. rewrite Nat.sub_diag. cbn [nth].
  f_equal. apply lsum_ext. intros q Hq. apply in_seq in Hq. replace (q - b)%nat with (S (q - S b)) by lia. reflexivity.
Qed.
Lemma vdot_seq0_lsum (E : nat -> R) (s : list R) n : length s = n ->
  vdot ROps (map E (seq 0 n)) s = lsum (fun q => E q * nth q s 0) (seq 0 n).
Proof.
  intros <-. rewrite vdot_seq_lsum. apply lsum_ext. intros q _. rewrite Nat.sub_0_r. reflexivity.
Qed.
Lemma lsum_indicator (D : nat -> R) y k : (y < k)%nat ->
  lsum (fun i => (if Nat.eqb y i then 1 else 0) * D i) (seq 0 k) = D y.
Proof.
  revert y D. induction k as [|k IH]; intros y D Hy; [lia|].
  rewrite lsum_seq_S. destruct (Nat.eq_dec y k) as [->|Hne].
  - rewrite Nat.eqb_refl. rewrite (lsum_ext _ (fun _ => 0)); [rewrite lsum_zero; lra|].
    intros i Hi. apply in_seq in Hi. replace (Nat.eqb k i) with false by (symmetry; apply Nat.eqb_neq; lia). lra.
  - rewrite IH by lia. replace (Nat.eqb y k) with false by (symmetry; apply Nat.eqb_neq; lia). lra.
Qed.

(* partial_dot as an indexed sum *)
Lemma pdot_loop_lsum (s : list R) (row : list R) : forall acc pos,
  pdot_loop ROps acc row s pos = acc + lsum (fun l => nth l row 0 * nth (pos + l) s 0) (seq 0 (length row)).
Proof.
  induction row as [|x row IH]; intros acc pos; cbn [pdot_loop length]; [cbn; lra|].
  rewrite IH. cbn [ROps oadd omul o0].
  change (seq 0 (S (length row))) with (0%nat :: seq 1 (length row)).
  change (lsum (fun l => nth l (x :: row) 0 * nth (pos + l) s 0) (0%nat :: seq 1 (length row)))
    with (nth 0 (x :: row) 0 * nth (pos + 0) s 0 + lsum (fun l => nth l (x :: row) 0 * nth (pos + l) s 0) (seq 1 (length row))).
  rewrite (seq_plus_map 1 (length row)), lsum_map. cbn [nth]. rewrite Nat.add_0_r.
  rewrite (lsum_ext (fun x0 => nth (1 + x0) (x :: row) 0 * nth (pos + (1 + x0)) s 0)
                    (fun l => nth l row 0 * nth (S pos + l) s 0)); [lra|].
  intros l _. cbn [Nat.add nth]. replace (pos + S l)%nat with (S (pos + l)) by lia. reflexivity.
Qed.
Lemma partial_dot_lsum p (s row : list R) v : length row = p ->
  partial_dot ROps s row v =
  lsum (fun l => (if (l <? p)%nat then nth l row 0 else 1) * nth (v + l) s 0) (seq 0 (S p)).
Proof.
  intros Hrow. unfold partial_dot. rewrite pdot_loop_lsum, Hrow, lsum_seq_S. rewrite Nat.ltb_irrefl.
  cbn [ROps oadd o0]. replace (v + p)%nat with (p + v)%nat by lia.
  rewrite (lsum_ext (fun l => (if (l <? p)%nat then nth l row 0 else 1) * nth (v + l) s 0)
                    (fun l => nth l row 0 * nth (v + l) s 0)); [lra|].
  intros l Hl. apply in_seq in Hl. replace (l <? p)%nat with true by (symmetry; apply Nat.ltb_lt; lia). reflexivity.
Qed.

(* ---------------------------------------------------------------- log-sum-exp lies above its tangents *)
Lemma lsum_exp_pos (zf : nat -> R) k : (0 < k)%nat -> 0 < lsum (fun i => exp (zf i)) (seq 0 k).
Proof.
  induction k as [|k IH]; intros Hk; [lia|]. rewrite lsum_seq_S. pose proof (exp_pos (zf k)).
  destruct k; [cbn; lra|]. specialize (IH ltac:(lia)). lra.
Qed.
Lemma lse_list_tangent (zf dd : nat -> R) k : (0 < k)%nat ->
  ln (lsum (fun i => exp (zf i)) (seq 0 k))
  + lsum (fun i => exp (zf i) / lsum (fun i => exp (zf i)) (seq 0 k) * dd i) (seq 0 k)
  <= ln (lsum (fun i => exp (zf i + dd i)) (seq 0 k)).
Proof.
  intros Hk. set (Z := lsum (fun i => exp (zf i)) (seq 0 k)).
  assert (HZ : 0 < Z) by (apply lsum_exp_pos; exact Hk).
  set (pl := map (fun i => (exp (zf i) / Z, dd i)) (seq 0 k)).
  assert (H1 : lsum fst pl = 1).
  { unfold pl. rewrite lsum_map. cbn [fst].
    rewrite (lsum_ext _ (fun i => / Z * exp (zf i))) by (intros; unfold Rdiv; ring).
    rewrite lsum_scal. fold Z. field. lra. }
  assert (Hp : forall pd, In pd pl -> 0 <= fst pd).
  { intros pd Hin. unfold pl in Hin. apply in_map_iff in Hin. destruct Hin as [i [<- _]]. cbn [fst].
    pose proof (exp_pos (zf i)). apply Rmult_le_pos; [lra | left; apply Rinv_0_lt_compat; exact HZ]. }
  pose proof (jensen_exp pl Hp H1) as HJ. unfold pl in HJ. rewrite !lsum_map in HJ. cbn [fst snd] in HJ.
  assert (HS : lsum (fun i => exp (zf i + dd i)) (seq 0 k) = Z * lsum (fun i => exp (zf i) / Z * exp (dd i)) (seq 0 k)).
  { rewrite <- lsum_scal. apply lsum_ext. intros i _. rewrite exp_plus. field. lra. }
  rewrite HS.
  set (m := lsum (fun i => exp (zf i) / Z * dd i) (seq 0 k)) in *.
  pose proof (exp_pos m) as Hm.
  rewrite ln_mult by lra.
  assert (m <= ln (lsum (fun i => exp (zf i) / Z * exp (dd i)) (seq 0 k))).
  { rewrite <- (ln_exp m). apply ln_le_compat; [exact Hm | exact HJ]. }
  lra.
Qed.

(* ---------------------------------------------------------------- the multinomial objective *)
Section Multi.
  Variables (p k : nat) (x : list (list R)) (y : list nat) (alpha : R).
  Hypothesis Hx : Forall (fun r => length r = p) x.
  Hypothesis Hy : Forall (fun c => (c < k)%nat) y.
  Let rows := combine x y.
  Let n := (k * S p)%nat.
  Let zc (w : list R) (row : list R) (i : nat) : R := partial_dot ROps w row (i * S p).
  Let Zr (w : list R) (row : list R) : R := lsum (fun i => exp (zc w row i)) (seq 0 k).

  Lemma vsum_scores w row : vsum ROps (map exp (scores ROps p k w row)) = Zr w row.
  Proof.
    unfold vsum, scores. rewrite map_map.
    rewrite (fold_left_lsum _ (fun v => v)) by (intros; reflexivity). cbn [ROps o0].
    rewrite lsum_map. unfold Zr, zc. lra.
  Qed.
  Lemma prob_eq w row i : (i < k)%nat -> nth i (softmax_def (scores ROps p k w row)) 0 = exp (zc w row i) / Zr w row.
  Proof.
    intros Hi. rewrite nth_softmax_def by (rewrite scores_length; exact Hi). rewrite nth_scores by exact Hi.
    rewrite vsum_scores. reflexivity.
  Qed.
  Lemma Zr_pos w row : (0 < k)%nat -> 0 < Zr w row.
  Proof. intros Hk. apply lsum_exp_pos. exact Hk. Qed.

  Definition psum (w s : list R) : R :=
    lsum (fun i => lsum (fun j => nth (i * S p + j) w 0 * nth (i * S p + j) s 0) (seq 0 p)) (seq 0 k).

  Lemma multi_f_lsum w :
    multi_f_gen ROps softmax_def p k x y alpha w =
    lsum (fun ry => ln (Zr w (fst ry)) - zc w (fst ry) (snd ry)) rows
    + (if Rltb 0 alpha then half ROps * alpha * psum w w else 0).
  Proof.
    unfold multi_f_gen. cbv zeta.
    rewrite (fold_left_lsum _ (fun ry => - ln (nth (snd ry) (softmax_def (scores ROps p k w (fst ry))) 0)))
      by (intros; cbn [ROps osub oln o0]; lra).
    fold rows. cbn [ROps o0 oadd]. rewrite Rplus_0_l.
    rewrite (lsum_ext _ (fun ry => ln (Zr w (fst ry)) - zc w (fst ry) (snd ry))).
    - change (oltb ROps 0 alpha) with (Rltb 0 alpha). destruct (Rltb 0 alpha); [|lra]. f_equal.
      unfold multi_penalty, psum. cbn [ROps omul oadd o0]. f_equal.
      rewrite (fold_left_lsum _ (fun i => lsum (fun j => nth (i * S p + j) w 0 * nth (i * S p + j) w 0) (seq 0 p))); [lra|].
      intros acc i. apply (fold_left_lsum _ (fun j => nth (i * S p + j) w 0 * nth (i * S p + j) w 0)). intros; reflexivity.
    - intros [row yi] Hin. cbn [fst snd].
      assert (Hyi : (yi < k)%nat) by (apply in_combine_r in Hin; rewrite Forall_forall in Hy; apply Hy, Hin).
      rewrite prob_eq by exact Hyi. rewrite ln_exp_div by (apply Zr_pos; lia). lra.
  Qed.

  Lemma div_mod_block i l : (l < S p)%nat -> ((i * S p + l) / S p = i /\ (i * S p + l) mod S p = l)%nat.
  Proof.
    intros Hl. destruct (block_unique p (i * S p + l) i ltac:(lia) ltac:(lia)) as [H1 H2].
    split; [symmetry; exact H1 | rewrite <- H2; lia].
  Qed.

  Lemma lsum_scal_r {A} c (g : A -> R) (l : list A) : lsum (fun r => g r * c) l = lsum g l * c.
  Proof. rewrite (lsum_ext _ (fun r => c * g r)) by (intros; ring). rewrite lsum_scal. ring. Qed.

  Let Pr (w : list R) (ry : list R * nat) (i : nat) : R := nth i (softmax_def (scores ROps p k w (fst ry))) 0.
  Let ev (l : nat) (ry : list R * nat) : R := if (l <? p)%nat then nth l (fst ry) 0 else 1.

  Lemma multi_df_entry_lsum w q :
    multi_df_entry ROps softmax_def p k x y alpha w q =
    lsum (fun ry => (Pr w ry (q / S p) - (if Nat.eqb (snd ry) (q / S p) then 1 else 0)) * ev (q mod S p) ry) rows
    + (if Rltb 0 alpha && (q mod S p <? p)%nat then alpha * nth q w 0 else 0).
  Proof.
    unfold multi_df_entry. cbv zeta.
    rewrite (fold_left_lsum _ (fun ry => (Pr w ry (q / S p) - (if Nat.eqb (snd ry) (q / S p) then 1 else 0)) * ev (q mod S p) ry)).
    - change (oltb ROps (o0 ROps) alpha) with (Rltb 0 alpha). cbn [ROps o0 oadd omul]. fold rows.
      destruct (Rltb 0 alpha && (q mod S p <? p)%nat); lra.
    - intros acc ry. unfold Pr, ev. cbn [ROps osub omul oadd o0 o1]. destruct (q mod S p <? p)%nat; ring.
  Qed.

  Lemma multi_df_vdot w s : length s = n ->
    vdot ROps (multi_df_gen ROps softmax_def p k x y alpha w) s =
    lsum (fun ry => lsum (fun i => (Pr w ry i - (if Nat.eqb (snd ry) i then 1 else 0)) * zc s (fst ry) i) (seq 0 k)) rows
    + (if Rltb 0 alpha then alpha * psum w s else 0).
  Proof.
    intros Hs. unfold multi_df_gen. fold n.
    rewrite (vdot_seq0_lsum _ s n Hs). unfold n. rewrite lsum_seq_blocks.
    (* rewrite every entry, using q / (p+1) = i and q mod (p+1) = l inside block i *)
    rewrite (lsum_ext _ (fun i =>
               lsum (fun ry => (Pr w ry i - (if Nat.eqb (snd ry) i then 1 else 0)) * zc s (fst ry) i) rows
               + (if Rltb 0 alpha then alpha * lsum (fun j => nth (i * S p + j) w 0 * nth (i * S p + j) s 0) (seq 0 p) else 0))).
    - rewrite lsum_plus. f_equal.
      + apply lsum_swap.
      + destruct (Rltb 0 alpha); [|apply lsum_zero]. unfold psum. rewrite lsum_scal. reflexivity.
    - intros i _.
      rewrite (lsum_ext _ (fun l =>
                 lsum (fun ry => (Pr w ry i - (if Nat.eqb (snd ry) i then 1 else 0)) * (ev l ry * nth (i * S p + l) s 0)) rows
                 + (if Rltb 0 alpha && (l <? p)%nat then alpha * nth (i * S p + l) w 0 else 0) * nth (i * S p + l) s 0)).
      + rewrite lsum_plus. f_equal.
        * rewrite lsum_swap. apply lsum_ext. intros [row yi] Hin. cbn [fst snd].
          assert (Hrow : length row = p) by (apply in_combine_l in Hin; rewrite Forall_forall in Hx; apply Hx, Hin).
          rewrite lsum_scal. f_equal. unfold zc. rewrite (partial_dot_lsum p s row (i * S p) Hrow). reflexivity.
        * rewrite lsum_seq_S, Nat.ltb_irrefl, andb_false_r.
          destruct (Rltb 0 alpha); cbn [andb].
          -- rewrite <- lsum_scal. rewrite Rmult_0_l, Rplus_0_r. apply lsum_ext. intros j Hj. apply in_seq in Hj.
             replace (j <? p)%nat with true by (symmetry; apply Nat.ltb_lt; lia). ring.
          -- rewrite (lsum_ext _ (fun _ => 0)) by (intros; ring). rewrite lsum_zero. lra.
      + intros l Hl. apply in_seq in Hl. destruct (div_mod_block i l ltac:(lia)) as [Hd Hm'].
        rewrite multi_df_entry_lsum, Hd, Hm'. rewrite Rmult_plus_distr_r, <- lsum_scal_r. f_equal.
        apply lsum_ext. intros ry _. ring.
  Qed.

  Lemma psum_tangent w s a : length s = length w ->
    psum w w + 2 * a * psum w s <= psum (vadd ROps w (vscale ROps s a)) (vadd ROps w (vscale ROps s a)).
  Proof.
    intros Hl. unfold psum. rewrite <- lsum_scal, <- lsum_plus. apply lsum_le. intros i _.
    rewrite <- lsum_scal, <- lsum_plus. apply lsum_le. intros j _.
    rewrite (nth_vadd_vscale w s a (i * S p + j) Hl). nra.
  Qed.

  (* the coded multinomial objective lies above its tangents, the coded gradient being the slope *)
  Lemma multi_tangent w s a : length w = n -> length s = n ->
    multi_f_gen ROps softmax_def p k x y alpha w + a * vdot ROps (multi_df_gen ROps softmax_def p k x y alpha w) s
    <= multi_f_gen ROps softmax_def p k x y alpha (vadd ROps w (vscale ROps s a)).
  Proof.
    intros Hw Hs. assert (Hl : length s = length w) by lia.
    rewrite !multi_f_lsum, (multi_df_vdot w s Hs).
    set (W := vadd ROps w (vscale ROps s a)).
    assert (Hdata : lsum (fun ry => ln (Zr w (fst ry)) - zc w (fst ry) (snd ry)) rows
                    + a * lsum (fun ry => lsum (fun i => (Pr w ry i - (if Nat.eqb (snd ry) i then 1 else 0)) * zc s (fst ry) i) (seq 0 k)) rows
                    <= lsum (fun ry => ln (Zr W (fst ry)) - zc W (fst ry) (snd ry)) rows).
    { rewrite <- lsum_scal, <- lsum_plus. apply lsum_le. intros [row yi] Hin. cbn [fst snd].
      assert (Hyi : (yi < k)%nat) by (apply in_combine_r in Hin; rewrite Forall_forall in Hy; apply Hy, Hin).
      assert (HzW : forall i, zc W row i = zc w row i + a * zc s row i).
      { intros i. unfold zc, W. apply partial_dot_linear. exact Hl. }
      (* the sum over classes: sum P_i D_i - D_y *)
      rewrite (lsum_ext _ (fun i => exp (zc w row i) / Zr w row * zc s row i + - ((if Nat.eqb yi i then 1 else 0) * zc s row i))).
      2:{ intros i Hi. apply in_seq in Hi. unfold Pr. cbn [fst]. rewrite prob_eq by lia. ring. }
      rewrite lsum_plus. rewrite (lsum_ext (fun i => - ((if Nat.eqb yi i then 1 else 0) * zc s row i))
                                           (fun i => -1 * ((if Nat.eqb yi i then 1 else 0) * zc s row i))) by (intros; ring).
      rewrite lsum_scal, lsum_indicator by exact Hyi.
      pose proof (lse_list_tangent (zc w row) (fun i => a * zc s row i) k ltac:(lia)) as HT.
      fold (Zr w row) in HT.
      rewrite (lsum_ext (fun i => exp (zc w row i + a * zc s row i)) (fun i => exp (zc W row i))) in HT
        by (intros; rewrite HzW; reflexivity).
      fold (Zr W row) in HT.
      rewrite (lsum_ext (fun i => exp (zc w row i) / Zr w row * (a * zc s row i))
                        (fun i => a * (exp (zc w row i) / Zr w row * zc s row i))) in HT by (intros; ring).
      rewrite lsum_scal in HT. rewrite HzW. lra. }
    destruct (Rltb 0 alpha) eqn:Ea; [|lra].
    apply Rltb_true in Ea. pose proof (psum_tangent w s a Hl) as Hp. fold W in Hp.
    unfold half, two, cst. cbn [ROps o1 odiv oofZ].
    assert (1 / IZR 2 * alpha * (psum w w + 2 * a * psum w s) <= 1 / IZR 2 * alpha * psum W W).
    { apply Rmult_le_compat_l; [|exact Hp]. assert (0 < 1 / IZR 2) by lra. nra. }
    lra.
  Qed.

  Lemma multi_df_length w : length (multi_df_gen ROps softmax_def p k x y alpha w) = n.
  Proof. unfold multi_df_gen. rewrite map_length, seq_length. reflexivity. Qed.
End Multi.
