(* C09 — what the two-class label needs from exp.  predict tests `sigmoid(score) > 0.5`, and for |score| <= 40
   sigmoid(s) = 1 / (1 + exp(-s)) with exp a library routine (Base/Elem.v in the binary64 instance, libm in
   Rust) for which NO accuracy theorem exists.  Here: the division and the addition are analysed exactly, and
   the hypothesis (S) of predict_binary_float_robust (sigmoid_sign_ok) is reduced to a two-sided condition on
   the ONE value e = exp(-s):
        s > 0   needs   0 <= e <= 1 - 2^-52      (then 1 + e <= 2 - 2^-52 and 1/(1+e) >= 0.5 + 2^-53 > 0.5)
        s <= 0  needs   1 <= e <= 2^1000         (then 1 + e >= 2 and 1/(1+e) <= 0.5)
   and both are sharp on the positive side: e = 1 - 2^-53 gives 1 + e = 2 (tie, to even) and sigmoid = 0.5.
   A correctly rounded exp meets the first condition exactly for s >= 1.5 * 2^-52 (roughly). *)
From Coq Require Import List Arith ZArith Bool Reals Floats Lra Lia Psatz.
From Flocq Require Import Core BinarySingleNaN PrimFloat.
From SC Require Import Base.FloatUtil Base.Num Base.FloatError C09.Model C09.ProofsFloat.
Import ListNotations.
Local Open Scope R_scope.
Local Existing Instance Hprec.
Local Existing Instance Hmax.

Local Notation float := PrimFloat.float.

(* literals *)
Lemma FR_one : FR 1%float = 1. Proof. fr_literals. field. Qed.
Lemma FR_two : FR 2%float = 2. Proof. fr_literals. field. Qed.
Lemma FR_halff : FR 0x1p-1%float = / 2. Proof. fr_literals. field. Qed.
Lemma FR_below2 : FR 0x1.fffffffffffffp+0%float = 2 - / 2 ^ 52. Proof. fr_literals. field. Qed.
Lemma FR_above_half : FR 0x1.0000000000001p-1%float = / 2 + / 2 ^ 53. Proof. fr_literals. field. Qed.

Lemma ffin_one : ffin 1%float. Proof. reflexivity. Qed.
Lemma fmt64_1 : fmt64 1. Proof. rewrite <- FR_one. apply fmt64_FR. Qed.
Lemma fmt64_2 : fmt64 2. Proof. rewrite <- FR_two. apply fmt64_FR. Qed.
Lemma fmt64_half : fmt64 (/ 2). Proof. rewrite <- FR_halff. apply fmt64_FR. Qed.
Lemma fmt64_below2 : fmt64 (2 - / 2 ^ 52). Proof. rewrite <- FR_below2. apply fmt64_FR. Qed.

(* forward direction of the addition: a sum of magnitude <= 2^1001 does not overflow *)
Lemma rnd64_abs_le_bpow a (k : Z) : (-1074 <= k)%Z -> Rabs a <= bpow radix2 k -> Rabs (rnd64 a) <= bpow radix2 k.
Proof.
  intros Hk H. unfold rnd64. apply abs_round_le_generic; [apply FLT_exp_valid; exact Hprec | apply valid_rnd_N | | exact H].
  apply generic_format_bpow. unfold FLT_exp. lia.
Qed.

Lemma fadd_fwd x y : ffin x -> ffin y -> Rabs (FR x + FR y) <= bpow radix2 1001 ->
  ffin (PrimFloat.add x y) /\ FR (PrimFloat.add x y) = rnd64 (FR x + FR y).
Proof.
  rewrite !ffin_B. unfold FR. intros Hx Hy Hb. rewrite add_equiv.
  generalize (Bplus_correct prec emax Hprec Hmax mode_NE _ _ Hx Hy).
  assert (Hlt : Rlt_bool (Rabs (round radix2 (fexp prec emax) (round_mode mode_NE)
                                  (B2R (Prim2B x) + B2R (Prim2B y)))) (bpow radix2 emax) = true).
  { apply Rlt_bool_true. apply Rle_lt_trans with (bpow radix2 1001).
    - apply (rnd64_abs_le_bpow _ 1001); [lia | exact Hb].
    - apply bpow_lt. reflexivity. }
  rewrite Hlt. intros (P & Q & _). split; [exact Q | exact P].
Qed.

(* the condition on the value e returned by exp at -s *)
Definition exp_side_ok (s e : float) : Prop :=
  ffin e /\ (0 < FR s -> 0 <= FR e <= 1 - / 2 ^ 52) /\ (FR s <= 0 -> 1 <= FR e <= 2 ^ 1000).

Lemma pow2_1000 : 2 ^ 1000 + 1 <= bpow radix2 1001.
Proof.
  change (bpow radix2 1001) with (IZR (2 ^ 1001)). rewrite (pow_IZR 2 1000). rewrite <- plus_IZR.
  apply IZR_le. apply Zle_bool_imp_le. vm_compute. reflexivity.
Qed.

(* 1 / (1 + e) in binary64, e <= 1 - 2^-52: strictly above one half *)
Lemma recip_above_half (e : float) : ffin e -> 0 <= FR e <= 1 - / 2 ^ 52 ->
  ffin (PrimFloat.div 1 (PrimFloat.add 1 e)) /\ / 2 < FR (PrimFloat.div 1 (PrimFloat.add 1 e)).
Proof.
  intros He [H0 H1].
  assert (Hb : Rabs (FR 1%float + FR e) <= bpow radix2 1001).
  { rewrite FR_one, Rabs_pos_eq by lra. pose proof pow2_1000. assert (0 < 2 ^ 1000) by (apply pow_lt; lra).
    assert (0 < / 2 ^ 52) by (apply Rinv_0_lt_compat, pow_lt; lra). lra. }
  destruct (fadd_fwd 1%float e ffin_one He Hb) as [Fy Ey].
  rewrite FR_one in Ey.
  assert (Y1 : 1 <= FR (PrimFloat.add 1 e)).
  { rewrite Ey, <- (rnd64_id 1 fmt64_1) at 1. apply rnd64_le. lra. }
  assert (Y2 : FR (PrimFloat.add 1 e) <= 2 - / 2 ^ 52).
  { rewrite Ey, <- (rnd64_id _ fmt64_below2). apply rnd64_le. lra. }
  set (y := PrimFloat.add 1 e) in *.
  assert (Hq : Rabs (FR 1%float / FR y) <= 1).
  { rewrite FR_one. rewrite Rabs_pos_eq; [|apply Rlt_le, Rdiv_lt_0_compat; lra].
    apply (Rmult_le_reg_r (FR y)); [lra|]. unfold Rdiv. rewrite Rmult_assoc, Rinv_l by lra. lra. }
  destruct (fdiv_small 1%float y ffin_one Fy ltac:(lra) Hq) as [Fq Eq].
  split; [exact Fq|]. rewrite Eq, FR_one.
  (* the witness: 1 / (2 - 2^-52) rounds to 0.5 + 2^-53 *)
  assert (HL : ffin 0x1.fffffffffffffp+0%float) by reflexivity.
  assert (HqL : Rabs (FR 1%float / FR 0x1.fffffffffffffp+0%float) <= 1).
  { rewrite FR_one, FR_below2. assert (0 < / 2 ^ 52 < 1).
    { split; [apply Rinv_0_lt_compat, pow_lt; lra|]. rewrite <- Rinv_1. apply Rinv_lt_contravar; [|].
      - rewrite Rmult_1_l. apply pow_lt; lra.
      - apply Rlt_pow_R1; [lra | lia]. }
    rewrite Rabs_pos_eq; [|apply Rlt_le, Rdiv_lt_0_compat; lra].
    apply (Rmult_le_reg_r (2 - / 2 ^ 52)); [lra|]. unfold Rdiv. rewrite Rmult_assoc, Rinv_l by lra. lra. }
  destruct (fdiv_small 1%float 0x1.fffffffffffffp+0%float ffin_one HL
              ltac:(rewrite FR_below2; assert (0 < / 2 ^ 52 < 1) by
                      (split; [apply Rinv_0_lt_compat, pow_lt; lra|]; rewrite <- Rinv_1;
                       apply Rinv_lt_contravar; [rewrite Rmult_1_l; apply pow_lt; lra | apply Rlt_pow_R1; [lra | lia]]); lra)
              HqL) as [_ EL].
  replace (PrimFloat.div 1 0x1.fffffffffffffp+0)%float with 0x1.0000000000001p-1%float in EL by (vm_compute; reflexivity).
  rewrite FR_above_half, FR_one, FR_below2 in EL.
  apply Rlt_le_trans with (/ 2 + / 2 ^ 53).
  - assert (0 < / 2 ^ 53) by (apply Rinv_0_lt_compat, pow_lt; lra). lra.
  - rewrite EL. apply rnd64_le. unfold Rdiv. rewrite !Rmult_1_l.
    apply Rinv_le_contravar; lra.
Qed.

(* 1 / (1 + e) in binary64, 1 <= e <= 2^1000: at most one half *)
Lemma recip_at_most_half (e : float) : ffin e -> 1 <= FR e <= 2 ^ 1000 ->
  ffin (PrimFloat.div 1 (PrimFloat.add 1 e)) /\ FR (PrimFloat.div 1 (PrimFloat.add 1 e)) <= / 2.
Proof.
  intros He [H0 H1].
  assert (Hb : Rabs (FR 1%float + FR e) <= bpow radix2 1001).
  { rewrite FR_one, Rabs_pos_eq by lra. pose proof pow2_1000. lra. }
  destruct (fadd_fwd 1%float e ffin_one He Hb) as [Fy Ey].
  rewrite FR_one in Ey.
  assert (Y1 : 2 <= FR (PrimFloat.add 1 e)).
  { rewrite Ey, <- (rnd64_id 2 fmt64_2) at 1. apply rnd64_le. lra. }
  set (y := PrimFloat.add 1 e) in *.
  assert (Hinv : / FR y <= / 2) by (apply Rinv_le_contravar; lra).
  assert (Hpos : 0 < / FR y) by (apply Rinv_0_lt_compat; lra).
  assert (Hq : Rabs (FR 1%float / FR y) <= 1).
  { rewrite FR_one. unfold Rdiv. rewrite Rmult_1_l, Rabs_pos_eq by lra. lra. }
  destruct (fdiv_small 1%float y ffin_one Fy ltac:(lra) Hq) as [Fq Eq].
  split; [exact Fq|]. rewrite Eq, FR_one, <- (rnd64_id _ fmt64_half). apply rnd64_le.
  unfold Rdiv. rewrite Rmult_1_l. exact Hinv.
Qed.

(* (S) follows from the condition on the one value exp(-s) *)
Theorem sigmoid_sign_ok_of_exp (s : float) : ffin s ->
  exp_side_ok s (oexp FOps (PrimFloat.opp s)) -> sigmoid_sign_ok s.
Proof.
  intros Hs (He & Hpos & Hneg).
  destruct (Rlt_le_dec 40 (Rabs (FR s))) as [H40|H40]; [apply sigmoid_sign_ok_large; assumption|].
  apply Rabs_le_inv in H40.
  unfold sigmoid_sign_ok, sigmoid, cst.
  cbn [FOps oltb oneg o0 o1 odiv oadd oofZ].
  assert (Hz : (0 <= 40 < 2 ^ 53)%Z) by (split; [lia | reflexivity]).
  destruct (float_of_Z_exact 40 Hz) as [F40 E40].
  rewrite (fltb_finite s (PrimFloat.opp (float_of_Z 40)) Hs (proj2 (fopp_finite _) F40)).
  rewrite (fltb_finite (float_of_Z 40) s F40 Hs), (fltb_finite 0%float s ffin_zero Hs).
  rewrite fopp_exact, E40, FR_zero.
  rewrite (Rlt_bool_false (FR s) (Ropp 40)) by lra. rewrite (Rlt_bool_false 40 (FR s)) by lra.
  replace (half FOps) with 0x1p-1%float by (vm_compute; reflexivity).
  cbn [FOps oexp] in He, Hpos, Hneg |- *.
  destruct (Rlt_le_dec 0 (FR s)) as [Hp|Hn].
  - destruct (recip_above_half _ He (Hpos Hp)) as [Fq Hq].
    rewrite (fltb_finite _ _ (eq_refl : ffin 0x1p-1%float) Fq), FR_halff.
    rewrite (Rlt_bool_true _ _ Hq), (Rlt_bool_true _ _ Hp). reflexivity.
  - destruct (recip_at_most_half _ He (Hneg Hn)) as [Fq Hq].
    rewrite (fltb_finite _ _ (eq_refl : ffin 0x1p-1%float) Fq), FR_halff.
    rewrite (Rlt_bool_false _ _ Hq), (Rlt_bool_false _ _ Hn). reflexivity.
Qed.

(* the positive side is sharp: exp(-s) = 1 - 2^-53 (the correctly rounded value for s around 2^-53) gives
   1 + e = 2 and a sigmoid of exactly one half *)
Lemma recip_sharp :
  PrimFloat.div 1 (PrimFloat.add 1 0x1.fffffffffffffp-1) = 0x1p-1%float /\
  FR 0x1.fffffffffffffp-1%float = 1 - / 2 ^ 53.
Proof. split; [vm_compute; reflexivity | fr_literals; field]. Qed.

