(* C09 — the linear scores `predict` computes from the fitted coefficients and intercepts (vdot row coef_j +
   intercept_j) ARE the scores of the objective (partial_dot of the flat weight vector at offset j(p+1)) at the
   point the optimiser returned: predict's arg-max is the arg-max of the model whose likelihood fit maximised. *)
From Coq Require Import List ZArith Bool Reals Lra Lia Arith.
From SC Require Import Base.Num C09.Model C09.ProofsSearch C09.ProofsConvex C09.ProofsFit C09.ProofsPredict C09.ProofsFitCoded.
Import ListNotations.
Local Open Scope R_scope.

Lemma pdot_loop_nil (xs : list R) : forall acc pos, pdot_loop ROps acc xs [] pos = acc.
Proof.
  induction xs as [|x xs IH]; intros acc pos; cbn [pdot_loop]; [reflexivity|]. rewrite IH.
  destruct pos; cbn; lra.
Qed.
Lemma vdot_pdot (row : list R) : forall (c : list R) acc,
  fold_left (fun acc xy => acc + fst xy * snd xy) (combine row c) acc = pdot_loop ROps acc row c 0.
Proof.
  induction row as [|x xs IH]; intros c acc; [reflexivity|]. destruct c as [|h t]; cbn [combine fold_left pdot_loop fst snd nth].
  - rewrite pdot_loop_nil. cbn. lra.
  - rewrite pdot_loop_shift. apply IH.
Qed.
Lemma nth_firstn_lt (l : list R) : forall n i, (i < n)%nat -> nth i (firstn n l) 0 = nth i l 0.
Proof.
  induction l as [|h l IH]; intros n i Hi; [rewrite firstn_nil; reflexivity|].
  destruct n as [|n]; [lia|]. destruct i as [|i]; cbn [firstn nth]; [reflexivity|]. apply IH. lia.
Qed.
Lemma pdot_loop_firstn (w : list R) n (xs : list R) : forall acc pos, (pos + length xs <= n)%nat ->
  pdot_loop ROps acc xs (firstn n w) pos = pdot_loop ROps acc xs w pos.
Proof.
  induction xs as [|x xs IH]; intros acc pos H; cbn [pdot_loop]; [reflexivity|]. cbn [length] in H.
  rewrite nth_firstn_lt by lia. apply IH. lia.
Qed.
Lemma nth_skipn_R (w : list R) : forall m i, nth i (skipn m w) 0 = nth (m + i) w 0.
Proof.
  induction w as [|h t IH]; intros m i.
  - rewrite skipn_nil. destruct i, m; reflexivity.
  - destruct m as [|m]; [reflexivity|]. cbn [skipn Nat.add nth]. apply IH.
Qed.
Lemma pdot_loop_skipn (w : list R) m (xs : list R) : forall acc pos,
  pdot_loop ROps acc xs (skipn m w) pos = pdot_loop ROps acc xs w (m + pos).
Proof.
  induction xs as [|x xs IH]; intros acc pos; cbn [pdot_loop]; [reflexivity|].
  rewrite nth_skipn_R, IH. replace (m + S pos)%nat with (S (m + pos)) by lia. reflexivity.
Qed.
Lemma partial_dot_skipn (w row : list R) m v : partial_dot ROps (skipn m w) row v = partial_dot ROps w row (m + v).
Proof.
  unfold partial_dot. rewrite pdot_loop_skipn, nth_skipn_R.
  replace (m + (length row + v))%nat with (length row + (m + v))%nat by lia. reflexivity.
Qed.

(* one block: the first p entries against the row, plus entry p *)
Lemma block_score p (w row : list R) : length row = p ->
  vdot ROps row (firstn p w) + nth p w 0 = partial_dot ROps w row 0.
Proof.
  intros Hr. unfold vdot, partial_dot. cbn [ROps oadd omul o0]. rewrite vdot_pdot.
  rewrite pdot_loop_firstn by lia. rewrite Hr, Nat.add_0_r. reflexivity.
Qed.

Lemma split_rows_scores p (row : list R) : length row = p -> forall k (w : list R),
  map2 (fun c b => vdot ROps row c + b) (map (firstn p) (split_rows p k w)) (map (fun r => nth p r 0) (split_rows p k w))
  = map (fun j => partial_dot ROps w row (j * S p)) (seq 0 k).
Proof.
  intros Hr. induction k as [|k IH]; intros w; [reflexivity|].
  cbn [split_rows map map2 seq]. f_equal.
  - rewrite firstn_firstn, Nat.min_l by lia. rewrite nth_firstn_lt by lia. apply block_score. exact Hr.
  - rewrite IH, <- seq_shift, map_map. apply map_ext. intros j. rewrite partial_dot_skipn. f_equal.
Qed.

Lemma reshape_scores p k classes (w row : list R) : length row = p ->
  let M := lr_reshape p k classes w in
  (k = 2%nat -> vdot ROps row (nth 0 (lr_coef M) []) + nth 0 (lr_intercept M) 0 = partial_dot ROps w row 0) /\
  (k <> 2%nat -> lr_scores M row = scores ROps p k w row).
Proof.
  intros Hr. cbv zeta. unfold lr_reshape, lr_scores, scores. split; intros Hk.
  - subst k. cbn [Nat.eqb lr_coef lr_intercept nth]. apply block_score. exact Hr.
  - apply Nat.eqb_neq in Hk. rewrite Hk. cbn [lr_coef lr_intercept]. apply split_rows_scores. exact Hr.
Qed.

Lemma fit_scores_are_objective_scores (L : lb_params (T := R)) (B : bt_params (T := R)) p x y alpha M :
  0 <= bt_c1 B -> 0 < bt_plo B -> (0 < lb_m L)%nat ->
  lr_fit ROps L B p x y alpha = Some M ->
  let k := length (unique ROps y) in
  forall row, length row = p ->
  (k = 2%nat -> vdot ROps row (nth 0 (lr_coef M) []) + nth 0 (lr_intercept M) 0 = partial_dot ROps (lr_weights M) row 0) /\
  (k <> 2%nat -> lr_scores M row = scores ROps p k (lr_weights M) row).
Proof.
  intros Hc0 Hplo Hm HM. cbv zeta. intros row Hr.
  destruct (lr_fit_coded_chain L B p x y alpha M Hc0 Hplo Hm HM) as [st [tr [conv [E [Hw _]]]]].
  destruct (lr_fit_is_composition L B p x y alpha M HM) as [_ [_ [st' [tr' [conv' [E' HMe]]]]]].
  cbv zeta in E, E'. rewrite E in E'. injection E' as <- _ _.
  rewrite Hw. rewrite HMe. apply reshape_scores. exact Hr.
Qed.
