From Coq Require Import List ZArith Bool Reals Lra Lia Arith.
From SC Require Import Base.Num C09.Model C09.ProofsSearch C09.ProofsGrad C09.ProofsStable C09.ProofsExamples C09.ProofsFit.
Import ListNotations.
Local Open Scope R_scope.

Lemma Reqb_t a b : a = b -> Reqb a b = true. Proof. intros; apply Reqb_true; assumption. Qed.
Lemma Reqb_f a b : a <> b -> Reqb a b = false. Proof. intros; apply Reqb_false; assumption. Qed.

(* a fit that returns: two rows [1], labels 0 and 1 -- the gradient at the all-zero start is exactly zero, so the
   optimiser stops before its first iteration *)
Definition ex_L (g_atol : R) : lb_params (T := R) := mkLb 1000 g_atol 0 0 0 0 1 10.

Lemma ex_unique : unique ROps [0; 1] = [0; 1].
Proof.
  unfold unique. cbn [fold_left ins_uniq]. change (oltb ROps) with Rltb. change (oeqb ROps) with Reqb.
  rewrite (Rltb_f 1 0) by lra. rewrite (Reqb_f 1 0) by lra. reflexivity.
Qed.
Lemma ex_indices : lr_class_indices [0; 1] = [0%nat; 1%nat].
Proof.
  unfold lr_class_indices. rewrite ex_unique. cbn [map position]. change (oeqb ROps) with Reqb.
  rewrite (Reqb_t 0 0), (Reqb_f 1 0), (Reqb_t 1 1) by lra. reflexivity.
Qed.
Lemma ex_sig0 : sig_exact 0 = 1 / 2.
Proof. unfold sig_exact. rewrite Ropp_0, exp_0. lra. Qed.
Lemma ex_grad0 : binary_df_gen ROps sig_exact 1 [[1]; [1]] [0%nat; 1%nat] 0 (zeros ROps 2) = [0; 0].
Proof.
  unfold binary_df_gen, binary_df_entry, zeros. cbn [seq map repeat combine fold_left fst snd Nat.ltb Nat.leb].
  assert (Hwx : partial_dot ROps [o0 ROps; o0 ROps] [1] 0 = 0) by (unfold partial_dot; cbn; lra).
  rewrite Hwx, ex_sig0. change (oltb ROps (o0 ROps) 0) with (Rltb 0 0). rewrite (Rltb_f 0 0) by lra.
  cbn [andb]. unfold ofnat, oofnat. cbn. f_equal; [lra | f_equal; lra].
Qed.

Lemma ex_fit_returns g_atol B : 0 < g_atol ->
  exists M, lr_fit_gen ROps lse_exact sig_exact softmax_def (ex_L g_atol) B 1 [[1]; [1]] [0; 1] 0 = Some M.
Proof.
  intros Hg. unfold lr_fit_gen. cbn [length Nat.eqb negb]. fold (lr_class_indices [0; 1]).
  rewrite ex_unique, ex_indices. cbn [length Nat.ltb Nat.leb Nat.eqb].
  unfold optimize. cbn [init_state st_x st_x_prev st_f st_f_prev st_g st_g_prev st_rho st_dxh st_dgh st_dx st_tla st_s st_alpha lb_m lb_g_atol ex_L].
  rewrite ex_grad0.
  assert (Hn : norm_inf ROps [0; 0] = 0).
  { unfold norm_inf. cbn [fold_left ROps oabs o0]. rewrite Rabs_R0.
    assert (H00 : rmax ROps 0 0 = 0).
    { unfold rmax. cbn [ROps oltb oleb oeqb]. rewrite (Rltb_f 0 0), (Rleb_t 0 0) by lra. reflexivity. }
    rewrite !H00. reflexivity. }
  rewrite Hn. change (oltb ROps 0 g_atol) with (Rltb 0 g_atol). rewrite (Rltb_t 0 g_atol Hg).
  eexists. reflexivity.
Qed.
