(* C09 — closed instances showing that the hypotheses of the property theorems are satisfiable. *)
From Coq Require Import List ZArith Bool Reals Lra Lia.
From SC Require Import Base.Num C09.Model C09.ProofsSearch.
Import ListNotations.
Local Open Scope R_scope.

Lemma Rltb_t a b : a < b -> Rltb a b = true. Proof. intros; apply Rltb_true; assumption. Qed.
Lemma Rltb_f a b : b <= a -> Rltb a b = false. Proof. intros; apply Rltb_false; assumption. Qed.
Lemma Rleb_t a b : a <= b -> Rleb a b = true. Proof. intros; apply Rleb_true; assumption. Qed.
Lemma Rleb_f a b : b < a -> Rleb a b = false. Proof. intros; apply Rleb_false; assumption. Qed.

Definition ex_bt : bt_params (T := R) := mkBt (1/10) 5%nat 5%nat (1/2) (1/10) true 0.

(* one interpolation step: phi(a) = (a - 1/4)^2 from alpha = 1 with df0 = -1/2: the quadratic fit gives 1/4 *)
Lemma ex_line_search :
  bt_search ROps ex_bt (fun a => (a - 1/4) * (a - 1/4)) 1 (1/16) (-1/2) = Some (1/4, 0).
Proof.
  unfold bt_search, ex_bt. rewrite bt_finite_R.
  cbn [bt_loop bt_c1 bt_third bt_phi bt_plo bt_eps bt_max_iter negb orb].
  change (oltb ROps) with Rltb. change (oadd ROps) with Rplus. change (omul ROps) with Rmult.
  rewrite (Rltb_t (1 / 16 + 1 / 10 * 1 * (-1 / 2))) by lra.
  assert (Hq : bt_quad ROps (1 / 16) (-1 / 2) 1 ((1 - 1 / 4) * (1 - 1 / 4)) = 1/4).
  { unfold bt_quad, sq, two, cst. cbn. field. }
  rewrite Hq.
  assert (Hm : rmax ROps (rmin ROps (1 / 4) (1 * (1 / 2))) (1 * (1 / 10)) = 1/4).
  { unfold rmax, rmin. cbn. rewrite (Rltb_f (1 * (1/2)) (1/4)) by lra. rewrite (Rleb_t (1/4)) by lra.
    rewrite (Rltb_f (1/4)) by lra. rewrite (Rleb_t (1 * (1/10))) by lra. reflexivity. }
  rewrite Hm. cbn [bt_loop bt_c1 bt_max_iter].
  change (oltb ROps) with Rltb. change (oadd ROps) with Rplus. change (omul ROps) with Rmult.
  rewrite Rltb_f by lra. f_equal. f_equal. lra.
Qed.

(* a two-class model and a three-class model *)
Definition ex_lr2 : lr_model (T := R) := mkLr [[1; -1]] [1/2] [3; 7] 2%nat.
Definition ex_lr3 : lr_model (T := R) := mkLr [[1; 0]; [0; 1]; [1; 1]] [0; 0; 1/2] [5; -2; 9] 3%nat.

(* a line search that cannot succeed gives up with the zero step: whenever every positive step fails the test *)
Lemma bt_search_gives_up P phi alpha f0 df0 :
  0 < alpha -> 0 < bt_plo P -> (forall a, 0 < a -> f0 + bt_c1 P * a * df0 < phi a) ->
  bt_search ROps P phi alpha f0 df0 = Some (0, f0).
Proof.
  intros Ha Hp H. destruct (bt_search_total ROps P phi alpha f0 df0) as [a [fx E]].
  destruct (backtracking_armijo P phi alpha f0 df0 a fx Ha Hp E) as [[[Hpos [Hfx Hle]]|[-> ->]] _]; [|exact E].
  exfalso. specialize (H a Hpos). lra.
Qed.
(* e.g. the objective is 0 at the current point and 1 everywhere else along a direction claimed to descend *)
Lemma ex_line_search_gives_up : bt_search ROps ex_bt (fun _ => 1) 1 0 (-1) = Some (0, 0).
Proof. apply bt_search_gives_up; [lra | cbn; lra |]. intros a Ha. cbn. lra. Qed.

(* a convex objective with its gradient: f(x) = <x,x>/2, df(x) = x *)
Definition ex_sq (x : list R) : R := vdot ROps x x / 2.
Lemma ex_sq_tangent x : forall s a, length s = length x ->
  ex_sq x + a * vdot ROps x s <= ex_sq (vadd ROps x (vscale ROps s a)).
Proof.
  unfold ex_sq. induction x as [|h x IH]; intros [|k s] a Hl; cbn in Hl; try discriminate.
  - unfold vdot; cbn. lra.
  - cbn [vscale map vadd map2]. change (map (fun x0 => omul ROps x0 a) s) with (vscale ROps s a).
    change (map2 (fun x0 y => oadd ROps x0 y) x (vscale ROps s a)) with (vadd ROps x (vscale ROps s a)).
    rewrite !vdot_cons_R. specialize (IH s a ltac:(lia)). cbn [ROps oadd omul]. nra.
Qed.
