(* C09 — closed instances showing that the hypotheses of the theorems about the coded names are satisfiable. *)
From Coq Require Import List ZArith Bool Reals Lra Lia Arith.
From SC Require Import Base.Num C09.Model C09.ProofsSearch C09.ProofsGrad C09.ProofsStable C09.ProofsExamples C09.ProofsFit
     C09.ProofsFitEx C09.ProofsCoded C09.ProofsFitCoded.
Import ListNotations.
Local Open Scope R_scope.

(* a point whose three linear scores (3, 11/8, 2) lie inside the cut-offs *)
Definition ex_x3 : list (list R) := [[1; 2]; [-3; 1/2]; [0; 4]].
Definition ex_w3 : list R := [1/2; -1/4; 3].
Lemma ex_scores_in_range : Forall (fun row => - 40 <= score ex_w3 row < 15) ex_x3.
Proof. repeat constructor; unfold score, partial_dot; cbn; lra. Qed.
Lemma ex_scores_in_range_le : Forall (fun row => - 40 <= score ex_w3 row <= 15) ex_x3.
Proof. eapply Forall_impl; [|exact ex_scores_in_range]. cbv beta. intros; lra. Qed.
(* ... and the point reached from it by the step 1/2 along s = [1; 1; -2] (scores 7/2, -15/8, 3) *)
Lemma ex_scores_after_step :
  Forall (fun row => score (vadd ROps ex_w3 (vscale ROps [1; 1; -2] (1/2))) row <= 15) ex_x3.
Proof. repeat constructor; unfold score, partial_dot; cbn; lra. Qed.

(* fit returns whenever the iteration budget is zero (both exits of `optimize` are then returns): an instance with
   three classes *)
Lemma lr_fit_returns_zero_budget (L : lb_params (T := R)) (B : bt_params (T := R)) p x y alpha :
  lb_max_iter L = 0%nat -> length x = length y -> (2 <= length (unique ROps y))%nat ->
  exists M, lr_fit ROps L B p x y alpha = Some M.
Proof.
  intros H0 Hl Hk. unfold lr_fit, lr_fit_gen. cbv zeta. rewrite Hl, Nat.eqb_refl. cbn [negb].
  destruct (length (unique ROps y) <? 2)%nat eqn:E; [apply Nat.ltb_lt in E; lia|].
  destruct (Nat.eqb _ 2); unfold optimize; rewrite H0; cbn [opt_loop]; destruct (oltb ROps _ _); eexists; reflexivity.
Qed.

Lemma ex_unique3 : unique ROps [0; 1; 2] = [0; 1; 2].
Proof.
  unfold unique. cbn [fold_left ins_uniq]. change (oltb ROps) with Rltb. change (oeqb ROps) with Reqb.
  rewrite (Rltb_f 1 0), (Reqb_f 1 0) by lra. cbn [ins_uniq]. change (oltb ROps) with Rltb. change (oeqb ROps) with Reqb.
  rewrite (Rltb_f 2 0), (Reqb_f 2 0), (Rltb_f 2 1), (Reqb_f 2 1) by lra. reflexivity.
Qed.

Definition ex_L0 : lb_params (T := R) := mkLb 0 (1/100000000) 0 0 0 0 1 10.
Lemma ex_fit3_returns :
  (exists M, lr_fit ROps ex_L0 ex_bt 1 [[1]; [2]; [-1]] [0; 1; 2] (1/2) = Some M) /\
  length (unique ROps [0; 1; 2]) <> 2%nat.
Proof.
  split; [apply lr_fit_returns_zero_budget; [reflexivity | reflexivity | rewrite ex_unique3; cbn; lia]|].
  rewrite ex_unique3. cbn. lia.
Qed.

(* the two-class instance of ProofsFitEx, now for the coded `lr_fit`: the scores at the all-zero start are 0, inside
   the cut-offs, so the coded gradient is the exact one, which is zero: fit returns before its first iteration *)
Lemma ex_fit_coded_returns g_atol B : 0 < g_atol ->
  exists M, lr_fit ROps (ex_L g_atol) B 1 [[1]; [1]] [0; 1] 0 = Some M.
Proof.
  intros Hg. unfold lr_fit, lr_fit_gen. cbn [length Nat.eqb negb]. fold (lr_class_indices [0; 1]).
  rewrite ex_unique, ex_indices. cbn [length Nat.ltb Nat.leb Nat.eqb].
  unfold optimize. cbn [init_state st_x st_x_prev st_f st_f_prev st_g st_g_prev st_rho st_dxh st_dgh st_dx st_tla st_s st_alpha lb_m lb_g_atol ex_L].
  change (binary_df_gen ROps (sigmoid ROps)) with (binary_df ROps).
  rewrite binary_df_coded_in_range by (repeat constructor; unfold score, partial_dot; cbn; lra).
  rewrite ex_grad0.
  assert (Hn : norm_inf ROps [0; 0] = 0).
  { unfold norm_inf. cbn [fold_left ROps oabs o0]. rewrite Rabs_R0.
    assert (H00 : rmax ROps 0 0 = 0).
    { unfold rmax. cbn [ROps oltb oleb oeqb]. rewrite (Rltb_f 0 0), (Rleb_t 0 0) by lra. reflexivity. }
    rewrite !H00. reflexivity. }
  rewrite Hn. change (oltb ROps 0 g_atol) with (Rltb 0 g_atol). rewrite (Rltb_t 0 g_atol Hg).
  eexists. reflexivity.
Qed.
